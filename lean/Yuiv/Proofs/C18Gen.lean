import Yuiv.Gen.LinkFn
import Yuiv.Model.C18
import Yuiv.Proofs.C18Renumber
/-
C18, tie by translation (`fn:link`): conversions between the generated types of `Yuiv/Gen/LinkFn.lean` and the hand model
`Yuiv/Model/C18.lean`, helper lemmas and the proofs of the equalities that `Yuiv/Props/C18Gen.lean` lists as obligations
(there under the names `gen_*`, here `g_*`).  No Mathlib.

Technique for the loops: a `for` loop with an early `return` (`crossing_index`, `pass_edge`) or `break` (`traverse_edges`) is
handled by a lemma whose left-hand side is a `do` block with the same text as the generated one (it elaborates to the same
term) and an induction over the list; loops that only `continue` (`components`, `crossing_signs`, `resolved_by`) go through
`forIn_yield` / `forIn_sim` / `forIn_sim_inv` (a `for` without exit = `foldlM`, through a state conversion and an invariant),
with the loop body restated once as `compsBody` / `signsBody` (definitionally the generated lambda).
-/
namespace Yuiv.C18.GenFn
open Yuiv Yuiv.Rust Yuiv.GenLink
def toT : CrossingType → CType
  | .X => .X | .Xm => .Xm | .V => .V | .H => .H
def toC (c : GenLink.Crossing) : C18.Crossing := ⟨toT c.ctype_, c.edges_.a0, c.edges_.a1, c.edges_.a2, c.edges_.a3⟩
def toL (l : GenLink.Link) : C18.Link := l.data_.map toC
def toBit : Bool → Lk.Bit
  | false => .Bit0 | true => .Bit1
def toSign : Lk.Sign → C18.Sign
  | .Pos => .pos | .Neg => .neg
def toPath (p : GenLink.Path) : C18.Path := ⟨p.edges_, p.closed_⟩
def rmap {α β} (f : α → β) : Res α → Res β
  | .ok a => .ok (f a) | .panic => .panic | .err => .err

theorem g_ctype_mirror_eq (t : CrossingType) : toT t.mirror = (toT t).mirror := by cases t <;> rfl
theorem g_crossing_mirror_eq (c : GenLink.Crossing) : toC c.mirror = (toC c).mirror := by
  cases c with | mk t e => cases t <;> rfl
theorem g_is_resolved_eq (c : GenLink.Crossing) : c.is_resolved = (toC c).isResolved := by
  cases c with | mk t e => cases t <;> rfl
theorem g_resolve_eq (c : GenLink.Crossing) (b : Bool) : rmap toC (c.resolve (toBit b)) = (toC c).resolve b := by
  cases c with | mk t e => cases t <;> cases b <;> rfl
theorem g_resolved_eq (c : GenLink.Crossing) (b : Bool) : rmap toC (c.resolved (toBit b)) = (toC c).resolve b := by
  cases c with | mk t e => cases t <;> cases b <;> rfl
theorem g_edge_eq (c : GenLink.Crossing) (j : Nat) :
    c.edge j = if j < 4 then .ok ((toC c).edge j) else .panic := by
  match j with
  | 0 | 1 | 2 | 3 => rfl
  | j + 4 => rfl
theorem g_pass_eq (c : GenLink.Crossing) (j : Nat) :
    c.pass j = if j < 4 then .ok ((toC c).pass j) else .panic := by
  cases c with | mk t e =>
  match j with
  | 0 | 1 | 2 | 3 => cases t <;> rfl
  | j + 4 =>
    have h : ¬ (j + 4 < 4) := by omega
    simp [GenLink.Crossing.pass, Res.assert, h]
theorem g_crossing_from_pd_code_eq (a b c d : Nat) :
    toC (GenLink.Crossing.from_pd_code ⟨a, b, c, d⟩) = C18.Crossing.ofPD a b c d := rfl
theorem g_crossing_new_eq (t : CrossingType) (a b c d : Nat) :
    toC (GenLink.Crossing.new t ⟨a, b, c, d⟩) = ⟨toT t, a, b, c, d⟩ := rfl
theorem g_ctype_eq (c : GenLink.Crossing) : toT c.ctype = (toC c).ctype := rfl
theorem g_edges_eq (c : GenLink.Crossing) : c.edges.toList = (toC c).edges := rfl
theorem g_convert_edges_eq (c : GenLink.Crossing) (f : Nat → Nat) : toC (c.convert_edges f) = (toC c).convertEdges f := rfl
theorem g_path_new_eq (es : List Nat) (b : Bool) :
    GenLink.Path.new es b = if es = [] then .panic else .ok ⟨es, b⟩ := by
  cases es <;> rfl
theorem g_path_arc_eq (es : List Nat) : GenLink.Path.arc es = GenLink.Path.new es false := by
  cases es <;> rfl
theorem g_path_circ_eq (es : List Nat) : GenLink.Path.circ es = GenLink.Path.new es true := by
  cases es <;> rfl
theorem g_arcs_eq (c : GenLink.Crossing) :
    rmap (fun p => (toPath p.1, toPath p.2)) c.arcs = .ok (toC c).arcs := by
  cases c with | mk t e =>
  cases e with | mk a0 a1 a2 a3 =>
  cases t <;> simp only [GenLink.Crossing.arcs, C18.Crossing.arcs, toC, toT, CType.arcs, arcComp, C18.Crossing.edge,
    Lk.idx, Lk.Index.get, Lk.Arr4.get, Res.bind_ok, Res.pure_eq, beq_iff_eq] <;>
  (repeat' split) <;> simp_all [GenLink.Path.new, Lk.is_empty, Lk.iter, Lk.Iter.toList, Res.assert, rmap, toPath]
theorem g_link_from_pd_code_eq (pd : List (Nat × Nat × Nat × Nat)) :
    toL (GenLink.Link.from_pd_code (pd.map fun x => ⟨x.1, x.2.1, x.2.2.1, x.2.2.2⟩)) = C18.fromPD4 pd := by
  simp [GenLink.Link.from_pd_code, GenLink.Link.new, toL, C18.fromPD4, Lk.iter, Lk.Iter.toList, List.map_map, Functor.map]
  intros; rfl
theorem g_link_mirror_eq (l : GenLink.Link) : toL l.mirror = C18.mirror (toL l) := by
  simp [GenLink.Link.mirror, toL, C18.mirror, Lk.iter, Lk.Iter.toList, List.map_map, Function.comp_def, g_crossing_mirror_eq, Functor.map]
theorem g_crossing_num_eq (l : GenLink.Link) : l.crossing_num = C18.crossingNum (toL l) := by
  simp only [GenLink.Link.crossing_num, C18.crossingNum, toL, Lk.iter, Lk.Iter.toList, id]
  induction l.data_ with
  | nil => rfl
  | cons c cs ih => simp [List.filter_cons, g_is_resolved_eq] at ih ⊢; split <;> simp [ih]
theorem g_link_data_eq (l : GenLink.Link) : l.data.map toC = toL l := rfl
/-- the loop of `crossing_index` as a recursion (offset `k`) -/
def ciSpec : Nat → List GenLink.Crossing → Nat → Res Nat
  | _, [], _ => .panic
  | k, x :: xs, i => if x.is_resolved then ciSpec (k + 1) xs i else if i > 0 then ciSpec (k + 1) xs (i - 1) else .ok k

theorem ci_loop (k : Nat) (xs : List GenLink.Crossing) (i : Nat) :
    (do
      let mut i := i
      for it_166 in (Lk.enumFrom k xs) do
        let (j, x) := it_166
        if (!((x).is_resolved)) then
          if (decide (i > 0)) then
            i := (← Lk.usub i 1)
          else
            return j
      Res.panic : Res Nat) = ciSpec k xs i := by
  induction xs generalizing k i with
  | nil => rfl
  | cons x xs ih =>
    simp only [Lk.enumFrom, List.forIn_cons, ciSpec]
    by_cases hr : x.is_resolved = true
    · simp only [hr, Bool.not_true, Bool.false_eq_true, if_false, if_true, Res.pure_eq, Res.bind_ok]
      exact ih (k + 1) i
    · simp only [hr, Bool.not_false, if_true, if_false, Bool.not_eq_true] 
      by_cases hi : i > 0
      · have : Lk.usub i 1 = .ok (i - 1) := by simp [Lk.usub]; omega
        simp only [hi, decide_true, if_true, this, Res.bind_ok, Res.pure_eq]
        exact ih (k + 1) (i - 1)
      · simp [hi]

theorem g_crossing_index_eq (l : GenLink.Link) (i : Nat) :
    l.crossing_index i = if i < l.crossing_num then ciSpec 0 l.data_ i else .panic := by
  unfold GenLink.Link.crossing_index
  simp only [Lk.enumerate, Lk.iter, Lk.Iter.toList, id]
  by_cases h : i < l.crossing_num
  · simp only [h, Res.assert, decide_true, if_true, Res.bind_ok]
    exact ci_loop 0 l.data_ i
  · simp only [h, Res.assert, decide_false, if_false, Res.bind_panic]; rfl

theorem ciSpec_none (k : Nat) (xs : List GenLink.Crossing) (i : Nat)
    (h : (xs.filter (fun x => !x.is_resolved)).length ≤ i) : ciSpec k xs i = .panic := by
  induction xs generalizing k i with
  | nil => rfl
  | cons x xs ih =>
    by_cases hr : x.is_resolved = true
    · simp only [ciSpec, hr, if_true]
      apply ih; simpa [List.filter_cons, hr] using h
    · have hr' : x.is_resolved = false := by simpa using hr
      simp only [List.filter_cons, hr', Bool.not_false, if_true, List.length_cons] at h
      have hi : i > 0 := by omega
      simp only [ciSpec, hr', Bool.false_eq_true, if_false, hi, if_true]
      apply ih; omega

theorem ciSpec_shift (k : Nat) (xs : List GenLink.Crossing) (i : Nat) :
    ciSpec (k + 1) xs i = rmap (· + 1) (ciSpec k xs i) := by
  induction xs generalizing k i with
  | nil => rfl
  | cons x xs ih =>
    simp only [ciSpec]
    split
    · exact ih _ _
    · split
      · exact ih _ _
      · rfl

theorem g_crossing_index_zero_eq (l : GenLink.Link) : l.crossing_index 0 = ciSpec 0 l.data_ 0 := by
  rw [g_crossing_index_eq]
  split
  · rfl
  · symm; apply ciSpec_none
    simp only [GenLink.Link.crossing_num, Lk.iter, Lk.Iter.toList, id] at *
    omega

theorem g_crossing_at_mut_eq (l : GenLink.Link) (i : Nat) (k : GenLink.Crossing → Res GenLink.Crossing) :
    l.crossing_at_mut i k = (l.crossing_index i >>= fun j => Lk.idx l.data_ j >>= fun x => k x >>= fun x' =>
      Lk.idxSet l.data_ j x' >>= fun d => .ok ⟨d⟩) := by
  unfold GenLink.Link.crossing_at_mut
  cases h1 : l.crossing_index i <;> simp only [h1, Res.bind_ok, Res.bind_panic, Res.bind_err, Res.pure_eq]

/-- `crossing_at_mut(0).resolve(r)` on the list of crossings -/
def firstResolve (xs : List GenLink.Crossing) (r : Lk.Bit) : Res (List GenLink.Crossing) :=
  ciSpec 0 xs 0 >>= fun j => Lk.idx xs j >>= fun x => x.resolve r >>= fun x' => Lk.idxSet xs j x'

theorem firstResolve_eq (xs : List GenLink.Crossing) (b : Bool) :
    rmap (List.map toC) (firstResolve xs (toBit b)) = C18.resolveFirst (xs.map toC) b := by
  induction xs with
  | nil => rfl
  | cons x xs ih =>
    by_cases hr : x.is_resolved = true
    · have hr2 : (toC x).isResolved = true := by rw [← g_is_resolved_eq]; exact hr
      simp only [List.map_cons, C18.resolveFirst, hr2, if_true, ← ih]
      simp only [firstResolve, ciSpec, hr, if_true, ciSpec_shift]
      cases ciSpec 0 xs 0 with
      | ok j =>
        simp only [rmap, Res.bind_ok, Lk.idx, Lk.Index.get, Lk.listGet]
        cases Lk.listGet xs j with
        | ok y =>
          simp only [Res.bind_ok]
          cases y.resolve (toBit b) with
          | ok y' =>
            simp only [Res.bind_ok, Lk.idxSet, List.length_cons, Nat.add_lt_add_iff_right, List.set_cons_succ]
            by_cases hj : j < xs.length <;> simp [hj, rmap]
          | panic => rfl
          | err => rfl
        | panic => rfl
        | err => rfl
      | panic => rfl
      | err => rfl
    · have hr' : x.is_resolved = false := by simpa using hr
      have hr2 : (toC x).isResolved = false := by rw [← g_is_resolved_eq]; exact hr'
      simp only [List.map_cons, C18.resolveFirst, hr2, Bool.false_eq_true, if_false, ← g_resolve_eq]
      simp only [firstResolve, ciSpec, hr', Bool.false_eq_true, if_false, Nat.lt_irrefl, gt_iff_lt, Res.bind_ok, Lk.idx,
        Lk.Index.get, Lk.listGet]
      cases x.resolve (toBit b) <;> simp [rmap, Lk.idxSet]

theorem g_crossing_at_mut_zero_resolve_eq (l : GenLink.Link) (b : Bool) :
    rmap toL (l.crossing_at_mut 0 (fun x => x.resolve (toBit b))) = C18.resolveFirst (toL l) b := by
  rw [g_crossing_at_mut_eq, g_crossing_index_zero_eq, toL, ← firstResolve_eq]
  simp only [firstResolve]
  cases ciSpec 0 l.data_ 0 with
  | ok j =>
    simp only [Res.bind_ok]
    cases Lk.idx l.data_ j with
    | ok x =>
      simp only [Res.bind_ok]
      cases x.resolve (toBit b) with
      | ok x' => simp only [Res.bind_ok]; cases Lk.idxSet l.data_ j x' <;> rfl
      | panic => rfl
      | err => rfl
    | panic => rfl
    | err => rfl
  | panic => rfl
  | err => rfl

theorem rb_loop (l : GenLink.Link) (s : List Bool) :
    rmap toL (do
      let mut l := l
      for r in (s.map toBit) do
        l := (← (l).crossing_at_mut 0 (fun x_ => (x_).resolve r))
      return l) = s.foldlM C18.resolveFirst (toL l) := by
  induction s generalizing l with
  | nil => rfl
  | cons b s ih =>
    simp only [List.map_cons, List.forIn_cons, List.foldlM_cons]
    have h := g_crossing_at_mut_zero_resolve_eq l b
    cases h1 : l.crossing_at_mut 0 (fun x => x.resolve (toBit b)) with
    | ok l' =>
      rw [h1] at h
      simp only [Res.bind_ok, Res.pure_eq, ← h, rmap]
      exact ih l'
    | panic => rw [h1] at h; simp only [Res.bind_panic, ← h, rmap]
    | err => rw [h1] at h; simp only [Res.bind_err, ← h, rmap]

theorem g_resolved_by_eq (l : GenLink.Link) (s : List Bool) :
    rmap toL (l.resolved_by (s.map toBit)) = C18.resolvedBy (toL l) s := by
  unfold GenLink.Link.resolved_by C18.resolvedBy
  simp only [Lk.len, Lk.iter, Lk.Iter.toList, id, List.length_map, ← g_crossing_num_eq]
  by_cases h : s.length = l.crossing_num
  · simp only [h, Res.assert, beq_self_eq_true, if_true, Res.bind_ok]
    exact rb_loop l s
  · have : (s.length == l.crossing_num) = false := by simpa using h
    simp only [h, this, Res.assert, Bool.false_eq_true, if_false, Res.bind_panic, rmap]

theorem pe_cond (e f ci i ei j : Nat) :
    ((e == f) && ((ci != i) || ((ci == i) && (ei != j)))) = (f == e && ((i, j) != (ci, ei))) := by
  rw [Bool.eq_iff_iff]
  simp only [Bool.and_eq_true, Bool.or_eq_true, beq_iff_eq, bne_iff_ne, ne_eq, Prod.mk.injEq]
  omega

theorem pe_loop (e ci ei k : Nat) (xs : List GenLink.Crossing) :
    (do
      for it_228 in (Lk.enumFrom k xs) do
        let (i, c) := it_228
        for it_229 in (Lk.enumerate (Lk.iter ((c).edges))) do
          let (j, f) := it_229
          if ((e == f) && ((ci != i) || ((ci == i) && (ei != j)))) then
            return (some (i, j))
      return none : Res (Option (Nat × Nat))) =
    .ok (((C18.slotsFrom (xs.map toC) k).find? (fun s => s.2 == e && s.1 != (ci, ei))).map (·.1)) := by
  induction xs generalizing k with
  | nil => rfl
  | cons x xs ih =>
    simp only [Lk.enumFrom, List.forIn_cons, List.map_cons, C18.slotsFrom, Lk.enumerate, Lk.iter, Lk.Iter.toList,
      GenLink.Crossing.edges, Lk.Arr4.toList, List.forIn_nil, pe_cond, List.find?_cons, toC]
    by_cases h0 : (x.edges_.a0 == e && ((k, 0) != (ci, ei))) = true
    · simp [h0]
    · by_cases h1 : (x.edges_.a1 == e && ((k, 1) != (ci, ei))) = true
      · simp [h0, h1]
      · by_cases h2 : (x.edges_.a2 == e && ((k, 2) != (ci, ei))) = true
        · simp [h0, h1, h2]
        · by_cases h3 : (x.edges_.a3 == e && ((k, 3) != (ci, ei))) = true
          · simp [h0, h1, h2, h3]
          · simp only [h0, h1, h2, h3, Bool.false_eq_true, if_false, Res.pure_eq, Res.bind_ok]
            have ih' := ih (k + 1)
            simp only [Lk.enumerate, Lk.iter, Lk.Iter.toList,
              GenLink.Crossing.edges, Lk.Arr4.toList, Lk.enumFrom, List.forIn_cons, List.forIn_nil, pe_cond] at ih'
            exact ih'

theorem listGet_eq {α} (xs : List α) (i : Nat) :
    Lk.listGet xs i = match xs[i]? with | some a => .ok a | none => .panic := by
  induction xs generalizing i with
  | nil => rfl
  | cons x xs ih => cases i with
    | zero => rfl
    | succ i => simp only [Lk.listGet, List.getElem?_cons_succ]; exact ih i

theorem range_contains_eq (n c : Nat) : (List.range n).contains c = decide (c < n) := by
  simp [List.contains_eq_mem, List.mem_range]

theorem g_pass_edge_eq (l : GenLink.Link) (ci ei : Nat) :
    l.pass_edge ci ei = if ci < l.data_.length ∧ ei < 4 then .ok (C18.passEdge (toL l) ci ei) else .panic := by
  unfold GenLink.Link.pass_edge
  simp only [Lk.len, Lk.iter, Lk.Iter.toList, id, range_contains_eq, Res.assert, Lk.enumerate, Lk.idx, Lk.Index.get,
    listGet_eq]
  by_cases h1 : ci < l.data_.length
  · by_cases h2 : ei < 4
    · have hg : l.data_[ci]? = some l.data_[ci] := List.getElem?_eq_getElem h1
      simp only [h1, h2, decide_true, if_true, Res.bind_ok, hg, g_edge_eq, and_self, Res.pure_eq]
      refine Eq.trans (pe_loop ((toC l.data_[ci]).edge ei) ci ei 0 l.data_) ?_
      simp only [C18.passEdge, C18.slots, C18.edgeAt, toL, List.getElem?_map, hg, Option.map_some]
    · simp [h1, h2]
  · simp [h1]

theorem ctypeAt_toL (l : GenLink.Link) (i : Nat) (hi : i < l.data_.length) :
    C18.ctypeAt (toL l) i = toT l.data_[i].ctype_ := by
  simp [C18.ctypeAt, toL, List.getElem?_map, List.getElem?_eq_getElem hi, toC]

theorem te_loop (l : GenLink.Link) (start : Nat × Nat) (xs : List Nat) (calls : List (Nat × Nat)) (i0 j0 steps0 : Nat)
    (hi : i0 < l.data_.length) (hj : j0 < 4) (hs : steps0 ≤ 4 * l.data_.length)
    (hf : 4 * l.data_.length < xs.length + steps0) :
    (do
      let mut calls_ : (List (Nat × Nat)) := calls
      let mut (i, j) := ((i0, j0) : Nat × Nat)
      let max_steps := (4 * l.data_.length)
      let mut steps := steps0
      let mut brk1_ := false
      for _ in xs do
        Res.assert (decide (steps < max_steps))
        steps := (steps + 1)
        calls_ := calls_ ++ [(i, j)]
        let c := (← Lk.idx l.data_ i)
        let k := (← (c).pass j)
        let some next := (← (l).pass_edge i k)
          | do
              calls_ := calls_ ++ [(i, k)]
              brk1_ := true
              break
        if (next == start) then
          calls_ := calls_ ++ [(start.1, start.2)]
          brk1_ := true
          break
        (i, j) := next
      if !brk1_ then
        Res.err
      return calls_) = C18.traverseLoop (toL l) start (4 * l.data_.length - steps0) (i0, j0) calls.reverse := by
  induction xs generalizing calls i0 j0 steps0 with
  | nil => simp at hf; omega
  | cons x xs ih =>
    simp only [List.forIn_cons]
    by_cases hlt : steps0 < 4 * l.data_.length
    · obtain ⟨m, hm⟩ : ∃ m, 4 * l.data_.length - steps0 = m + 1 := ⟨4 * l.data_.length - steps0 - 1, by omega⟩
      have hg : l.data_[i0]? = some l.data_[i0] := List.getElem?_eq_getElem hi
      have hk : (toC l.data_[i0]).pass j0 < 4 := C18.pass_lt' _ _ hj
      rw [hm, C18.traverseLoop]
      simp only [hlt, Res.assert, decide_true, if_true, Res.bind_ok, Lk.idx, Lk.Index.get, listGet_eq, hg,
        g_pass_eq, hj, g_pass_edge_eq, hi, hk, and_self, ctypeAt_toL, Res.pure_eq]
      have hpk : (toT l.data_[i0].ctype_).pass j0 = (toC l.data_[i0]).pass j0 := rfl
      rw [hpk]
      cases hpe : C18.passEdge (toL l) i0 ((toC l.data_[i0]).pass j0) with
      | none => simp
      | some next =>
        by_cases hns : next = start
        · subst hns; simp
        · have hHE := C18.passEdge_range _ _ _ _ hpe
          have hb : (next == start) = false := by simpa using hns
          simp only [hb, Bool.false_eq_true, if_false, Res.bind_ok, hns]
          have ih' := ih (calls ++ [(i0, j0)]) next.1 next.2 (steps0 + 1) (by simpa [toL] using hHE.1) hHE.2 (by omega)
            (by simp only [List.length_cons] at hf; omega)
          have hm' : 4 * l.data_.length - (steps0 + 1) = m := by omega
          simp only [hm', Res.assert, Res.bind_ok, Lk.idx, Lk.Index.get, listGet_eq, Res.pure_eq, g_pass_eq, g_pass_edge_eq, List.reverse_append,
            List.reverse_cons, List.reverse_nil, List.nil_append, List.cons_append] at ih'
          simp only [← ih']
    · have : 4 * l.data_.length - steps0 = 0 := by omega
      rw [this, C18.traverseLoop]
      simp [hlt, Res.assert]

/-- `Link::traverse_edges` with the `FnMut` parameter read as the log of its calls = the model's `traverse`, for every fuel
above the library's own bound `4·n` (the `debug_assert!`s on `start` are visible). -/
theorem g_traverse_edges_eq (l : GenLink.Link) (fuel : Nat) (start : Nat × Nat) (hf : 4 * l.data_.length < fuel) :
    l.traverse_edges fuel start =
      if start.1 < l.data_.length ∧ start.2 < 4 then C18.traverse (toL l) start else .panic := by
  obtain ⟨a, b⟩ := start
  unfold GenLink.Link.traverse_edges
  simp only [Lk.len, Lk.iter, Lk.Iter.toList, id, range_contains_eq, Res.assert]
  by_cases h1 : a < l.data_.length
  · by_cases h2 : b < 4
    · simp only [h1, h2, decide_true, if_true, Res.bind_ok, and_self]
      refine Eq.trans (te_loop l (a, b) (List.range fuel) [] a b 0 h1 h2 (by omega) (by simp; omega)) ?_
      simp [C18.traverse, toL]
    · simp [h1, h2]
  · simp [h1]

/-! ### generic lemmas on `for` loops without `break` / `return` and on `Res` -/

theorem res_bind_assoc {α β γ} (x : Res α) (f : α → Res β) (g : β → Res γ) :
    (x >>= f) >>= g = x >>= fun a => f a >>= g := by cases x <;> rfl

theorem rmap_bind_congr {α β α' β'} (c1 : α → α') (c2 : β → β') (x : Res α) (k : α → Res β) (x' : Res α')
    (k' : α' → Res β') (hx : rmap c1 x = x') (hk : ∀ a, rmap c2 (k a) = k' (c1 a)) :
    rmap c2 (x >>= k) = x' >>= k' := by
  subst hx
  cases x with
  | ok a => exact hk a
  | panic => rfl
  | err => rfl

/-- a `for` loop whose body always ends with `continue` / falls through is a monadic fold -/
theorem forIn_yield {α σ} (xs : List α) (f : α → σ → Res (ForInStep σ)) (g : σ → α → Res σ)
    (h : ∀ a, a ∈ xs → ∀ s, f a s = (g s a >>= fun s' => .ok (ForInStep.yield s'))) (s : σ) :
    forIn xs s f = xs.foldlM g s := by
  induction xs generalizing s with
  | nil => rfl
  | cons a xs ih =>
    rw [List.forIn_cons, h a (List.mem_cons_self ..), List.foldlM_cons]
    cases g s a with
    | ok s' => simp only [Res.bind_ok]; exact ih (fun b hb => h b (List.mem_cons_of_mem _ hb)) s'
    | panic => rfl
    | err => rfl

theorem foldlM_rmap {α σ τ} (conv : σ → τ) (xs : List α) (g : σ → α → Res σ) (g' : τ → α → Res τ)
    (h : ∀ a, a ∈ xs → ∀ s, rmap conv (g s a) = g' (conv s) a) (s : σ) :
    rmap conv (xs.foldlM g s) = xs.foldlM g' (conv s) := by
  induction xs generalizing s with
  | nil => rfl
  | cons a xs ih =>
    rw [List.foldlM_cons, List.foldlM_cons, ← h a (List.mem_cons_self ..)]
    cases g s a with
    | ok s' => simp only [Res.bind_ok, rmap]; exact ih (fun b hb => h b (List.mem_cons_of_mem _ hb)) s'
    | panic => rfl
    | err => rfl

/-! ### walks stay in range and have at least two entries -/

theorem traverseLoop_HE (l : C18.Link) (start : Nat × Nat) (hs : C18.HE l start) :
    ∀ (fuel : Nat) (cur : Nat × Nat) (acc : List (Nat × Nat)) (path : List (Nat × Nat)),
      C18.HE l cur → (∀ p ∈ acc, C18.HE l p) →
      C18.traverseLoop l start fuel cur acc = .ok path → (∀ p ∈ path, C18.HE l p) ∧ acc.length + 2 ≤ path.length := by
  intro fuel
  induction fuel with
  | zero => intro cur acc path _ _ h; cases h
  | succ fuel ih =>
    intro cur acc path hc hacc h
    unfold C18.traverseLoop at h
    have hk : C18.HE l (cur.1, (C18.ctypeAt l cur.1).pass cur.2) := ⟨hc.1, C18.pass_lt' _ _ hc.2⟩
    cases hp : C18.passEdge l cur.1 ((C18.ctypeAt l cur.1).pass cur.2) with
    | none =>
      simp only [hp] at h
      cases h
      refine ⟨?_, by simp⟩
      intro p hpm
      simp only [List.reverse_cons, List.mem_append, List.mem_reverse, List.mem_cons, List.not_mem_nil, or_false] at hpm
      rcases hpm with (h1 | h1) | h1
      · exact hacc p h1
      · rw [h1]; exact hc
      · rw [h1]; exact hk
    | some next =>
      simp only [hp] at h
      split at h
      · cases h
        refine ⟨?_, by simp⟩
        intro p hpm
        simp only [List.reverse_cons, List.mem_append, List.mem_reverse, List.mem_cons, List.not_mem_nil, or_false] at hpm
        rcases hpm with (h1 | h1) | h1
        · exact hacc p h1
        · rw [h1]; exact hc
        · rw [h1]; exact hs
      · have := ih next (cur :: acc) path (C18.passEdge_range l _ _ next hp) (by
          intro p hpm
          rcases List.mem_cons.1 hpm with h1 | h1
          · rw [h1]; exact hc
          · exact hacc p h1) h
        exact ⟨this.1, by have := this.2; simp only [List.length_cons] at this; omega⟩

theorem traverse_HE (l : C18.Link) (s : Nat × Nat) (hs : C18.HE l s) (path : List (Nat × Nat))
    (h : C18.traverse l s = .ok path) : (∀ p ∈ path, C18.HE l p) ∧ 2 ≤ path.length := by
  have := traverseLoop_HE l s hs _ s [] path hs (by simp) h
  simpa using this

theorem edge_toL (l : GenLink.Link) (i j : Nat) (hi : i < l.data_.length) (hj : j < 4) :
    (Lk.idx l.data_ i >>= fun c => c.edge j) = .ok (C18.edgeAt (toL l) i j) := by
  have hg : l.data_[i]? = some l.data_[i] := List.getElem?_eq_getElem hi
  simp [Lk.idx, Lk.Index.get, listGet_eq, hg, g_edge_eq, hj, C18.edgeAt, toL, List.getElem?_map]

/-- the `FnMut` closure of `components` folded over the log of a walk -/
theorem comps_edges_fold (l : GenLink.Link) (path : List (Nat × Nat)) (hp : ∀ p ∈ path, C18.HE (toL l) p)
    (ps : Lk.HashSet Nat) (es : List Nat) :
    path.foldlM (fun (s : Lk.HashSet Nat × List Nat) (x : Nat × Nat) =>
        (Lk.idx l.data_ x.1 >>= fun c => c.edge x.2) >>= fun e => Res.ok (s.1.insert e, s.2 ++ [e])) (ps, es) =
      .ok (⟨(path.map fun p => C18.edgeAt (toL l) p.1 p.2).reverse ++ ps.log⟩,
           es ++ path.map fun p => C18.edgeAt (toL l) p.1 p.2) := by
  induction path generalizing ps es with
  | nil => simp
  | cons p path ih =>
    have hp0 := hp p (List.mem_cons_self ..)
    rw [List.foldlM_cons, edge_toL l p.1 p.2 (by simpa [toL] using hp0.1) hp0.2]
    simp only [Res.bind_ok]
    rw [ih (fun q hq => hp q (List.mem_cons_of_mem _ hq))]
    simp [Lk.HashSet.insert]

def stepConv {σ τ} (conv : σ → τ) : ForInStep σ → ForInStep τ
  | .yield s => .yield (conv s)
  | .done s => .done (conv s)

/-- a `for` loop without `break` / `return` simulates a monadic fold of the model through a state conversion -/
theorem forIn_sim {α σ τ} (conv : σ → τ) (xs : List α) (f : α → σ → Res (ForInStep σ)) (g' : τ → α → Res τ)
    (h : ∀ a, a ∈ xs → ∀ s, rmap (stepConv conv) (f a s) = (g' (conv s) a >>= fun t => .ok (ForInStep.yield t))) (s : σ) :
    rmap conv (forIn xs s f) = xs.foldlM g' (conv s) := by
  induction xs generalizing s with
  | nil => rfl
  | cons a xs ih =>
    have ha := h a (List.mem_cons_self ..) s
    rw [List.forIn_cons, List.foldlM_cons]
    cases hf : f a s with
    | ok r =>
      rw [hf] at ha
      cases hg : g' (conv s) a with
      | ok t =>
        rw [hg] at ha
        cases r with
        | yield s' =>
          simp only [rmap, stepConv, Res.bind_ok, Res.ok.injEq, ForInStep.yield.injEq] at ha
          simp only [Res.bind_ok, ← ha]
          exact ih (fun b hb => h b (List.mem_cons_of_mem _ hb)) s'
        | done s' => simp [rmap, stepConv] at ha
      | panic => rw [hg] at ha; cases r <;> simp [rmap] at ha
      | err => rw [hg] at ha; cases r <;> simp [rmap] at ha
    | panic =>
      rw [hf] at ha
      cases hg : g' (conv s) a <;> rw [hg] at ha <;> simp [rmap] at ha ⊢
    | err =>
      rw [hf] at ha
      cases hg : g' (conv s) a <;> rw [hg] at ha <;> simp [rmap] at ha ⊢

def convC (st : List GenLink.Path × Lk.HashSet Nat) : List C18.Path × List Nat := (st.1.map toPath, st.2.log)

/-- body of the loop `for i0 in 0..n` of the closure `traverse` of `Link::components`, as the `do` elaborator leaves it -/
def compsBody (l : GenLink.Link) (fuel j0 i0 : Nat) (s : List GenLink.Path × Lk.HashSet Nat) :
    Res (ForInStep (List GenLink.Path × Lk.HashSet Nat)) := do
  let d1 ← Lk.idx l.data_ i0
  let d2 ← d1.edge j0
  if s.snd.contains d2 = true then pure (ForInStep.yield (s.fst, s.snd))
  else do
    let d3 ← l.traverse_edges fuel (i0, j0)
    let s1 ← forIn d3 (s.snd, ([] : List Nat)) fun x s => do
        let d4 ← Lk.idx l.data_ x.fst
        let d5 ← d4.edge x.snd
        pure (ForInStep.yield (s.fst.insert d5, s.snd ++ [d5]))
    if (decide (Lk.len s1.snd > 1) && s1.snd.head? == s1.snd.getLast?) = true then do
      let d6 ← GenLink.Path.circ s1.snd.dropLast
      let c ← pure d6
      pure (ForInStep.yield (s.fst ++ [c], s1.fst))
    else do
      let d7 ← GenLink.Path.arc s1.snd
      let c ← pure d7
      pure (ForInStep.yield (s.fst ++ [c], s1.fst))

theorem compsBody_eq (l : GenLink.Link) (fuel : Nat) (hf : 4 * l.data_.length < fuel) (j0 i0 : Nat) (hj0 : j0 < 4)
    (hi0 : i0 < l.data_.length) (s : List GenLink.Path × Lk.HashSet Nat) :
    rmap (stepConv convC) (compsBody l fuel j0 i0 s) =
      (C18.compsStep (toL l) j0 (convC s) i0 >>= fun t => .ok (ForInStep.yield t)) := by
  unfold compsBody C18.compsStep
  have he := edge_toL l i0 j0 hi0 hj0
  have hHE : C18.HE (toL l) (i0, j0) := ⟨by simpa [toL] using hi0, hj0⟩
  rw [← res_bind_assoc, he]
  simp only [Res.bind_ok, convC, Lk.HashSet.contains]
  by_cases hc : s.2.log.contains (C18.edgeAt (toL l) i0 j0) = true
  · simp only [hc, if_true, Res.pure_eq, rmap, stepConv, Res.bind_ok, convC]
  · simp only [hc, Bool.false_eq_true, if_false, g_traverse_edges_eq l fuel (i0, j0) hf, hi0, hj0, and_self, if_true]
    cases hT : C18.traverse (toL l) (i0, j0) with
    | ok path =>
      obtain ⟨hp, hlen⟩ := traverse_HE _ _ hHE _ hT
      simp only [Res.bind_ok]
      rw [forIn_yield path _ (fun (s : Lk.HashSet Nat × List Nat) (x : Nat × Nat) =>
        (Lk.idx l.data_ x.1 >>= fun c => c.edge x.2) >>= fun e => Res.ok (s.1.insert e, s.2 ++ [e]))
        (fun a _ s => by simp only [res_bind_assoc, Res.bind_ok, Res.pure_eq])]
      rw [comps_edges_fold l path hp]
      simp only [Res.bind_ok, List.nil_append, Lk.len, Lk.iter, Lk.Iter.toList, id, C18.mkPath]
      generalize hes : List.map (fun p => C18.edgeAt (toL l) p.fst p.snd) path = es
      have hel : 2 ≤ es.length := by rw [← hes, List.length_map]; exact hlen
      have hne : es ≠ [] := by intro h; rw [h] at hel; simp at hel
      have hdl : es.dropLast ≠ [] := by
        intro h; have := congrArg List.length h; simp only [List.length_dropLast, List.length_nil] at this; omega
      by_cases hcond : es.length > 1 ∧ es.head? = es.getLast?
      · simp [hcond, g_path_circ_eq, g_path_new_eq, hdl, rmap, stepConv, convC, toPath, Lk.len, Lk.iter, Lk.Iter.toList]
      · simp [hcond, g_path_arc_eq, g_path_new_eq, hne, rmap, stepConv, convC, toPath, Lk.len, Lk.iter, Lk.Iter.toList]
    | panic => simp [rmap]
    | err => simp [rmap]

/-- `Link::components` = the model's `components`, for every link (valid or not) and every fuel above `4·n`:
same components in the same order, same panics. -/
theorem g_components_eq (l : GenLink.Link) (fuel : Nat) (hf : 4 * l.data_.length < fuel) :
    rmap (List.map toPath) (l.components fuel) = C18.components (toL l) := by
  unfold GenLink.Link.components C18.components C18.compsPass
  have hn : (toL l).length = l.data_.length := by simp [toL]
  simp only [List.forIn_cons, List.forIn_nil, Res.pure_eq, res_bind_assoc, Res.bind_ok, Lk.len, Lk.iter, Lk.Iter.toList, id, hn]
  refine rmap_bind_congr convC _ _ _ _ _ (forIn_sim convC _ _ _
    (fun a ha s => compsBody_eq l fuel hf 0 a (by omega) (List.mem_range.1 ha) s) _) (fun st => ?_)
  refine rmap_bind_congr convC _ _ _ _ _ (forIn_sim convC _ _ _
    (fun a ha s => compsBody_eq l fuel hf 1 a (by omega) (List.mem_range.1 ha) s) _) (fun st => ?_)
  refine rmap_bind_congr convC _ _ _ _ _ (forIn_sim convC _ _ _
    (fun a ha s => compsBody_eq l fuel hf 2 a (by omega) (List.mem_range.1 ha) s) _) (fun st => ?_)
  rfl

/-- `forIn_sim` with an invariant of the loop state -/
theorem forIn_sim_inv {α σ τ} (conv : σ → τ) (P : σ → Prop) (xs : List α) (f : α → σ → Res (ForInStep σ))
    (g' : τ → α → Res τ)
    (h : ∀ a, a ∈ xs → ∀ s, P s →
      rmap (stepConv conv) (f a s) = (g' (conv s) a >>= fun t => .ok (ForInStep.yield t)) ∧
      ∀ s', f a s = .ok (ForInStep.yield s') → P s') (s : σ) (hs : P s) :
    rmap conv (forIn xs s f) = xs.foldlM g' (conv s) ∧ ∀ s', forIn xs s f = .ok s' → P s' := by
  induction xs generalizing s with
  | nil => exact ⟨rfl, fun s' h => by cases h; exact hs⟩
  | cons a xs ih =>
    obtain ⟨ha, hP⟩ := h a (List.mem_cons_self ..) s hs
    rw [List.forIn_cons, List.foldlM_cons]
    cases hf : f a s with
    | ok r =>
      rw [hf] at ha
      cases hg : g' (conv s) a with
      | ok t =>
        rw [hg] at ha
        cases r with
        | yield s' =>
          simp only [rmap, stepConv, Res.bind_ok, Res.ok.injEq, ForInStep.yield.injEq] at ha
          simp only [Res.bind_ok, ← ha]
          exact ih (fun b hb => h b (List.mem_cons_of_mem _ hb)) s' (hP s' hf)
        | done s' => simp [rmap, stepConv] at ha
      | panic => rw [hg] at ha; cases r <;> simp [rmap] at ha
      | err => rw [hg] at ha; cases r <;> simp [rmap] at ha
    | panic =>
      rw [hf] at ha
      cases hg : g' (conv s) a <;> rw [hg] at ha <;> simp [rmap] at ha ⊢
    | err =>
      rw [hf] at ha
      cases hg : g' (conv s) a <;> rw [hg] at ha <;> simp [rmap] at ha ⊢

theorem anyM_eq_any {α} (xs : List α) (p : α → Res Bool) (q : α → Bool) (h : ∀ a, a ∈ xs → p a = .ok (q a)) :
    Lk.anyM xs p = .ok (xs.any q) := by
  induction xs with
  | nil => rfl
  | cons a xs ih =>
    simp only [Lk.anyM, h a (List.mem_cons_self ..), List.any_cons]
    cases q a with
    | true => rfl
    | false => simpa using ih (fun b hb => h b (List.mem_cons_of_mem _ hb))

/-- the sign table inside the closure of `crossing_signs` -/
def gSign (t : CrossingType) (j : Nat) : Option Lk.Sign :=
  match (t, j) with
  | (CrossingType.Xm, 1) => some Lk.Sign.Pos
  | (CrossingType.X, 3) => some Lk.Sign.Pos
  | (CrossingType.Xm, 3) => some Lk.Sign.Neg
  | (CrossingType.X, 1) => some Lk.Sign.Neg
  | _ => none

theorem gSign_eq (t : CrossingType) (j : Nat) : (gSign t j).map toSign = C18.signAt (toT t) j := by
  cases t <;> (rcases j with _ | _ | _ | _ | j) <;> rfl

abbrev SignSt := List (Option Lk.Sign) × Lk.HashSet Nat
def convS (st : SignSt) : List (Option C18.Sign) × List Nat := (st.1.map (Option.map toSign), st.2.log)

/-- the `FnMut` closure of `crossing_signs` as a step on the state `(signs, passed)` -/
def gVisit (l : GenLink.Link) (s : SignSt) (x : Nat × Nat) : Res SignSt :=
  Lk.idx l.data_ x.1 >>= fun c => c.edge x.2 >>= fun e =>
    if (gSign c.ctype x.2).isSome = true then
      Lk.idxSet s.1 x.1 (gSign c.ctype x.2) >>= fun sg => .ok (sg, s.2.insert e)
    else .ok (s.1, s.2.insert e)

theorem gVisit_eq (l : GenLink.Link) (s : SignSt) (hs : s.1.length = l.data_.length) (x : Nat × Nat)
    (hx : C18.HE (toL l) x) :
    ∃ s', gVisit l s x = .ok s' ∧ convS s' = C18.signsVisit (toL l) (convS s) x ∧ s'.1.length = l.data_.length := by
  have hi : x.1 < l.data_.length := by simpa [toL] using hx.1
  have hg : l.data_[x.1]? = some l.data_[x.1] := List.getElem?_eq_getElem hi
  have hct := ctypeAt_toL l x.1 hi
  have hsg := gSign_eq l.data_[x.1].ctype_ x.2
  have hea : (toC l.data_[x.1]).edge x.2 = C18.edgeAt (toL l) x.1 x.2 := by
    simp [C18.edgeAt, toL, List.getElem?_map, hg]
  unfold gVisit C18.signsVisit
  simp only [Lk.idx, Lk.Index.get, listGet_eq, hg, Res.bind_ok, g_edge_eq, hx.2, if_true, GenLink.Crossing.ctype, hct, ← hsg, hea]
  cases hs1 : gSign l.data_[x.1].ctype_ x.2 with
  | none => exact ⟨(s.1, s.2.insert (C18.edgeAt (toL l) x.1 x.2)), by simp, by simp [convS, Lk.HashSet.insert], hs⟩
  | some sg =>
    have hlt : x.1 < s.1.length := by omega
    refine ⟨(s.1.set x.1 (some sg), s.2.insert (C18.edgeAt (toL l) x.1 x.2)), by simp [Lk.idxSet, hlt], ?_, by simp [hs]⟩
    simp [convS, Lk.HashSet.insert, List.map_set]

theorem gVisit_fold (l : GenLink.Link) (path : List (Nat × Nat)) (hp : ∀ p ∈ path, C18.HE (toL l) p) (s : SignSt)
    (hs : s.1.length = l.data_.length) :
    ∃ s', path.foldlM (gVisit l) s = .ok s' ∧ convS s' = path.foldl (C18.signsVisit (toL l)) (convS s) ∧
      s'.1.length = l.data_.length := by
  induction path generalizing s with
  | nil => exact ⟨s, rfl, rfl, hs⟩
  | cons p path ih =>
    obtain ⟨s1, h1, h2, h3⟩ := gVisit_eq l s hs p (hp p (List.mem_cons_self ..))
    obtain ⟨s2, h4, h5, h6⟩ := ih (fun q hq => hp q (List.mem_cons_of_mem _ hq)) s1 h3
    exact ⟨s2, by rw [List.foldlM_cons, h1]; exact h4, by rw [List.foldl_cons, ← h2]; exact h5, h6⟩

/-- body of the loop `for i0 in 0..n` of the closure `traverse` of `Link::crossing_signs`, as the `do` elaborator leaves it -/
def signsBody (l : GenLink.Link) (fuel j0 i0 : Nat) (s : SignSt) : Res (ForInStep SignSt) := do
  let d1 ← Lk.idx l.data_ i0
  let d2 ← d1.edge j0
  if s.snd.contains d2 = true then pure (ForInStep.yield (s.fst, s.snd))
  else do
    let d3 ← l.traverse_edges fuel (i0, j0)
    let s ← forIn d3 (s.fst, s.snd) fun x s => do
        let d4 ← Lk.idx l.data_ x.fst
        let d5 ← d4.edge x.snd
        if (gSign d4.ctype x.snd).isSome = true then do
          let d6 ← Lk.idxSet s.fst x.fst (gSign d4.ctype x.snd)
          pure (ForInStep.yield (d6, s.snd.insert d5))
        else pure (ForInStep.yield (s.fst, s.snd.insert d5))
    pure (ForInStep.yield (s.fst, s.snd))

theorem signs_inner (l : GenLink.Link) (path : List (Nat × Nat)) (s : SignSt) :
    (forIn path s fun x s => do
        let d4 ← Lk.idx l.data_ x.fst
        let d5 ← d4.edge x.snd
        if (gSign d4.ctype x.snd).isSome = true then do
          let d6 ← Lk.idxSet s.fst x.fst (gSign d4.ctype x.snd)
          pure (ForInStep.yield (d6, s.snd.insert d5))
        else pure (ForInStep.yield (s.fst, s.snd.insert d5))) = path.foldlM (gVisit l) s := by
  apply forIn_yield
  intro a _ s
  unfold gVisit
  simp only [res_bind_assoc, Res.pure_eq]
  cases Lk.idx l.data_ a.1 with
  | ok c =>
    simp only [Res.bind_ok]
    cases c.edge a.2 with
    | ok e =>
      simp only [Res.bind_ok]
      split
      · simp only [res_bind_assoc, Res.bind_ok]
      · simp only [Res.bind_ok]
    | panic => rfl
    | err => rfl
  | panic => rfl
  | err => rfl

theorem signsBody_eq (l : GenLink.Link) (fuel : Nat) (hf : 4 * l.data_.length < fuel) (j0 i0 : Nat) (hj0 : j0 < 4)
    (hi0 : i0 < l.data_.length) (s : SignSt) (hs : s.1.length = l.data_.length) :
    rmap (stepConv convS) (signsBody l fuel j0 i0 s) =
      (C18.signsStep (toL l) j0 (convS s) i0 >>= fun t => .ok (ForInStep.yield t)) ∧
    ∀ s', signsBody l fuel j0 i0 s = .ok (ForInStep.yield s') → s'.1.length = l.data_.length := by
  unfold signsBody C18.signsStep
  have he := edge_toL l i0 j0 hi0 hj0
  have hHE : C18.HE (toL l) (i0, j0) := ⟨by simpa [toL] using hi0, hj0⟩
  rw [← res_bind_assoc, he]
  simp only [Res.bind_ok, convS, Lk.HashSet.contains]
  by_cases hc : s.2.log.contains (C18.edgeAt (toL l) i0 j0) = true
  · simp only [hc, if_true, Res.pure_eq, Res.bind_ok]
    refine ⟨rfl, fun s' h => ?_⟩
    simp only [Res.ok.injEq, ForInStep.yield.injEq] at h
    rw [← h]; exact hs
  · simp only [hc, Bool.false_eq_true, if_false, g_traverse_edges_eq l fuel (i0, j0) hf, hi0, hj0, and_self, if_true]
    cases hT : C18.traverse (toL l) (i0, j0) with
    | ok path =>
      obtain ⟨hp, _⟩ := traverse_HE _ _ hHE _ hT
      obtain ⟨s1, h1, h2, h3⟩ := gVisit_fold l path hp s hs
      have h1' : List.foldlM (gVisit l) (s.1, s.2) path = .ok s1 := h1
      simp only [Res.bind_ok]
      rw [signs_inner l path (s.1, s.2), h1']
      simp only [Res.bind_ok, Res.pure_eq]
      refine ⟨?_, fun s' h => ?_⟩
      · simp only [rmap, stepConv, Res.ok.injEq, ForInStep.yield.injEq]
        exact h2
      · simp only [Res.ok.injEq, ForInStep.yield.injEq] at h
        rw [← h]; exact h3
    | panic => exact ⟨rfl, fun s' h => by cases h⟩
    | err => exact ⟨rfl, fun s' h => by cases h⟩

theorem rmap_bind_congr_inv {α β α' β'} (c1 : α → α') (c2 : β → β') (P : α → Prop) (x : Res α) (k : α → Res β)
    (x' : Res α') (k' : α' → Res β') (hx : rmap c1 x = x') (hP : ∀ a, x = .ok a → P a)
    (hk : ∀ a, P a → rmap c2 (k a) = k' (c1 a)) : rmap c2 (x >>= k) = x' >>= k' := by
  subst hx
  cases x with
  | ok a => exact hk a (hP a rfl)
  | panic => rfl
  | err => rfl

theorem filterMap_map_sign (xs : List (Option Lk.Sign)) :
    (xs.map (Option.map toSign)).filterMap id = (xs.filterMap id).map toSign := by
  induction xs with
  | nil => rfl
  | cons x xs ih => cases x <;> simp [List.filterMap_cons, ih]

theorem signs_final (l : GenLink.Link) (st : SignSt) :
    rmap (List.map toSign) (Res.assert ((List.filterMap id st.1).length == l.crossing_num) >>= fun _ =>
      Res.ok (List.filterMap id st.1)) =
    (if ((convS st).1.filterMap id).length = C18.crossingNum (toL l) then Res.ok ((convS st).1.filterMap id) else .panic) := by
  simp only [convS, filterMap_map_sign, List.length_map, ← g_crossing_num_eq, Res.assert]
  by_cases h : (List.filterMap id st.1).length = l.crossing_num
  · simp [h, rmap]
  · have : ((List.filterMap id st.1).length == l.crossing_num) = false := by simpa using h
    simp [h, this, rmap]

theorem signs_incomplete (l : GenLink.Link) (st : SignSt) (hs : st.1.length = l.data_.length) :
    (Lk.anyM (List.range l.data_.length) fun i => do
        let c ← Lk.idx l.data_ i
        if (!c.is_resolved) = true then do
            let sg ← Lk.idx st.1 i
            Res.ok sg.isNone
          else Res.ok false) = .ok (C18.signsIncomplete (toL l) (convS st).1) := by
  have hn : (toL l).length = l.data_.length := by simp [toL]
  unfold C18.signsIncomplete
  rw [hn]
  apply anyM_eq_any
  intro i hi
  have hi' : i < l.data_.length := List.mem_range.1 hi
  have hg : l.data_[i]? = some l.data_[i] := List.getElem?_eq_getElem hi'
  have hg2 : st.1[i]? = some st.1[i] := List.getElem?_eq_getElem (by omega)
  simp only [Lk.idx, Lk.Index.get, listGet_eq, hg, hg2, Res.bind_ok, Res.pure_eq, ctypeAt_toL l i hi', convS,
    List.getD_eq_getElem?_getD, List.getElem?_map, Option.map_some, Option.getD_some]
  have : l.data_[i].is_resolved = (toT l.data_[i].ctype_).isResolved := g_is_resolved_eq _
  rw [this]
  cases (toT l.data_[i].ctype_).isResolved <;> cases st.1[i] <;> rfl

theorem g_crossing_signs_eq (l : GenLink.Link) (fuel : Nat) (hf : 4 * l.data_.length < fuel) :
    rmap (List.map toSign) (l.crossing_signs fuel) = C18.crossingSigns (toL l) := by
  unfold GenLink.Link.crossing_signs C18.crossingSigns C18.signsPass
  have hn : (toL l).length = l.data_.length := by simp [toL]
  simp only [List.forIn_cons, List.forIn_nil, Res.pure_eq, res_bind_assoc, Res.bind_ok, Lk.len, Lk.iter, Lk.Iter.toList, id, hn]
  have hinit : ((List.replicate l.data_.length none, []) : List (Option C18.Sign) × List Nat) =
      convS (List.replicate l.data_.length none, Lk.HashSet.new) := by simp [convS, Lk.HashSet.new]
  rw [hinit]
  have pass := fun (j0 : Nat) (hj0 : j0 < 4) (st : SignSt) (hst : st.1.length = l.data_.length) =>
    forIn_sim_inv convS (fun st => st.1.length = l.data_.length) (List.range l.data_.length) _ (C18.signsStep (toL l) j0)
      (fun a ha s hs => signsBody_eq l fuel hf j0 a hj0 (List.mem_range.1 ha) s hs) st hst
  have h0 := pass 0 (by omega) (List.replicate l.data_.length none, Lk.HashSet.new) (by simp)
  refine rmap_bind_congr_inv convS _ (fun st => st.1.length = l.data_.length) _ _ _ _ h0.1 h0.2 (fun st hst => ?_)
  rw [signs_incomplete l st hst]
  simp only [Res.bind_ok]
  by_cases hinc : C18.signsIncomplete (toL l) (convS st).1 = true
  · simp only [hinc, if_true]
    have h1 := pass 1 (by omega) (st.1, st.2) hst
    refine rmap_bind_congr_inv convS _ (fun st => st.1.length = l.data_.length) _ _ _ _ h1.1 h1.2 (fun st1 hst1 => ?_)
    have h2 := pass 2 (by omega) (st1.1, st1.2) hst1
    refine rmap_bind_congr_inv convS _ (fun st => st.1.length = l.data_.length) _ _ _ _ h2.1 h2.2 (fun st2 hst2 => ?_)
    exact signs_final l st2
  · simp only [hinc, Bool.false_eq_true, if_false]
    exact signs_final l st

theorem g_signed_crossing_nums_eq (l : GenLink.Link) (fuel : Nat) :
    l.signed_crossing_nums fuel = (l.crossing_signs fuel >>= fun s => .ok (s.count .Pos, s.count .Neg)) := by
  unfold GenLink.Link.signed_crossing_nums
  cases l.crossing_signs fuel with
  | ok s =>
    have h : ∀ (x : Lk.Sign), ((Lk.counts (Lk.iter s)).get x).getD 0 = s.count x := by
      intro x; simp only [Lk.counts, Lk.CountMap.get, Lk.iter, Lk.Iter.toList, id]
      by_cases hn : List.count x s = 0 <;> simp [hn]
    simp only [Res.bind_ok, Res.pure_eq, h]
  | panic => rfl
  | err => rfl

theorem g_writhe_eq (l : GenLink.Link) (fuel : Nat) :
    l.writhe fuel = (l.signed_crossing_nums fuel >>= fun pn => .ok ((pn.1 : Int) - (pn.2 : Int))) := by
  unfold GenLink.Link.writhe
  cases l.signed_crossing_nums fuel <;> rfl

theorem g_is_knot_eq (l : GenLink.Link) (fuel : Nat) :
    l.is_knot fuel = (l.components fuel >>= fun cs => .ok (cs.length == 1)) := by
  unfold GenLink.Link.is_knot
  cases l.components fuel <;> rfl

theorem g_ori_pres_state_eq (l : GenLink.Link) (fuel : Nat) :
    l.ori_pres_state fuel = (l.crossing_signs fuel >>= fun s =>
      if s.length ≤ 64 then .ok (s.map fun x => if x = .Pos then Lk.Bit.Bit0 else Lk.Bit.Bit1) else .panic) := by
  unfold GenLink.Link.ori_pres_state
  cases l.crossing_signs fuel with
  | ok s =>
    simp only [Res.bind_ok, Res.pure_eq, Lk.State.from_iter, Lk.iter, Lk.Iter.toList, id, Functor.map, List.length_map,
      List.map_map]
    split
    · congr 1; apply List.map_congr_left; intro x _; cases x <;> rfl
    · rfl
  | panic => rfl
  | err => rfl

theorem g_seifert_circles_eq (l : GenLink.Link) (fuel : Nat) :
    l.seifert_circles fuel = (l.ori_pres_state fuel >>= fun s => l.resolved_by s >>= fun r => r.components fuel) := by
  unfold GenLink.Link.seifert_circles
  cases l.ori_pres_state fuel with
  | ok s => simp only [Res.bind_ok]
  | panic => rfl
  | err => rfl

theorem g_crossing_at_eq (l : GenLink.Link) (i : Nat) :
    l.crossing_at i = (l.crossing_index i >>= fun j => Lk.idx l.data_ j) := by
  unfold GenLink.Link.crossing_at
  cases l.crossing_index i <;> simp <;> rfl

theorem g_resolved_at_eq (l : GenLink.Link) (i : Nat) (r : Lk.Bit) :
    l.resolved_at i r = (if i < l.crossing_num then l.crossing_at_mut i (fun x => x.resolve r) else .panic) := by
  unfold GenLink.Link.resolved_at
  by_cases h : i < l.crossing_num
  · simp only [h, Res.assert, decide_true, if_true, Res.bind_ok]
    cases l.crossing_at_mut i fun x => x.resolve r <;> rfl
  · simp only [h, Res.assert, decide_false, if_false, Res.bind_panic]; rfl

/-! ### corollaries: the public functions built on the walkers equal the model (fuel above `4·n`) -/

theorem count_map_toSign (s : List Lk.Sign) :
    (s.map toSign).count .pos = s.count .Pos ∧ (s.map toSign).count .neg = s.count .Neg := by
  induction s with
  | nil => exact ⟨rfl, rfl⟩
  | cons x xs ih => cases x <;> simp [toSign, List.count_cons, ih.1, ih.2]

theorem g_signed_crossing_nums_model_eq (l : GenLink.Link) (fuel : Nat) (hf : 4 * l.data_.length < fuel) :
    l.signed_crossing_nums fuel = C18.signedCrossingNums (toL l) := by
  rw [g_signed_crossing_nums_eq, C18.signedCrossingNums, ← g_crossing_signs_eq l fuel hf]
  cases l.crossing_signs fuel with
  | ok s => simp only [Res.bind_ok, rmap, Res.pure_eq, (count_map_toSign s).1, (count_map_toSign s).2]
  | panic => rfl
  | err => rfl

theorem g_writhe_model_eq (l : GenLink.Link) (fuel : Nat) (hf : 4 * l.data_.length < fuel) :
    l.writhe fuel = C18.writhe (toL l) := by
  rw [g_writhe_eq, g_signed_crossing_nums_model_eq l fuel hf, C18.writhe]
  cases C18.signedCrossingNums (toL l) <;> rfl

theorem g_is_knot_model_eq (l : GenLink.Link) (fuel : Nat) (hf : 4 * l.data_.length < fuel) :
    l.is_knot fuel = C18.isKnot (toL l) := by
  rw [g_is_knot_eq, C18.isKnot, ← g_components_eq l fuel hf]
  cases l.components fuel with
  | ok cs => simp [rmap]
  | panic => rfl
  | err => rfl

def bitB : Lk.Bit → Bool
  | .Bit0 => false
  | .Bit1 => true

theorem toBit_bitB (b : Lk.Bit) : toBit (bitB b) = b := by cases b <;> rfl

theorem g_ori_pres_state_model_eq (l : GenLink.Link) (fuel : Nat) (hf : 4 * l.data_.length < fuel) :
    rmap (List.map bitB) (l.ori_pres_state fuel) = C18.oriPresState (toL l) := by
  rw [g_ori_pres_state_eq, C18.oriPresState, ← g_crossing_signs_eq l fuel hf]
  cases l.crossing_signs fuel with
  | ok s =>
    simp only [rmap, Res.bind_ok, List.length_map]
    by_cases h64 : s.length ≤ 64
    · simp only [h64, if_true, rmap, Res.pure_eq, List.map_map, Res.ok.injEq]
      apply List.map_congr_left; intro x _; cases x <;> rfl
    · simp only [h64, if_false, rmap]
  | panic => rfl
  | err => rfl

theorem resolveFirst_length (l : C18.Link) (b : Bool) (l' : C18.Link) (h : C18.resolveFirst l b = .ok l') :
    l'.length = l.length := by
  induction l generalizing l' with
  | nil => cases h
  | cons c cs ih =>
    unfold C18.resolveFirst at h
    split at h
    · cases hr : C18.resolveFirst cs b with
      | ok cs' => rw [hr] at h; cases h; simp [ih cs' hr]
      | panic => rw [hr] at h; cases h
      | err => rw [hr] at h; cases h
    · cases hr : c.resolve b with
      | ok c' => rw [hr] at h; cases h; rfl
      | panic => rw [hr] at h; cases h
      | err => rw [hr] at h; cases h

theorem foldlM_resolveFirst_length (s : List Bool) (l l' : C18.Link) (h : s.foldlM C18.resolveFirst l = .ok l') :
    l'.length = l.length := by
  induction s generalizing l with
  | nil => cases h; rfl
  | cons b s ih =>
    rw [List.foldlM_cons] at h
    cases hr : C18.resolveFirst l b with
    | ok l1 => rw [hr] at h; rw [ih l1 h, resolveFirst_length l b l1 hr]
    | panic => rw [hr] at h; cases h
    | err => rw [hr] at h; cases h

theorem g_seifert_circles_model_eq (l : GenLink.Link) (fuel : Nat) (hf : 4 * l.data_.length < fuel) :
    rmap (List.map toPath) (l.seifert_circles fuel) = C18.seifertCircles (toL l) := by
  rw [g_seifert_circles_eq, C18.seifertCircles, ← g_ori_pres_state_model_eq l fuel hf]
  cases l.ori_pres_state fuel with
  | ok s =>
    simp only [Res.bind_ok, rmap]
    have hs : s = (s.map bitB).map toBit := by simp [List.map_map, Function.comp_def, toBit_bitB]
    have hr := g_resolved_by_eq l (s.map bitB)
    rw [← hs] at hr
    rw [← hr]
    cases hrb : l.resolved_by s with
    | ok r =>
      simp only [Res.bind_ok, rmap]
      have hlen : r.data_.length = l.data_.length := by
        rw [hrb] at hr
        simp only [rmap, C18.resolvedBy] at hr
        split at hr
        · have := foldlM_resolveFirst_length _ _ _ hr.symm
          simpa [toL] using this
        · cases hr
      exact g_components_eq r fuel (by omega)
    | panic => rfl
    | err => rfl
  | panic => rfl
  | err => rfl

/-! ### kernel evaluation on sample diagrams -/

def mk (t : CrossingType) (a b c d : Nat) : GenLink.Crossing := ⟨t, ⟨a, b, c, d⟩⟩
/-- sample diagrams: trefoil, figure-8, Hopf link, a kink, the unknot diagram resolved, a mirrored / partly resolved trefoil,
two disjoint components one of which only passes over, a malformed code (label 1 three times), an over-only component at
mirrored crossings, an over-only component entered twice in a row at slot 3, the empty link -/
def samples : List GenLink.Link := [
  ⟨[mk .X 1 4 2 5, mk .X 3 6 4 1, mk .X 5 2 6 3]⟩,
  ⟨[mk .X 4 2 5 1, mk .X 8 6 1 5, mk .X 6 3 7 4, mk .X 2 7 3 8]⟩,
  ⟨[mk .X 4 1 3 2, mk .X 2 3 1 4]⟩,
  ⟨[mk .X 0 1 1 0]⟩,
  ⟨[mk .H 0 1 1 0]⟩,
  ⟨[mk .Xm 1 4 2 5, mk .V 3 6 4 1, mk .X 5 2 6 3]⟩,
  ⟨[mk .X 0 2 1 3, mk .X 1 3 0 2]⟩,
  ⟨[mk .Xm 0 2 1 3, mk .H 1 3 0 2, mk .X 4 5 5 4]⟩,
  ⟨[mk .X 1 1 2 1, mk .X 2 3 3 4]⟩,
  ⟨[mk .Xm 0 2 1 3, mk .Xm 1 3 0 2]⟩,
  ⟨[mk .X 0 3 1 4, mk .X 1 5 2 4, mk .X 2 3 0 5]⟩,
  ⟨[]⟩]
def fuel0 : Nat := 40
def slotsOf (l : GenLink.Link) : List (Nat × Nat) :=
  (List.range l.data_.length).flatMap fun i => (List.range 4).map fun j => (i, j)

theorem g_pass_edge_eq_samples :
    samples.all (fun l => (slotsOf l).all fun s => l.pass_edge s.1 s.2 == .ok (C18.passEdge (toL l) s.1 s.2)) = true := by
  decide +kernel
theorem g_traverse_edges_eq_samples :
    samples.all (fun l => (slotsOf l).all fun s => l.traverse_edges fuel0 s == C18.traverse (toL l) s) = true := by
  decide +kernel
theorem g_components_eq_samples :
    samples.all (fun l => rmap (List.map toPath) (l.components fuel0) == C18.components (toL l)) = true := by
  decide +kernel
theorem g_crossing_signs_eq_samples :
    samples.all (fun l => rmap (List.map toSign) (l.crossing_signs fuel0) == C18.crossingSigns (toL l)) = true := by
  decide +kernel
theorem g_writhe_eq_samples :
    samples.all (fun l => l.writhe fuel0 == C18.writhe (toL l)) = true := by
  decide +kernel
def states (n : Nat) : List (List Bool) :=
  match n with
  | 0 => [[]]
  | n + 1 => (states n).flatMap fun s => [false :: s, true :: s]
theorem g_resolved_by_eq_samples :
    samples.all (fun l => ((List.range 5).flatMap states).all fun s =>
      rmap toL (l.resolved_by (s.map toBit)) == C18.resolvedBy (toL l) s) = true := by
  decide +kernel
theorem g_seifert_circles_eq_samples :
    samples.all (fun l => rmap (List.map toPath) (l.seifert_circles fuel0) == C18.seifertCircles (toL l)) = true := by
  decide +kernel
end Yuiv.C18.GenFn
