import Yuiv.Proofs.C04MarkovR3a
/-
C04Markov (helper, no property theorem here): the braid relation (Reidemeister III) on explicit labels.
Formal symbols: `0,1,2` = incoming labels `a0,a1,a2`, `3,4,5` = outgoing labels `o0,o1,o2`, `6,7,8` = inner labels
`p,q,r`.  `ρ = rho9 …` assigns the actual labels.  Left triple `X[a0,p,q,a1] X[q,r,o2,a2] X[p,o0,o1,r]` (= σᵢσᵢ₊₁σᵢ),
right triple `X[a1,p,q,a2] X[a0,o0,r,p] X[r,o1,o2,q]` (= σᵢ₊₁σᵢσᵢ₊₁).  Each of the 8 + 8 smoothings is one of the five
Temperley–Lieb pairings of the six outer labels (possibly with one extra circle); the connectivity facts are checked by
`decide` on the numerals and transferred by `count_transfer`.
-/
open Yuiv.KhRef Yuiv.C04
namespace Yuiv.C04Inv
open Relation

variable {R : Type} [CommRing R]

abbrev F4 := Nat × Nat × Nat × Nat

def rho9 (a0 a1 a2 o0 o1 o2 p q r : Nat) (k : Nat) : Nat := [a0, a1, a2, o0, o1, o2, p, q, r].getD k 0

def all9 : List Nat := [0, 1, 2, 3, 4, 5, 6, 7, 8]
def ends6 : List Nat := [0, 1, 2, 3, 4, 5]
def inn3 : List Nat := [6, 7, 8]

/-- arcs of a formal `X` crossing: `false` = 0-resolution (`H`: 0–1, 2–3), `true` = 1-resolution (`V`: 0–3, 1–2) -/
def arcs0 (t : F4) (b : Bool) : List (Nat × Nat) :=
  if b then [(t.1, t.2.2.2), (t.2.1, t.2.2.1)] else [(t.1, t.2.1), (t.2.2.1, t.2.2.2)]

theorem arcs_pdX (ρ : Nat → Nat) (t : F4) (b : Bool) :
    arcs (pdX (map4 ρ t)) (CT.X.resolve b) = (arcs0 t b).map (pmap ρ) := by
  cases b <;> simp [arcs, arcIdx, CT.resolve, pdX, map4, arcs0, pmap]

def g3 (t6 t7 t8 : Nat) (z : Nat) : Nat := if z = 6 then t6 else if z = 7 then t7 else if z = 8 then t8 else z

/-- all decidable side conditions of `count_transfer` for the nine formal symbols -/
def okState (A0 B0 : List (Nat × Nat)) (t6 t7 t8 : Nat) (tgt0 : List Nat) : Bool :=
  decide ((∀ u ∈ all9, u ∉ inn3 → g3 t6 t7 t8 u = u) ∧ (∀ u ∈ tgt0, g3 t6 t7 t8 u = u) ∧
    (∀ u ∈ all9, g3 t6 t7 t8 u ∈ tgt0) ∧ (∀ u ∈ tgt0, u ∈ all9) ∧ (∀ p ∈ A0, p.1 ∈ all9 ∧ p.2 ∈ all9) ∧
    (∀ p ∈ A0, connB B0 (g3 t6 t7 t8 p.1) (g3 t6 t7 t8 p.2) = true) ∧ (∀ p ∈ B0, connB A0 p.1 p.2 = true) ∧
    (∀ u ∈ all9, connB A0 u (g3 t6 t7 t8 u) = true) ∧ (∀ p ∈ B0, p.1 ∈ ends6 ∧ p.2 ∈ ends6))

/-- hypotheses on the actual labels: the inner labels are different from all other labels of the nine and do not occur
in the rest of the diagram -/
structure TripLabels (ρ : Nat → Nat) (lm : Link) : Prop where
  hinj : ∀ u ∈ all9, ∀ v ∈ inn3, ρ u = ρ v → u = v
  hfresh : ∀ v ∈ inn3, ρ v ∉ labelSet lm

theorem state_count0 {A0 B0 : List (Nat × Nat)} {t6 t7 t8 : Nat} (h : okState A0 B0 t6 t7 t8 ends6 = true)
    {ρ : Nat → Nat} {lm : Link} (hwf : WF lm) (hl : TripLabels ρ lm) (s : Nat) :
    classCount ({z | z ∈ all9.map ρ} ∪ labelSet lm) (A0.map (pmap ρ) ++ statePairs lm s)
      = classCount ({z | z ∈ ends6.map ρ} ∪ labelSet lm) (B0.map (pmap ρ) ++ statePairs lm s) + 0 := by
  unfold okState at h
  obtain ⟨c1, c2, c3, c4, c5, c6, c7, c8, _⟩ := of_decide_eq_true h
  exact count_transfer ρ A0 B0 (g3 t6 t7 t8) inn3 ends6 all9 lm hwf hl.hinj hl.hfresh c1 c2 c3 c4 c5 c6 c7 c8 s

theorem state_count1 {A0 B0 : List (Nat × Nat)} (h : okState A0 B0 6 6 6 (6 :: ends6) = true)
    {ρ : Nat → Nat} {lm : Link} (hwf : WF lm) (hl : TripLabels ρ lm) (s : Nat) :
    classCount ({z | z ∈ all9.map ρ} ∪ labelSet lm) (A0.map (pmap ρ) ++ statePairs lm s)
      = classCount ({z | z ∈ ends6.map ρ} ∪ labelSet lm) (B0.map (pmap ρ) ++ statePairs lm s) + 1 := by
  unfold okState at h
  obtain ⟨c1, c2, c3, c4, c5, c6, c7, c8, c9⟩ := of_decide_eq_true h
  rw [count_transfer ρ A0 B0 (g3 6 6 6) inn3 (6 :: ends6) all9 lm hwf hl.hinj hl.hfresh c1 c2 c3 c4 c5 c6 c7 c8 s]
  refine count_isolated ρ B0 6 ends6 lm hwf (hl.hfresh 6 (by decide)) ?_ c9 s
  intro u hu e
  have hu9 : u ∈ all9 := by simp only [ends6, all9, List.mem_cons, List.mem_nil_iff, or_false] at hu ⊢; omega
  have := hl.hinj u hu9 6 (by decide) e
  subst this
  simp [ends6] at hu

/-- the state sum of a diagram whose crossing list is a permutation of `c₁ :: c₂ :: c₃ :: lm`, all three unresolved -/
theorem stateSum_perm_cons3 (x y : R) {l' lm : Link} {c₁ c₂ c₃ : Crossing} (hwf : WF l')
    (hp : l'.toList.Perm (c₁ :: c₂ :: c₃ :: lm.toList)) (h₁ : c₁.ct.isResolved = false)
    (h₂ : c₂.ct.isResolved = false) (h₃ : c₃.ct.isResolved = false) :
    stateSum x y l' =
      partSum (labelSet l') x y lm 0 (arcs c₁ (c₁.ct.resolve false) ++ arcs c₂ (c₂.ct.resolve false) ++ arcs c₃ (c₃.ct.resolve false))
      + partSum (labelSet l') x y lm 1 (arcs c₁ (c₁.ct.resolve false) ++ arcs c₂ (c₂.ct.resolve false) ++ arcs c₃ (c₃.ct.resolve true))
      + partSum (labelSet l') x y lm 1 (arcs c₁ (c₁.ct.resolve false) ++ arcs c₂ (c₂.ct.resolve true) ++ arcs c₃ (c₃.ct.resolve false))
      + partSum (labelSet l') x y lm 2 (arcs c₁ (c₁.ct.resolve false) ++ arcs c₂ (c₂.ct.resolve true) ++ arcs c₃ (c₃.ct.resolve true))
      + partSum (labelSet l') x y lm 1 (arcs c₁ (c₁.ct.resolve true) ++ arcs c₂ (c₂.ct.resolve false) ++ arcs c₃ (c₃.ct.resolve false))
      + partSum (labelSet l') x y lm 2 (arcs c₁ (c₁.ct.resolve true) ++ arcs c₂ (c₂.ct.resolve false) ++ arcs c₃ (c₃.ct.resolve true))
      + partSum (labelSet l') x y lm 2 (arcs c₁ (c₁.ct.resolve true) ++ arcs c₂ (c₂.ct.resolve true) ++ arcs c₃ (c₃.ct.resolve false))
      + partSum (labelSet l') x y lm 3 (arcs c₁ (c₁.ct.resolve true) ++ arcs c₂ (c₂.ct.resolve true) ++ arcs c₃ (c₃.ct.resolve true)) := by
  unfold stateSum
  rw [stateSum_link x y l' hwf, skein_perm _ x y hp 0 []]
  simp only [skein, h₁, h₂, h₃, Bool.false_eq_true, if_false, partSum_eq_skein, List.nil_append, Nat.zero_add]
  ring

theorem pdX_ct (t : F4) : (pdX t).ct = .X := rfl

theorem labelSet_perm_cons3 {lm l' : Link} {c₁ c₂ c₃ : Crossing} (hp : l'.toList.Perm (c₁ :: c₂ :: c₃ :: lm.toList)) :
    labelSet l' = {v | v ∈ c₁.e ∨ v ∈ c₂.e ∨ v ∈ c₃.e} ∪ labelSet lm := by
  have h1 := labelSet_perm_cons (l' := l') (lm := (c₂ :: c₃ :: lm.toList).toArray) (c := c₁) hp
  have h2 := labelSet_perm_cons2 (l' := (c₂ :: c₃ :: lm.toList).toArray) (lm := lm) (c₁ := c₂) (c₂ := c₃) (List.Perm.refl _)
  rw [h1, h2, ← Set.union_assoc]; rfl

theorem WF_of_perm_cons3 {lm l' : Link} {c₁ c₂ c₃ : Crossing} (hp : l'.toList.Perm (c₁ :: c₂ :: c₃ :: lm.toList))
    (h₁ : c₁.e.size = 4) (h₂ : c₂.e.size = 4) (h₃ : c₃.e.size = 4) (hwf : WF lm) : WF l' :=
  WF_of_perm_cons (lm := (c₂ :: c₃ :: lm.toList).toArray) hp h₁
    (WF_of_perm_cons2 (l' := (c₂ :: c₃ :: lm.toList).toArray) (lm := lm) (List.Perm.refl _) h₂ h₃ hwf)

/-- the five Temperley–Lieb pairings of the six outer symbols -/
def Bid : List (Nat × Nat) := [(0, 3), (1, 4), (2, 5)]
def BE1 : List (Nat × Nat) := [(0, 1), (3, 4), (2, 5)]
def BE2 : List (Nat × Nat) := [(0, 3), (1, 2), (4, 5)]
def BE21 : List (Nat × Nat) := [(0, 5), (1, 2), (3, 4)]
def BE12 : List (Nat × Nat) := [(0, 1), (2, 3), (4, 5)]

/-- state sum of the rest of the diagram closed up by a pairing of the six outer labels -/
noncomputable def tlSum (x y : R) (ρ : Nat → Nat) (lm : Link) (B0 : List (Nat × Nat)) : R :=
  partSum ({z | z ∈ ends6.map ρ} ∪ labelSet lm) x y lm 0 (B0.map (pmap ρ))

/-- the left triple `X[a0,p,q,a1] X[q,r,o2,a2] X[p,o0,o1,r]` -/
theorem trip_L (x y : R) {ρ : Nat → Nat} {lm l' : Link} (hwf : WF lm) (hl : TripLabels ρ lm)
    (hp : l'.toList.Perm (pdX (map4 ρ (0, 6, 7, 1)) :: pdX (map4 ρ (7, 8, 5, 2)) :: pdX (map4 ρ (6, 3, 4, 8)) :: lm.toList)) :
    stateSum x y l' = tlSum x y ρ lm Bid + (x + x + x ^ 2 * y + x ^ 3) * tlSum x y ρ lm BE1 + (x) * tlSum x y ρ lm BE2
      + x ^ 2 * tlSum x y ρ lm BE21 + x ^ 2 * tlSum x y ρ lm BE12 := by
  have hwf' : WF l' := WF_of_perm_cons3 hp rfl rfl rfl hwf
  have hL' : labelSet l' = {z | z ∈ all9.map ρ} ∪ labelSet lm := by
    rw [labelSet_perm_cons3 hp]; congr 1; ext z
    simp only [pdX, map4, all9, List.map_cons, List.map_nil, List.mem_cons, List.mem_nil_iff, or_false,
      Set.mem_ofPred_eq, List.mem_toArray]
    tauto
  rw [stateSum_perm_cons3 x y hwf' hp rfl rfl rfl, hL']
  simp only [pdX_ct, arcs_pdX, ← List.map_append]
  unfold tlSum
  rw [
    partSum_shift _ _ x y lm lm 0 0 ((arcs0 (0, 6, 7, 1) false ++ arcs0 (7, 8, 5, 2) false ++ arcs0 (6, 3, 4, 8) false).map (pmap ρ)) (Bid.map (pmap ρ)) rfl
      (state_count0 (t6 := 0) (t7 := 1) (t8 := 1) (by decide) hwf hl),
    partSum_shift _ _ x y lm lm 1 0 ((arcs0 (0, 6, 7, 1) false ++ arcs0 (7, 8, 5, 2) false ++ arcs0 (6, 3, 4, 8) true).map (pmap ρ)) (BE1.map (pmap ρ)) rfl
      (state_count0 (t6 := 0) (t7 := 1) (t8 := 0) (by decide) hwf hl),
    partSum_shift _ _ x y lm lm 1 0 ((arcs0 (0, 6, 7, 1) false ++ arcs0 (7, 8, 5, 2) true ++ arcs0 (6, 3, 4, 8) false).map (pmap ρ)) (BE2.map (pmap ρ)) rfl
      (state_count0 (t6 := 0) (t7 := 1) (t8 := 4) (by decide) hwf hl),
    partSum_shift _ _ x y lm lm 2 0 ((arcs0 (0, 6, 7, 1) false ++ arcs0 (7, 8, 5, 2) true ++ arcs0 (6, 3, 4, 8) true).map (pmap ρ)) (BE21.map (pmap ρ)) rfl
      (state_count0 (t6 := 0) (t7 := 1) (t8 := 0) (by decide) hwf hl),
    partSum_shift _ _ x y lm lm 1 0 ((arcs0 (0, 6, 7, 1) true ++ arcs0 (7, 8, 5, 2) false ++ arcs0 (6, 3, 4, 8) false).map (pmap ρ)) (BE1.map (pmap ρ)) rfl
      (state_count0 (t6 := 3) (t7 := 3) (t8 := 3) (by decide) hwf hl),
    partSum_shift _ _ x y lm lm 2 1 ((arcs0 (0, 6, 7, 1) true ++ arcs0 (7, 8, 5, 2) false ++ arcs0 (6, 3, 4, 8) true).map (pmap ρ)) (BE1.map (pmap ρ)) rfl
      (state_count1 (by decide) hwf hl),
    partSum_shift _ _ x y lm lm 2 0 ((arcs0 (0, 6, 7, 1) true ++ arcs0 (7, 8, 5, 2) true ++ arcs0 (6, 3, 4, 8) false).map (pmap ρ)) (BE12.map (pmap ρ)) rfl
      (state_count0 (t6 := 3) (t7 := 3) (t8 := 4) (by decide) hwf hl),
    partSum_shift _ _ x y lm lm 3 0 ((arcs0 (0, 6, 7, 1) true ++ arcs0 (7, 8, 5, 2) true ++ arcs0 (6, 3, 4, 8) true).map (pmap ρ)) (BE1.map (pmap ρ)) rfl
      (state_count0 (t6 := 2) (t7 := 2) (t8 := 2) (by decide) hwf hl)]
  ring

/-- the right triple `X[a1,p,q,a2] X[a0,o0,r,p] X[r,o1,o2,q]` -/
theorem trip_R (x y : R) {ρ : Nat → Nat} {lm l' : Link} (hwf : WF lm) (hl : TripLabels ρ lm)
    (hp : l'.toList.Perm (pdX (map4 ρ (1, 6, 7, 2)) :: pdX (map4 ρ (0, 3, 8, 6)) :: pdX (map4 ρ (8, 4, 5, 7)) :: lm.toList)) :
    stateSum x y l' = tlSum x y ρ lm Bid + (x) * tlSum x y ρ lm BE1 + (x + x + x ^ 2 * y + x ^ 3) * tlSum x y ρ lm BE2
      + x ^ 2 * tlSum x y ρ lm BE21 + x ^ 2 * tlSum x y ρ lm BE12 := by
  have hwf' : WF l' := WF_of_perm_cons3 hp rfl rfl rfl hwf
  have hL' : labelSet l' = {z | z ∈ all9.map ρ} ∪ labelSet lm := by
    rw [labelSet_perm_cons3 hp]; congr 1; ext z
    simp only [pdX, map4, all9, List.map_cons, List.map_nil, List.mem_cons, List.mem_nil_iff, or_false,
      Set.mem_ofPred_eq, List.mem_toArray]
    tauto
  rw [stateSum_perm_cons3 x y hwf' hp rfl rfl rfl, hL']
  simp only [pdX_ct, arcs_pdX, ← List.map_append]
  unfold tlSum
  rw [
    partSum_shift _ _ x y lm lm 0 0 ((arcs0 (1, 6, 7, 2) false ++ arcs0 (0, 3, 8, 6) false ++ arcs0 (8, 4, 5, 7) false).map (pmap ρ)) (Bid.map (pmap ρ)) rfl
      (state_count0 (t6 := 1) (t7 := 2) (t8 := 1) (by decide) hwf hl),
    partSum_shift _ _ x y lm lm 1 0 ((arcs0 (1, 6, 7, 2) false ++ arcs0 (0, 3, 8, 6) false ++ arcs0 (8, 4, 5, 7) true).map (pmap ρ)) (BE2.map (pmap ρ)) rfl
      (state_count0 (t6 := 1) (t7 := 1) (t8 := 1) (by decide) hwf hl),
    partSum_shift _ _ x y lm lm 1 0 ((arcs0 (1, 6, 7, 2) false ++ arcs0 (0, 3, 8, 6) true ++ arcs0 (8, 4, 5, 7) false).map (pmap ρ)) (BE1.map (pmap ρ)) rfl
      (state_count0 (t6 := 0) (t7 := 2) (t8 := 3) (by decide) hwf hl),
    partSum_shift _ _ x y lm lm 2 0 ((arcs0 (1, 6, 7, 2) false ++ arcs0 (0, 3, 8, 6) true ++ arcs0 (8, 4, 5, 7) true).map (pmap ρ)) (BE12.map (pmap ρ)) rfl
      (state_count0 (t6 := 0) (t7 := 3) (t8 := 3) (by decide) hwf hl),
    partSum_shift _ _ x y lm lm 1 0 ((arcs0 (1, 6, 7, 2) true ++ arcs0 (0, 3, 8, 6) false ++ arcs0 (8, 4, 5, 7) false).map (pmap ρ)) (BE2.map (pmap ρ)) rfl
      (state_count0 (t6 := 4) (t7 := 4) (t8 := 4) (by decide) hwf hl),
    partSum_shift _ _ x y lm lm 2 1 ((arcs0 (1, 6, 7, 2) true ++ arcs0 (0, 3, 8, 6) false ++ arcs0 (8, 4, 5, 7) true).map (pmap ρ)) (BE2.map (pmap ρ)) rfl
      (state_count1 (by decide) hwf hl),
    partSum_shift _ _ x y lm lm 2 0 ((arcs0 (1, 6, 7, 2) true ++ arcs0 (0, 3, 8, 6) true ++ arcs0 (8, 4, 5, 7) false).map (pmap ρ)) (BE21.map (pmap ρ)) rfl
      (state_count0 (t6 := 0) (t7 := 0) (t8 := 3) (by decide) hwf hl),
    partSum_shift _ _ x y lm lm 3 0 ((arcs0 (1, 6, 7, 2) true ++ arcs0 (0, 3, 8, 6) true ++ arcs0 (8, 4, 5, 7) true).map (pmap ρ)) (BE2.map (pmap ρ)) rfl
      (state_count0 (t6 := 0) (t7 := 0) (t8 := 0) (by decide) hwf hl)]
  ring

/-- the two triples have the same state sum as soon as `1 + x·y + x² = 0` -/
theorem trip_eq (x y : R) (hxy : 1 + x * y + x ^ 2 = 0) {ρ : Nat → Nat} {lm l₁ l₂ : Link} (hwf : WF lm)
    (hl : TripLabels ρ lm)
    (hp₁ : l₁.toList.Perm (pdX (map4 ρ (0, 6, 7, 1)) :: pdX (map4 ρ (7, 8, 5, 2)) :: pdX (map4 ρ (6, 3, 4, 8)) :: lm.toList))
    (hp₂ : l₂.toList.Perm (pdX (map4 ρ (1, 6, 7, 2)) :: pdX (map4 ρ (0, 3, 8, 6)) :: pdX (map4 ρ (8, 4, 5, 7)) :: lm.toList)) :
    stateSum x y l₁ = stateSum x y l₂ := by
  rw [trip_L x y hwf hl hp₁, trip_R x y hwf hl hp₂]
  have e : x + x + x ^ 2 * y + x ^ 3 = x + x * (1 + x * y + x ^ 2) := by ring
  rw [e, hxy]
  ring

end Yuiv.C04Inv
