import Yuiv.Proofs.C06CycleCirc
import Yuiv.Proofs.KhSpecSort
/-
C06Walk — the ORDER in which `KhRef.circles` lists its output (helper, no property theorem here).

  * `edgeLabels_sorted` : `edgeLabels l` is strictly increasing (core `Array.qsort` sorts + no duplicates);
  * `LeInv comp n`      : `∀ x < n, comp[x]! ≤ x` — true for `Array.range`, preserved by `mergeStep` (which replaces the
                          value `max a b` by `min a b`), hence true for `unionAll`; a root `r` (`comp[r]! = r`) is then
                          the LEAST index of its class;
  * `circL_sorted`, `circL_head`, `roots_sorted` : for strictly increasing `labels` and `LeInv comp labels.size`, the list
                          `circL labels comp r` of a root `r` is strictly increasing and starts with `labels[r]!`, and the
                          roots are listed increasingly;
  * `circles_sorted`    : every circle of `circles l (edgeLabels l) s` is strictly increasing and the circles are listed
                          by strictly increasing first (= least) label.  (Well-formedness of `l` is not needed.)
-/
namespace Yuiv.C06Walk
open Yuiv Yuiv.KhRef Yuiv.C04Inv Yuiv.C06Cycle

/-! ### `edgeLabels` is strictly increasing -/

theorem edgeLabels_sorted (l : Link) : (edgeLabels l).toList.Pairwise (· < ·) := by
  have hle : (edgeLabels l).toList.Pairwise (fun a b => a ≤ b) := by
    rw [edgeLabels_eq]
    exact KhSpec.qsort_sorted_key (fun a : Nat => a) (preLabels l)
  have hnd : (edgeLabels l).toList.Pairwise (· ≠ ·) := edgeLabels_nodup l
  exact (hle.and hnd).imp (fun h => Nat.lt_of_le_of_ne h.1 h.2)

/-! ### the component array never points upwards -/

/-- every index points to an index not above itself -/
def LeInv (comp : Array Nat) (n : Nat) : Prop := ∀ x, x < n → comp[x]! ≤ x

theorem LeInv.init (n : Nat) : LeInv (Array.range n) n := by
  intro x hx
  rw [getElem!_pos _ x (by simpa using hx)]
  simp

theorem LeInv.step {comp : Array Nat} {n : Nat} (h : LeInv comp n) (a b : Nat) : LeInv (mergeStep comp a b) n := by
  intro x hx
  have := h x hx
  rw [mergeStep_get]
  split
  · rename_i hc
    have := Nat.min_le_left comp[a]! comp[b]!
    have := Nat.le_max_left comp[a]! comp[b]!
    omega
  · exact this

theorem LeInv.unionPairs {n : Nat} (labels : Array Nat) (P : List (Nat × Nat)) {comp : Array Nat}
    (h : LeInv comp n) : LeInv (unionPairs labels P comp) n := by
  induction P generalizing comp with
  | nil => simpa [C04Inv.unionPairs] using h
  | cons p P ih =>
    have := ih (h.step (indexOf labels p.1) (indexOf labels p.2))
    simpa [C04Inv.unionPairs] using this

theorem leInv_unionAll (l : Link) (labels : Array Nat) (s : Nat) :
    LeInv (unionAll l labels (resolvedTypes l s)) labels.size := by
  rw [unionAll_eq _ _ _ (resolvedTypes_size l s).symm]
  exact (LeInv.init labels.size).unionPairs labels _

/-! ### order of one circle, order of the roots -/

theorem getElem!_lt_of_sorted {labels : Array Nat} (hs : labels.toList.Pairwise (· < ·)) {x y : Nat}
    (hxy : x < y) (hy : y < labels.size) : labels[x]! < labels[y]! := by
  have hx : x < labels.size := by omega
  rw [getElem!_pos labels x hx, getElem!_pos labels y hy]
  have := (List.pairwise_iff_getElem.mp hs) x y (by simpa using hx) (by simpa using hy) hxy
  simpa using this

theorem range'_sorted (n : Nat) : (List.range' 0 n).Pairwise (· < ·) := by
  have := List.pairwise_lt_range' (s := 0) (n := n) (step := 1) (by omega)
  exact this

/-- every circle is strictly increasing -/
theorem circL_sorted {labels : Array Nat} (hs : labels.toList.Pairwise (· < ·)) (comp : Array Nat) (r : Nat) :
    (circL labels comp r).Pairwise (· < ·) := by
  unfold circL
  rw [List.pairwise_map]
  have h1 : ((List.range' 0 labels.size).filter (fun x => decide (comp[x]! = r))).Pairwise
      (fun a b => a < b ∧ b < labels.size) := by
    apply List.Pairwise.filter
    have h2 := range'_sorted labels.size
    have h3 : (List.range' 0 labels.size).Pairwise (fun _ b => b < labels.size) := by
      rw [List.pairwise_iff_forall_sublist]
      intro a b hab
      have : b ∈ List.range' 0 labels.size := hab.subset (by simp)
      simpa [List.mem_range'] using this
    exact h2.and h3
  exact h1.imp (fun h => getElem!_lt_of_sorted hs h.1 h.2)

/-- the index list of the circle of a root `r` starts with `r` -/
theorem filter_root {comp : Array Nat} {n r : Nat} (hle : LeInv comp n) (hr : r < n) (hcr : comp[r]! = r) :
    (List.range' 0 n).filter (fun x => decide (comp[x]! = r))
      = r :: (List.range' (r + 1) (n - (r + 1))).filter (fun x => decide (comp[x]! = r)) := by
  have e : List.range' 0 n = List.range' 0 r ++ (r :: List.range' (r + 1) (n - (r + 1))) := by
    have h1 : List.range' 0 n = List.range' 0 r ++ List.range' (0 + r) (n - r) := by
      rw [List.range'_append_1]; congr 1; omega
    have h2 : List.range' (0 + r) (n - r) = r :: List.range' (r + 1) (n - (r + 1)) := by
      have : n - r = (n - (r + 1)) + 1 := by omega
      rw [this, List.range'_succ]; simp
    rw [h1, h2]
  rw [e, List.filter_append]
  have h0 : (List.range' 0 r).filter (fun x => decide (comp[x]! = r)) = [] := by
    rw [List.filter_eq_nil_iff]
    intro x hx
    have hx' : x < r := by simpa [List.mem_range'] using hx
    have := hle x (by omega)
    simp; omega
  rw [h0, List.nil_append, List.filter_cons]
  simp [hcr]

/-- the circle of a root `r` starts with `labels[r]!` -/
theorem circL_head {labels comp : Array Nat} {r : Nat} (hle : LeInv comp labels.size) (hr : r < labels.size)
    (hcr : comp[r]! = r) : ∃ t, circL labels comp r = labels[r]! :: t := by
  unfold circL
  rw [filter_root hle hr hcr]
  exact ⟨_, rfl⟩

theorem roots_sorted (comp : Array Nat) (m : Nat) : (roots comp m).Pairwise (· < ·) :=
  (range'_sorted m).filter _

/-- abstract form: strictly increasing labels, a component array that never points upwards -/
theorem out_sorted {labels comp : Array Nat} (hs : labels.toList.Pairwise (· < ·)) (hle : LeInv comp labels.size)
    (cs : Array (Array Nat))
    (hcs : cs = ((roots comp labels.size).map (fun r => (circL labels comp r).toArray)).toArray) :
    (∀ i, i < cs.size → (cs[i]!).toList.Pairwise (· < ·)) ∧
    (∀ i j, i < j → j < cs.size → (cs[i]!)[0]! < (cs[j]!)[0]!) := by
  have hsz : cs.size = (roots comp labels.size).length := by rw [hcs]; simp
  have hget : ∀ i (hi : i < (roots comp labels.size).length),
      cs[i]! = (circL labels comp (roots comp labels.size)[i]).toArray := by
    intro i hi
    rw [getElem!_pos cs i (by omega)]
    subst hcs
    simp
  have hhead : ∀ i (hi : i < (roots comp labels.size).length),
      (cs[i]!)[0]! = labels[(roots comp labels.size)[i]]! := by
    intro i hi
    obtain ⟨hr, hcr⟩ := (mem_roots _ _ _).mp (List.getElem_mem hi)
    obtain ⟨t, ht⟩ := circL_head hle hr hcr
    rw [hget i hi, ht]
    simp
  refine ⟨?_, ?_⟩
  · intro i hi
    rw [hsz] at hi
    rw [hget i hi]
    exact circL_sorted hs comp _
  · intro i j hij hj
    rw [hsz] at hj
    have hi : i < (roots comp labels.size).length := by omega
    rw [hhead i hi, hhead j hj]
    have hlt : (roots comp labels.size)[i] < (roots comp labels.size)[j] :=
      (List.pairwise_iff_getElem.mp (roots_sorted comp labels.size)) i j hi hj hij
    exact getElem!_lt_of_sorted hs hlt ((mem_roots _ _ _).mp (List.getElem_mem hj)).1

/-! ### the order of `KhRef.circles` -/

/-- `circles_sorted` without the (unnecessary) well-formedness hypothesis -/
theorem circles_sorted' (l : Link) (s : Nat) :
    (∀ i, i < (circles l (edgeLabels l) s).size →
      ((circles l (edgeLabels l) s)[i]!).toList.Pairwise (· < ·)) ∧
    (∀ i j, i < j → j < (circles l (edgeLabels l) s).size →
      ((circles l (edgeLabels l) s)[i]!)[0]! < ((circles l (edgeLabels l) s)[j]!)[0]!) :=
  out_sorted (edgeLabels_sorted l) (leInv_unionAll l (edgeLabels l) s) _ (circles_eq l (edgeLabels l) s)

/-- every circle is listed increasingly, and the circles are listed by increasing first (= least) label -/
theorem circles_sorted (l : Link) (_hwf : C04Inv.WF l) (s : Nat) :
    (∀ i, i < (circles l (edgeLabels l) s).size →
      ((circles l (edgeLabels l) s)[i]!).toList.Pairwise (· < ·)) ∧
    (∀ i j, i < j → j < (circles l (edgeLabels l) s).size →
      ((circles l (edgeLabels l) s)[i]!)[0]! < ((circles l (edgeLabels l) s)[j]!)[0]!) :=
  circles_sorted' l s

end Yuiv.C06Walk
