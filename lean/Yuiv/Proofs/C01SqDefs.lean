import Yuiv.Proofs.C02MirrorDual
import Yuiv.Proofs.C06CycleHash
/-
C01Sq — shared definitions for `d ∘ d = 0` of the reference cube (`Props/C01Sq.lean`).

Vocabulary.  A circle list `cs : Circ` is a list of circle NAMES (`Name = Array Nat`, the sorted label list of the
circle); the unsigned edge map `C02Mirror.edgeTerms h t cs cs' m` depends on the two lists only (which names are
common, which are gone, which are born).  Labellings are masks (`m.testBit i` = label of circle `i`); `val cs m c`
reads the label of the circle NAMED `c`, so labellings of different states can be compared by name.

  * `Edge`, `MergeRel`, `IsEdge` : an edge is a merge `g0, g1 ↦ b` or a split `g ↦ b0, b1` of names;
  * `ecoef`, `pathF`  : coefficient of one edge / of a path of two edges, on name-indexed labellings;
  * `pathSum`         : the same path coefficient computed from the reference's term lists (masks);
  * `FaceComm`        : all faces of the cube commute (unsigned).
-/
namespace Yuiv.C01Sq
open Yuiv Yuiv.KhRef
open Yuiv.C02Mirror (Circ ix Pair prodCoef coprodCoef edgeCoef)

abbrev Name := Array Nat

/-- label (`true` = X) of the circle named `c` in the labelling `m` of `cs` -/
def val (cs : Circ) (m : Nat) (c : Name) : Bool := m.testBit (ix cs c)

/-- override one value -/
def ov (f : Name → Bool) (b : Name) (y : Bool) : Name → Bool := fun c => if c = b then y else f c

inductive Edge where
  | merge (g0 g1 b : Name)
  | split (g b0 b1 : Name)

/-- `cs'` = `cs` without `g0`, `g1`, plus the new name `b` -/
structure MergeRel (cs cs' : Circ) (g0 g1 b : Name) : Prop where
  m0 : g0 ∈ cs
  m1 : g1 ∈ cs
  ne : g0 ≠ g1
  nb : b ∉ cs
  mem : ∀ c, c ∈ cs' ↔ (c = b ∨ (c ∈ cs ∧ c ≠ g0 ∧ c ≠ g1))

/-- the edge `cs → cs'` is the merge / split `e` (a split is a merge read backwards) -/
def IsEdge (cs cs' : Circ) : Edge → Prop
  | .merge g0 g1 b => MergeRel cs cs' g0 g1 b
  | .split g b0 b1 => MergeRel cs' cs b0 b1 g

/-- `f'` agrees with `f` on the names common to `cs` and `cs'` -/
def compatB (cs cs' : Circ) (f f' : Name → Bool) : Bool := cs.all (fun c => !cs'.contains c || f' c == f c)

/-- the structure constant of the edge -/
def loc (h t : Int) (e : Edge) (f f' : Name → Bool) : Int :=
  match e with
  | .merge g0 g1 b => prodCoef h t (f g0) (f g1) (f' b)
  | .split g b0 b1 => coprodCoef h t (f g) (f' b0) (f' b1)

/-- coefficient of the labelling `f'` of `cs'` in the image of the labelling `f` of `cs` under the edge `e` -/
def ecoef (h t : Int) (cs cs' : Circ) (e : Edge) (f f' : Name → Bool) : Int :=
  if compatB cs cs' f f' then loc h t e f f' else 0

/-- coefficient of `f''` (labelling of `cs2`) in the image of `f` under the edge `e1` (into `cs1`) followed by the
edge `e2 : cs1 → cs2`: sum over the labels of the circles born at `e1` -/
def pathF (h t : Int) (cs1 cs2 : Circ) (e1 e2 : Edge) (f f'' : Name → Bool) : Int :=
  match e1 with
  | .merge g0 g1 b =>
    ([true, false].map (fun y => prodCoef h t (f g0) (f g1) y * ecoef h t cs1 cs2 e2 (ov f b y) f'')).sum
  | .split g b0 b1 =>
    ([true, false].flatMap (fun y1 => [true, false].map (fun y2 =>
      coprodCoef h t (f g) y1 y2 * ecoef h t cs1 cs2 e2 (ov (ov f b0 y1) b1 y2) f''))).sum

/-- the path coefficient computed from the reference's term lists: `Σ over the terms (m', a) of the first edge map of
a · (coefficient of m'' in the second edge map of m')` -/
def pathSum (h t : Int) (cs0 cs1 cs2 : Circ) (m m'' : Nat) : Int :=
  (((C02Mirror.edgeTerms h t cs0 cs1 m).getD []).map (fun mc => mc.2 * edgeCoef h t cs1 cs2 mc.1 m'')).sum

/-- every face of the cube commutes (unsigned edge maps) -/
def FaceComm (c : Cube) (p : Params) : Prop :=
  ∀ s a b, s < 2 ^ c.n → a < c.n → b < c.n → a ≠ b → s.testBit a = false → s.testBit b = false →
    ∀ m m'', pathSum p.h p.t c.circ[s]! c.circ[s ||| 1 <<< a]! c.circ[(s ||| 1 <<< a) ||| 1 <<< b]! m m'' =
             pathSum p.h p.t c.circ[s]! c.circ[s ||| 1 <<< b]! c.circ[(s ||| 1 <<< a) ||| 1 <<< b]! m m''

end Yuiv.C01Sq
