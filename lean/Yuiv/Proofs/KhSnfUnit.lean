import Yuiv.Proofs.KhSnfDefs
/-
KhSnf — one round `KhRef.unitStep` of the unit-pivot elimination of `KhRef.smithInvariants`, semantically.

  * `unitStep_eq`     : the two `for` loops of `unitStep` as folds (`bestStep`: pivot search, `elimStep`: elimination);
  * `unitStep_struct` : a successful round has a pivot `(i, j)` with value `u`, found by `find?` in row `i`, and the
                        new rows are `newRow k` for the kept indices `keptIdx` (those `k ≠ i` with non-empty new row);
  * `unitStep_size`   : every round removes at least one row;
  * `unitStep_spec`   : on well-formed rows, given the specifications of `rowGet` and `rowAxpy` (the latter only for
                        factors `≠ 0`, as it is called), the new rows are `rows[k] − rows[k][j]·u·rows[i]`, well-formed and
                        non-empty, and the dropped ones are zero;
  * small facts about `rval` on well-formed rows (`UnitStep.rval_mem`, `UnitStep.rval_zero_iff`).
Helpers live in the namespace `Yuiv.KhSnf.UnitStep`.
-/
namespace Yuiv.KhSnf
open Yuiv Yuiv.KhRef

namespace UnitStep   -- helper definitions and lemmas (own namespace: no clashes with the sibling `KhSnf*` files)

/-- body of the pivot-search loop of `unitStep` -/
def bestStep (rows : Array Row) (best : Option (Nat × Nat × Nat × Int)) (i : Nat) : Option (Nat × Nat × Nat × Int) :=
  if (match best with
      | some (len, _, _, _) => decide (Array.size rows[i]! < len)
      | none => true) = true then
    match Array.find? (fun x => x.2 == 1 || x.2 == -1) rows[i]! with
    | some (c, v) => some (Array.size rows[i]!, i, c, v)
    | none => best
  else best

/-- the new row `k` of `unitStep` with pivot `(i, j)`, pivot value `u` -/
def newRow (rows : Array Row) (i j : Nat) (u : Int) (k : Nat) : Row :=
  if (rowGet rows[k]! j == 0) = true then rows[k]! else rowAxpy rows[k]! (-(rowGet rows[k]! j * u)) rows[i]!

/-- body of the elimination loop of `unitStep` -/
def elimStep (rows : Array Row) (i j : Nat) (u : Int) (next : Array Row) (k : Nat) : Array Row :=
  if (k != i) = true then
    if (newRow rows i j u k).size > 0 then next.push (newRow rows i j u k) else next
  else next

theorem id_forIn_yield' {α β} (l : List α) (b : β) (g : β → α → β) (f : α → β → Id (ForInStep β))
    (h : ∀ a b, f a b = pure (ForInStep.yield (g b a))) :
    (forIn l b f) = l.foldl g b := by
  induction l generalizing b with
  | nil => rfl
  | cons a l ih => simp [h, ih]

theorem unitStep_eq (rows : Array Row) : unitStep rows =
    match (List.range' 0 rows.size).foldl (bestStep rows) none with
    | none => none
    | some (_, i, j, u) => some ((List.range' 0 rows.size).foldl (elimStep rows i j u) #[]) := by
  unfold unitStep
  simp only [Std.Legacy.Range.forIn_eq_forIn_range', Std.Legacy.Range.size, Nat.sub_zero, Nat.add_sub_cancel, Nat.div_one]
  rw [id_forIn_yield' (g := bestStep rows)]
  · simp only [bind_pure_comp, Id.run_bind]
    split
    · rename_i h
      have h' : List.foldl (bestStep rows) none (List.range' 0 rows.size) = none := h
      rw [h']; rfl
    · rename_i len i j u h
      have h' : List.foldl (bestStep rows) none (List.range' 0 rows.size) = some (len, i, j, u) := h
      rw [h']
      rw [id_forIn_yield' (g := elimStep rows i j u)]
      · rfl
      · intro a b; unfold elimStep newRow
        by_cases h1 : (a != i) = true
        · simp only [h1, if_true]
          split <;> split <;> rfl
        · simp only [h1]; rfl
  · intro a b; unfold bestStep
    rcases b with _ | ⟨len, i', j', u'⟩
    · cases hf : Array.find? (fun x => x.2 == 1 || x.2 == -1) rows[a]! <;> rfl
    · by_cases hd : Array.size rows[a]! < len
      · cases hf : Array.find? (fun x => x.2 == 1 || x.2 == -1) rows[a]! <;> simp [hd]
      · simp [hd]

theorem bestStep_cases (rows : Array Row) (b : Option (Nat × Nat × Nat × Int)) (a : Nat) :
    bestStep rows b a = b ∨ ∃ c v, Array.find? (fun x => x.2 == 1 || x.2 == -1) rows[a]! = some (c, v) ∧
      bestStep rows b a = some (Array.size rows[a]!, a, c, v) := by
  unfold bestStep
  by_cases h1 : (match b with
      | some (len, _, _, _) => decide (Array.size rows[a]! < len)
      | none => true) = true
  · rw [if_pos h1]
    cases hf : Array.find? (fun x => x.2 == 1 || x.2 == -1) rows[a]! with
    | none => left; rfl
    | some cv => right; exact ⟨cv.1, cv.2, rfl, rfl⟩
  · rw [if_neg h1]; left; rfl

/-- the pivot found by the search loop is a ±1 entry of an existing row -/
theorem bestStep_fold (rows : Array Row) (l : List Nat) (hl : ∀ x ∈ l, x < rows.size)
    (b : Option (Nat × Nat × Nat × Int))
    (hb : ∀ len i j u, b = some (len, i, j, u) →
      i < rows.size ∧ Array.find? (fun x => x.2 == 1 || x.2 == -1) rows[i]! = some (j, u)) :
    ∀ len i j u, l.foldl (bestStep rows) b = some (len, i, j, u) →
      i < rows.size ∧ Array.find? (fun x => x.2 == 1 || x.2 == -1) rows[i]! = some (j, u) := by
  induction l generalizing b with
  | nil => simpa using hb
  | cons a l ih =>
    rw [List.foldl_cons]
    apply ih (fun x hx => hl x (List.mem_cons_of_mem _ hx))
    intro len i j u h
    rcases bestStep_cases rows b a with h1 | ⟨c, v, hf, h1⟩
    · rw [h1] at h; exact hb _ _ _ _ h
    · rw [h1] at h
      injection h with h; injection h with h1 h; injection h with h2 h; injection h with h3 h4
      subst h2 h3 h4
      exact ⟨hl _ List.mem_cons_self, hf⟩

theorem elimStep_fold (rows : Array Row) (i j : Nat) (u : Int) (l : List Nat) (acc : Array Row) :
    (l.foldl (elimStep rows i j u) acc).toList = acc.toList ++
      (l.filter (fun k => k != i && decide (0 < (newRow rows i j u k).size))).map (newRow rows i j u) := by
  induction l generalizing acc with
  | nil => simp
  | cons a l ih =>
    rw [List.foldl_cons, ih]
    unfold elimStep
    by_cases h1 : (a != i) = true
    · by_cases h2 : 0 < (newRow rows i j u a).size
      · simp [h1, h2]
      · simp [h1, h2]
    · simp [h1]

/-- the row indices kept by `unitStep` with pivot `(i, j)`, value `u` -/
def keptIdx (rows : Array Row) (i j : Nat) (u : Int) : List Nat :=
  (List.range rows.size).filter (fun k => k != i && decide (0 < (newRow rows i j u k).size))

/-- structure of a successful round -/
theorem unitStep_struct (rows next : Array Row) (h : unitStep rows = some next) :
    ∃ (i j : Nat) (u : Int), i < rows.size ∧ Array.find? (fun x => x.2 == 1 || x.2 == -1) rows[i]! = some (j, u) ∧
      next.toList = (keptIdx rows i j u).map (newRow rows i j u) := by
  rw [unitStep_eq] at h
  split at h
  · exact absurd h (by simp)
  · rename_i len i j u hb
    have := bestStep_fold rows (List.range' 0 rows.size) (by simp) none (by simp) len i j u hb
    refine ⟨i, j, u, this.1, this.2, ?_⟩
    injection h with h
    rw [← h, elimStep_fold, keptIdx, List.range_eq_range']
    simp

end UnitStep
open UnitStep

/-- every successful round removes at least one row -/
theorem unitStep_size (rows next : Array Row) (h : unitStep rows = some next) : next.size < rows.size := by
  obtain ⟨i, j, u, hi, _, hn⟩ := unitStep_struct rows next h
  have h1 : next.size = (keptIdx rows i j u).length := by
    rw [← Array.length_toList, hn, List.length_map]
  have h2 : (keptIdx rows i j u).length < (List.range rows.size).length := by
    unfold keptIdx
    rw [List.length_filter_lt_length_iff_exists]
    exact ⟨i, by simpa using hi, by simp⟩
  rw [h1]; simpa using h2

namespace UnitStep

/-! ### values of well-formed rows -/

theorem lval_notmem (l : List (Nat × Int)) (c : Nat) (h : ∀ x ∈ l, x.1 ≠ c) :
    ((l.filter (fun x => x.1 == c)).map (fun x => x.2)).sum = 0 := by
  have : l.filter (fun x => x.1 == c) = [] := by
    rw [List.filter_eq_nil_iff]; intro x hx; simpa using h x hx
  rw [this]; rfl

theorem lval_mem (l : List (Nat × Int)) (hp : l.Pairwise (fun x y => x.1 < y.1)) (x : Nat × Int) (hx : x ∈ l) :
    ((l.filter (fun y => y.1 == x.1)).map (fun y => y.2)).sum = x.2 := by
  induction l with
  | nil => cases hx
  | cons y t ih =>
    rw [List.pairwise_cons] at hp
    rcases List.mem_cons.1 hx with rfl | hx'
    · rw [List.filter_cons_of_pos (by simp), List.map_cons, List.sum_cons,
        lval_notmem t x.1 (fun z hz => by have := hp.1 z hz; omega)]
      simp
    · have := hp.1 x hx'
      rw [List.filter_cons_of_neg (by simp; omega)]
      exact ih hp.2 hx'

theorem rval_mem {n : Nat} {r : Row} (h : RowOK n r) (x : Nat × Int) (hx : x ∈ r.toList) : rval r x.1 = x.2 :=
  lval_mem r.toList h.1 x hx

theorem rval_of_size_zero (r : Row) (h : r.size = 0) (c : Nat) : rval r c = 0 := by
  have : r = #[] := Array.eq_empty_of_size_eq_zero h
  subst this; rfl

theorem exists_rval_ne_zero {n : Nat} {r : Row} (h : RowOK n r) (hs : 0 < r.size) : ∃ c, rval r c ≠ 0 := by
  have hm : r[0] ∈ r.toList := by simp
  exact ⟨r[0].1, by rw [rval_mem h _ hm]; exact h.2.1 _ hm⟩

theorem rval_zero_iff {n : Nat} {r : Row} (h : RowOK n r) : (∀ c, rval r c = 0) ↔ r.size = 0 := by
  constructor
  · intro hz
    by_contra hne
    obtain ⟨c, hc⟩ := exists_rval_ne_zero h (Nat.pos_of_ne_zero hne)
    exact hc (hz c)
  · exact rval_of_size_zero r

theorem getD_of_lt (l : List Nat) (p : Nat) (hp : p < l.length) : l.getD p 0 = l[p] := by simp [hp]

theorem getElem!_ok {n : Nat} {rows : Array Row} (hok : ∀ r ∈ rows.toList, RowOK n r) (k : Nat) (hk : k < rows.size) :
    RowOK n rows[k]! := by
  rw [getElem!_pos rows k hk]
  exact hok _ (by simp)

/-- the new row `k`: well-formed, and `rows[k] − rows[k][j]·u·rows[i]` -/
theorem newRow_spec (hg : RowGetSpec) (ha : ∀ (n : Nat) (a b : Row) (k : Int), k ≠ 0 → RowOK n a → RowOK n b →
      RowOK n (rowAxpy a k b) ∧ ∀ c, rval (rowAxpy a k b) c = rval a c + k * rval b c)
    (n : Nat) (rows : Array Row) (hok : ∀ r ∈ rows.toList, RowOK n r) (i j : Nat) (u : Int) (hi : i < rows.size)
    (hu : u = 1 ∨ u = -1) (k : Nat) (hk : k < rows.size) :
    RowOK n (newRow rows i j u k) ∧
      ∀ c, rval (newRow rows i j u k) c = rval rows[k]! c - rval rows[k]! j * u * rval rows[i]! c := by
  have hkk := getElem!_ok hok k hk
  have hii := getElem!_ok hok i hi
  unfold newRow
  rw [hg n _ j hkk]
  by_cases h0 : rval rows[k]! j = 0
  · rw [if_pos (by simpa using h0)]
    refine ⟨hkk, fun c => ?_⟩
    rw [h0]; simp
  · rw [if_neg (by simpa using h0)]
    have hne : -(rval rows[k]! j * u) ≠ 0 := by
      rcases hu with rfl | rfl <;> simpa using h0
    obtain ⟨h1, h2⟩ := ha n _ _ _ hne hkk hii
    refine ⟨h1, fun c => ?_⟩
    rw [h2]; ring

end UnitStep
open UnitStep

/-- one successful round `unitStep rows = some next` on well-formed rows: there is a pivot `(i, j)` with value `u = ±1`; `next`
consists of the rows `rows[k] − rows[k][j]·u·rows[i]` for the indices `k ∈ idx` (increasing, `≠ i`), all well-formed and
non-empty; for the other `k ≠ i` that combination is zero. (`ha` is `RowAxpySpec` restricted to factors `≠ 0`.) -/
theorem unitStep_spec (hg : RowGetSpec) (ha : ∀ (n : Nat) (a b : Row) (k : Int), k ≠ 0 → RowOK n a → RowOK n b →
      RowOK n (rowAxpy a k b) ∧ ∀ c, rval (rowAxpy a k b) c = rval a c + k * rval b c)
    (n : Nat) (rows next : Array Row) (hok : ∀ r ∈ rows.toList, RowOK n r) (h : unitStep rows = some next) :
    ∃ (i j : Nat) (u : Int) (idx : List Nat), i < rows.size ∧ j < n ∧ (u = 1 ∨ u = -1) ∧ rval rows[i]! j = u ∧
      (∀ r ∈ next.toList, RowOK n r ∧ 0 < r.size) ∧
      idx.Pairwise (· < ·) ∧ (∀ k ∈ idx, k < rows.size ∧ k ≠ i) ∧ next.size = idx.length ∧
      (∀ p, p < idx.length → ∀ c, rval next[p]! c = rval rows[idx.getD p 0]! c - rval rows[idx.getD p 0]! j * u * rval rows[i]! c) ∧
      (∀ k, k < rows.size → k ≠ i → k ∉ idx → ∀ c, rval rows[k]! c - rval rows[k]! j * u * rval rows[i]! c = 0) := by
  obtain ⟨i, j, u, hi, hf, hn⟩ := unitStep_struct rows next h
  have hii := getElem!_ok hok i hi
  have hmem : (j, u) ∈ rows[i]!.toList := by
    have := Array.mem_of_find?_eq_some hf
    simpa using this
  have hu : u = 1 ∨ u = -1 := by
    have := Array.find?_some hf
    simpa using this
  have hsize : next.size = (keptIdx rows i j u).length := by
    rw [← Array.length_toList, hn, List.length_map]
  have hidx : ∀ k, k ∈ keptIdx rows i j u ↔ k < rows.size ∧ k ≠ i ∧ 0 < (newRow rows i j u k).size := by
    intro k; simp [keptIdx]
  have hnr := newRow_spec hg ha n rows hok i j u hi hu
  refine ⟨i, j, u, keptIdx rows i j u, hi, hii.2.2 _ hmem, hu, rval_mem hii _ hmem, ?_, ?_, ?_, hsize, ?_, ?_⟩
  · intro r hr
    rw [hn, List.mem_map] at hr
    obtain ⟨k, hk, rfl⟩ := hr
    rw [hidx] at hk
    exact ⟨(hnr k hk.1).1, hk.2.2⟩
  · exact List.Pairwise.filter _ List.pairwise_lt_range
  · intro k hk; rw [hidx] at hk; exact ⟨hk.1, hk.2.1⟩
  · intro p hp c
    have hp' : p < next.size := by omega
    have e1 : next[p]! = newRow rows i j u ((keptIdx rows i j u).getD p 0) := by
      rw [getElem!_pos next p hp', ← Array.getElem_toList]
      simp only [hn, List.getElem_map]
      rw [getD_of_lt _ _ hp]
    rw [e1]
    have hk : (keptIdx rows i j u).getD p 0 ∈ keptIdx rows i j u := by
      rw [getD_of_lt _ _ hp]; exact List.getElem_mem hp
    exact (hnr _ ((hidx _).1 hk).1).2 c
  · intro k hk hki hkn c
    rw [hidx] at hkn
    have hz : (newRow rows i j u k).size = 0 := by
      by_contra hne; exact hkn ⟨hk, hki, Nat.pos_of_ne_zero hne⟩
    rw [← (hnr k hk).2 c]
    exact rval_of_size_zero _ hz c

end Yuiv.KhSnf
