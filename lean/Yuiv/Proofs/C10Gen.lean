import Yuiv.Gen.LllFn
/-
Helper definitions and lemmas for `Yuiv/Props/C10Gen.lean` (no property theorem here).

`Yuiv.GenLll.*` is GENERATED from `/repo/yui-matrix/src/dense/lll.rs` by `tools/rs2lean_fn.py fn:lll`; `Yuiv.C10.*` is the
hand-written model over ℤ (`Data` = `Tr` (sizes, target, p, pinv) + `det` + `lam` + `step`; `p`/`pinv` always tracked).
`ofData` embeds a model state into the generated struct; the invariant `WF` says that `det` has one entry per row
(what `LLLData::new` establishes) — it is what makes the `Vec` index panics of the source agree with the model's.
-/
namespace Yuiv.C10Gen
open Yuiv Res Yuiv.Rust Yuiv.GenLll Yuiv.C10

def lm (r c : Nat) (a : C10.Mat) : LMat := ⟨r, c, a⟩

def ofData (d : Data) : LLLDataS :=
  ⟨lm d.tr.m d.tr.n d.tr.target, some (lm d.tr.m d.tr.m d.tr.p), some (lm d.tr.m d.tr.m d.tr.pinv), d.det,
   lm d.tr.m d.tr.m d.lam, d.step⟩

def WF (d : Data) : Prop := d.det.size = d.tr.m

def mapR {β γ} (f : β → γ) : Res β → Res γ
  | .ok a => .ok (f a)
  | .panic => .panic
  | .err => .err

theorem mapR_ok {β γ} (f : β → γ) (a : β) : mapR f (ok a) = ok (f a) := rfl
theorem mapR_panic {β γ} (f : β → γ) : mapR f (.panic : Res β) = .panic := rfl
theorem mapR_err {β γ} (f : β → γ) : mapR f (.err : Res β) = .err := rfl
theorem bind_assoc' {β γ δ} (x : Res β) (f : β → Res γ) (g : γ → Res δ) :
    ((x >>= f) >>= g) = (x >>= fun a => f a >>= g) := by cases x <;> rfl
theorem assert_true : Res.assert true = ok () := rfl
theorem assert_false : Res.assert false = (.panic : Res Unit) := rfl
theorem pure_eq_ok {β} (a : β) : (pure a : Res β) = ok a := rfl

/-! ### `mkMat` / `ent` -/

theorem ent_mkMat {m n : Nat} (f : Nat → Nat → Int) {i j : Nat} (hi : i < m) (hj : j < n) :
    ent (mkMat m n f) i j = f i j := by
  simp [ent, mkMat, Array.getD, hi, hj]

theorem mkMat_ext {m n : Nat} (f g : Nat → Nat → Int) (h : ∀ i j, i < m → j < n → f i j = g i j) :
    mkMat m n f = mkMat m n g := by
  unfold mkMat
  congr 1
  funext i
  congr 1
  funext j
  exact h i.1 j.1 i.2 j.2


/-! ### `nz_col_in`: `enumerate().filter_map(..).next()` is `find?` over the column indices -/

theorem nz_list (g : Nat → Int) : ∀ (len b : Nat),
    List.head? (List.filterMap LLLData.nz_col_in_closure1 (Iter.enumerateFrom b ((List.range' b len).map g))) =
      (List.range' b len).find? (fun j => g j != 0) := by
  intro len
  induction len with
  | zero => intro b; rfl
  | succ len ih =>
    intro b
    simp only [List.range'_succ, List.map_cons, Iter.enumerateFrom, List.filterMap_cons, List.find?_cons]
    by_cases h : g b = 0
    · simp [LLLData.nz_col_in_closure1, RInt.is_zero, h, ih]
    · have hb : (g b != 0) = true := by simp [h]
      simp [LLLData.nz_col_in_closure1, RInt.is_zero, h, hb]


theorem div_round_eq (a b : Int) : RInt.div_round a b = C10.divRound a b := by
  unfold RInt.div_round C10.divRound RInt.div RInt.rem
  by_cases hb : b = 0
  · simp [hb]
  · simp only [hb, if_false, bind_ok, RInt.is_positive, RInt.is_negative, decide_eq_true_eq, pure_eq_ok]
    by_cases h1 : (if 0 < a.tmod b then -a.tmod b else a.tmod b) ≤ (if 0 < b then -b else b) - (if 0 < a.tmod b then -a.tmod b else a.tmod b)
    · by_cases h2 : decide (a < 0) = decide (b < 0) <;> simp [h1, h2]
    · simp [h1]

theorem div_eq (a b : Int) : RInt.div a b = C10.idiv a b := rfl

/-! ### the loop of `add_row_to` -/

/-- `lambda` after the update of `(k, i)` and `j` iterations of the loop -/
def addLam (m : Nat) (lam : Mat) (i k : Nat) (r di : Int) (j : Nat) : Mat :=
  mkMat m m fun a b =>
    if a = k then
      if b = i then ent lam k i + r * di
      else if b < j then ent lam k b + r * ent lam i b
      else ent lam a b
    else ent lam a b

theorem add_step (m : Nat) (lam : Mat) (i k : Nat) (r di : Int) (j : Nat) (hik : i < k) (hk : k < m) (hj : j < i)
    (T : LMat) (P Pi : Option LMat) (det : Array Int) (st : Nat) :
    LLLData.add_row_to_for1 i k r j ⟨T, P, Pi, det, lm m m (addLam m lam i k r di j), st⟩ =
      ok (Ctl.next ⟨T, P, Pi, det, lm m m (addLam m lam i k r di (j + 1)), st⟩) := by
  have him : i < m := by omega
  have hjm : j < m := by omega
  have hne : i ≠ k := by omega
  have hji : j ≠ i := by omega
  unfold LLLData.add_row_to_for1
  simp only [lm, LMat.get, LMat.set, him, hjm, hk, and_self, if_true, bind_ok, ok.injEq, Ctl.next.injEq,
    LLLDataS.mk.injEq, LMat.mk.injEq, true_and]
  refine ⟨?_, trivial⟩
  unfold addLam
  apply mkMat_ext
  intro a b ha hb
  rw [ent_mkMat _ ha hb, ent_mkMat _ him hjm, ent_mkMat _ hk hjm]
  by_cases hak : a = k
  · subst hak
    by_cases hbj : b = j
    · subst hbj
      simp [hne, hji]
    · by_cases hbi : b = i
      · subst hbi
        have : ¬ b = j := hbj
        simp [hbj]
      · have : (b < j + 1) = (b < j) := by apply propext; omega
        simp [hbj, hbi, this]
  · simp [hak]

theorem add_loop (m : Nat) (lam : Mat) (i k : Nat) (r di : Int) (hik : i < k) (hk : k < m)
    (T : LMat) (P Pi : Option LMat) (det : Array Int) (st : Nat) : ∀ (c j : Nat), j + c = i →
    Loop.forGo (LLLData.add_row_to_for1 i k r) c j ⟨T, P, Pi, det, lm m m (addLam m lam i k r di j), st⟩ =
      ok (⟨T, P, Pi, det, lm m m (addLam m lam i k r di i), st⟩, true) := by
  intro c
  induction c with
  | zero => intro j h; have : j = i := by omega
            subst this; rfl
  | succ c ih =>
    intro j h
    unfold Loop.forGo
    rw [add_step m lam i k r di j hik hk (by omega)]
    exact ih (j + 1) (by omega)


/-! ### the two loops of `swap` -/

/-- equal entries inside the `m × m` square -/
def entEq (m : Nat) (L : Mat) (f : Nat → Nat → Int) : Prop := ∀ a b, a < m → b < m → ent L a b = f a b

/-- `lambda` after `j` iterations of the first loop (columns `< j` of the rows `k-1`, `k` exchanged) -/
def swapLam1 (lam : Mat) (k j : Nat) : Nat → Nat → Int := fun a b =>
  if b < j then ent lam (if a = k - 1 then k else if a = k then k - 1 else a) b else ent lam a b

/-- `lambda` after the rows `k < a < i` were updated by the second loop -/
def swapLam2 (f1 : Nat → Nat → Int) (k : Nat) (d0 d1 d2 : Int) (i : Nat) : Nat → Nat → Int := fun a b =>
  if k < a ∧ a < i then
    if b = k - 1 then (f1 k (k - 1) * f1 a (k - 1) + f1 a k * d0).tdiv d1
    else if b = k then (f1 a (k - 1) * d2 - f1 a k * f1 k (k - 1)).tdiv d1
    else f1 a b
  else f1 a b

theorem swap_step1 (m : Nat) (lam : Mat) (k j : Nat) (hk0 : 0 < k) (hk : k < m) (hj : j < k - 1)
    (T : LMat) (P Pi : Option LMat) (det : Array Int) (st : Nat) (L : Mat) (hL : entEq m L (swapLam1 lam k j)) :
    ∃ L', LLLData.swap_for1 k j ⟨T, P, Pi, det, ⟨m, m, L⟩, st⟩ = ok (Ctl.next ⟨T, P, Pi, det, ⟨m, m, L'⟩, st⟩) ∧
      entEq m L' (swapLam1 lam k (j + 1)) := by
  have hjm : j < m := by omega
  have hk1 : k - 1 < m := by omega
  have h1k : 1 ≤ k := hk0
  refine ⟨mkMat m m fun x y => if y = j then ent L (if x = k - 1 then k else if x = k then k - 1 else x) y else ent L x y,
    ?_, ?_⟩
  · unfold LLLData.swap_for1
    simp only [U64.sub, h1k, if_true, bind_ok, LMat.col_swap_rows, hjm, hk, hk1, and_self]
  · intro a b ha hb
    rw [ent_mkMat _ ha hb]
    by_cases hbj : b = j
    · subst hbj
      have hx : (if a = k - 1 then k else if a = k then k - 1 else a) < m := by
        split
        · exact hk
        · split
          · exact hk1
          · exact ha
      rw [if_pos rfl, hL _ _ hx hb]
      simp [swapLam1]
    · rw [if_neg hbj, hL _ _ ha hb]
      have : (b < j + 1) = (b < j) := by apply propext; omega
      simp [swapLam1, this]

theorem swap_loop1 (m : Nat) (lam : Mat) (k : Nat) (hk0 : 0 < k) (hk : k < m)
    (T : LMat) (P Pi : Option LMat) (det : Array Int) (st : Nat) : ∀ (c j : Nat) (L : Mat), j + c = k - 1 →
    entEq m L (swapLam1 lam k j) →
    ∃ L', Loop.forGo (LLLData.swap_for1 k) c j ⟨T, P, Pi, det, ⟨m, m, L⟩, st⟩ = ok (⟨T, P, Pi, det, ⟨m, m, L'⟩, st⟩, true) ∧
      entEq m L' (swapLam1 lam k (k - 1)) := by
  intro c
  induction c with
  | zero =>
    intro j L h hL
    have : j = k - 1 := by omega
    subst this
    exact ⟨L, rfl, hL⟩
  | succ c ih =>
    intro j L h hL
    obtain ⟨L1, h1, hL1⟩ := swap_step1 m lam k j hk0 hk (by omega) T P Pi det st L hL
    obtain ⟨L2, h2, hL2⟩ := ih (j + 1) L1 (by omega) hL1
    refine ⟨L2, ?_, hL2⟩
    unfold Loop.forGo
    rw [h1]
    exact h2

theorem swap_step2 (m : Nat) (f1 : Nat → Nat → Int) (k i : Nat) (d0 d1 d2 : Int) (hk0 : 0 < k) (hki : k < i) (him : i < m)
    (hd : d1 ≠ 0) (T : LMat) (P Pi : Option LMat) (det : Array Int) (st : Nat) (L : Mat)
    (hL : entEq m L (swapLam2 f1 k d0 d1 d2 i)) :
    ∃ L', LLLData.swap_for2 k d0 d1 d2 i ⟨T, P, Pi, det, ⟨m, m, L⟩, st⟩ = ok (Ctl.next ⟨T, P, Pi, det, ⟨m, m, L'⟩, st⟩) ∧
      entEq m L' (swapLam2 f1 k d0 d1 d2 (i + 1)) := by
  have hk : k < m := by omega
  have hk1 : k - 1 < m := by omega
  have h1k : 1 ≤ k := hk0
  have e0 : ent L k (k - 1) = f1 k (k - 1) := by rw [hL _ _ hk hk1]; simp [swapLam2]
  have e1 : ent L i (k - 1) = f1 i (k - 1) := by rw [hL _ _ him hk1]; simp [swapLam2]
  have e2 : ent L i k = f1 i k := by rw [hL _ _ him hk]; simp [swapLam2]
  refine ⟨mkMat m m fun a b =>
      if a = i ∧ b = k then (ent L i (k - 1) * d2 - ent L i k * ent L k (k - 1)).tdiv d1
      else ent (mkMat m m fun a b =>
        if a = i ∧ b = k - 1 then (RInt.conj (ent L k (k - 1)) * ent L i (k - 1) + ent L i k * d0).tdiv d1 else ent L a b) a b,
    ?_, ?_⟩
  · unfold LLLData.swap_for2
    simp only [U64.sub, h1k, if_true, bind_ok, LMat.get, LMat.set, hk, hk1, him, and_self, RInt.div, hd, if_false]
  · intro a b ha hb
    rw [ent_mkMat _ ha hb]
    by_cases hai : a = i
    · subst hai
      have hka : k < a ∧ a < a + 1 := ⟨hki, by omega⟩
      by_cases hbk : b = k
      · subst hbk
        have : ¬ b = b - 1 := by omega
        simp [swapLam2, hka, this, e0, e1, e2, RInt.conj]
      · by_cases hbk1 : b = k - 1
        · subst hbk1
          rw [if_neg (by simp [hbk]), ent_mkMat _ ha hb]
          simp [swapLam2, hka, e0, e1, e2, RInt.conj]
        · rw [if_neg (by simp [hbk]), ent_mkMat _ ha hb, if_neg (by simp [hbk1]), hL _ _ ha hb]
          simp [swapLam2, hka, hbk, hbk1]
    · rw [if_neg (by simp [hai]), ent_mkMat _ ha hb, if_neg (by simp [hai]), hL _ _ ha hb]
      have : (a < i + 1) = (a < i) := by apply propext; omega
      simp [swapLam2, this]

theorem swap_step2_zero (m : Nat) (k i : Nat) (d0 d2 : Int) (hk0 : 0 < k) (hki : k < i) (him : i < m)
    (T : LMat) (P Pi : Option LMat) (det : Array Int) (st : Nat) (L : Mat) :
    LLLData.swap_for2 k d0 0 d2 i ⟨T, P, Pi, det, ⟨m, m, L⟩, st⟩ = panic := by
  have hk : k < m := by omega
  have hk1 : k - 1 < m := by omega
  have h1k : 1 ≤ k := hk0
  unfold LLLData.swap_for2
  simp [U64.sub, h1k, LMat.get, hk, hk1, him, RInt.div]

theorem swap_loop2 (m : Nat) (f1 : Nat → Nat → Int) (k : Nat) (d0 d1 d2 : Int) (hk0 : 0 < k) (hd : d1 ≠ 0)
    (T : LMat) (P Pi : Option LMat) (det : Array Int) (st : Nat) : ∀ (c i : Nat) (L : Mat), i + c = m → k < i →
    entEq m L (swapLam2 f1 k d0 d1 d2 i) →
    ∃ L', Loop.forGo (LLLData.swap_for2 k d0 d1 d2) c i ⟨T, P, Pi, det, ⟨m, m, L⟩, st⟩ =
        ok (⟨T, P, Pi, det, ⟨m, m, L'⟩, st⟩, true) ∧ entEq m L' (swapLam2 f1 k d0 d1 d2 m) := by
  intro c
  induction c with
  | zero =>
    intro i L h _ hL
    have : i = m := by omega
    subst this
    exact ⟨L, rfl, hL⟩
  | succ c ih =>
    intro i L h hki hL
    obtain ⟨L1, h1, hL1⟩ := swap_step2 m f1 k i d0 d1 d2 hk0 hki (by omega) hd T P Pi det st L hL
    obtain ⟨L2, h2, hL2⟩ := ih (i + 1) L1 (by omega) (by omega) hL1
    refine ⟨L2, ?_, hL2⟩
    unfold Loop.forGo
    rw [h1]
    exact h2

/-- `lambda` after `swap` in terms of the entries `f1` after the first loop -/
def swapLamFin (f1 : Nat → Nat → Int) (k : Nat) (d0 d1 d2 : Int) : Nat → Nat → Int := fun a b =>
  if k < a then
    if b = k - 1 then (f1 k (k - 1) * f1 a (k - 1) + f1 a k * d0).tdiv d1
    else if b = k then (f1 a (k - 1) * d2 - f1 a k * f1 k (k - 1)).tdiv d1
    else f1 a b
  else f1 a b

theorem swap_tail (m : Nat) (f1 : Nat → Nat → Int) (k : Nat) (D0 D1 D2 : Int) (hk0 : 0 < k) (hk : k < m)
    (T : LMat) (P Pi : Option LMat) (det : Array Int) (hdet : det.size = m) (st : Nat) (L1 : Mat) (hL1 : entEq m L1 f1) :
    (do
      let x ← Loop.forGo (LLLData.swap_for2 k D0 D1 D2) (m - (k + 1)) (k + 1) ⟨T, P, Pi, det, ⟨m, m, L1⟩, st⟩
      let l0 ← x.fst.lambda.get k (k - 1)
      let rr30 ← RInt.div (D0 * D2 + LLLRing.norm l0) D1
      let rr32 ← LVec.set x.fst.det (k - 1) rr30
      let rr34 ← x.fst.lambda.set k (k - 1) (RInt.conj l0)
      ok ({ target := x.fst.target, p := x.fst.p, pinv := x.fst.pinv, det := rr32, lambda := rr34, step := x.fst.step } : LLLDataS)) =
    if D1 = 0 then panic else
      ok ⟨T, P, Pi, det.set! (k - 1) ((D0 * D2 + f1 k (k - 1) * f1 k (k - 1)).tdiv D1),
        ⟨m, m, mkMat m m (swapLamFin f1 k D0 D1 D2)⟩, st⟩ := by
  have hk1 : k - 1 < m := by omega
  by_cases hd : D1 = 0
  · subst hd
    by_cases hkm : k + 1 < m
    · obtain ⟨c, hc⟩ : ∃ c, m - (k + 1) = c + 1 := ⟨m - (k + 1) - 1, by omega⟩
      rw [hc]
      unfold Loop.forGo
      rw [swap_step2_zero m k (k + 1) D0 D2 hk0 (by omega) hkm]
      rfl
    · have : m - (k + 1) = 0 := by omega
      rw [this]
      simp [Loop.forGo, LMat.get, hk, hk1, RInt.div]
  · obtain ⟨L2, h2, hL2⟩ := swap_loop2 m f1 k D0 D1 D2 hk0 hd T P Pi det st (m - (k + 1)) (k + 1) L1 (by omega) (by omega)
      (by intro a b ha hb
          rw [hL1 a b ha hb]
          have : ¬ (k < a ∧ a < k + 1) := by omega
          simp [swapLam2, this])
    have e0 : ent L2 k (k - 1) = f1 k (k - 1) := by rw [hL2 _ _ hk hk1]; simp [swapLam2]
    have hk1d : k - 1 < det.size := by omega
    rw [h2]
    simp only [bind_ok, LMat.get, LMat.set, hk, hk1, and_self, if_true, RInt.div, hd, if_false, LVec.set, hk1d, e0,
      LLLRing.norm, RInt.conj, ok.injEq, LLLDataS.mk.injEq, LMat.mk.injEq, true_and, and_true]
    apply mkMat_ext
    intro a b ha hb
    rw [hL2 a b ha hb]
    by_cases h : a = k ∧ b = k - 1
    · obtain ⟨rfl, rfl⟩ := h
      simp [swapLamFin, swapLam2]
    · have : (k < a ∧ a < m) = (k < a) := by apply propext; constructor; exact fun h => h.1; exact fun h => ⟨h, ha⟩
      simp only [if_neg h, swapLam2, swapLamFin, this]

/-! ### `WF` is preserved: the number of rows and the length of `det` never change -/

/-- partial-correctness triple: every `ok` value of `x` satisfies `P` -/
structure Post {α : Type} (x : Res α) (P : α → Prop) : Prop where
  h : ∀ a, x = ok a → P a

theorem Post_ok {α} {P : α → Prop} {a : α} (h : P a) : Post (ok a) P := by
  constructor; intro b hb; cases hb; exact h
theorem Post_pure {α} {P : α → Prop} {a : α} (h : P a) : Post (pure a) P := Post_ok h
theorem Post_panic {α} {P : α → Prop} : Post (Res.panic : Res α) P := by constructor; intro b hb; cases hb
theorem Post_err {α} {P : α → Prop} : Post (Res.err : Res α) P := by constructor; intro b hb; cases hb
theorem Post_bind {α β} {x : Res α} {f : α → Res β} {Q : α → Prop} {P : β → Prop}
    (hx : Post x Q) (hf : ∀ a, Q a → Post (f a) P) : Post (x >>= f) P := by
  constructor
  intro b hb
  cases x with
  | ok a => exact (hf a (hx.h a rfl)).h b hb
  | panic => cases hb
  | err => cases hb
theorem Post_bind' {α β} {x : Res α} {f : α → Res β} {P : β → Prop}
    (hf : ∀ a, Post (f a) P) : Post (x >>= f) P :=
  Post_bind (Q := fun _ => True) ⟨fun _ _ => trivial⟩ (fun a _ => hf a)
theorem Post_ite {α} {c : Prop} [Decidable c] {x y : Res α} {P : α → Prop} (hx : Post x P) (hy : Post y P) :
    Post (if c then x else y) P := by split <;> assumption

/-- same shape and the same number of `det` entries -/
def Same (d d' : Data) : Prop := d'.tr.m = d.tr.m ∧ d'.tr.n = d.tr.n ∧ d'.det.size = d.det.size

theorem Same.refl (d : Data) : Same d d := ⟨rfl, rfl, rfl⟩
theorem Same.trans {a b c : Data} (h1 : Same a b) (h2 : Same b c) : Same a c :=
  ⟨h2.1.trans h1.1, h2.2.1.trans h1.2.1, h2.2.2.trans h1.2.2⟩
theorem Same.wf {d d' : Data} (h : Same d d') (hw : WF d) : WF d' := by
  unfold WF at *; rw [h.1, h.2.2]; exact hw

theorem tr_swapRows_m (t : Tr) (i j : Nat) : Post (t.swapRows i j) (fun t' => t'.m = t.m ∧ t'.n = t.n) := by
  unfold Tr.swapRows
  apply Post_bind'; intro _
  exact Post_pure ⟨rfl, rfl⟩
theorem tr_mulRow_m (t : Tr) (i : Nat) (r : Int) : Post (t.mulRow i r) (fun t' => t'.m = t.m ∧ t'.n = t.n) := by
  unfold Tr.mulRow
  apply Post_bind'; intro _
  apply Post_bind'; intro _
  exact Post_pure ⟨rfl, rfl⟩
theorem tr_addRowTo_m (t : Tr) (i k : Nat) (r : Int) : Post (t.addRowTo i k r) (fun t' => t'.m = t.m ∧ t'.n = t.n) := by
  unfold Tr.addRowTo
  apply Post_bind'; intro _
  apply Post_bind'; intro _
  exact Post_pure ⟨rfl, rfl⟩

theorem swap_same (d : Data) (k : Nat) : Post (d.swap k) (Same d) := by
  unfold Data.swap
  apply Post_bind'; intro _
  apply Post_bind (tr_swapRows_m _ _ _); intro t ht
  dsimp only
  apply Post_bind'; intro _
  apply Post_bind'; intro _
  apply Post_bind'; intro _
  apply Post_bind'; intro _
  refine Post_pure ⟨ht.1, ht.2, ?_⟩
  simp

theorem addRowTo_same (d : Data) (i k : Nat) (r : Int) : Post (d.addRowTo i k r) (Same d) := by
  unfold Data.addRowTo
  apply Post_bind (tr_addRowTo_m _ _ _ _); intro t ht
  apply Post_bind'; intro _
  exact Post_pure ⟨ht.1, ht.2, rfl⟩

theorem mulRow_same (d : Data) (i : Nat) (r : Int) : Post (d.mulRow i r) (Same d) := by
  unfold Data.mulRow
  apply Post_bind (tr_mulRow_m _ _ _); intro t ht
  exact Post_pure ⟨ht.1, ht.2, rfl⟩

theorem mulRowIf_same (d : Data) (i : Nat) (r : Int) : Post (d.mulRowIf i r) (Same d) := by
  unfold Data.mulRowIf
  exact Post_ite (mulRow_same d i r) (Post_pure (Same.refl d))

theorem reduce_same (d : Data) (i k : Nat) : Post (d.reduce i k) (Same d) := by
  unfold Data.reduce
  apply Post_bind'; intro _
  apply Post_bind'; intro _
  apply Post_bind'; intro _
  apply Post_bind'; intro _
  exact Post_ite (addRowTo_same _ _ _ _) (Post_pure (Same.refl d))

theorem next_same (d : Data) : Same d d.next := ⟨rfl, rfl, rfl⟩
theorem back_same (d : Data) : Same d d.back := by unfold Data.back; split <;> exact ⟨rfl, rfl, rfl⟩

theorem revLoop_same (f : Data → Nat → Res Data) (hf : ∀ d i, Post (f d i) (Same d)) :
    ∀ (c : Nat) (d : Data), Post (revLoop f d c) (Same d) := by
  intro c
  induction c with
  | zero => intro d; exact Post_pure (Same.refl d)
  | succ c ih =>
    intro d
    unfold revLoop
    apply Post_bind (hf d c); intro d1 h1
    constructor
    intro d2 h2
    exact h1.trans ((ih d1).h d2 h2)

theorem lllIterate_same (d : Data) : Post (lllIterate d) (Same d) := by
  unfold lllIterate
  apply Post_bind (reduce_same _ _ _); intro d1 h1
  apply Post_bind'; intro b
  cases b
  · apply Post_bind (swap_same _ _); intro d2 h2
    exact Post_pure (h1.trans (h2.trans (back_same d2)))
  · apply Post_bind (revLoop_same _ (fun d i => reduce_same d i _) _ _); intro d2 h2
    exact Post_pure (h1.trans (h2.trans (next_same d2)))

theorem hnfReduce_same (d : Data) (i k : Nat) : Post (hnfReduce d i k) (Same d) := by
  unfold hnfReduce
  apply Post_bind'; intro _
  apply Post_bind'; intro _
  split
  · apply Post_bind (mulRowIf_same _ _ _); intro d1 h1
    apply Post_bind'; intro _
    apply Post_ite
    · constructor; intro d2 h2; exact h1.trans ((addRowTo_same _ _ _ _).h d2 h2)
    · exact Post_pure h1
  · exact reduce_same _ _ _

theorem hnfIterate_same (d : Data) : Post (hnfIterate d) (Same d) := by
  unfold hnfIterate
  apply Post_bind (hnfReduce_same _ _ _); intro d1 h1
  apply Post_bind'; intro b
  cases b
  · apply Post_bind (swap_same _ _); intro d2 h2
    exact Post_pure (h1.trans (h2.trans (back_same d2)))
  · apply Post_bind (revLoop_same _ (fun d i => hnfReduce_same d i _) _ _); intro d2 h2
    exact Post_pure (h1.trans (h2.trans (next_same d2)))


/-! ### plumbing for the control-flow theorems -/

def calcOf (d : Data) : LLLCalcS := ⟨ofData d⟩
def hnfOf (d : Data) : LLLHNFCalcS := ⟨ofData d⟩

theorem bind_mapR {α β γ} (f : α → β) (x : Res α) (g : β → Res γ) : (mapR f x >>= g) = (x >>= fun a => g (f a)) := by
  cases x <;> rfl
theorem mapR_bind {α β γ} (f : β → γ) (x : Res α) (g : α → Res β) : mapR f (x >>= g) = (x >>= fun a => mapR f (g a)) := by
  cases x <;> rfl
theorem bind_congr_post {α β} {x : Res α} {Q : α → Prop} {f g : α → Res β} (hx : Post x Q) (h : ∀ a, Q a → f a = g a) :
    (x >>= f) = (x >>= g) := by
  cases x with
  | ok a => exact h a (hx.h a rfl)
  | panic => rfl
  | err => rfl
theorem bind_congr' {α β} (x : Res α) {f g : α → Res β} (h : ∀ a, f a = g a) : (x >>= f) = (x >>= g) := by
  cases x <;> simp [h] <;> rfl

/-- `for i in (0..c).rev()` is the model's `revLoop` -/
theorem revLoop_eq {σ : Type} (wrap : Data → σ) (g : Nat → σ → Res σ) (f : Data → Nat → Res Data)
    (hg : ∀ i d, WF d → g i (wrap d) = mapR wrap (f d i)) (hf : ∀ d i, Post (f d i) (Same d)) :
    ∀ (c : Nat) (d : Data), WF d → Loop.forRangeRev.go 0 g c (wrap d) = mapR wrap (revLoop f d c) := by
  intro c
  induction c with
  | zero => intro d _; rfl
  | succ c ih =>
    intro d hw
    unfold Loop.forRangeRev.go revLoop
    rw [Nat.zero_add, hg c d hw, bind_mapR, mapR_bind]
    exact bind_congr_post (hf d c) (fun d1 h1 => ih d1 (h1.wf hw))


/-- `while step < m { iterate }`: the generated loop with `fuel + 1` is the model's `loopWhile` with `fuel` whenever the
latter does not run out of fuel (the generated loop checks the fuel before the loop condition, the model after it) -/
theorem loopWhile_eq {σ : Type} (wrap : Data → σ) (stepOf : σ → Nat) (hstep : ∀ d, stepOf (wrap d) = d.step)
    (loop : Nat → Nat → σ → Res σ) (itG : σ → Res σ) (it : Data → Res Data)
    (hloopS : ∀ f m s, loop (f + 1) m s = if stepOf s < m then itG s >>= loop f m else ok s)
    (hit : ∀ d, WF d → itG (wrap d) = mapR wrap (it d)) (hsame : ∀ d, Post (it d) (Same d)) :
    ∀ (fuel : Nat) (d : Data), WF d → loopWhile it fuel d ≠ err →
      loop (fuel + 1) d.tr.m (wrap d) = mapR wrap (loopWhile it fuel d) := by
  intro fuel
  induction fuel with
  | zero =>
    intro d hw h
    unfold loopWhile at h ⊢
    rw [hloopS, hstep]
    by_cases hs : d.step < d.tr.m
    · simp [hs] at h
    · simp [hs]; rfl
  | succ f ih =>
    intro d hw h
    unfold loopWhile at h ⊢
    rw [hloopS, hstep]
    by_cases hs : d.step < d.tr.m
    · simp only [hs, if_true] at h ⊢
      rw [hit d hw, bind_mapR, mapR_bind]
      cases hd : it d with
      | ok d1 =>
        have h1 := (hsame d).h d1 hd
        rw [hd] at h
        have := ih d1 (h1.wf hw) h
        rw [h1.1] at this
        exact this
      | panic => rfl
      | err => rfl
    · simp [hs]; rfl

/-- conversely: when the generated loop does not run out of fuel, the model's with the same fuel agrees -/
theorem loopWhile_eq' {σ : Type} (wrap : Data → σ) (stepOf : σ → Nat) (hstep : ∀ d, stepOf (wrap d) = d.step)
    (loop : Nat → Nat → σ → Res σ) (itG : σ → Res σ) (it : Data → Res Data)
    (hloop0 : ∀ m s, loop 0 m s = err)
    (hloopS : ∀ f m s, loop (f + 1) m s = if stepOf s < m then itG s >>= loop f m else ok s)
    (hit : ∀ d, WF d → itG (wrap d) = mapR wrap (it d)) (hsame : ∀ d, Post (it d) (Same d)) :
    ∀ (fuel : Nat) (d : Data), WF d → loop fuel d.tr.m (wrap d) ≠ err →
      loop fuel d.tr.m (wrap d) = mapR wrap (loopWhile it fuel d) := by
  intro fuel
  induction fuel with
  | zero => intro d hw h; exact absurd (hloop0 _ _) h
  | succ f ih =>
    intro d hw h
    unfold loopWhile
    rw [hloopS, hstep] at h ⊢
    by_cases hs : d.step < d.tr.m
    · simp only [hs, if_true] at h ⊢
      rw [hit d hw, bind_mapR] at h ⊢
      rw [mapR_bind]
      cases hd : it d with
      | ok d1 =>
        have h1 := (hsame d).h d1 hd
        rw [hd] at h
        have := ih d1 (h1.wf hw) (by rw [h1.1]; exact h)
        rw [h1.1] at this
        exact this
      | panic => rfl
      | err => rfl
    · simp [hs]; rfl

/-! ### `LLLHNFCalc` -/

theorem nzColIn_lt {d : Data} {i j : Nat} (h : d.nzColIn i = some j) : j < d.tr.n := by
  unfold Data.nzColIn at h
  have := List.mem_of_find?_eq_some h
  simpa using this

theorem get_target (d : Data) {i j : Nat} (hi : i < d.tr.m) (hj : j < d.tr.n) :
    LMat.get (ofData d).target i j = ok (ent d.tr.target i j) := by
  simp [ofData, lm, LMat.get, hi, hj]

theorem norm_unit_eq (a : Int) : RInt.normalizing_unit a = if a < 0 then -1 else 1 := by
  unfold RInt.normalizing_unit RInt.is_negative
  by_cases h : a < 0 <;> simp [h]

theorem hnfReduce_lt (d : Data) (i k : Nat) : Post (hnfReduce d i k) (fun d' => Same d d' ∧ k < d.tr.m) := by
  by_cases hk : k < d.tr.m
  · exact ⟨fun a h => ⟨(hnfReduce_same d i k).h a h, hk⟩⟩
  · have : hnfReduce d i k = Res.panic := by
      unfold hnfReduce
      by_cases hik : i < k <;> simp [hik, hk, assert_true, assert_false]
    rw [this]
    exact Post_panic

theorem loopWhile_same (it : Data → Res Data) (hsame : ∀ d, Post (it d) (Same d)) :
    ∀ (fuel : Nat) (d : Data), Post (loopWhile it fuel d) (Same d) := by
  intro fuel
  induction fuel with
  | zero => intro d; unfold loopWhile; exact Post_ite Post_err (Post_pure (Same.refl d))
  | succ f ih =>
    intro d
    unfold loopWhile
    refine Post_ite ?_ (Post_pure (Same.refl d))
    apply Post_bind (hsame d); intro d1 h1
    exact ⟨fun d2 h2 => h1.trans ((ih d1).h d2 h2)⟩

/-- `(target, p, pinv)` of a transform state -/
def trOut (t : Tr) : LMat × Option LMat × Option LMat :=
  (lm t.m t.n t.target, some (lm t.m t.m t.p), some (lm t.m t.m t.pinv))

theorem reverse_step (i : Nat) (t : Tr) (hi : i < t.m / 2) :
    LLLHNFCalc.result_for1 t.m i (trOut t) =
      if i = t.m - i - 1 then ok (Ctl.stop (trOut t)) else
        ok (Ctl.next (trOut { t with target := mSwapRows t.m t.n t.target i (t.m - i - 1),
                                     p := mSwapRows t.m t.m t.p i (t.m - i - 1),
                                     pinv := mSwapCols t.m t.m t.pinv i (t.m - i - 1) })) := by
  have h1 : i ≤ t.m := by omega
  have h2 : 1 ≤ t.m - i := by omega
  have h3 : i < t.m := by omega
  have h4 : t.m - i - 1 < t.m := by omega
  unfold LLLHNFCalc.result_for1
  simp only [trOut, lm, U64.sub, h1, h2, if_true, bind_ok]
  by_cases hij : i = t.m - i - 1
  · simp [← hij]
  · simp only [hij, decide_false, Bool.false_eq_true, if_false, LMat.swap_rows, LMat.swap_cols, h3, h4, and_self, if_true,
      bind_ok, Option.isSome_some, Opt.unwrap]

theorem reverse_loop : ∀ (c i : Nat) (t : Tr), i + c = t.m / 2 →
    Loop.forGo (LLLHNFCalc.result_for1 t.m) c i (trOut t) = mapR (fun t' => (trOut t', true)) (reverseRows t c i) := by
  intro c
  induction c with
  | zero => intro i t _; rfl
  | succ c ih =>
    intro i t hc
    have h3 : i < t.m := by omega
    have h4 : t.m - i - 1 < t.m := by omega
    unfold Loop.forGo reverseRows
    rw [reverse_step i t (by omega)]
    by_cases hij : i = t.m - i - 1
    · simp only [← hij, if_true, bind_ok]; rfl
    · simp only [hij, if_false, bind_ok, Tr.swapRows, h3, h4, decide_true, Bool.and_self, assert_true, pure_eq_ok]
      exact ih (i + 1) { t with target := mSwapRows t.m t.n t.target i (t.m - i - 1),
                                     p := mSwapRows t.m t.m t.p i (t.m - i - 1),
                                     pinv := mSwapCols t.m t.m t.pinv i (t.m - i - 1) } (by show i + 1 + c = t.m / 2; omega)

end Yuiv.C10Gen
