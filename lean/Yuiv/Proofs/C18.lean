import Yuiv.Model.C18
/-
C18 — spec definitions and helper lemmas (part 1: finite tables, mirror, closure counts).
-/
namespace Yuiv.C18
open Yuiv

/-- `decide` over the four crossing types -/
instance decForallCType {p : CType → Prop} [DecidablePred p] : Decidable (∀ t, p t) :=
  decidable_of_iff (p .X ∧ p .Xm ∧ p .V ∧ p .H)
    ⟨fun ⟨a, b, c, d⟩ t => by cases t <;> assumption, fun h => ⟨h _, h _, h _, h _⟩⟩

instance decForallSign {p : Sign → Prop} [DecidablePred p] : Decidable (∀ t, p t) :=
  decidable_of_iff (p .pos ∧ p .neg)
    ⟨fun ⟨a, b⟩ t => by cases t <;> assumption, fun h => ⟨h _, h _⟩⟩

/-! ### table facts -/

theorem pass_lt' : ∀ t : CType, ∀ j, j < 4 → t.pass j < 4 := by decide
theorem pass_pass' : ∀ t : CType, ∀ j, j < 4 → t.pass (t.pass j) = j := by decide
theorem pass_ne' : ∀ t : CType, ∀ j, j < 4 → t.pass j ≠ j := by decide
theorem pass_mirror' : ∀ t : CType, ∀ j, j < 4 → t.mirror.pass j = t.pass j := by decide
theorem flip_flip (s : Sign) : s.flip.flip = s := by cases s <;> rfl

theorem pass_mirror_all (t : CType) (j : Nat) : t.mirror.pass j = t.pass j := by
  cases t <;> rfl

theorem signAt_mirror_all (t : CType) (j : Nat) : signAt t.mirror j = (signAt t j).map Sign.flip := by
  cases t
  · -- X
    match j with
    | 0 => rfl
    | 1 => rfl
    | 2 => rfl
    | 3 => rfl
    | _ + 4 => rfl
  · match j with
    | 0 => rfl
    | 1 => rfl
    | 2 => rfl
    | 3 => rfl
    | _ + 4 => rfl
  · rfl
  · rfl

/-! ### mirror at link level -/

theorem Crossing.mirror_mirror (c : Crossing) : c.mirror.mirror = c := by
  cases c with
  | mk t a b c d => cases t <;> rfl

theorem mirror_mirror' (l : Link) : mirror (mirror l) = l := by
  unfold mirror
  rw [List.map_map]
  have : (Crossing.mirror ∘ Crossing.mirror) = id := by
    funext c; exact Crossing.mirror_mirror c
  rw [this, List.map_id]

theorem mirror_length (l : Link) : (mirror l).length = l.length := by
  unfold mirror; exact List.length_map _

theorem edgeAt_mirror (l : Link) (i j : Nat) : edgeAt (mirror l) i j = edgeAt l i j := by
  unfold edgeAt mirror
  rw [List.getElem?_map]
  cases l[i]? with
  | none => rfl
  | some c => cases j with
    | zero => rfl
    | succ j => cases j with
      | zero => rfl
      | succ j => cases j with
        | zero => rfl
        | succ j => rfl

theorem ctypeAt_mirror (l : Link) (i : Nat) : ctypeAt (mirror l) i = (ctypeAt l i).mirror := by
  unfold ctypeAt mirror
  rw [List.getElem?_map]
  cases l[i]? with
  | none => rfl
  | some c => rfl

theorem slotsFrom_mirror (l : List Crossing) (i : Nat) :
    slotsFrom (l.map Crossing.mirror) i = slotsFrom l i := by
  induction l generalizing i with
  | nil => rfl
  | cons c cs ih => simp [slotsFrom, ih, Crossing.mirror]

theorem passEdge_mirror (l : Link) (i j : Nat) : passEdge (mirror l) i j = passEdge l i j := by
  unfold passEdge slots
  rw [edgeAt_mirror]
  show (List.find? _ (slotsFrom (l.map Crossing.mirror) 0)).map _ = _
  rw [slotsFrom_mirror]

theorem traverseLoop_mirror (l : Link) (start : Nat × Nat) (fuel : Nat) (cur : Nat × Nat) (acc : List (Nat × Nat)) :
    traverseLoop (mirror l) start fuel cur acc = traverseLoop l start fuel cur acc := by
  induction fuel generalizing cur acc with
  | zero => rfl
  | succ f ih =>
    unfold traverseLoop
    simp only [ctypeAt_mirror, pass_mirror_all, passEdge_mirror, ih]

theorem traverse_mirror (l : Link) (s : Nat × Nat) : traverse (mirror l) s = traverse l s := by
  unfold traverse; rw [mirror_length, traverseLoop_mirror]

theorem compsStep_mirror (l : Link) (j0 : Nat) (st : List Path × List Nat) (i0 : Nat) :
    compsStep (mirror l) j0 st i0 = compsStep l j0 st i0 := by
  unfold compsStep
  simp only [edgeAt_mirror, traverse_mirror]

theorem compsPass_mirror (l : Link) (j0 : Nat) (st : List Path × List Nat) :
    compsPass (mirror l) j0 st = compsPass l j0 st := by
  unfold compsPass
  rw [mirror_length]
  have : compsStep (mirror l) j0 = compsStep l j0 := by
    funext st i0; exact compsStep_mirror l j0 st i0
  rw [this]

theorem components_mirror' (l : Link) : components (mirror l) = components l := by
  unfold components
  simp only [compsPass_mirror]

theorem isResolved_mirror (c : Crossing) : c.mirror.isResolved = c.isResolved := by
  cases c with
  | mk t a b c d => cases t <;> rfl

theorem crossingNum_mirror (l : Link) : crossingNum (mirror l) = crossingNum l := by
  unfold crossingNum mirror
  rw [List.filter_map, List.length_map]
  congr 2
  funext c
  simp [isResolved_mirror]

/-- state correspondence for the sign computation of the mirror image -/
def flipSt (st : List (Option Sign) × List Nat) : List (Option Sign) × List Nat :=
  (st.1.map (Option.map Sign.flip), st.2)

/-- functorial map on `Res` (local helper) -/
def resMap {α β} (f : α → β) : Res α → Res β
  | .ok a => .ok (f a)
  | .panic => .panic
  | .err => .err

theorem signsVisit_mirror (l : Link) (st : List (Option Sign) × List Nat) (p : Nat × Nat) :
    signsVisit (mirror l) (flipSt st) p = flipSt (signsVisit l st p) := by
  unfold signsVisit
  simp only [edgeAt_mirror, ctypeAt_mirror, signAt_mirror_all]
  cases signAt (ctypeAt l p.1) p.2 with
  | none => rfl
  | some s => simp [flipSt, List.map_set]

theorem foldl_signsVisit_mirror (l : Link) (path : List (Nat × Nat)) (st : List (Option Sign) × List Nat) :
    path.foldl (signsVisit (mirror l)) (flipSt st) = flipSt (path.foldl (signsVisit l) st) := by
  induction path generalizing st with
  | nil => rfl
  | cons p ps ih => simp only [List.foldl_cons, signsVisit_mirror, ih]

theorem signsStep_mirror (l : Link) (j0 : Nat) (st : List (Option Sign) × List Nat) (i0 : Nat) :
    signsStep (mirror l) j0 (flipSt st) i0 = resMap flipSt (signsStep l j0 st i0) := by
  unfold signsStep
  simp only [edgeAt_mirror, traverse_mirror]
  have h2 : (flipSt st).2 = st.2 := rfl
  rw [h2]
  split
  · rfl
  · cases traverse l (i0, j0) with
    | ok path => simp only [foldl_signsVisit_mirror]; rfl
    | panic => rfl
    | err => rfl

theorem foldlM_signsStep_mirror (l : Link) (j0 : Nat) (is : List Nat) (st : List (Option Sign) × List Nat) :
    is.foldlM (signsStep (mirror l) j0) (flipSt st) = resMap flipSt (is.foldlM (signsStep l j0) st) := by
  induction is generalizing st with
  | nil => rfl
  | cons i is ih =>
    simp only [List.foldlM_cons, signsStep_mirror]
    cases signsStep l j0 st i with
    | ok st' => exact ih st'
    | panic => rfl
    | err => rfl

theorem signsPass_mirror (l : Link) (j0 : Nat) (st : List (Option Sign) × List Nat) :
    signsPass (mirror l) j0 (flipSt st) = resMap flipSt (signsPass l j0 st) := by
  unfold signsPass; rw [mirror_length]; exact foldlM_signsStep_mirror l j0 _ st

theorem signsIncomplete_mirror (l : Link) (signs : List (Option Sign)) :
    signsIncomplete (mirror l) (signs.map (Option.map Sign.flip)) = signsIncomplete l signs := by
  unfold signsIncomplete
  rw [mirror_length]
  congr 1
  funext i
  rw [ctypeAt_mirror]
  have h1 : (ctypeAt l i).mirror.isResolved = (ctypeAt l i).isResolved := by
    cases ctypeAt l i <;> rfl
  have h2 : ((signs.map (Option.map Sign.flip)).getD i none).isNone = (signs.getD i none).isNone := by
    simp only [List.getD_eq_getElem?_getD, List.getElem?_map]
    cases signs[i]? with
    | none => rfl
    | some o => cases o <;> rfl
  rw [h1, h2]

theorem filterMap_flip (signs : List (Option Sign)) :
    (signs.map (Option.map Sign.flip)).filterMap id = (signs.filterMap id).map Sign.flip := by
  induction signs with
  | nil => rfl
  | cons o os ih =>
    cases o with
    | none => simpa using ih
    | some s => simpa using ih

theorem crossingSigns_mirror' (l : Link) :
    crossingSigns (mirror l) = resMap (List.map Sign.flip) (crossingSigns l) := by
  unfold crossingSigns
  have h0 : (List.replicate (mirror l).length (none : Option Sign), ([] : List Nat))
      = flipSt (List.replicate l.length none, []) := by
    simp [flipSt, mirror_length]
  rw [h0]
  simp only [signsPass_mirror, crossingNum_mirror]
  cases signsPass l 0 (List.replicate l.length none, []) with
  | panic => rfl
  | err => rfl
  | ok st =>
    simp only [resMap, Res.bind_ok, bind, Res.bind]
    have hinc : signsIncomplete (mirror l) (flipSt st).1 = signsIncomplete l st.1 :=
      signsIncomplete_mirror l st.1
    rw [hinc]
    cases signsIncomplete l st.1 with
    | false =>
      simp only [Bool.false_eq_true, ↓reduceIte, pure]
      show (if ((flipSt st).1.filterMap id).length = crossingNum l then _ else _) = _
      have : (flipSt st).1.filterMap id = (st.1.filterMap id).map Sign.flip := filterMap_flip st.1
      rw [this, List.length_map]
      split <;> rfl
    | true =>
      simp only [↓reduceIte, signsPass_mirror]
      cases signsPass l 1 st with
      | panic => rfl
      | err => rfl
      | ok st1 =>
        simp only [resMap, signsPass_mirror]
        cases signsPass l 2 st1 with
        | panic => rfl
        | err => rfl
        | ok st2 =>
          simp only [resMap, pure]
          show (if ((flipSt st2).1.filterMap id).length = crossingNum l then _ else _) = _
          have : (flipSt st2).1.filterMap id = (st2.1.filterMap id).map Sign.flip := filterMap_flip st2.1
          rw [this, List.length_map]
          split <;> rfl

theorem count_flip (s : List Sign) :
    (s.map Sign.flip).count .pos = s.count .neg ∧ (s.map Sign.flip).count .neg = s.count .pos := by
  induction s with
  | nil => exact ⟨rfl, rfl⟩
  | cons a as ih =>
    cases a <;> simp [Sign.flip, List.count_cons, ih.1, ih.2]

/-! ### resolution and mirror -/

theorem resolve_mirror' : ∀ t : CType, ∀ b : Bool, t.mirror.resolve (!b) = t.resolve b := by decide

theorem Crossing.resolve_mirror (c : Crossing) (b : Bool) :
    c.mirror.resolve (!b) = c.resolve b := by
  cases c with
  | mk t e0 e1 e2 e3 =>
    cases t <;> cases b <;> rfl

/-! ### closure: crossing count -/

/-- characterisation of a successful step of the closure loop -/
theorem closureStep_ok {st st' : Nat × List Nat × List (Nat × Nat × Nat × Nat)} {s : Int}
    (h : closureStep st s = .ok st') :
    ∃ a b, s.natAbs ≠ 0 ∧ st.2.1[s.natAbs - 1]? = some a ∧ st.2.1[s.natAbs - 1 + 1]? = some b ∧
      st' = (st.1 + 2, (st.2.1.set (s.natAbs - 1) st.1).set (s.natAbs - 1 + 1) (st.1 + 1),
             st.2.2 ++ [if s > 0 then (a, st.1, st.1 + 1, b) else (b, a, st.1, st.1 + 1)]) := by
  unfold closureStep at h
  by_cases h0 : s.natAbs = 0
  · rw [if_pos h0] at h; cases h
  · rw [if_neg h0] at h
    cases ha : st.2.1[s.natAbs - 1]? with
    | none => simp only [ha] at h; cases h
    | some a =>
      cases hb : st.2.1[s.natAbs - 1 + 1]? with
      | none => simp only [ha, hb] at h; cases h
      | some b =>
        simp only [ha, hb] at h
        cases h
        exact ⟨a, b, h0, rfl, rfl, rfl⟩

theorem closureStep_len {st st' : Nat × List Nat × List (Nat × Nat × Nat × Nat)} {s : Int}
    (h : closureStep st s = .ok st') :
    st'.2.2.length = st.2.2.length + 1 ∧ st'.2.1.length = st.2.1.length := by
  obtain ⟨a, b, _, _, _, rfl⟩ := closureStep_ok h
  simp

theorem foldlM_closureStep_len (w : List Int) (st st' : Nat × List Nat × List (Nat × Nat × Nat × Nat))
    (h : w.foldlM closureStep st = .ok st') :
    st'.2.2.length = st.2.2.length + w.length ∧ st'.2.1.length = st.2.1.length := by
  induction w generalizing st with
  | nil => simp only [List.foldlM_nil, pure] at h; cases h; simp
  | cons s w ih =>
    simp only [List.foldlM_cons] at h
    cases hs : closureStep st s with
    | panic => rw [hs] at h; cases h
    | err => rw [hs] at h; cases h
    | ok st1 =>
      rw [hs] at h
      have h1 := closureStep_len hs
      have h2 := ih st1 h
      constructor
      · rw [h2.1, h1.1, List.length_cons]; omega
      · rw [h2.2, h1.2]

theorem closurePD_length {strands : Nat} {w : List Int} {pd : List (Nat × Nat × Nat × Nat)}
    (h : closurePD strands w = .ok pd) : pd.length = w.length := by
  unfold closurePD at h
  cases hf : w.foldlM closureStep (strands, List.range strands, []) with
  | panic => rw [hf] at h; cases h
  | err => rw [hf] at h; cases h
  | ok st =>
    rw [hf] at h
    simp only [Res.bind_ok, bind, Res.bind] at h
    split at h
    · cases h
    · simp only [pure] at h
      cases h
      rw [List.length_map]
      have := (foldlM_closureStep_len w _ st hf).1
      simpa using this

theorem allEdges_fromPD4_length (pd : List (Nat × Nat × Nat × Nat)) :
    (allEdges (fromPD4 pd)).length = 4 * pd.length := by
  induction pd with
  | nil => rfl
  | cons x xs ih =>
    simp only [allEdges, fromPD4, List.map_cons, List.flatMap_cons, List.length_append, List.length_cons] at *
    simp only [Crossing.edges, List.length_cons, List.length_nil]
    omega

end Yuiv.C18
