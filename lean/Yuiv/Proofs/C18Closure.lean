import Yuiv.Proofs.C18
import Yuiv.Proofs.C18Orbit
/-
C18 — part 4: the closure of a braid word is a valid PD code (every label exactly twice).

Invariant of the loop of `Braid::closure`, as a count over labels: the labels written so far, the current
bottom labels and the top labels `0..strands` together contain every label below `count` exactly twice.
-/
namespace Yuiv.C18
open Yuiv

abbrev PD := List (Nat × Nat × Nat × Nat)

def flatPD (pd : PD) : List Nat := pd.flatMap (fun x => [x.1, x.2.1, x.2.2.1, x.2.2.2])

theorem flatPD_append (p q : PD) : flatPD (p ++ q) = flatPD p ++ flatPD q := by
  simp [flatPD]

theorem flatPD_map (f : Nat → Nat) (pd : PD) :
    flatPD (pd.map (fun x => (f x.1, f x.2.1, f x.2.2.1, f x.2.2.2))) = (flatPD pd).map f := by
  induction pd with
  | nil => rfl
  | cons x xs ih =>
    simp only [flatPD, List.map_cons, List.flatMap_cons, List.map_append] at *
    rw [ih]; rfl

theorem allEdges_fromPD4 (pd : PD) : allEdges (fromPD4 pd) = flatPD pd := by
  induction pd with
  | nil => rfl
  | cons x xs ih =>
    simp only [allEdges, fromPD4, flatPD, List.map_cons, List.flatMap_cons] at *
    rw [ih]; rfl

structure CInv (strands : Nat) (st : Nat × List Nat × PD) : Prop where
  len : st.2.1.length = strands
  le : strands ≤ st.1
  cb : ∀ e, st.2.1.count e ≤ 1
  own : ∀ k (hk : k < st.2.1.length), st.2.1[k] = k ∨ strands ≤ st.2.1[k]
  cnt : ∀ e, (flatPD st.2.2).count e + st.2.1.count e + (if e < strands then 1 else 0)
          = if e < st.1 then 2 else 0

theorem cinv_init (strands : Nat) : CInv strands (strands, List.range strands, []) where
  len := List.length_range
  le := Nat.le_refl _
  cb := by intro e; rw [List.count_range]; split <;> omega
  own := by intro k hk; left; simp
  cnt := by
    intro e
    simp only [flatPD, List.flatMap_nil, List.count_nil, List.count_range]
    split <;> omega

theorem count_ge_of_getElem (l : List Nat) (k : Nat) (hk : k < l.length) (e : Nat) (h : l[k] = e) :
    1 ≤ l.count e := by
  have : e ∈ l := h ▸ List.getElem_mem hk
  exact List.count_pos_iff.2 this

theorem count4 (a b c d e : Nat) :
    [a, b, c, d].count e = (if a = e then 1 else 0) + (if b = e then 1 else 0) + (if c = e then 1 else 0)
      + (if d = e then 1 else 0) := by
  simp only [List.count_cons, List.count_nil, beq_iff_eq]
  omega

theorem ind_cases (P : Prop) [Decidable P] :
    (P ∧ (if P then 1 else 0 : Nat) = 1) ∨ (¬P ∧ (if P then 1 else 0 : Nat) = 0) := by
  by_cases h : P <;> simp [h]

theorem ind2_cases (P : Prop) [Decidable P] :
    (P ∧ (if P then 2 else 0 : Nat) = 2) ∨ (¬P ∧ (if P then 2 else 0 : Nat) = 0) := by
  by_cases h : P <;> simp [h]

theorem step_arith (a b count e strands cf cb cb1 cb2 cf2 x1 x2 x3 x4 x5 x6 x7 : Nat)
    (h1 : cb ≤ 1) (h2 : cb1 = cb - x1 + x3) (h3 : cb2 = cb1 - x2 + x4)
    (h4 : a ≠ e ∨ 1 ≤ cb) (h5 : b ≠ e ∨ 1 ≤ cb1) (h5' : b ≠ e ∨ 1 ≤ cb)
    (h6 : cf2 = cf + x1 + x2 + x3 + x4) (h7 : cf + cb + x5 = x6)
    (i1 : (a = e ∧ x1 = 1) ∨ (¬a = e ∧ x1 = 0)) (i2 : (b = e ∧ x2 = 1) ∨ (¬b = e ∧ x2 = 0))
    (i3 : (count = e ∧ x3 = 1) ∨ (¬count = e ∧ x3 = 0)) (i4 : (count + 1 = e ∧ x4 = 1) ∨ (¬count + 1 = e ∧ x4 = 0))
    (i5 : (e < strands ∧ x5 = 1) ∨ (¬e < strands ∧ x5 = 0)) (i6 : (e < count ∧ x6 = 2) ∨ (¬e < count ∧ x6 = 0))
    (i7 : (e < count + 2 ∧ x7 = 2) ∨ (¬e < count + 2 ∧ x7 = 0)) (hle : strands ≤ count) :
    cb2 ≤ 1 ∧ cf2 + cb2 + x5 = x7 := by
  rcases i1 with ⟨e1, j1⟩ | ⟨e1, j1⟩ <;> rcases i2 with ⟨e2, j2⟩ | ⟨e2, j2⟩ <;>
  rcases i3 with ⟨e3, j3⟩ | ⟨e3, j3⟩ <;> rcases i4 with ⟨e4, j4⟩ | ⟨e4, j4⟩ <;>
  subst j1 j2 j3 j4 <;> omega

theorem cinv_step (strands : Nat) (st st' : Nat × List Nat × PD) (s : Int)
    (hI : CInv strands st) (h : closureStep st s = .ok st') : CInv strands st' := by
  obtain ⟨a, b, _, ha, hb, rfl⟩ := closureStep_ok h
  obtain ⟨count, bottom, pd⟩ := st
  simp only at ha hb ⊢
  obtain ⟨hlen, hle, hcb, hown, hcnt⟩ := hI
  simp only at hlen hle hcb hown hcnt
  -- abbreviations
  have hi : s.natAbs - 1 < bottom.length := by
    rcases Nat.lt_or_ge (s.natAbs - 1) bottom.length with h | h
    · exact h
    · rw [List.getElem?_eq_none h] at ha; cases ha
  have hi1 : s.natAbs - 1 + 1 < bottom.length := by
    rcases Nat.lt_or_ge (s.natAbs - 1 + 1) bottom.length with h | h
    · exact h
    · rw [List.getElem?_eq_none h] at hb; cases hb
  generalize s.natAbs - 1 = i at *
  have ha' : bottom[i] = a := by
    rw [List.getElem?_eq_getElem hi] at ha; exact Option.some.inj ha
  have hb' : bottom[i + 1] = b := by
    rw [List.getElem?_eq_getElem hi1] at hb; exact Option.some.inj hb
  have hi1' : i + 1 < (bottom.set i count).length := by rw [List.length_set]; exact hi1
  have hb'' : (bottom.set i count)[i + 1] = b := by
    rw [List.getElem_set_ne (by omega)]; exact hb'
  -- counts of the new bottom row
  have F4 : ∀ e, (bottom.set i count).count e
      = bottom.count e - (if a = e then 1 else 0) + (if count = e then 1 else 0) := by
    intro e; rw [List.count_set hi, ha']; simp only [beq_iff_eq]
  have F5 : ∀ e, ((bottom.set i count).set (i + 1) (count + 1)).count e
      = (bottom.set i count).count e - (if b = e then 1 else 0) + (if count + 1 = e then 1 else 0) := by
    intro e; rw [List.count_set hi1', hb'']; simp only [beq_iff_eq]
  have F2 : ∀ e, a = e → 1 ≤ bottom.count e := fun e h => count_ge_of_getElem bottom i hi e (ha'.trans h)
  have F3 : ∀ e, b = e → 1 ≤ (bottom.set i count).count e :=
    fun e h => count_ge_of_getElem _ (i + 1) hi1' e (hb''.trans h)
  have F6 : ∀ e, (flatPD (pd ++ [if s > 0 then (a, count, count + 1, b) else (b, a, count, count + 1)])).count e
      = (flatPD pd).count e + (if a = e then 1 else 0) + (if b = e then 1 else 0)
        + (if count = e then 1 else 0) + (if count + 1 = e then 1 else 0) := by
    intro e
    rw [flatPD_append, List.count_append]
    by_cases hs : s > 0
    · rw [if_pos hs]
      show _ + [a, count, count + 1, b].count e = _
      rw [count4]; omega
    · rw [if_neg hs]
      show _ + [b, a, count, count + 1].count e = _
      rw [count4]; omega
  have F3' : ∀ e, b = e → 1 ≤ bottom.count e := fun e h => count_ge_of_getElem bottom (i + 1) hi1 e (hb'.trans h)
  have ARITH : ∀ e, ((bottom.set i count).set (i + 1) (count + 1)).count e ≤ 1 ∧
      (flatPD (pd ++ [if s > 0 then (a, count, count + 1, b) else (b, a, count, count + 1)])).count e
        + ((bottom.set i count).set (i + 1) (count + 1)).count e + (if e < strands then 1 else 0)
        = if e < count + 2 then 2 else 0 := by
    intro e
    have orimp : ∀ (P : Prop) (Q : Prop), (P → Q) → (¬P ∨ Q) := by
      intro P Q h; by_cases hp : P
      · exact Or.inr (h hp)
      · exact Or.inl hp
    exact step_arith a b count e strands _ _ _ _ _ _ _ _ _ _ _ _ (hcb e) (F4 e) (F5 e)
      (orimp _ _ (F2 e)) (orimp _ _ (F3 e)) (orimp _ _ (F3' e)) (F6 e) (hcnt e)
      (ind_cases _) (ind_cases _) (ind_cases _) (ind_cases _) (ind_cases _) (ind2_cases _) (ind2_cases _) hle
  refine ⟨?_, ?_, ?_, ?_, ?_⟩
  · simp only [List.length_set]; exact hlen
  · simp only; omega
  · intro e
    exact (ARITH e).1
  · intro k hk
    simp only [List.length_set] at hk
    simp only
    by_cases hk1 : k = i + 1
    · subst hk1; right; rw [List.getElem_set_self]; omega
    · rw [List.getElem_set_ne (by omega)]
      by_cases hk0 : k = i
      · subst hk0; right; rw [List.getElem_set_self]; omega
      · rw [List.getElem_set_ne (by omega)]; exact hown k hk
  · intro e
    exact (ARITH e).2

theorem cinv_foldl (strands : Nat) (w : List Int) (st st' : Nat × List Nat × PD)
    (hI : CInv strands st) (h : w.foldlM closureStep st = .ok st') : CInv strands st' := by
  induction w generalizing st with
  | nil => simp only [List.foldlM_nil, pure] at h; cases h; exact hI
  | cons s w ih =>
    simp only [List.foldlM_cons] at h
    cases hs : closureStep st s with
    | panic => rw [hs] at h; cases h
    | err => rw [hs] at h; cases h
    | ok st1 => rw [hs] at h; exact ih st1 (cinv_step strands st st1 s hI hs) h

theorem countP_or_eq (L : List Nat) (u v : Nat) (huv : u ≠ v) :
    L.countP (fun x => x == u || x == v) = L.count u + L.count v := by
  induction L with
  | nil => rfl
  | cons x xs ih =>
    simp only [List.countP_cons, List.count_cons, ih, beq_iff_eq, Bool.or_eq_true]
    have i1 := ind_cases (x = u); have i2 := ind_cases (x = v); have i3 := ind_cases (x = u ∨ x = v)
    omega

theorem count_map_eq (L : List Nat) (f : Nat → Nat) (e : Nat) :
    (L.map f).count e = L.countP (fun x => f x == e) := by
  rw [List.count_eq_countP, List.countP_map]; rfl

theorem countP_congr' (L : List Nat) (p q : Nat → Bool) (h : ∀ x, p x = q x) : L.countP p = L.countP q := by
  have : p = q := funext h
  rw [this]

theorem hasFreeLoop_false (bottom : List Nat) (h : hasFreeLoop bottom = false) :
    ∀ k (hk : k < bottom.length), bottom[k] ≠ k := by
  intro k hk hkk
  unfold hasFreeLoop at h
  have : (List.range bottom.length).any (fun i => bottom.getD i 0 == i) = true := by
    rw [List.any_eq_true]
    refine ⟨k, List.mem_range.2 hk, ?_⟩
    simp [List.getD_eq_getElem?_getD, List.getElem?_eq_getElem hk, hkk]
  rw [this] at h; cases h

/-- the renamed code is valid -/
theorem closure_final (strands : Nat) (st : Nat × List Nat × PD) (hI : CInv strands st)
    (hfree : hasFreeLoop st.2.1 = false) :
    ∀ e ∈ (flatPD st.2.2).map (connRename st.2.1), ((flatPD st.2.2).map (connRename st.2.1)).count e = 2 := by
  obtain ⟨count, bottom, pd⟩ := st
  obtain ⟨hlen, hle, hcb, hown, hcnt⟩ := hI
  simp only at hlen hle hcb hown hcnt hfree ⊢
  have hne := hasFreeLoop_false bottom hfree
  have hge : ∀ k (hk : k < bottom.length), strands ≤ bottom[k] := by
    intro k hk
    rcases hown k hk with h | h
    · exact absurd h (hne k hk)
    · exact h
  have hnodup : bottom.Nodup := List.nodup_iff_count.2 hcb
  have hmem_ge : ∀ x ∈ bottom, strands ≤ x := by
    intro x hx
    obtain ⟨k, hk, rfl⟩ := List.getElem_of_mem hx
    exact hge k hk
  -- the renaming on members / non-members of the bottom row
  have f_mem : ∀ x, x ∈ bottom → connRename bottom x = bottom.idxOf x ∧ bottom.idxOf x < bottom.length := by
    intro x hx
    have : bottom.idxOf x < bottom.length := List.idxOf_lt_length_iff.2 hx
    exact ⟨by unfold connRename; simp only [this, if_true], this⟩
  have f_nmem : ∀ x, x ∉ bottom → connRename bottom x = x := by
    intro x hx
    have : ¬ bottom.idxOf x < bottom.length := fun h => hx (List.idxOf_lt_length_iff.1 h)
    unfold connRename; simp only [this, if_false]
  intro e he
  rw [count_map_eq]
  by_cases hes : e < strands
  · -- a top label: preimages are `bottom[e]` and `e`
    have hek : e < bottom.length := by omega
    have hβ := hge e hek
    have hβe : bottom[e] ≠ e := by omega
    have he_nmem : e ∉ bottom := fun h => by have := hmem_ge e h; omega
    have hp : ∀ x, (connRename bottom x == e) = (x == bottom[e] || x == e) := by
      intro x
      by_cases hx : x ∈ bottom
      · obtain ⟨h1, h2⟩ := f_mem x hx
        rw [h1]
        have hxe : x ≠ e := fun h => he_nmem (h ▸ hx)
        by_cases hidx : bottom.idxOf x = e
        · have : bottom[e] = x := by
            have := List.getElem_idxOf h2
            simp only [hidx] at this; exact this
          simp [hidx, this]
        · have : x ≠ bottom[e] := by
            intro hxx
            apply hidx
            rw [hxx]; exact hnodup.idxOf_getElem e hek
          rw [beq_eq_false_iff_ne.2 hidx, beq_eq_false_iff_ne.2 this, beq_eq_false_iff_ne.2 hxe]; rfl
      · rw [f_nmem x hx]
        have : x ≠ bottom[e] := fun h => hx (h ▸ List.getElem_mem hek)
        simp [this]
    rw [countP_congr' _ _ _ hp, countP_or_eq _ _ _ hβe]
    have c1 := hcnt bottom[e]
    have c2 := hcnt e
    have b1 : 1 ≤ bottom.count bottom[e] := count_ge_of_getElem bottom e hek _ rfl
    have b1' := hcb bottom[e]
    have b2 : bottom.count e = 0 := List.count_eq_zero.2 he_nmem
    rw [b2] at c2
    rw [if_neg (by omega)] at c1
    rw [if_pos hes, if_pos (by omega)] at c2
    split at c1 <;> omega
  · -- a label ≥ strands survives only if it is not a bottom label
    by_cases heb : e ∈ bottom
    · exfalso
      rw [List.mem_map] at he
      obtain ⟨x, _, hx⟩ := he
      by_cases hxb : x ∈ bottom
      · obtain ⟨h1, h2⟩ := f_mem x hxb
        rw [h1] at hx; omega
      · rw [f_nmem x hxb] at hx; exact hxb (hx ▸ heb)
    · have hp : ∀ x, (connRename bottom x == e) = (x == e) := by
        intro x
        by_cases hx : x ∈ bottom
        · obtain ⟨h1, h2⟩ := f_mem x hx
          rw [h1]
          have : x ≠ e := fun h => heb (h ▸ hx)
          have h3 : bottom.idxOf x ≠ e := by omega
          rw [beq_eq_false_iff_ne.2 h3, beq_eq_false_iff_ne.2 this]
        · rw [f_nmem x hx]
      rw [countP_congr' _ _ _ hp]
      have hpos : 0 < (flatPD pd).count e := by
        rw [List.mem_map] at he
        obtain ⟨x, hxm, hx⟩ := he
        by_cases hxb : x ∈ bottom
        · obtain ⟨h1, h2⟩ := f_mem x hxb
          rw [h1] at hx; omega
        · rw [f_nmem x hxb] at hx; subst hx; exact List.count_pos_iff.2 hxm
      have c := hcnt e
      have b2 : bottom.count e = 0 := List.count_eq_zero.2 heb
      rw [b2, if_neg hes] at c
      rw [← List.count_eq_countP]
      split at c <;> omega

theorem closure_valid' (strands : Nat) (w : List Int) (l : Link) (h : closure strands w = .ok l) : Valid l := by
  unfold closure at h
  cases hp : closurePD strands w with
  | panic => rw [hp] at h; cases h
  | err => rw [hp] at h; cases h
  | ok pd =>
    rw [hp] at h
    simp only [bind, Res.bind, pure] at h
    cases h
    unfold closurePD at hp
    cases hf : w.foldlM closureStep (strands, List.range strands, []) with
    | panic => rw [hf] at hp; cases hp
    | err => rw [hf] at hp; cases hp
    | ok st =>
      rw [hf] at hp
      simp only [bind, Res.bind] at hp
      have hI := cinv_foldl strands w _ st (cinv_init strands) hf
      cases hfl : hasFreeLoop st.2.1 with
      | true => rw [hfl] at hp; simp at hp
      | false =>
        rw [hfl] at hp
        simp only [Bool.false_eq_true, if_false, pure] at hp
        cases hp
        unfold Valid
        rw [allEdges_fromPD4, flatPD_map]
        exact closure_final strands st hI hfl

/-- a list in which every entry occurs exactly twice has half as many distinct entries as entries -/
theorem twice_labels (n : Nat) : ∀ (L : List Nat), L.length = n → (∀ e ∈ L, L.count e = 2) →
    2 * L.eraseDups.length = L.length := by
  induction n using Nat.strongRecOn with
  | ind n ih =>
    intro L hn h
    cases L with
    | nil => rfl
    | cons a r =>
      rw [List.eraseDups_cons, List.length_cons, List.length_cons]
      show 2 * ((r.filter (fun x => x != a)).eraseDups.length + 1) = r.length + 1
      have hcount : (a :: r).count a = 2 := h a (by simp)
      have hlen : (a :: r).length = (a :: r).countP (fun x => x != a) + (a :: r).countP (fun x => ¬ (x != a)) :=
        List.length_eq_countP_add_countP _
      have h1 : (a :: r).countP (fun x => x != a) = (r.filter (fun x => x != a)).length := by
        rw [List.countP_cons]; simp [List.countP_eq_length_filter]
      have h2 : (a :: r).countP (fun x => decide ¬ ((x != a) = true)) = (a :: r).count a := by
        rw [List.count_eq_countP]
        congr 1; funext x; by_cases hx : x = a <;> simp [hx]
      have hfl : (r.filter (fun x => x != a)).length + 2 = r.length + 1 := by
        simp only [List.length_cons] at hlen; omega
      have hvalid : ∀ e ∈ r.filter (fun x => x != a), (r.filter (fun x => x != a)).count e = 2 := by
        intro e he
        rw [List.mem_filter] at he
        have hne : e ≠ a := by simpa using he.2
        rw [List.count_filter (by simpa using hne)]
        have := h e (List.mem_cons_of_mem _ he.1)
        rw [List.count_cons] at this
        simpa [Ne.symm hne] using this
      have := ih (r.filter (fun x => x != a)).length (by simp only [List.length_cons] at hn; omega) _ rfl hvalid
      omega

end Yuiv.C18
