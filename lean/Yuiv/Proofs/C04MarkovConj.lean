import Yuiv.Proofs.C04MarkovFar
/-
C04Markov (helper, no property theorem here): conjugation / cyclic rotation `w ++ [s]` versus `[s] ++ w`.
Both un-renamed codes (closing arcs as `H` crossings) are subdivisions of one and the same diagram: in `w ++ [s]` the
two outgoing edges of the last crossing are cut by the closing arcs at the positions `i`, `i+1`, in `[s] ++ w` the two
incoming edges of the first crossing are.  `collapse_closing` removes a set of closing arcs by collapsing labels.
-/
open Yuiv.KhRef Yuiv.C04
namespace Yuiv.C04Inv
open Relation
open Yuiv.C18 (closureStep closurePD closure connRename hasFreeLoop CInv PD flatPD fromPD4)
open Yuiv.C18Bridge (toKh crossingKh)

variable {R : Type} [CommRing R]

theorem rawLinkP_perm_filter (pd : PD) (ps : List (Nat × Nat)) (f : Nat × Nat → Bool) :
    (rawLinkP pd ps).toList.Perm ((rawLinkP pd (ps.filter (fun p => !f p))).toList ++ closeX (ps.filter f)) := by
  simp only [rawLinkP, List.append_assoc]
  refine List.Perm.append_left _ ?_
  unfold closeX
  rw [← List.map_append]
  exact (List.Perm.map _ (List.perm_append_comm.trans (List.filter_append_perm f ps))).symm

/-- remove the closing arcs selected by `f`, collapsing the labels along them by `F` -/
theorem collapse_closing (x y : R) (pd : PD) (ps : List (Nat × Nat)) (f : Nat × Nat → Bool) (F : Nat → Nat)
    (b1 : ∀ p ∈ ps, f p = true → F p.1 = F p.2)
    (b2 : ∀ z, F z = z ∨ ∃ p ∈ ps, f p = true ∧ ((p.1 = z ∧ p.2 = F z) ∨ (p.2 = z ∧ p.1 = F z)))
    (b3 : ∀ p ∈ ps, f p = true → F p.1 ∈ F '' labelSet (rawLinkP pd (ps.filter (fun p => !f p)))) :
    stateSum x y (rawLinkP pd ps)
      = stateSum x y (rawLinkP (pd.map (map4 F)) ((ps.filter (fun p => !f p)).map (pmap F))) := by
  rw [stateSum_perm' x y (l := ((rawLinkP pd (ps.filter (fun p => !f p))).toList ++ closeX (ps.filter f)).toArray)
    (l' := rawLinkP pd ps) ?_ (by simpa using rawLinkP_perm_filter pd ps f)]
  · have key := extra_stateSum x y (rawLinkP pd (ps.filter (fun p => !f p))) (closeX (ps.filter f)) F (WF_rawLinkP _ _)
      (by intro c hc; simp only [closeX, List.mem_map] at hc; obtain ⟨p, _, rfl⟩ := hc; rfl)
      (by intro c hc; simp only [closeX, List.mem_map] at hc; obtain ⟨p, _, rfl⟩ := hc; rfl)
      (by
        intro p hp
        rw [extraArcs_closeX, List.mem_flatMap] at hp
        obtain ⟨p0, hp0, hp⟩ := hp
        rw [List.mem_filter] at hp0
        simp only [List.mem_cons, List.mem_nil_iff, or_false] at hp
        rcases hp with rfl | rfl
        · exact b1 p0 hp0.1 hp0.2
        · exact (b1 p0 hp0.1 hp0.2).symm)
      (by
        intro z _
        rcases b2 z with h | ⟨p, hp, hfp, h⟩
        · rw [h]; exact Conn.refl _
        · refine Conn.of_mem ?_
          rw [extraArcs_closeX, List.mem_flatMap]
          refine ⟨p, List.mem_filter.2 ⟨hp, hfp⟩, ?_⟩
          rcases h with ⟨h1, h2⟩ | ⟨h1, h2⟩
          · subst h1; rw [← h2]; simp
          · subst h1; rw [← h2]; simp)
      (by
        rintro z ⟨c, hc, hz⟩
        simp only [closeX, List.mem_map] at hc
        obtain ⟨p, hp, rfl⟩ := hc
        rw [List.mem_filter] at hp
        simp only [List.mem_toArray, List.mem_cons, List.mem_nil_iff, or_false] at hz
        have e := b1 p hp.1 hp.2
        rcases hz with rfl | rfl | rfl | rfl
        · exact b3 p hp.1 hp.2
        · rw [← e]; exact b3 p hp.1 hp.2
        · rw [← e]; exact b3 p hp.1 hp.2
        · exact b3 p hp.1 hp.2)
    rw [key.1, renumber_rawLinkP]
  · intro c hc
    simp only [List.mem_toArray, List.mem_append, Array.mem_toList_iff] at hc
    rcases hc with hc | hc
    · exact WF_rawLinkP _ _ c hc
    · simp only [closeX, List.mem_map] at hc
      obtain ⟨p, _, rfl⟩ := hc
      rfl

theorem zipIdx_eq_map_range (l : List Nat) : l.zipIdx = (List.range l.length).map (fun k => (l.getD k 0, k)) := by
  apply List.ext_getElem (by simp)
  intro k h1 h2
  have hk : k < l.length := by simpa using h1
  simp [List.getD_eq_getElem?_getD, List.getElem?_eq_getElem hk]

/-- the relabelling of the run of `w` caused by a first letter on the strands `i`, `i+1` (width `n`) -/
def gC (i n z : Nat) : Nat := if z = i then n else if z = i + 1 then n + 1 else if n ≤ z then z + 2 else z

theorem gC_i (i n : Nat) : gC i n i = n := by simp [gC]
theorem gC_i1 (i n : Nat) : gC i n (i + 1) = n + 1 := by simp [gC]
theorem gC_ge (i n z : Nat) (hi : i + 1 < n) (hz : n ≤ z) : gC i n z = z + 2 := by
  unfold gC; rw [if_neg (by omega), if_neg (by omega), if_pos hz]
theorem gC_other (i n z : Nat) (h1 : z ≠ i) (h2 : z ≠ i + 1) (h3 : z < n) : gC i n z = z := by
  unfold gC; rw [if_neg h1, if_neg h2, if_neg (by omega)]
theorem gC_ne (i n z : Nat) (hi : i + 1 < n) : gC i n z ≠ i ∧ gC i n z ≠ i + 1 := by
  unfold gC; split
  · omega
  · split
    · omega
    · split <;> omega
theorem gC_inj (i n : Nat) (hi : i + 1 < n) : Function.Injective (gC i n) := by
  intro u v h
  unfold gC at h
  repeat' split at h
  all_goals omega
theorem gC_le (i n c z : Nat) (hnc : n ≤ c) (hz : z < c) : gC i n z ≤ c + 1 := by
  unfold gC; split
  · omega
  · split
    · omega
    · split <;> omega
theorem gC_eq_n (i n k : Nat) (hi : i + 1 < n) (hk : k < n) : (gC i n k = n ↔ k = i) ∧ (gC i n k = n + 1 ↔ k = i + 1) := by
  unfold gC; split
  · omega
  · split
    · omega
    · split <;> omega

theorem rawLinkP_perm_pd {pd pd' : PD} (hp : pd.Perm pd') (ps : List (Nat × Nat)) :
    (rawLinkP pd' ps).toList.Perm (rawLinkP pd ps).toList := by
  simp only [rawLinkP, pdLink]
  exact List.Perm.append_right _ (hp.symm.map _)

theorem map4_stepX (f : Nat → Nat) (s : Int) (a b c : Nat) :
    map4 f (stepX s a b c) = if s > 0 then (f a, f c, f (c + 1), f b) else (f b, f a, f c, f (c + 1)) := by
  unfold stepX; split <;> rfl

end Yuiv.C04Inv
