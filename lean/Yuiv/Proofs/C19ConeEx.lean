import Yuiv.Proofs.C19ConeSq
import Yuiv.Proofs.C19CommEx
/-
C19Cone — the per-instance check on the strongly invertible trefoil (`Proofs/C19CommEx.tref`).
-/
namespace Yuiv.C19Cone
open Yuiv Yuiv.KhRef Yuiv.C19 Yuiv.C06Cycle Yuiv.C19Inv Yuiv.C19Comm

set_option maxRecDepth 4000

/-- unreduced theory, all `h`, `t` -/
theorem tref_ok_unreduced (h t : Int) : khiInstanceOk tref ⟨h, t, false⟩ = true := by
  have e1 : redOk tref ⟨h, t, false⟩ = true := rfl
  unfold khiInstanceOk
  rw [tref_icube, e1, tref_labels]
  decide +kernel

/-- reduced theory, `t = 0`, all `h` -/
theorem tref_ok_reduced (h : Int) : khiInstanceOk tref ⟨h, 0, true⟩ = true := by
  have e1 : redOk tref ⟨h, 0, true⟩ = true := by
    show redOk tref ⟨0, 0, true⟩ = true
    unfold redOk
    rw [tref_labels]
    decide +kernel
  unfold khiInstanceOk
  rw [tref_icube, e1, tref_labels]
  decide +kernel

/-- reduced theory, `t = 1`: rejected -/
theorem tref_not_ok_reduced_t1 : khiInstanceOk tref ⟨0, 1, true⟩ = false := by
  have e1 : redOk tref ⟨0, 1, true⟩ = false := by
    unfold redOk
    rw [tref_labels]
    decide +kernel
  unfold khiInstanceOk
  rw [e1]
  simp

end Yuiv.C19Cone
