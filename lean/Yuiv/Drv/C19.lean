import Yuiv.Drv.C01
import Yuiv.Model.C19
import Yuiv.Model.C19Inv
/-
Driver for C19:
  `khi <h> <t> <reduced> <bigraded> <base|_> <link> <e:τe …>` ↦ `signs=… <table of 𝔽₂-dimensions>` of the cone of 1+τ
  `ssi <d0> <d1> <w> <r>` ↦ the pair of s-type invariants;  `kh …` as in C01 (ordinary Khovanov homology reference).
Involution data (code model `Model/C19Inv.lean`):
  `invnew <base|_> <link> <e:fe …>`    ↦ `panic` | `ok E <e:inv_e(e) …> X <i:index of inv_x(crossing i) …> hyp=<b> ref=<b>`
        (`hyp` = the decidable hypotheses of `inv_x_involutive_of_checks`; `ref` = inv_x is the first match, i.e. the
         reference model's `InvLink.invX`, for every crossing)
  `invmirror <base|_> <link> <e:fe …>` ↦ the same data read off `InvLink::mirror` of the result
  `sinv <k> <4k labels>`               ↦ `panic` | `ok n=<edges> E … X …`   (`sinv_knot_from_code`)
  `icube <reduced> <base|_> <link> <e:τe …>` ↦ `wf=<b>`: the hypothesis of the τ theorems (`icubeWf`) on the reference cube
-/
namespace Yuiv.Drv.C19
open Yuiv.KhRef Yuiv.C19 Yuiv.Drv Yuiv.Drv.KhLink

def parsePair? (s : String) : Option (Nat × Nat) :=
  match s.splitOn ":" with
  | [a, b] => do let a ← parseNat? a; let b ← parseNat? b; some (a, b)
  | _ => none

def cellsStr (r : IResult) : String :=
  if r.cells.isEmpty then "empty" else
    let cs := r.cells.qsort (fun a b => a.1 < b.1 || (a.1 == b.1 && (a.2.1.getD 0) < (b.2.1.getD 0)))
    String.intercalate " " (cs.toList.map (fun (i, j, d) =>
      match j with
      | some j => s!"{i},{j}:{d}"
      | none => s!"{i}:{d}"))

def sortNat (l : List Nat) : List Nat := (l.toArray.qsort (· < ·)).toList

def fOfPairs (ps : List (Nat × Nat)) (e : Nat) : Nat :=
  match ps.find? (fun p => p.1 == e) with
  | some p => p.2
  | none => e

/-- `E …` and `X …` of an involutive link as the harness prints them; `none` = some lookup panics -/
def invDataStr (d : C19Inv.InvData) : Option String := do
  let xs := d.link.toList
  let es := sortNat (C19Inv.dedup (C19Inv.edgesOf xs))
  let mut out := "E"
  for e in es do
    match d.invE e with
    | .ok v => out := out ++ s!" {e}:{v}"
    | _ => none
  out := out ++ " X"
  let mut i := 0
  for x in xs do
    match d.invX x with
    | .ok y =>
      let j ← C19Inv.xIndex d.link y
      out := out ++ s!" {i}:{j}"
    | _ => none
    i := i + 1
  return out

def b01 (b : Bool) : String := if b then "1" else "0"

/-- is `inv_x` the first match (the reference model's index-based `invX`) for every crossing? -/
def refAgrees (d : C19Inv.InvData) : Bool :=
  let il := d.toInvLink
  (List.range d.link.size).all (fun i =>
    match d.invX (d.link[i]!) with
    | .ok y => il.invX i == C19Inv.xIndex d.link y
    | _ => false)

def invReq (mirror : Bool) (base : String) (rest : List String) : Option String := do
  let base ← if base = "_" then some none else (parseNat? base).map some
  let (l, rest) ← parseLink? rest
  let ps ← rest.mapM parsePair?
  let f := fOfPairs ps
  match C19Inv.new l f base with
  | .ok d =>
    let d' := if mirror then d.mirror else d
    match invDataStr d' with
    | none => some "panic"
    | some str =>
      let xs := l.toList
      let hyp := C19Inv.involB f (C19Inv.edgesOf xs) && C19Inv.sameCardB xs && C19Inv.distinctSetsB xs
      some s!"ok {str} hyp={b01 hyp} ref={b01 (refAgrees d')}"
  | _ => some "panic"

def sinvReq (k : String) (rest : List String) : Option String := do
  let k ← parseNat? k
  let ns ← rest.mapM parseNat?
  if ns.length != 4 * k then none
  let code : List (Array Nat) := (List.range k).map (fun i => #[ns[4*i]!, ns[4*i+1]!, ns[4*i+2]!, ns[4*i+3]!])
  match C19Inv.sinvFromCode code with
  | .ok d =>
    match invDataStr d with
    | none => some "panic"
    | some str => some s!"ok n={(C19Inv.dedup (C19Inv.edgesOf d.link.toList)).length} {str}"
  | _ => some "panic"

def icubeReq (red base : String) (rest : List String) : Option String := do
  let red ← parseNat? red
  let base ← if base = "_" then some none else (parseNat? base).map some
  let (l, rest) ← parseLink? rest
  let emap ← rest.mapM parsePair?
  let il : InvLink := ⟨l, emap.toArray, base⟩
  match mkICube il ⟨0, 0, red == 1⟩ with
  | some ic => some s!"wf={b01 (C19Inv.icubeWf ic)}"
  | none => some "err malformed"

def handle (t : List String) : String :=
  match t with
  | "invnew" :: base :: rest => (invReq false base rest).getD "bad-request"
  | "invmirror" :: base :: rest => (invReq true base rest).getD "bad-request"
  | "sinv" :: k :: rest => (sinvReq k rest).getD "bad-request"
  | "icube" :: red :: base :: rest => (icubeReq red base rest).getD "bad-request"
  | "khi" :: h :: tt :: red :: bigr :: base :: rest =>
    let r : Option String := do
      let h ← parseInt? h; let tt ← parseInt? tt
      let red ← parseNat? red; let bigr ← parseNat? bigr
      let base ← if base = "_" then some none else (parseNat? base).map some
      let (l, rest) ← parseLink? rest
      let emap ← rest.mapM parsePair?
      let il : InvLink := ⟨l, emap.toArray, base⟩
      match crossingSigns l with
      | none => some "err signs"
      | some sg =>
        match khiHomology il sg ⟨h, tt, red == 1⟩ (bigr == 1) with
        | .ok res => some s!"signs={signsStr sg} {cellsStr res}"
        | .error .malformed => some "err malformed"
        | .error .notComplex => some "err notcomplex"
    r.getD "bad-request"
  | ["ssi", d0, d1, w, r] =>
    let x : Option String := do
      let d0 ← parseInt? d0; let d1 ← parseInt? d1; let w ← parseInt? w; let r ← parseInt? r
      let p := ssi d0 d1 w r
      some s!"{p.1} {p.2}"
    x.getD "bad-request"
  | _ => Yuiv.Drv.C01.handle t

end Yuiv.Drv.C19
