import Yuiv.Drv.C01
import Yuiv.Model.C19
/-
Driver for C19:
  `khi <h> <t> <reduced> <bigraded> <base|_> <link> <e:τe …>` ↦ `signs=… <table of 𝔽₂-dimensions>` of the cone of 1+τ
  `ssi <d0> <d1> <w> <r>` ↦ the pair of s-type invariants;  `kh …` as in C01 (ordinary Khovanov homology reference).
-/
namespace Yuiv.Drv.C19
open Yuiv.KhRef Yuiv.C19 Yuiv.Drv Yuiv.Drv.KhLink

def parsePair? (s : String) : Option (Nat × Nat) :=
  match s.splitOn ":" with
  | [a, b] => do let a ← parseNat? a; let b ← parseNat? b; some (a, b)
  | _ => none

def cellsStr (r : IResult) : String :=
  if r.cells.isEmpty then "empty" else
    let cs := r.cells.qsort (fun a b => a.1 < b.1 || (a.1 == b.1 && (a.2.1.getD 0) < (b.2.1.getD 0)))
    String.intercalate " " (cs.toList.map (fun (i, j, d) =>
      match j with
      | some j => s!"{i},{j}:{d}"
      | none => s!"{i}:{d}"))

def handle (t : List String) : String :=
  match t with
  | "khi" :: h :: tt :: red :: bigr :: base :: rest =>
    let r : Option String := do
      let h ← parseInt? h; let tt ← parseInt? tt
      let red ← parseNat? red; let bigr ← parseNat? bigr
      let base ← if base = "_" then some none else (parseNat? base).map some
      let (l, rest) ← parseLink? rest
      let emap ← rest.mapM parsePair?
      let il : InvLink := ⟨l, emap.toArray, base⟩
      match crossingSigns l with
      | none => some "err signs"
      | some sg =>
        match khiHomology il sg ⟨h, tt, red == 1⟩ (bigr == 1) with
        | .ok res => some s!"signs={signsStr sg} {cellsStr res}"
        | .error .malformed => some "err malformed"
        | .error .notComplex => some "err notcomplex"
    r.getD "bad-request"
  | ["ssi", d0, d1, w, r] =>
    let x : Option String := do
      let d0 ← parseInt? d0; let d1 ← parseInt? d1; let w ← parseInt? w; let r ← parseInt? r
      let p := ssi d0 d1 w r
      some s!"{p.1} {p.2}"
    x.getD "bad-request"
  | _ => Yuiv.Drv.C01.handle t

end Yuiv.Drv.C19
