import Yuiv.Drv.C04
def main : IO Unit := Yuiv.Drv.loop Yuiv.Drv.C04.handle
