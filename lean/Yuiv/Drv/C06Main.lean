import Yuiv.Drv.C06
def main : IO Unit := Yuiv.Drv.loop Yuiv.Drv.C06.handle
