import Yuiv.Drv.Loop
-- stub driver for C06 (not built yet)
def main : IO Unit := Yuiv.Drv.loop (fun _ => "unimplemented")
