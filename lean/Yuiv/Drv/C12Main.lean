import Yuiv.Drv.C12
def main : IO Unit := Yuiv.Drv.loop Yuiv.Drv.C12.handle
