import Yuiv.Drv.C10
def main : IO Unit := Yuiv.Drv.loop Yuiv.Drv.C10.handle
