import Yuiv.Model.C13
import Yuiv.Model.C13Sc
import Yuiv.Drv.Loop
/-
Driver for C13.  A request is `<ring> <program>`: `ring ∈ {Z, Q, F3}` and the program is a sequence of
stack instructions (postfix).  Constructors push literal operands, every other instruction pops its
operands, runs the code model and pushes the result(s).  The reply is the rendering of the final
stack (bottom to top, `;`-separated): sparse matrices / vectors are rendered densely (entries only,
the storage pattern is not compared), or `panic` as soon as any modelled call panics.
-/
namespace Yuiv.Drv.C13
open Yuiv Yuiv.C13 Yuiv.Drv

inductive Val (R : Type) where
  | S (A : SpMat R)
  | V (v : SpVec R)
  | D (A : DMat R)
  | P (p : Perm)
  | T (t : Trans R)
  | B (b : Bool)
  | L (l : List R)

abbrev E := Except String

def lift {α} : Res α → E α
  | .ok a => pure a
  | .panic => throw "panic"
  | .err => throw "err"

def bad {α} : E α := throw "bad-request"

def takeNat : List String → E (Nat × List String)
  | s :: r => match s.toNat? with
    | some n => pure (n, r)
    | none => bad
  | [] => bad

def takeNats : Nat → List String → E (List Nat × List String)
  | 0, r => pure ([], r)
  | k + 1, r => do
    let (x, r) ← takeNat r
    let (xs, r) ← takeNats k r
    pure (x :: xs, r)

section
variable {R : Type} [Zero R] [One R] [Add R] [Mul R] [Neg R] [Sub R] [DecidableEq R]
variable (parseR : String → Option R) (showR : R → String)

def takeR : List String → E (R × List String)
  | s :: r => match parseR s with
    | some a => pure (a, r)
    | none => bad
  | [] => bad

def takeRs : Nat → List String → E (List R × List String)
  | 0, r => pure ([], r)
  | k + 1, r => do
    let (x, r) ← takeR parseR r
    let (xs, r) ← takeRs k r
    pure (x :: xs, r)

def takeTrips : Nat → List String → E (List (Trip R) × List String)
  | 0, r => pure ([], r)
  | k + 1, r => do
    let (i, r) ← takeNat r
    let (j, r) ← takeNat r
    let (a, r) ← takeR parseR r
    let (xs, r) ← takeTrips k r
    pure ((i, j, a) :: xs, r)

def takeEnts : Nat → List String → E (List (Nat × R) × List String)
  | 0, r => pure ([], r)
  | k + 1, r => do
    let (i, r) ← takeNat r
    let (a, r) ← takeR parseR r
    let (xs, r) ← takeEnts k r
    pure ((i, a) :: xs, r)

def takePairs : Nat → List String → E (List (Nat × Nat) × List String)
  | 0, r => pure ([], r)
  | k + 1, r => do
    let (i, r) ← takeNat r
    let (j, r) ← takeNat r
    let (xs, r) ← takePairs k r
    pure ((i, j) :: xs, r)

/-- pop `k` sparse vectors (the deepest one is the first of the list) -/
def popVecs : Nat → List (Val R) → E (List (SpVec R) × List (Val R))
  | 0, st => pure ([], st)
  | k + 1, .V v :: st => do
    let (vs, st) ← popVecs k st
    pure (vs ++ [v], st)
  | _, _ => bad

def renderD (A : DMat R) : String :=
  String.intercalate " " (s!"{A.nrows}" :: s!"{A.ncols}" ::
    (List.range A.nrows).flatMap (fun i => (List.range A.ncols).map (fun j => showR (A.get i j))))

def renderS (A : SpMat R) : String := renderD showR A.toDense

def renderT (t : Trans R) : E String := do
  let f ← lift t.forwardMat
  let b ← lift t.backwardMat
  pure s!"T {t.srcDim} {t.tgtDim} F {renderS showR f} B {renderS showR b}"

def renderP (p : Perm) : E String := do
  let im ← lift (permImages p (List.range p.dim))
  pure (String.intercalate " " ("P" :: s!"{p.dim}" :: im.map toString))

def render : Val R → E String
  | .S A => pure ("S " ++ renderS showR A)
  | .V v => pure (String.intercalate " " ("V" :: s!"{v.dim}" :: (List.range v.dim).map (fun i => showR (v.entry i))))
  | .D A => pure ("D " ++ renderD showR A)
  | .P p => renderP p
  | .T t => renderT showR t
  | .B b => pure s!"B {b}"
  | .L l => pure (String.intercalate " " ("L" :: s!"{l.length}" :: l.map showR))

/-- one instruction: remaining tokens and new stack (head = top) -/
def step (op : String) (r : List String) (st : List (Val R)) : E (List String × List (Val R)) :=
  match op, st with
  -- stack
  | "dup", x :: st => pure (r, x :: x :: st)
  | "swap", x :: y :: st => pure (r, y :: x :: st)
  | "over", x :: y :: st => pure (r, y :: x :: y :: st)
  | "pop", _ :: st => pure (r, st)
  -- sparse constructors
  | "E", st => do
    let (m, r) ← takeNat r; let (n, r) ← takeNat r; let (k, r) ← takeNat r
    let (es, r) ← takeTrips parseR k r
    let A ← lift (fromEntries m n es)
    pure (r, .S A :: st)
  | "DD", st => do
    let (m, r) ← takeNat r; let (n, r) ← takeNat r
    let (es, r) ← takeRs parseR (m * n) r
    let A ← lift (fromDenseData m n es)
    pure (r, .S A :: st)
  | "Z", st => do
    let (m, r) ← takeNat r; let (n, r) ← takeNat r
    pure (r, .S (SpMat.zero m n) :: st)
  | "I", st => do
    let (n, r) ← takeNat r
    pure (r, .S (SpMat.id n) :: st)
  | "VE", st => do
    let (d, r) ← takeNat r; let (k, r) ← takeNat r
    let (es, r) ← takeEnts parseR k r
    let v ← lift (SpVec.fromEntries d es)
    pure (r, .V v :: st)
  | "VS", st => do
    let (d, r) ← takeNat r; let (k, r) ← takeNat r
    let (es, r) ← takeEnts parseR k r
    let v ← lift (SpVec.fromSortedEntries d es)
    pure (r, .V v :: st)
  | "VD", st => do
    let (d, r) ← takeNat r
    let (es, r) ← takeRs parseR d r
    let v ← lift (SpVec.ofDense es)
    pure (r, .V v :: st)
  | "VZ", st => do
    let (d, r) ← takeNat r
    pure (r, .V (SpVec.zero d) :: st)
  | "VU", st => do
    let (n, r) ← takeNat r; let (i, r) ← takeNat r
    let v ← lift (SpVec.unit n i)
    pure (r, .V v :: st)
  -- dense constructors
  | "M", st => do
    let (m, r) ← takeNat r; let (n, r) ← takeNat r
    let (es, r) ← takeRs parseR (m * n) r
    let A ← lift (DMat.fromData m n es)
    pure (r, .D A :: st)
  | "MZ", st => do
    let (m, r) ← takeNat r; let (n, r) ← takeNat r
    pure (r, .D (DMat.zero m n) :: st)
  | "MI", st => do
    let (n, r) ← takeNat r
    pure (r, .D (DMat.id n) :: st)
  | "MG", st => do
    let (m, r) ← takeNat r; let (n, r) ← takeNat r; let (k, r) ← takeNat r
    let (es, r) ← takeRs parseR k r
    let A ← lift (DMat.diag m n es)
    pure (r, .D A :: st)
  -- permutations
  | "P", st => do
    let (n, r) ← takeNat r
    let (l, r) ← takeNats n r
    let p ← lift (Perm.new l)
    pure (r, .P p :: st)
  | "PI", st => do
    let (n, r) ← takeNat r
    pure (r, .P (Perm.identity n) :: st)
  | "PF", st => do   -- `pivot::perms_by_pivots(&SpMat::zero((m, n)), pivs)`
    let (m, r) ← takeNat r; let (n, r) ← takeNat r; let (k, r) ← takeNat r
    let (ps, r) ← takePairs k r
    let p ← lift (permForIndices m (ps.map (·.1)))
    let q ← lift (permForIndices n (ps.map (·.2)))
    pure (r, .P q :: .P p :: st)
  -- sparse operations
  | "add", .S b :: .S a :: st => do let c ← lift (a.add b); pure (r, .S c :: st)
  | "sub", .S b :: .S a :: st => do let c ← lift (a.sub b); pure (r, .S c :: st)
  | "mul", .S b :: .S a :: st => do let c ← lift (a.mul b); pure (r, .S c :: st)
  | "neg", .S a :: st => pure (r, .S a.neg :: st)
  | "tr", .S a :: st => pure (r, .S a.transpose :: st)
  | "perm", .P q :: .P p :: .S a :: st => do let c ← lift (a.permute p q); pure (r, .S c :: st)
  | "permr", .P p :: .S a :: st => do let c ← lift (a.permuteRows p); pure (r, .S c :: st)
  | "permc", .P q :: .S a :: st => do let c ← lift (a.permuteCols q); pure (r, .S c :: st)
  | "sm", .S a :: st => do
    let (x, r) ← takeNats 4 r
    match x with
    | [i0, i1, j0, j1] => do let c ← lift (a.submat i0 i1 j0 j1); pure (r, .S c :: st)
    | _ => bad
  | "smr", .S a :: st => do
    let (i0, r) ← takeNat r; let (i1, r) ← takeNat r
    let c ← lift (a.submatRows i0 i1); pure (r, .S c :: st)
  | "smc", .S a :: st => do
    let (j0, r) ← takeNat r; let (j1, r) ← takeNat r
    let c ← lift (a.submatCols j0 j1); pure (r, .S c :: st)
  | "div4", .S a :: st => do
    let (k, r) ← takeNat r; let (l, r) ← takeNat r
    let (x, y, z, w) ← lift (a.divide4 k l)
    pure (r, .S w :: .S z :: .S y :: .S x :: st)
  | "comb", .S d :: .S c :: .S b :: .S a :: st => do let x ← lift (combineBlocks a b c d); pure (r, .S x :: st)
  | "cat", .S b :: .S a :: st => do let c ← lift (a.concat b); pure (r, .S c :: st)
  | "stk", .S b :: .S a :: st => do let c ← lift (a.stack b); pure (r, .S c :: st)
  | "ext", .S b :: .S a :: st => do let c ← lift (a.extendCols b); pure (r, .S c :: st)
  | "rperm", .P p :: st => do let c ← lift (fromRowPerm p); pure (r, .S c :: st)
  | "cperm", .P p :: st => do let c ← lift (fromColPerm p); pure (r, .S c :: st)
  | "colv", .S a :: st => do
    let (j, r) ← takeNat r
    let v ← lift (a.colVec j); pure (r, .V v :: st)
  | "fcv", st => do
    let (m, r) ← takeNat r; let (k, r) ← takeNat r
    let (vs, st) ← popVecs k st
    let a ← lift (fromColVecs m vs); pure (r, .S a :: st)
  | "x0", .S a :: st => do
    let c ← lift (a.extract a.ncols a.nrows (fun i j => .ok (some (j, i)))); pure (r, .S c :: st)
  | "x1", .S a :: st => do
    let (m', r) ← takeNat r; let (n', r) ← takeNat r
    let c ← lift (a.extract m' n' (fun i j => if m' = 0 ∨ n' = 0 then .panic else .ok (some (i % m', j % n'))))
    pure (r, .S c :: st)
  | "x2", .S a :: st => do
    let c ← lift (a.extract ((a.nrows + 1) / 2) a.ncols (fun i j => .ok (if i % 2 = 0 then some (i / 2, j) else none)))
    pure (r, .S c :: st)
  | "dense", .S a :: st => pure (r, .D a.toDense :: st)
  | "sparse", .D a :: st => pure (r, .S a.toSparse :: st)
  | "isz", .S a :: st => pure (r, .B a.isZero :: st)
  -- sparse vectors
  | "vadd", .V b :: .V a :: st => do let c ← lift (a.add b); pure (r, .V c :: st)
  | "vsub", .V b :: .V a :: st => do let c ← lift (a.sub b); pure (r, .V c :: st)
  | "vneg", .V a :: st => pure (r, .V a.neg :: st)
  | "vperm", .P p :: .V a :: st => do let c ← lift (a.permute p); pure (r, .V c :: st)
  | "vsv", .V a :: st => do
    let (x, r) ← takeNat r; let (y, r) ← takeNat r
    let c ← lift (a.subvec x y); pure (r, .V c :: st)
  | "vstk", .V b :: .V a :: st => do let c ← lift (a.stack b); pure (r, .V c :: st)
  | "vspl", .V a :: st => do
    let (k, r) ← takeNat r
    let (x, y) ← lift (a.split k); pure (r, .V y :: .V x :: st)
  | "vsvs", st => do
    let (k, r) ← takeNat r
    let (vs, st) ← popVecs k st
    let v ← lift (SpVec.stackVecs vs); pure (r, .V v :: st)
  | "vmat", .V a :: st => pure (r, .S a.toMat :: st)
  | "mv", .V v :: .S a :: st => do let c ← lift (a.mulVec v); pure (r, .V c :: st)
  | "vx1", .V a :: st => do
    let (d', r) ← takeNat r
    let c ← lift (a.extract d' (fun i => if d' = 0 then .panic else .ok (some (i % d'))))
    pure (r, .V c :: st)
  | "vx2", .V a :: st => do
    let c ← lift (a.extract ((a.dim + 1) / 2) (fun i => .ok (if i % 2 = 0 then some (i / 2) else none)))
    pure (r, .V c :: st)
  | "vden", .V a :: st => do let l ← lift a.toDense; pure (r, .L l :: st)
  | "visz", .V a :: st => pure (r, .B a.isZero :: st)
  -- dense operations
  | "dadd", .D b :: .D a :: st => do let c ← lift (a.add b); pure (r, .D c :: st)
  | "dsub", .D b :: .D a :: st => do let c ← lift (a.sub b); pure (r, .D c :: st)
  | "dmul", .D b :: .D a :: st => do let c ← lift (a.mul b); pure (r, .D c :: st)
  | "dneg", .D a :: st => pure (r, .D a.neg :: st)
  | "swr", .D a :: st => do
    let (i, r) ← takeNat r; let (j, r) ← takeNat r
    let c ← lift (a.swapRows i j); pure (r, .D c :: st)
  | "swc", .D a :: st => do
    let (i, r) ← takeNat r; let (j, r) ← takeNat r
    let c ← lift (a.swapCols i j); pure (r, .D c :: st)
  | "mulr", .D a :: st => do
    let (i, r) ← takeNat r; let (x, r) ← takeR parseR r
    let c ← lift (a.mulRow i x); pure (r, .D c :: st)
  | "mulc", .D a :: st => do
    let (i, r) ← takeNat r; let (x, r) ← takeR parseR r
    let c ← lift (a.mulCol i x); pure (r, .D c :: st)
  | "addr", .D a :: st => do
    let (i, r) ← takeNat r; let (j, r) ← takeNat r; let (x, r) ← takeR parseR r
    let c ← lift (a.addRowTo i j x); pure (r, .D c :: st)
  | "addc", .D a :: st => do
    let (i, r) ← takeNat r; let (j, r) ← takeNat r; let (x, r) ← takeR parseR r
    let c ← lift (a.addColTo i j x); pure (r, .D c :: st)
  | "lel", .D a :: st => do
    let (x, r) ← takeRs parseR 4 r; let (i, r) ← takeNat r; let (j, r) ← takeNat r
    match x with
    | [p, q, s, t] => do let c ← lift (a.leftElementary p q s t i j); pure (r, .D c :: st)
    | _ => bad
  | "rel", .D a :: st => do
    let (x, r) ← takeRs parseR 4 r; let (i, r) ← takeNat r; let (j, r) ← takeNat r
    match x with
    | [p, q, s, t] => do let c ← lift (a.rightElementary p q s t i j); pure (r, .D c :: st)
    | _ => bad
  | "dsm", .D a :: st => do
    let (x, r) ← takeNats 4 r
    match x with
    | [i0, i1, j0, j1] => do let c ← lift (a.submat i0 i1 j0 j1); pure (r, .D c :: st)
    | _ => bad
  | "dsmr", .D a :: st => do
    let (i0, r) ← takeNat r; let (i1, r) ← takeNat r
    let c ← lift (a.submatRows i0 i1); pure (r, .D c :: st)
  | "dsmc", .D a :: st => do
    let (j0, r) ← takeNat r; let (j1, r) ← takeNat r
    let c ← lift (a.submatCols j0 j1); pure (r, .D c :: st)
  | "disz", .D a :: st => pure (r, .B a.isZero :: st)
  | "disid", .D a :: st => pure (r, .B a.isId :: st)
  | "disdg", .D a :: st => pure (r, .B a.isDiag :: st)
  -- transforms
  | "TI", st => do
    let (n, r) ← takeNat r
    pure (r, .T (Trans.id n) :: st)
  | "tnew", .S b :: .S f :: st => do let t ← lift (Trans.new f b); pure (r, .T t :: st)
  | "tapp", .S b :: .S f :: .T t :: st => do let t ← lift (t.append f b); pure (r, .T t :: st)
  | "tperm", .P p :: .T t :: st => do let t ← lift (t.appendPerm p); pure (r, .T t :: st)
  | "tmerge", .T o :: .T t :: st => do let t ← lift (t.merge o); pure (r, .T t :: st)
  | "tsub", .T t :: st => do
    let (k, r) ← takeNat r
    let (idx, r) ← takeNats k r
    let t ← lift (t.sub idx); pure (r, .T t :: st)
  | "tred", .T t :: st => do let t ← lift t.reduce; pure (r, .T t :: st)
  | "tfwd", .V v :: .T t :: st => do let w ← lift (t.forward v); pure (r, .V w :: .T t :: st)
  | "tbwd", .V v :: .T t :: st => do let w ← lift (t.backward v); pure (r, .V w :: .T t :: st)
  | "tfm", .T t :: st => do let a ← lift t.forwardMat; pure (r, .S a :: .T t :: st)
  | "tbm", .T t :: st => do let a ← lift t.backwardMat; pure (r, .S a :: .T t :: st)
  | _, _ => bad

def runProg : Nat → List String → List (Val R) → E (List (Val R))
  | _, [], st => pure st
  | 0, _, _ => bad
  | fuel + 1, op :: r, st => do
    let (r, st) ← step parseR op r st
    runProg fuel r st

def runRing (toks : List String) : String :=
  let res : E String := do
    let st ← runProg parseR (toks.length + 1) toks []
    let ss ← st.reverse.mapM (render showR)
    pure (String.intercalate ";" ss)
  match res with
  | .ok s => s
  | .error e => e

end

/-! ### scalar syntax -/

def parseZ (s : String) : Option Int := s.toInt?
def showZ (a : Int) : String := toString a

def parseQ (s : String) : Option Q :=
  match s.splitOn "/" with
  | [n] => do let n ← n.toInt?; some (Q.mk' n 1)
  | [n, d] => do
    let n ← n.toInt?; let d ← d.toInt?
    if d = 0 then none else
    some (if d < 0 then Q.mk' (-n) (-d).toNat else Q.mk' n d.toNat)
  | _ => none
def showQ (a : Q) : String := s!"{a.num}/{a.den}"

def parseF3 (s : String) : Option (Fp 3) := do let a ← s.toInt?; some (Fp.ofInt a)
def showF3 (a : Fp 3) : String := toString a.v

def handle (t : List String) : String :=
  match t with
  | "Z" :: prog => runRing parseZ showZ prog
  | "Q" :: prog => runRing parseQ showQ prog
  | "F3" :: prog => runRing parseF3 showF3 prog
  | _ => "bad-request"

end Yuiv.Drv.C13
