/-
Line-protocol loop shared by all drivers: one request per line on stdin, one reply per line on stdout.
Import-free (core only) so that every driver links as a native `lean_exe`.
-/
namespace Yuiv.Drv

def toks (line : String) : List String :=
  (line.trimAscii.toString.splitOn " ").filter (· ≠ "")

def parseNat? (s : String) : Option Nat := s.toNat?
def parseInt? (s : String) : Option Int := s.toInt?

partial def loop (handle : List String → String) : IO Unit := do
  let stdin ← IO.getStdin
  let stdout ← IO.getStdout
  let rec go : IO Unit := do
    let line ← stdin.getLine
    if line.isEmpty then return ()
    let t := toks line
    if t.isEmpty then stdout.putStrLn "" else stdout.putStrLn (handle t)
    go
  go
  stdout.flush

end Yuiv.Drv
