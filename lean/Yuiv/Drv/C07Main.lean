import Yuiv.Drv.C07
def main : IO Unit := Yuiv.Drv.loop Yuiv.Drv.C07.handle
