import Yuiv.Drv.C19
def main : IO Unit := Yuiv.Drv.loop Yuiv.Drv.C19.handle
