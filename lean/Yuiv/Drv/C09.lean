import Yuiv.Model.C09
import Yuiv.Drv.Loop
/-
Driver for C09.

request:  `snf <ring> <m> <n> <flags> A… D… [P…] [Pinv…] [Q…] [Qinv…]`
          ring ∈ {Z, Q, F2, F3, F5}; flags = four characters 0/1 (which transforms follow);
          matrices row-major (A, D: m·n entries; P, Pinv: m·m; Q, Qinv: n·n).
reply:    `chk <ok|bad:clause> diag <d_1 … d_min(m,n)>`
          * `chk`: the verified checker (`isSnfShape`, and with the verified `matMul/matEq/isIdentity` every
            relation among `A, D` and the transforms that are present; all four present = `snfTransformOk`)
            evaluated on the implementation's output;
          * `diag`: the diagonal computed by the Lean reference `refSnf` on `A` (its own output is passed
            through the same checker first, and the code model `snfCalc` must give the same diagonal;
            otherwise the reply is `ref-selfcheck-failed` / `calc-mismatch`).
-/
namespace Yuiv.Drv.C09
open Yuiv Yuiv.C09 Yuiv.Drv

def fuel : Nat := 1000000

structure Ring (α : Type) where
  e : EOps α
  parse : String → Option α
  shw : α → String

def parseRat (s : String) : Option Rat :=
  match s.splitOn "/" with
  | [a] => a.toInt?.map (fun (x : Int) => (x : Rat))
  | [a, b] => do
      let x ← a.toInt?
      let y ← b.toInt?
      if y = 0 then none else some (mkRat x y.natAbs * (if y < 0 then -1 else 1))
  | _ => none

def ringZ : Ring Int := ⟨intOps, String.toInt?, toString⟩
def ringQ : Ring Rat := ⟨ratOps, parseRat, fun q => s!"{q.num}/{q.den}"⟩
def ringF (p : Nat) : Ring Nat := ⟨fpOps p, fun s => s.toNat?.map (· % p), fun a => toString (a % p)⟩

def mkMat {α : Type} (z : α) (m n : Nat) (a : Array α) (off : Nat) : Mat α m n :=
  Mat.ofFn fun i j => a.getD (off + i.1 * n + j.1) z

def showDiag {α : Type} {m n : Nat} (r : Ring α) (D : Mat α m n) : String :=
  " ".intercalate ((diagL D).map r.shw)

/-- every relation that can be evaluated with the transforms that are present -/
def checkImpl {α : Type} {m n : Nat} (e : EOps α) (A D : Mat α m n)
    (P Pinv : Option (Mat α m m)) (Q Qinv : Option (Mat α n n)) : String :=
  let o := e.toROps
  if !isSnfShape e D then "bad:shape" else
  match P, Pinv, Q, Qinv with
  | some P, some Pinv, some Q, some Qinv =>
      if snfTransformOk o A D P Pinv Q Qinv then "ok" else "bad:transform"
  | _, _, _, _ =>
    let c1 := match P, Q with
      | some P, some Q => matEq o (matMul o (matMul o P A) Q) D
      | _, _ => true
    let c2 := match P, Pinv with
      | some P, some Pinv => isIdentity o (matMul o P Pinv)
      | _, _ => true
    let c3 := match Q, Qinv with
      | some Q, some Qinv => isIdentity o (matMul o Q Qinv)
      | _, _ => true
    let c4 := match Pinv, Qinv with
      | some Pinv, some Qinv => matEq o (matMul o (matMul o Pinv D) Qinv) A
      | _, _ => true
    let c5 := match P, Qinv with
      | some P, some Qinv => matEq o (matMul o P A) (matMul o D Qinv)
      | _, _ => true
    let c6 := match Pinv, Q with
      | some Pinv, some Q => matEq o (matMul o A Q) (matMul o Pinv D)
      | _, _ => true
    if !c1 then "bad:D=PAQ" else if !c2 then "bad:PPinv" else if !c3 then "bad:QQinv"
    else if !c4 then "bad:A=PinvDQinv" else if !c5 then "bad:PA=DQinv" else if !c6 then "bad:AQ=PinvD" else "ok"

def selfCheck {α : Type} {m n : Nat} (e : EOps α) (A : Mat α m n) (s : St α m n) : Bool :=
  isSnfShape e s.t && snfTransformOk e.toROps A s.t s.p s.pinv s.q s.qinv

def run {α : Type} (r : Ring α) (m n : Nat) (flags : List Bool) (rest : List String) : String :=
  match rest.mapM r.parse with
  | none => "bad-request"
  | some vals =>
    let a := vals.toArray
    match flags with
    | [fp, fpi, fq, fqi] =>
      let need := 2 * m * n + (if fp then m * m else 0) + (if fpi then m * m else 0)
                  + (if fq then n * n else 0) + (if fqi then n * n else 0)
      if a.size ≠ need then "bad-request" else
      let z := r.e.zero
      let A : Mat α m n := mkMat z m n a 0
      let D : Mat α m n := mkMat z m n a (m * n)
      let off := 2 * m * n
      let P := if fp then some (mkMat z m m a off) else none
      let off := if fp then off + m * m else off
      let Pinv := if fpi then some (mkMat z m m a off) else none
      let off := if fpi then off + m * m else off
      let Q := if fq then some (mkMat z n n a off) else none
      let off := if fq then off + n * n else off
      let Qinv := if fqi then some (mkMat z n n a off) else none
      let chk := checkImpl r.e A D P Pinv Q Qinv
      match refSnf r.e fuel A with
      | .ok s =>
        if !selfCheck r.e A s then "ref-selfcheck-failed"
        else
          match snfCalc r.e true (fun s => .ok s) fuel A with
          | .ok s' =>
            if !selfCheck r.e A s' then "calc-selfcheck-failed"
            else if showDiag r s'.t ≠ showDiag r s.t then s!"calc-mismatch {showDiag r s'.t} vs {showDiag r s.t}"
            else s!"chk {chk} diag {showDiag r s.t}".trimAscii.toString
          | .panic => "calc-panic"
          | .err => "calc-fuel"
      | .panic => "ref-panic"
      | .err => "ref-fuel"
    | _ => "bad-request"

def parseFlags (s : String) : Option (List Bool) :=
  if s.length ≠ 4 then none else
  s.toList.mapM (fun c => if c = '0' then some false else if c = '1' then some true else none)

def handle : List String → String
  | "snf" :: ring :: m :: n :: flags :: rest =>
    match parseNat? m, parseNat? n, parseFlags flags with
    | some m, some n, some fl =>
      if m > 64 || n > 64 then "bad-request" else
      match ring with
      | "Z" => run ringZ m n fl rest
      | "Q" => run ringQ m n fl rest
      | "F2" => run (ringF 2) m n fl rest
      | "F3" => run (ringF 3) m n fl rest
      | "F5" => run (ringF 5) m n fl rest
      | _ => "bad-request"
    | _, _, _ => "bad-request"
  | _ => "bad-request"

end Yuiv.Drv.C09
