import Yuiv.Drv.C16
def main : IO Unit := Yuiv.Drv.loop Yuiv.Drv.C16.handle
