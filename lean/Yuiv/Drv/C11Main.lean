import Yuiv.Drv.C11
def main : IO Unit := Yuiv.Drv.loop Yuiv.Drv.C11.handle
