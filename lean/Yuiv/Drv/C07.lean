import Yuiv.Model.C07
import Yuiv.Model.C07Trans
import Yuiv.Model.C07Calc
import Yuiv.Drv.Loop
/-
Driver for C07.  Request lines (all numbers decimal, matrices as `r c e11 e12 … erc`, row-major):

    hc <p> <d1> <d2> <rank> <t> <tors_1 … tors_t> <P> <Q>

`p = 0`: entries are integers; `p` prime: entries are representatives of `F_p`.
Reply: `chk=<verdict> rank=<r> tors=<a1,a2,…|->` where the verdict is the verified checker's decision on the
implementation's answer and `rank`/`tors` are computed here, independently, from `d1, d2` alone.
-/
namespace Yuiv.Drv.C07
open Yuiv Yuiv.C07 Yuiv.Drv

/-- parse `r c e…` from the front of a token list -/
def parseMat : List String → Option (Mat × List String)
  | r :: c :: rest => do
    let r ← parseNat? r
    let c ← parseNat? c
    let k := r * c
    if rest.length < k then none else
      let es ← (rest.take k).mapM parseInt?
      some (⟨r, c, es.toArray⟩, rest.drop k)
  | _ => none

def parseInts (k : Nat) (l : List String) : Option (List Int × List String) :=
  if l.length < k then none else do
    let es ← (l.take k).mapM parseInt?
    some (es, l.drop k)

def torsText (l : List Int) : String :=
  if l.isEmpty then "-" else ",".intercalate (l.map toString)

def ownText (p : Nat) (d1 d2 : Mat) : String :=
  match homologyOf p d1 d2 with
  | some (r, t) => s!"rank={r} tors={torsText t}"
  | none => "rank=? tors=?"

/-- run the code model `calculate` (with `snfOwn`) on the same input; its answer must pass the verified checker and
agree with the independent rank/torsion.  Empty text = all fine (nothing is added to the reply). -/
def modelText (d1 d2 : Mat) : String :=
  match calculate snfOwn d1 d2 true, calculate snfOwn d1 d2 false with
  | .ok (rank, tors, some t), .ok (rank', tors', none) =>
    match t.forwardMat, t.backwardMat with
    | .ok P, .ok Q =>
      let v := check ⟨0, d1, d2, rank, tors.toArray, P, Q⟩
      let own := homologyOf 0 d1 d2
      if v != .ok then s!" model-chk={v.text}"
      else if own != some (rank, tors) then s!" model-rank={rank} model-tors={torsText tors}"
      else if (rank', tors') != (rank, tors) then " model-notrans-differs"
      else ""
    | _, _ => " model-trans-panic"
  | .panic, _ => " model=panic"
  | .err, _ => " model=err"
  | _, _ => " model=bad-shape"

def handleHc (args : List String) : Option String := do
  match args with
  | p :: rest =>
    let p ← parseNat? p
    let (d1, rest) ← parseMat rest
    let (d2, rest) ← parseMat rest
    match rest with
    | rank :: t :: rest =>
      let rank ← parseNat? rank
      let t ← parseNat? t
      let (tors, rest) ← parseInts t rest
      let (P, rest) ← parseMat rest
      let (Q, rest) ← parseMat rest
      if !rest.isEmpty then none else
        let a : Answer := ⟨p, d1, d2, rank, tors.toArray, P, Q⟩
        let v := check a
        if v == .shape || v == .precond then some s!"chk={v.text}"
        else some s!"chk={v.text} {ownText p d1 d2}{if p == 0 then modelText d1 d2 else ""}"
    | _ => none
  | _ => none

/-- `calcshape n1 m k n2`: `calculate` on zero matrices `d1 : n1 × m`, `d2 : k × n2` -/
def handleShape (args : List String) : Option String := do
  match args with
  | [n1, m, k, n2] =>
    let n1 ← parseNat? n1; let m ← parseNat? m; let k ← parseNat? k; let n2 ← parseNat? n2
    match calcShape (Mat.zero n1 m) (Mat.zero k n2) with
    | .ok _ => some "ok"
    | .panic => some "panic"
    | .err => some "err"
  | _ => none

def vecText (v : Mat) : String := "[" ++ ",".intercalate (v.e.toList.map toString) ++ "]"
def matText (m : Mat) : String :=
  s!"{m.r} {m.c}" ++ String.join (m.e.toList.map fun x => " " ++ toString x)

def parsePairs : Nat → List String → Option (List (Mat × Mat) × List String)
  | 0, l => some ([], l)
  | k + 1, l => do
    let (f, l) ← parseMat l
    let (b, l) ← parseMat l
    let (ps, l) ← parsePairs k l
    some ((f, b) :: ps, l)

/-- `tr n0 k split (f_i b_i)* v w`: the first `split` pairs appended to `id(n0)`, the others collected in a
second `Trans` (`new` + `append`) and merged; then `forward(v)`, `backward(w)`, the composed matrices, `reduce`. -/
def runTrans (n0 split : Nat) (ps : List (Mat × Mat)) (v w : Mat) : Res String := do
  let t ← (ps.take split).foldlM (fun t (p : Mat × Mat) => t.append p.1 p.2) (Trans.id n0)
  let t ← match ps.drop split with
    | [] => pure t
    | (f, b) :: rest => do
      let u ← Trans.new f b
      let u ← rest.foldlM (fun u (p : Mat × Mat) => u.append p.1 p.2) u
      t.merge u
  let fwd ← t.forward v
  let bwd ← t.backward w
  let fm ← t.forwardMat
  let bm ← t.backwardMat
  let t2 ← t.reduce
  let fwd2 ← t2.forward v
  let bwd2 ← t2.backward w
  let fm2 ← t2.forwardMat
  let bm2 ← t2.backwardMat
  let same := fwd2 == fwd && bwd2 == bwd && fm2 == fm && bm2 == bm && t2.src == t.src && t2.tgt == t.tgt
  pure s!"src={t.src} tgt={t.tgt} fwd={vecText fwd} bwd={vecText bwd} fm={matText fm} bm={matText bm} reduce-same={same}"

def handleTrans (args : List String) : Option String := do
  match args with
  | n0 :: k :: split :: rest =>
    let n0 ← parseNat? n0; let k ← parseNat? k; let split ← parseNat? split
    let (ps, rest) ← parsePairs k rest
    let (v, rest) ← parseMat rest
    let (w, rest) ← parseMat rest
    if !rest.isEmpty then none else
      match runTrans n0 split ps v w with
      | .ok s => some s
      | .panic => some "panic"
      | .err => some "err"
  | _ => none

def handle (t : List String) : String :=
  match t with
  | "hc" :: args => (handleHc args).getD "bad-request"
  | "calcshape" :: args => (handleShape args).getD "bad-request"
  | "tr" :: args => (handleTrans args).getD "bad-request"
  | _ => "bad-request"

end Yuiv.Drv.C07
