import Yuiv.Model.C07
import Yuiv.Drv.Loop
/-
Driver for C07.  Request lines (all numbers decimal, matrices as `r c e11 e12 … erc`, row-major):

    hc <p> <d1> <d2> <rank> <t> <tors_1 … tors_t> <P> <Q>

`p = 0`: entries are integers; `p` prime: entries are representatives of `F_p`.
Reply: `chk=<verdict> rank=<r> tors=<a1,a2,…|->` where the verdict is the verified checker's decision on the
implementation's answer and `rank`/`tors` are computed here, independently, from `d1, d2` alone.
-/
namespace Yuiv.Drv.C07
open Yuiv Yuiv.C07 Yuiv.Drv

/-- parse `r c e…` from the front of a token list -/
def parseMat : List String → Option (Mat × List String)
  | r :: c :: rest => do
    let r ← parseNat? r
    let c ← parseNat? c
    let k := r * c
    if rest.length < k then none else
      let es ← (rest.take k).mapM parseInt?
      some (⟨r, c, es.toArray⟩, rest.drop k)
  | _ => none

def parseInts (k : Nat) (l : List String) : Option (List Int × List String) :=
  if l.length < k then none else do
    let es ← (l.take k).mapM parseInt?
    some (es, l.drop k)

def torsText (l : List Int) : String :=
  if l.isEmpty then "-" else ",".intercalate (l.map toString)

def ownText (p : Nat) (d1 d2 : Mat) : String :=
  match homologyOf p d1 d2 with
  | some (r, t) => s!"rank={r} tors={torsText t}"
  | none => "rank=? tors=?"

def handleHc (args : List String) : Option String := do
  match args with
  | p :: rest =>
    let p ← parseNat? p
    let (d1, rest) ← parseMat rest
    let (d2, rest) ← parseMat rest
    match rest with
    | rank :: t :: rest =>
      let rank ← parseNat? rank
      let t ← parseNat? t
      let (tors, rest) ← parseInts t rest
      let (P, rest) ← parseMat rest
      let (Q, rest) ← parseMat rest
      if !rest.isEmpty then none else
        let a : Answer := ⟨p, d1, d2, rank, tors.toArray, P, Q⟩
        some s!"chk={(check a).text} {ownText p d1 d2}"
    | _ => none
  | _ => none

/-- `calcshape n1 m k n2`: `calculate` on zero matrices `d1 : n1 × m`, `d2 : k × n2` -/
def handleShape (args : List String) : Option String := do
  match args with
  | [n1, m, k, n2] =>
    let n1 ← parseNat? n1; let m ← parseNat? m; let k ← parseNat? k; let n2 ← parseNat? n2
    match calcShape (Mat.zero n1 m) (Mat.zero k n2) with
    | .ok _ => some "ok"
    | .panic => some "panic"
    | .err => some "err"
  | _ => none

def handle (t : List String) : String :=
  match t with
  | "hc" :: args => (handleHc args).getD "bad-request"
  | "calcshape" :: args => (handleShape args).getD "bad-request"
  | _ => "bad-request"

end Yuiv.Drv.C07
