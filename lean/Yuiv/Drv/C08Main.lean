import Yuiv.Drv.C08
def main : IO Unit := Yuiv.Drv.loop Yuiv.Drv.C08.handle
