import Yuiv.Drv.KhLink
/-
Driver for C01: `kh <Z|Q|Fp> <h> <t> <reduced 0|1> <bigraded 0|1> <link>` ↦ `signs=<±…> <table>`
computed from the cube-of-resolutions reference.
-/
namespace Yuiv.Drv.C01
open Yuiv.KhRef Yuiv.Drv Yuiv.Drv.KhLink

def handle (t : List String) : String :=
  let r : Option String := do
    match t with
    | "kh" :: k :: h :: tt :: red :: bigr :: rest =>
      let k ← parseCoeff? k
      let h ← parseInt? h; let tt ← parseInt? tt
      let red ← parseNat? red; let bigr ← parseNat? bigr
      let (l, _) ← parseLink? rest
      match crossingSigns l with
      | none => some "err signs"
      | some sg =>
        match khHomology l sg ⟨h, tt, red == 1⟩ k (bigr == 1) with
        | .ok res => some s!"signs={signsStr sg} {cellsStr res}"
        | .error .malformed => some "err malformed"
        | .error .notComplex => some "err notcomplex"
    | _ => none
  r.getD "bad-request"

end Yuiv.Drv.C01
