import Yuiv.Drv.C09
def main : IO Unit := Yuiv.Drv.loop Yuiv.Drv.C09.handle
