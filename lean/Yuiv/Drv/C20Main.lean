import Yuiv.Drv.C20
def main : IO Unit := Yuiv.Drv.loop Yuiv.Drv.C20.handle
