import Yuiv.Drv.C18
def main : IO Unit := Yuiv.Drv.loop Yuiv.Drv.C18.handle
