import Yuiv.Drv.C15
def main : IO Unit := Yuiv.Drv.loop Yuiv.Drv.C15.handle
