import Yuiv.Drv.C01
/-
Driver for C02: `kh …` as in C01 (cube reference of the given diagram) and
`khm <Z|Q|Fp> <reduced> <link>`: the table the ORIGINAL diagram must have according to the mirror rule, computed from
the cube reference of the MIRRORED diagram (free (i,j) ↦ (−i,−j), torsion (i,j) ↦ (1−i,−j)); bigraded, h = t = 0.
-/
namespace Yuiv.Drv.C02
open Yuiv.KhRef Yuiv.Drv Yuiv.Drv.KhLink

def handle (t : List String) : String :=
  match t with
  | "khm" :: k :: red :: rest =>
    let r : Option String := do
      let k ← parseCoeff? k
      let red ← parseNat? red
      let (l, _) ← parseLink? rest
      let m := mirror l
      match crossingSigns m with
      | none => some "err signs"
      | some sg =>
        match khHomology m sg ⟨0, 0, red == 1⟩ k true with
        | .ok res => some (cellsStr (mirrorRule res))
        | .error _ => some "err"
    r.getD "bad-request"
  | _ => Yuiv.Drv.C01.handle t

end Yuiv.Drv.C02
