import Yuiv.Drv.C03
def main : IO Unit := Yuiv.Drv.loop Yuiv.Drv.C03.handle
