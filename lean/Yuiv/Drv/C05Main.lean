import Yuiv.Drv.C05
/-- line loop with a session (the `eg` requests of the engine stream are stateful) -/
partial def main : IO Unit := do
  let stdin ← IO.getStdin
  let stdout ← IO.getStdout
  let rec go (sess : Yuiv.Drv.C05.Eng.Sess) : IO Unit := do
    let line ← stdin.getLine
    if line.isEmpty then return ()
    let t := Yuiv.Drv.toks line
    if t.isEmpty then
      stdout.putStrLn ""
      go sess
    else
      let (sess', r) := Yuiv.Drv.C05.handleSt sess t
      stdout.putStrLn r
      go sess'
  go default
  stdout.flush
