import Yuiv.Drv.C05
def main : IO Unit := Yuiv.Drv.loop Yuiv.Drv.C05.handle
