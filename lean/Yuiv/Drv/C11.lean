import Yuiv.Model.C11New
import Yuiv.Drv.Loop
/-
Driver for C11.  Requests (all numbers are naturals, internal orientation of the PivotFinder):

  trace m n ne (i j w c)*ne  ns (i j)*ns  nev (code a b c d)*nev  nr (i j)*nr
      structure (entries in `a.iter()` order, weight, candidate flag), the pivots reported by `SeqDone`,
      the recorded events  0=TaskStart(row,k)  1=Candidate(row,col+1|0,k)  2=Retry(row,k,cur)
      3=Commit(row,col,k,idx), and the list returned by `find_pivots`.
      The table reported by `SeqDone` must pass the verified checker `checkInit`; every event is replayed
      through `step` (which must be enabled — in particular the real code's candidate must still be marked
      `Candidate` in the model — and produce the same snapshot/retry/commit outcome); the returned order
      is checked with `checkPivots`.  Pivot *choices* (heuristics `cmp_rows`/`cmp_cols`) are not compared.
      reply:  piv:<i,j;.. sorted by column> chk:ok      or     reject ev=<t> <why>

  enum m n ne (i j w c)*ne budget
      explores ALL interleavings of the model (including stale task starts) up to `budget` steps in total and
      checks the invariant (distinct, candidates, `result` = Kahn succeeds and is triangular) in every state.
      reply:  enum ok    |   enum bad <state>

  newstr t ck w2 m n (k (row z p u wt)*k)*n
      the raw CSC storage of the input matrix (external orientation, `n` columns, per column the stored entries in
      storage order with what the REAL library answers for `is_zero`/`is_pm_one`/`is_unit`/`c_weight`), the pivot type
      `t` (0 = Rows, 1 = Cols) and the pivot condition (`ck` 0 = One, 1 = AnyUnit, 2 = Weight(w2/2)).
      Runs the code model `matrixStrNew` of `MatrixStr::new` (the definition `Props/C11New.lean` is about).
      reply:  str <m>x<n> ent=<row;row;..> cnd=<..> rw=<w,w,..> cw=<..>     |   str panic
-/
namespace Yuiv.Drv.C11
open Yuiv Yuiv.C11 Yuiv.Drv

def pairsStr (l : List (Nat × Nat)) : String :=
  ";".intercalate (l.map (fun p => s!"{p.1},{p.2}"))

/-- cursor over the numeric tokens -/
structure Cur where
  a : Array Nat
  p : Nat

def Cur.next (c : Cur) : Option (Nat × Cur) :=
  if h : c.p < c.a.size then some (c.a[c.p], { c with p := c.p + 1 }) else none

def Cur.tuples (c : Cur) (arity : Nat) : Option (List (List Nat) × Cur) := do
  let (n, c) ← c.next
  if c.p + n * arity > c.a.size then none else
  let rec go (t : Nat) (p : Nat) (acc : List (List Nat)) : List (List Nat) :=
    match t with
    | 0 => acc.reverse
    | t + 1 => go t (p + arity) (((List.range arity).map (fun d => c.a[p + d]!)) :: acc)
  some (go n c.p [], { c with p := c.p + n * arity })

def toPairs (l : List (List Nat)) : List (Nat × Nat) :=
  l.filterMap (fun t => match t with | [i, j] => some (i, j) | _ => none)

def parseStr (c : Cur) : Option (Str × Cur) := do
  let (m, c) ← c.next
  let (n, c) ← c.next
  let (es, c) ← c.tuples 4
  let es := es.filterMap (fun t => match t with | [i, j, w, f] => some (i, j, w, f != 0) | _ => none)
  match Str.build m n es with
  | .ok s => if s.wfB then some (s, c) else none
  | _ => none

def decodeEvent : List Nat → Option (Act × Outcome)
  | [0, row, k, _, _] => some (.start row k, .started k)
  | [1, row, col1, k, _] =>
    let ch := if col1 = 0 then none else some (col1 - 1)
    some (.search row ch, .candidate ch k)
  | [2, row, k, cur, _] => some (.validate row, .retry k cur)
  | [3, row, col, k, idx] => some (.validate row, .commit col k idx)
  | _ => none

def replay (s : Str) : State → List (List Nat) → Nat → Except String State
  | st, [], _ => .ok st
  | st, e :: es, t =>
    match decodeEvent e with
    | none => .error s!"reject ev={t} undecodable"
    | some (a, o) =>
      match step s st a with
      | .ok (st', o') =>
        if o = o' then replay s st' es (t + 1)
        else .error s!"reject ev={t} outcome impl={repr o} model={repr o'}"
      | .panic => .error s!"reject ev={t} model-panic"
      | .err => .error s!"reject ev={t} not-enabled"

def sortByCol (l : List (Nat × Nat)) : List (Nat × Nat) :=
  l.mergeSort (fun p q => p.2 < q.2 || (p.2 == q.2 && p.1 ≤ q.1))

def handleTrace (c : Cur) : Option String := do
  let (s, c) ← parseStr c
  let (seqI, c) ← c.tuples 2
  let (evs, c) ← c.tuples 5
  let (res, c) ← c.tuples 2
  if c.p ≠ c.a.size then none else
  let res := toPairs res
  let S0 := toPairs seqI
  -- the table after the real code's sequential phases must pass the verified checker
  -- (`checkInit_ginv`: it then satisfies the global invariant, and every state reached by the replay does)
  if !checkInit s S0 then some "reject seq invariant-violated" else
  let st0 : State := ⟨S0, remainRows s S0, []⟩
  match replay s st0 evs 0 with
  | .error e => some e
  | .ok st =>
    if !st.ws.isEmpty then some "reject end tasks-in-flight" else
    -- the model's own `result()` (keys in insertion order) must succeed and be triangular
    let own := match result s st.S (st.S.map (·.2)) with
      | .ok L => checkPivots s L
      | _ => false
    -- the real code's returned order: same pivot set, verified checker
    let same := sortByCol res == sortByCol st.S
    let chk := own && same && checkPivots s res
    some s!"piv:{pairsStr (sortByCol st.S)} chk:{if chk then "ok" else "bad"}"

/-! exhaustive exploration of the model's interleavings (sanity test of the theorem statement) -/

def enabledActs (s : Str) (st : State) : List Act :=
  (st.todo.flatMap (fun i => (List.range (st.S.length + 1)).map (fun k => Act.start i k)))
  ++ st.ws.flatMap (fun w =>
      if w.chosen.isSome then [Act.validate w.row]
      else
        -- every admissible choice: each column still marked Candidate after the traversal, or giving up;
        -- the code's policy first
        match traverse s (st.S.take w.k) w with
        | .ok w' =>
          let cs := (List.range s.ncols).filter (fun j => w'.isCandidate j)
          match chooseCandidate s w' with
          | some j => Act.search w.row (some j) :: (cs.filter (· != j)).map (fun j' => Act.search w.row (some j'))
          | none => [Act.search w.row none]
        | _ => [Act.search w.row none])

def stateOk (s : Str) (st : State) : Bool :=
  match result s st.S (st.S.map (·.2)) with
  | .ok L => checkPivots s L && L.length == st.S.length
  | _ => false

/-- depth-first over all schedules; returns remaining budget, or the bad state -/
partial def explore (s : Str) (st : State) (budget : Nat) : Except String Nat :=
  if !stateOk s st then .error s!"bad S={pairsStr st.S}" else
  (enabledActs s st).foldlM (init := budget) (fun b a =>
    if b = 0 then .ok 0 else
    match step s st a with
    | .ok (st', _) => explore s st' (b - 1)
    | .panic => .error s!"panic at {repr a} S={pairsStr st.S}"
    | .err => .error s!"disabled {repr a} S={pairsStr st.S}")

def handleEnum (c : Cur) : Option String := do
  let (s, c) ← parseStr c
  let (budget, c) ← c.next
  if c.p ≠ c.a.size then none else
  match initState s with
  | .ok st0 =>
    match explore s st0 budget with
    | .ok _ => some "enum ok"
    | .error e => some s!"enum {e}"
  | _ => some "enum seq-panic"

/-! `MatrixStr::new` on the raw matrix -/

def natsStr (l : List Nat) : String := ",".intercalate (l.map toString)

def parseCols (c : Cur) : Nat → List (List (Nat × Scl)) → Option (List (List (Nat × Scl)) × Cur)
  | 0, acc => some (acc.reverse, c)
  | k + 1, acc => do
    let (es, c) ← c.tuples 5
    let col ← es.mapM (fun t => match t with
      | [i, z, p, u, w] => some (i, (⟨z != 0, p != 0, u != 0, w⟩ : Scl))
      | _ => none)
    parseCols c k (col :: acc)

def handleNewStr (c : Cur) : Option String := do
  let (t, c) ← c.next
  let (ck, c) ← c.next
  let (w2, c) ← c.next
  let (m, c) ← c.next
  let (n, c) ← c.next
  let (cols, c) ← parseCols c n []
  if c.p ≠ c.a.size then none else
  let t ← (match t with | 0 => some PivType.rows | 1 => some PivType.cols | _ => none)
  let cond ← (match ck with | 0 => some Cond.one | 1 => some Cond.anyUnit | 2 => some (Cond.weight w2) | _ => none)
  match matrixStrNew ⟨m, n, cols.toArray⟩ t cond with
  | .ok s =>
    let rows := List.range s.nrows
    let ent := ";".intercalate (rows.map fun i => natsStr (s.ent.getD i []))
    let cnd := ";".intercalate (rows.map fun i => natsStr ((s.cnd.getD i []).mergeSort (· ≤ ·)))
    some s!"str {s.nrows}x{s.ncols} ent={ent} cnd={cnd} rw={natsStr s.rowW.toList} cw={natsStr s.colW.toList}"
  | _ => some "str panic"

def handle (t : List String) : String :=
  match t with
  | cmd :: rest =>
    match rest.mapM parseNat? with
    | none => "bad-request"
    | some nums =>
      let c : Cur := ⟨nums.toArray, 0⟩
      let r := if cmd = "trace" then handleTrace c else if cmd = "enum" then handleEnum c
        else if cmd = "newstr" then handleNewStr c else none
      r.getD "bad-request"
  | [] => "bad-request"

end Yuiv.Drv.C11
