import Yuiv.Model.C17
import Yuiv.Drv.Loop
/-
Driver for C17: runs the `BitSeq` code model on the harness's request lines.
Value text: `<bits>/<val>/<len>` (bits = `e` for the empty sequence).
-/
namespace Yuiv.Drv.C17
open Yuiv Yuiv.C17 Yuiv.Drv

def bitsStr (l : List Bool) : String :=
  if l.isEmpty then "e" else String.ofList (l.map (fun x => if x then '1' else '0'))

def showBS (b : BS) : String := s!"{bitsStr (iter b)}/{b.val}/{b.len}"

def showRes {α} (f : α → String) : Res α → String
  | .ok a => f a
  | .panic => "panic"
  | .err => "err"

/-- harness-side construction of an operand from a 0/1 token (`e` = empty): always ≤ 64 bits, built
with `from_iter` on the Rust side -/
def parseBits? (s : String) : Option (List Bool) :=
  if s = "e" then some [] else
    s.toList.mapM (fun c => if c = '0' then some false else if c = '1' then some true else none)

def mkOperand (s : String) : Option BS := do
  let l ← parseBits? s
  match fromIter l with
  | .ok b => some b
  | _ => none

def ordStr : Ordering → String
  | .lt => "lt" | .eq => "eq" | .gt => "gt"

/-- one history op; returns the new state (if any) and the reply text -/
def histOp (b : BS) (op : String) : Option (Option BS × String) :=
  match op.splitOn ":" with
  | ["push", x] => do
      let x ← parseNat? x
      match push b (x == 1) with
      | .ok b' => some (some b', showBS b')
      | _ => some (none, "panic")
  | ["app", s] => do
      let c ← mkOperand s
      match append b c with
      | .ok b' => some (some b', showBS b')
      | _ => some (none, "panic")
  | ["ins", i, x] => do
      let i ← parseNat? i; let x ← parseNat? x
      match insert b i (x == 1) with
      | .ok b' => some (some b', showBS b')
      | _ => some (none, "panic")
  | ["rem", i] => do
      let i ← parseNat? i
      match remove b i with
      | .ok b' => some (some b', showBS b')
      | _ => some (none, "panic")
  | ["set", i, x] => do
      let i ← parseNat? i; let x ← parseNat? x
      match set b i (x == 1) with
      | .ok b' => some (some b', showBS b')
      | _ => some (none, "panic")
  | ["sub", l] => do
      let l ← parseNat? l
      match sub b l with
      | .ok b' => some (some b, showBS b')      -- `sub` does not mutate
      | _ => some (some b, "panic")
  | ["issub", s] => do
      let c ← mkOperand s
      some (some b, showRes (fun (x : Bool) => toString x) (isSub b c))
  | ["subof", s] => do
      let c ← mkOperand s
      some (some b, showRes (fun (x : Bool) => toString x) (isSub c b))
  | ["w"] => some (some b, toString (weight b))
  | ["len"] => some (some b, toString b.len)
  | ["idx", i] => do
      let i ← parseNat? i
      some (some b, showRes (fun (x : Bool) => if x then "1" else "0") (index b i))
  | ["iter"] => some (some b, bitsStr (iter b))
  | ["str"] => some (some b, if b.len = 0 then "e" else String.ofList (toStr b))
  | ["cmp", s] => do
      let c ← mkOperand s
      some (some b, ordStr (cmp b c))
  | _ => none

def runHist (b : BS) : List String → List String → Option (List String)
  | [], acc => some acc.reverse
  | op :: ops, acc =>
    match histOp b op with
    | none => none
    | some (some b', r) =>
        -- a rejected call ends the history (the harness stops there as well)
        if r = "panic" then some ((r :: acc).reverse) else runHist b' ops (r :: acc)
    | some (none, r) => some ((r :: acc).reverse)

def handle (t : List String) : String :=
  let r : Option String :=
    match t with
    | ["new", v, l] => do
        let v ← parseNat? v; let l ← parseNat? l
        some (showRes showBS (new v l))
    | ["newrev", v, l] => do
        let v ← parseNat? v; let l ← parseNat? l
        some (showRes showBS (newRev v l))
    | ["zeros", l] => do let l ← parseNat? l; some (showRes showBS (zeros l))
    | ["ones", l] => do let l ← parseNat? l; some (showRes showBS (ones l))
    | ["empty"] => some (showRes showBS empty)
    | ["fromiter", s] => do let l ← parseBits? s; some (showRes showBS (fromIter l))
    | ["parse", s] => some (showRes showBS (fromStr (if s = "e" then [] else s.toList)))
    | ["gen", l, k] => do
        let l ← parseNat? l; let k ← parseNat? k
        some (showRes showBS (generateNth l k))
    | ["gencount", l] => do let l ← parseNat? l; some (showRes toString (generateCount l))
    | ["genlast", l] => do
        let l ← parseNat? l
        match generateCount l with
        | .ok c => some (showRes showBS (generateNth l (c - 1)))
        | _ => some "panic"
    | "hist" :: s :: ops => do
        let b ← mkOperand s
        let rs ← runHist b ops []
        some (String.intercalate ";" rs)
    | _ => none
  r.getD "bad-request"

end Yuiv.Drv.C17
