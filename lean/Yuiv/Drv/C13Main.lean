import Yuiv.Drv.C13
def main : IO Unit := Yuiv.Drv.loop Yuiv.Drv.C13.handle
