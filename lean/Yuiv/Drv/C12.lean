import Yuiv.Model.C12Rings
import Yuiv.Drv.Loop
/-
Driver for C12.  Request lines (tokens separated by blanks):

  solve  <R> <U|L> <A> <Y>        reply  ok <dense X> | panic
  solvel <R> <U|L> <A> <Y>        (x·a = y)
  solvev <R> <U|L> <A> <b>        (b is an n×1 matrix)  reply  ok <dense x>
  inv    <R> <U|L> <A>
  schur  <R> <U|L> <r> <wt> <M>   reply  ok <dense S> <t>   (t = 1 iff wt = 0, or the transfer maps are present and satisfy the identities)
  decomp <R> <M>                  reply  ok <group>*   group = rows|cols (comma separated, `-` for none), sorted by first column
  decompchk <R> <M>               reply  1 iff the verified checker accepts the MODEL's (p, q, blocks)
  chkdecomp <R> <M> <m p…> <n q…> <nb> <block>*   reply 1 iff the verified checker accepts the given (real) output
  decompconn <R> <M>              reply  1 iff every block of the MODEL's decomposition passes the verified connectivity check
  chkconn <R> <nb> <block>*       reply  1 iff every given (real) block passes it
  uf <n> <op>*                    ops  u:i:j  s:i:j  g     reply: one token per s/g op

<R> ∈ Z | Q | F5 | G.   A matrix is  m n k (i j v)^k  — the k stored entries in CSC order, stored zeros included.
Scalar text: Z decimal, Q `num/den`, F5 representative, G `re,im`.  Dense matrix: `m n e11 e12 …` (row major).
-/
namespace Yuiv.Drv.C12
open Yuiv Yuiv.C12 Yuiv.Drv

structure IO' (α : Type) where
  parse : String → Option α
  shw : α → String

def ioZ : IO' Int := ⟨parseInt?, toString⟩
def ioQ : IO' Rat :=
  ⟨fun s => match s.splitOn "/" with
      | [a, b] => do
          let n ← parseInt? a; let d ← parseNat? b
          if d == 0 then none else some (mkRat n d)
      | [a] => (parseInt? a).map Rat.ofInt
      | _ => none,
   fun q => s!"{q.num}/{q.den}"⟩
def ioF5 : IO' (Fin 5) := ⟨fun s => (parseNat? s).bind fun n => if h : n < 5 then some ⟨n, h⟩ else none, fun a => toString a.val⟩
def ioG : IO' GI :=
  ⟨fun s => match s.splitOn "," with
      | [a, b] => do let x ← parseInt? a; let y ← parseInt? b; some ⟨x, y⟩
      | _ => none,
   fun g => s!"{g.re},{g.im}"⟩

section
variable {α : Type} [Scal α] (io : IO' α)

/-- parse `k` triplets into columns; rows must be `< m`, strictly increasing inside a column, columns ascending (CSC) -/
def parseTrip (m n : Nat) : Nat → List String → Array (List (Nat × α)) → Nat → Option (Array (List (Nat × α)) × List String)
  | 0, ts, acc, _ => some (acc.map List.reverse, ts)
  | k + 1, i :: j :: v :: ts, acc, lastj => do
    let i ← parseNat? i; let j ← parseNat? j; let v ← io.parse v
    if i ≥ m || j ≥ n || j < lastj then none
    else
      let c := acc.getD j []
      match c with
      | (i0, _) :: _ => if i ≤ i0 then none else parseTrip m n k ts (acc.setIfInBounds j ((i, v) :: c)) j
      | [] => parseTrip m n k ts (acc.setIfInBounds j ((i, v) :: c)) j
  | _, _, _, _ => none

def parseMat (ts : List String) : Option (SpMat α × List String) :=
  match ts with
  | m :: n :: k :: ts => do
    let m ← parseNat? m; let n ← parseNat? n; let k ← parseNat? k
    let (cols, rest) ← parseTrip io m n k ts (Array.replicate n []) 0
    some (⟨m, n, cols⟩, rest)
  | _ => none

/-- `k x1 … xk` -/
def parseNats (ts : List String) : Option (List Nat × List String) :=
  match ts with
  | k :: ts => do
    let k ← parseNat? k
    if ts.length < k then none else
    let xs ← (ts.take k).mapM parseNat?
    some (xs, ts.drop k)
  | [] => none

def parseMats : Nat → List String → Option (List (SpMat α) × List String)
  | 0, ts => some ([], ts)
  | k + 1, ts => do
    let (m, ts) ← parseMat io ts
    let (ms, ts) ← parseMats k ts
    some (m :: ms, ts)

def dense (A : SpMat α) : String :=
  let es := (List.range A.nrows).flatMap fun i => (List.range A.ncols).map fun j => io.shw (entry A i j)
  " ".intercalate (toString A.nrows :: toString A.ncols :: es)

def showMat : Res (SpMat α) → String
  | .ok X => "ok " ++ dense io X
  | .panic => "panic"
  | .err => "err"

/-- naive dense product / comparison on entry functions (driver-side sanity flag only) -/
def mulE (A B : SpMat α) : SpMat α :=
  ⟨A.nrows, B.ncols, ((List.range B.ncols).map fun j =>
    (List.range A.nrows).map fun i => (i, lsum ((List.range A.ncols).map fun k => mul (entry A i k) (entry B k j)))).toArray⟩

def eqE (A B : SpMat α) : Bool :=
  A.nrows == B.nrows && A.ncols == B.ncols &&
  (List.range A.nrows).all fun i => (List.range A.ncols).all fun j => isZero (sub (entry A i j) (entry B i j))

def transferOk (M : SpMat α) (o : SchurOut α) (wt : Bool) : Bool :=
  if !wt then true else
  match o.src, o.tgt with
  | some (fs, bs), some (ft, bt) =>
    eqE (mulE (mulE ft M) bs) o.s && eqE (mulE fs bs) (idMat fs.nrows) && eqE (mulE ft bt) (idMat ft.nrows)
  | _, _ => false

def natList (l : List Nat) : String := if l.isEmpty then "-" else ",".intercalate (l.map toString)

/-- canonical partition read off `(p, q, blocks)` -/
def partition (A : SpMat α) (o : DecompOut α) : String :=
  let ro := (offsets (o.blocks.map fun b => List.replicate b.nrows 0)).toArray
  let co := (offsets (o.blocks.map fun b => List.replicate b.ncols 0)).toArray
  let gs := (List.range o.blocks.length).map fun k =>
    ((List.range A.nrows).filter fun i => ro.getD k 0 ≤ o.p.getD i 0 && o.p.getD i 0 < ro.getD (k + 1) 0,
     (List.range A.ncols).filter fun j => co.getD k 0 ≤ o.q.getD j 0 && o.q.getD j 0 < co.getD (k + 1) 0)
  -- sort by first column: pick for c = 0.. the group whose first column is c
  let sorted := (List.range (A.ncols + 1)).flatMap fun c =>
    gs.filter fun g => (match g.2 with | x :: _ => x | [] => A.ncols) == c
  " ".intercalate ("ok" :: sorted.map fun g => natList g.1 ++ "|" ++ natList g.2)

def handleR (cmd : String) (ts : List String) : String :=
  let ul (s : String) : Option Bool := if s == "U" then some true else if s == "L" then some false else none
  match cmd, ts with
  | "solve", t :: ts => (do
      let up ← ul t; let (A, ts) ← parseMat io ts; let (Y, ts) ← parseMat io ts
      if !ts.isEmpty then none else some (showMat io (solve up A Y))).getD "bad-request"
  | "solvel", t :: ts => (do
      let up ← ul t; let (A, ts) ← parseMat io ts; let (Y, ts) ← parseMat io ts
      if !ts.isEmpty then none else some (showMat io (solveLeft up A Y))).getD "bad-request"
  | "solvev", t :: ts => (do
      let up ← ul t; let (A, ts) ← parseMat io ts; let (Y, ts) ← parseMat (α := α) io ts
      if !ts.isEmpty || Y.ncols != 1 then none else
      some (match solveVec up A Y.nrows (col Y 0) with
        | .ok es => showMat io (.ok ⟨A.ncols, 1, #[es]⟩)
        | .panic => "panic" | .err => "err")).getD "bad-request"
  | "inv", t :: ts => (do
      let up ← ul t; let (A, ts) ← parseMat io ts
      if !ts.isEmpty then none else some (showMat io (invTriangular up A))).getD "bad-request"
  | "schur", t :: r :: wt :: ts => (do
      let up ← ul t; let r ← parseNat? r; let wt ← parseNat? wt; let (M, ts) ← parseMat io ts
      if !ts.isEmpty then none else
      some (match schur up M r (wt == 1) with
        | .ok o => "ok " ++ dense io o.s ++ (if transferOk M o (wt == 1) then " 1" else " 0")
        | .panic => "panic" | .err => "err")).getD "bad-request"
  | "decomp", ts => (do
      let (M, ts) ← parseMat io ts
      if !ts.isEmpty then none else
      some (match dirSumDecomp M with
        | .ok o => partition M o
        | .panic => "panic" | .err => "err")).getD "bad-request"
  | "decompchk", ts => (do
      -- the model's own decomposition, judged by the verified checker
      let (M, ts) ← parseMat io ts
      if !ts.isEmpty then none else
      some (match dirSumDecomp M with
        | .ok o => if checkDecomp M o.p o.q o.blocks then "1" else "0"
        | .panic => "panic" | .err => "err")).getD "bad-request"
  | "decompconn", ts => (do
      -- every block of the model's own decomposition passes the verified connectivity check
      let (M, ts) ← parseMat io ts
      if !ts.isEmpty then none else
      some (match dirSumDecomp M with
        | .ok o => if o.blocks.all connectedBlk then "1" else "0"
        | .panic => "panic" | .err => "err")).getD "bad-request"
  | "chkconn", nb :: ts => (do
      -- the REAL blocks judged by the verified connectivity check
      let nb ← parseNat? nb
      let (bl, ts) ← parseMats io nb ts
      if !ts.isEmpty then none else some (if bl.all connectedBlk then "1" else "0")).getD "bad-request"
  | "chkdecomp", ts => (do
      -- the REAL output (p, q, blocks) of `dir_sum_decomp`, judged by the verified checker
      let (M, ts) ← parseMat io ts
      let (p, ts) ← parseNats ts
      let (q, ts) ← parseNats ts
      match ts with
      | nb :: ts => do
        let nb ← parseNat? nb
        let (bl, ts) ← parseMats io nb ts
        if !ts.isEmpty then none else some (if checkDecomp M p.toArray q.toArray bl then "1" else "0")
      | [] => none).getD "bad-request"
  | _, _ => "bad-request"

end

/-- union-find history -/
def ufRun : UF → List String → List String → Option (List String)
  | _, [], acc => some acc.reverse
  | u, op :: ops, acc =>
    match op.splitOn ":" with
    | ["u", i, j] => do
      let i ← parseNat? i; let j ← parseNat? j
      match UF.union u i j with
      | .ok u' => ufRun u' ops acc
      | .panic => some (("panic" :: acc).reverse)
      | .err => some (("err" :: acc).reverse)
    | ["s", i, j] => do
      let i ← parseNat? i; let j ← parseNat? j
      match UF.isSame u i j with
      | .ok b => ufRun u ops ((if b then "1" else "0") :: acc)
      | .panic => some (("panic" :: acc).reverse)
      | .err => some (("err" :: acc).reverse)
    | ["g"] =>
      match UF.group u with
      | .ok g => ufRun u ops ((if g.isEmpty then "-" else ";".intercalate (g.map natList)) :: acc)
      | .panic => some (("panic" :: acc).reverse)
      | .err => some (("err" :: acc).reverse)
    | _ => none

def handle (ts : List String) : String :=
  match ts with
  | "uf" :: n :: ops =>
    match parseNat? n with
    | some n => match ufRun (UF.new n) ops [] with
      | some out => " ".intercalate ("ok" :: out)
      | none => "bad-request"
    | none => "bad-request"
  | cmd :: "Z" :: rest => handleR ioZ cmd rest
  | cmd :: "Q" :: rest => handleR ioQ cmd rest
  | cmd :: "F5" :: rest => handleR ioF5 cmd rest
  | cmd :: "G" :: rest => handleR ioG cmd rest
  | _ => "bad-request"

end Yuiv.Drv.C12
