import Yuiv.Model.C10
import Yuiv.Drv.Loop
/-
Driver for C10.  Requests (all integers decimal, matrices row-major):
  chkhnf m n <A:m·n> <H:m·n> <P:m·m> <Pinv:m·m>   → `t=<0|1> h=<0|1>`   (transformOk, isHnf)
  chklll m n <A:m·n> <B:m·n> <P:m·m> <Pinv:m·m>   → `t=<0|1> r=<0|1>`   (transformOk, isLLLReduced 3/4)
  runhnf f0 f1 m n <A:m·n>                        → `<H>;<P|->;<Pinv|->` | panic | fuel   (literal model)
  runlll f m n <A:m·n>                            → `<B>;<P|->`          | panic | fuel
-/
namespace Yuiv.Drv.C10
open Yuiv Yuiv.C10 Yuiv.Drv

def parseInts (l : List String) : Option (Array Int) :=
  l.foldl (init := some #[]) fun acc s => do let a ← acc; let x ← parseInt? s; pure (a.push x)

/-- cut `cnt` entries starting at `off` into an `m×n` matrix -/
def cut (xs : Array Int) (off m n : Nat) : Mat :=
  mkMat m n fun i j => xs.getD (off + i * n + j) 0

def matTxt (m n : Nat) (A : Mat) : String :=
  let es := (List.range m).flatMap fun i => (List.range n).map fun j => toString (ent A i j)
  String.intercalate " " (toString m :: toString n :: es)

def b01 (b : Bool) : String := if b then "1" else "0"

def fuelMax : Nat := 5000000

def handle (t : List String) : String :=
  let r : Option String :=
    match t with
    | "chkhnf" :: m :: n :: rest => do
        let m ← parseNat? m; let n ← parseNat? n
        let xs ← parseInts rest
        if xs.size ≠ 2 * m * n + 2 * m * m then none
        let A := cut xs 0 m n; let H := cut xs (m*n) m n
        let P := cut xs (2*m*n) m m; let Pinv := cut xs (2*m*n + m*m) m m
        some s!"t={b01 (transformOk m n A H P Pinv)} h={b01 (isHnf m n H)}"
    | "chklll" :: m :: n :: rest => do
        let m ← parseNat? m; let n ← parseNat? n
        let xs ← parseInts rest
        if xs.size ≠ 2 * m * n + 2 * m * m then none
        let A := cut xs 0 m n; let B := cut xs (m*n) m n
        let P := cut xs (2*m*n) m m; let Pinv := cut xs (2*m*n + m*m) m m
        some s!"t={b01 (transformOk m n A B P Pinv)} r={b01 (isLLLReduced m n B alphaZ.1 alphaZ.2)}"
    | "runhnf" :: f0 :: f1 :: m :: n :: rest => do
        let f0 ← parseNat? f0; let f1 ← parseNat? f1
        let m ← parseNat? m; let n ← parseNat? n
        let xs ← parseInts rest
        if xs.size ≠ m * n then none
        match lllHnf fuelMax m n (cut xs 0 m n) with
        | .ok t =>
          let p := if f0 = 1 then matTxt m m t.p else "-"
          let q := if f1 = 1 then matTxt m m t.pinv else "-"
          some s!"{matTxt m n t.target};{p};{q}"
        | .panic => some "panic"
        | .err => some "fuel"
    | "runlll" :: f :: m :: n :: rest => do
        let f ← parseNat? f
        let m ← parseNat? m; let n ← parseNat? n
        let xs ← parseInts rest
        if xs.size ≠ m * n then none
        match lll fuelMax m n (cut xs 0 m n) with
        | .ok d =>
          let p := if f = 1 then matTxt m m d.tr.p else "-"
          some s!"{matTxt m n d.tr.target};{p}"
        | .panic => some "panic"
        | .err => some "fuel"
    | _ => none
  r.getD "bad-request"

end Yuiv.Drv.C10
