import Yuiv.Model.C10
import Yuiv.Model.C10Q
import Yuiv.Drv.Loop
/-
Driver for C10.  Requests (all integers decimal, matrices row-major):
  chkhnf m n <A:m·n> <H:m·n> <P:m·m> <Pinv:m·m>   → `t=<0|1> h=<0|1>`   (transformOk, isHnf)
  chklll m n <A:m·n> <B:m·n> <P:m·m> <Pinv:m·m>   → `t=<0|1> r=<0|1>`   (transformOk, isLLLReduced 3/4)
  runhnf f0 f1 m n <A:m·n>                        → `<H>;<P|->;<Pinv|->` | panic | fuel   (literal model)
  runlll f m n <A:m·n>                            → `<B>;<P|->`          | panic | fuel
  bookhnf m n <A> | booklll m n <A>               → `ok` if det/lambda equal the recomputed integral Gram–Schmidt data
                                                     (of P resp. of target) before every iteration of the model, else `mismatch`
  chkhnfq <g|e> m n <A> <H> <P> <Pinv>            → `t=<0|1> h=<0|1>`   entries `a,b` = a + bθ (θ = i resp. ω)
  chklllq <g|e> m n <A> <B> <P> <Pinv>            → `t=<0|1> r=<0|1>`   (N(μ) ≤ 1/2, α = 3/4 for g; 3/4, 2/3 for e)
-/
namespace Yuiv.Drv.C10
open Yuiv Yuiv.C10 Yuiv.Drv

def parseInts (l : List String) : Option (Array Int) :=
  l.foldl (init := some #[]) fun acc s => do let a ← acc; let x ← parseInt? s; pure (a.push x)

/-- cut `cnt` entries starting at `off` into an `m×n` matrix -/
def cut (xs : Array Int) (off m n : Nat) : Mat :=
  mkMat m n fun i j => xs.getD (off + i * n + j) 0

def parsePair? (s : String) : Option (Int × Int) :=
  match s.splitOn "," with
  | [a, b] => do let a ← parseInt? a; let b ← parseInt? b; pure (a, b)
  | _ => none

def parsePairs (l : List String) : Option (Array (Int × Int)) :=
  l.foldl (init := some #[]) fun acc s => do let a ← acc; let x ← parsePair? s; pure (a.push x)

def cutQ (xs : Array (Int × Int)) (off m n : Nat) : Q.MatQ :=
  Q.mkMatQ m n fun i j => xs.getD (off + i * n + j) (0, 0)

def kindOf? (s : String) : Option Q.QK :=
  if s = "g" then some Q.gauss else if s = "e" then some Q.eisen else none

def matTxt (m n : Nat) (A : Mat) : String :=
  let es := (List.range m).flatMap fun i => (List.range n).map fun j => toString (ent A i j)
  String.intercalate " " (toString m :: toString n :: es)

def b01 (b : Bool) : String := if b then "1" else "0"

def fuelMax : Nat := 5000000

def bookReq (hnf : Bool) (m n : String) (rest : List String) : Option String := do
  let m ← parseNat? m; let n ← parseNat? n
  let xs ← parseInts rest
  if xs.size ≠ m * n then none
  let A := cut xs 0 m n
  match (if hnf then bookHnf fuelMax m n A else bookLll fuelMax m n A) with
  | .ok (some _) => some "ok"
  | .ok none => some "mismatch"
  | .panic => some "panic"
  | .err => some "fuel"

def handle (t : List String) : String :=
  let r : Option String :=
    match t with
    | "chkhnf" :: m :: n :: rest => do
        let m ← parseNat? m; let n ← parseNat? n
        let xs ← parseInts rest
        if xs.size ≠ 2 * m * n + 2 * m * m then none
        let A := cut xs 0 m n; let H := cut xs (m*n) m n
        let P := cut xs (2*m*n) m m; let Pinv := cut xs (2*m*n + m*m) m m
        some s!"t={b01 (transformOk m n A H P Pinv)} h={b01 (isHnf m n H)}"
    | "chklll" :: m :: n :: rest => do
        let m ← parseNat? m; let n ← parseNat? n
        let xs ← parseInts rest
        if xs.size ≠ 2 * m * n + 2 * m * m then none
        let A := cut xs 0 m n; let B := cut xs (m*n) m n
        let P := cut xs (2*m*n) m m; let Pinv := cut xs (2*m*n + m*m) m m
        some s!"t={b01 (transformOk m n A B P Pinv)} r={b01 (isLLLReduced m n B alphaZ.1 alphaZ.2)}"
    | "bookhnf" :: m :: n :: rest => bookReq true m n rest
    | "booklll" :: m :: n :: rest => bookReq false m n rest
    | "chkhnfq" :: kd :: m :: n :: rest => do
        let k ← kindOf? kd
        let m ← parseNat? m; let n ← parseNat? n
        let xs ← parsePairs rest
        if xs.size ≠ 2 * m * n + 2 * m * m then none
        let A := cutQ xs 0 m n; let H := cutQ xs (m*n) m n
        let P := cutQ xs (2*m*n) m m; let Pinv := cutQ xs (2*m*n + m*m) m m
        some s!"t={b01 (Q.transformOkQ k m n A H P Pinv)} h={b01 (Q.isHnfQ k m n H)}"
    | "chklllq" :: kd :: m :: n :: rest => do
        let k ← kindOf? kd
        let m ← parseNat? m; let n ← parseNat? n
        let xs ← parsePairs rest
        if xs.size ≠ 2 * m * n + 2 * m * m then none
        let A := cutQ xs 0 m n; let B := cutQ xs (m*n) m n
        let P := cutQ xs (2*m*n) m m; let Pinv := cutQ xs (2*m*n + m*m) m m
        let (p, q, rp, rq) : Int × Int × Int × Int := if kd = "g" then (3, 4, 1, 2) else (2, 3, 3, 4)
        some s!"t={b01 (Q.transformOkQ k m n A B P Pinv)} r={b01 (Q.isLLLReducedQ k m n B p q rp rq)}"
    | "runhnf" :: f0 :: f1 :: m :: n :: rest => do
        let f0 ← parseNat? f0; let f1 ← parseNat? f1
        let m ← parseNat? m; let n ← parseNat? n
        let xs ← parseInts rest
        if xs.size ≠ m * n then none
        match lllHnf fuelMax m n (cut xs 0 m n) with
        | .ok t =>
          let p := if f0 = 1 then matTxt m m t.p else "-"
          let q := if f1 = 1 then matTxt m m t.pinv else "-"
          some s!"{matTxt m n t.target};{p};{q}"
        | .panic => some "panic"
        | .err => some "fuel"
    | "runlll" :: f :: m :: n :: rest => do
        let f ← parseNat? f
        let m ← parseNat? m; let n ← parseNat? n
        let xs ← parseInts rest
        if xs.size ≠ m * n then none
        match lll fuelMax m n (cut xs 0 m n) with
        | .ok d =>
          let p := if f = 1 then matTxt m m d.tr.p else "-"
          some s!"{matTxt m n d.tr.target};{p}"
        | .panic => some "panic"
        | .err => some "fuel"
    | _ => none
  r.getD "bad-request"

end Yuiv.Drv.C10
