import Yuiv.Model.C15
import Yuiv.Drv.Loop
/-
Driver for C15.  Request: `<ring>[.<repr>] <op> <a> [<b>]`
  ring: Z | G | E | Q | F2 | F3 | F5 | F7 | PQ | PF3 | HQ | HF3   (`.i64`, `.big` … only names the Rust type)
  op (binary): div rem dr gcd gcdx lcm divides        op (unary): unit inv nu norm
Scalar text: Z decimal; G/E `a,b`; Q `n/d`; F_p the representative; polynomials `[c0;c1;…]` (little endian,
`[]` = 0); homogeneous polynomials `deg:coeff` (zero printed with degree 0).
Replies: the value, `true/false`, `none`, `panic`, `err` (fuel exhausted — never happens);
`gcdx` replies `d s t` (for Z only `d`: the Bezout pair of `num_integer` is not determined by the property).
-/
namespace Yuiv.Drv.C15
open Yuiv Yuiv.C15 Yuiv.Drv

structure RingIO (α : Type) where
  E : EucOps α
  parse : String → Option α
  shw : α → String

def showRes {α} (f : α → String) : Res α → String
  | .ok a => f a
  | .panic => "panic"
  | .err => "err"

def boolStr (b : Bool) : String := if b then "true" else "false"

/-! ### scalar text -/

def parseQInt (s : String) : Option QInt :=
  match s.splitOn "," with
  | [a, b] => do let a ← parseInt? a; let b ← parseInt? b; some ⟨a, b⟩
  | _ => none
def showQInt (x : QInt) : String := s!"{x.a},{x.b}"

def parseQ (s : String) : Option Q :=
  match s.splitOn "/" with
  | [n, d] => do
      let n ← parseInt? n; let d ← parseInt? d
      if d == 0 then none else some (Q.make n d)
  | _ => none
def showQ (x : Q) : String := s!"{x.num}/{x.den}"

def parseFF (p : Nat) (s : String) : Option Nat := do
  let a ← parseInt? s
  some (FF.mk p a)

def parsePoly {F} (E : EucOps F) (pc : String → Option F) (s : String) : Option (List F) :=
  if s.length < 2 || s.front != '[' || s.back != ']' then none else
    let body := ((s.drop 1).dropEnd 1).toString
    if body.isEmpty then some [] else do
      let cs ← (body.splitOn ";").mapM pc
      some (Poly.trim E cs)
def showPoly {F} (sc : F → String) (f : List F) : String :=
  "[" ++ ";".intercalate (f.map sc) ++ "]"

def parseHP {F} (pc : String → Option F) (s : String) : Option (HP F) :=
  match s.splitOn ":" with
  | [d, c] => do let d ← parseNat? d; let c ← pc c; some ⟨d, c⟩
  | _ => none
def showHP {F} (E : EucOps F) (sc : F → String) (x : HP F) : String :=
  if E.isZero x.coeff then s!"0:{sc x.coeff}" else s!"{x.deg}:{sc x.coeff}"

def ioG : RingIO QInt := ⟨gaussOps, parseQInt, showQInt⟩
def ioE : RingIO QInt := ⟨eisenOps, parseQInt, showQInt⟩
def ioQ : RingIO Q := ⟨ratOps, parseQ, showQ⟩
def ioF (p : Nat) : RingIO Nat := ⟨ffOps p, parseFF p, toString⟩
def ioPQ : RingIO (List Q) := ⟨polyOps ratOps, parsePoly ratOps parseQ, showPoly showQ⟩
def ioPF (p : Nat) : RingIO (List Nat) := ⟨polyOps (ffOps p), parsePoly (ffOps p) (parseFF p), showPoly toString⟩
def ioHQ : RingIO (HP Q) := ⟨hpolyOps ratOps, parseHP parseQ, showHP ratOps showQ⟩
def ioHF (p : Nat) : RingIO (HP Nat) := ⟨hpolyOps (ffOps p), parseHP (parseFF p), showHP (ffOps p) toString⟩

/-! ### generic ring requests -/

def handleRing {α} (R : RingIO α) (quad : Bool) (op : String) (args : List String) : String :=
  let E := R.E
  match op, args with
  | "div", [a, b] => match R.parse a, R.parse b with
      | some a, some b => showRes R.shw (E.divR a b) | _, _ => "bad-request"
  | "rem", [a, b] => match R.parse a, R.parse b with
      | some a, some b => showRes R.shw (E.remR a b) | _, _ => "bad-request"
  | "dr", [a, b] => if !quad then "bad-request" else match R.parse a, R.parse b with
      | some a, some b => showRes R.shw (E.divR a b) | _, _ => "bad-request"
  | "gcd", [a, b] => match R.parse a, R.parse b with
      | some a, some b => showRes R.shw (E.gcd a b) | _, _ => "bad-request"
  | "gcdx", [a, b] => match R.parse a, R.parse b with
      | some a, some b =>
        showRes (fun (d, s, t) => s!"{R.shw d} {R.shw s} {R.shw t}") (E.gcdx a b)
      | _, _ => "bad-request"
  | "lcm", [a, b] => match R.parse a, R.parse b with
      | some a, some b => showRes R.shw (E.lcm a b) | _, _ => "bad-request"
  | "divides", [a, b] => match R.parse a, R.parse b with
      | some a, some b => boolStr (E.divides a b) | _, _ => "bad-request"
  | "unit", [a] => match R.parse a with
      | some a => boolStr (E.isUnit a) | _ => "bad-request"
  | "inv", [a] => match R.parse a with
      | some a => (match E.inv a with | some i => R.shw i | none => "none") | _ => "bad-request"
  | "nu", [a] => match R.parse a with
      | some a => R.shw (E.normUnit a) | _ => "bad-request"
  | "norm", [a] => match R.parse a with
      | some a => R.shw (E.normalized a) | _ => "bad-request"
  | _, _ => "bad-request"

/-- integers: `gcd/gcdx/lcm` are `num_integer`'s -/
def handleZ (op : String) (args : List String) : String :=
  match op, args with
  | "dr", [a, b] => match parseInt? a, parseInt? b with
      | some a, some b => showRes toString (zDivRound a b) | _, _ => "bad-request"
  | "gcd", [a, b] => match parseInt? a, parseInt? b with
      | some a, some b => toString (zGcd a b) | _, _ => "bad-request"
  | "gcdx", [a, b] => match parseInt? a, parseInt? b with
      | some a, some b => toString (zGcd a b) | _, _ => "bad-request"
  | "lcm", [a, b] => match parseInt? a, parseInt? b with
      | some a, some b => toString (zLcm a b) | _, _ => "bad-request"
  | _, _ => handleRing ⟨intOps, parseInt?, toString⟩ false op args

def handle (t : List String) : String :=
  match t with
  | ring :: op :: args =>
    match (ring.splitOn ".").head! with
    | "Z" => handleZ op args
    | "G" => handleRing ioG true op args
    | "E" => handleRing ioE true op args
    | "Q" => handleRing ioQ false op args
    | "F2" => handleRing (ioF 2) false op args
    | "F3" => handleRing (ioF 3) false op args
    | "F5" => handleRing (ioF 5) false op args
    | "F7" => handleRing (ioF 7) false op args
    | "PQ" => handleRing ioPQ false op args
    | "PF3" => handleRing (ioPF 3) false op args
    | "HQ" => handleRing ioHQ false op args
    | "HF3" => handleRing (ioHF 3) false op args
    | _ => "bad-request"
  | _ => "bad-request"

end Yuiv.Drv.C15
