import Yuiv.Model.KhRef
import Yuiv.Drv.Loop
/-
Shared request parsing / table printing for the Khovanov-level drivers (C01–C06, C19).
A link travels as `n` followed by `n` records `<X|Xm|V|H> e0 e1 e2 e3`.
-/
namespace Yuiv.Drv.KhLink
open Yuiv.KhRef Yuiv.Drv

def parseCT? : String → Option CT
  | "X" => some .X | "Xm" => some .Xm | "V" => some .V | "H" => some .H | _ => none

/-- parse a link from the front of a token list; returns the link and the remaining tokens -/
def parseLink? (ts : List String) : Option (Link × List String) := do
  match ts with
  | [] => none
  | n :: rest =>
    let n ← parseNat? n
    let mut out : Link := #[]
    let mut r := rest
    for _ in [0:n] do
      match r with
      | ct :: a :: b :: c :: d :: r' =>
        let ct ← parseCT? ct
        let a ← parseNat? a; let b ← parseNat? b; let c ← parseNat? c; let d ← parseNat? d
        out := out.push ⟨ct, #[a, b, c, d]⟩
        r := r'
      | _ => none
    return (out, r)

def parseCoeff? : String → Option Coeff
  | "Z" => some .Z
  | "Q" => some .Q
  | s => if s.startsWith "F" then (s.drop 1).toString.toNat?.map Coeff.Fp else none

def signsStr (sg : Array Int) : String :=
  if sg.isEmpty then "_" else String.ofList (sg.toList.map (fun x => if x > 0 then '+' else '-'))

def groupStr (g : Group) : String :=
  let ts := (g.tors.map (fun x => toString x.natAbs)).toList
  s!"{g.rank}:{String.intercalate "," ts}"

def cellsStr (r : Result) : String :=
  if r.cells.isEmpty then "empty" else
    let cs := r.cells.qsort (fun a b => a.1 < b.1 || (a.1 == b.1 && (a.2.1.getD 0) < (b.2.1.getD 0)))
    String.intercalate " " (cs.toList.map (fun (i, j, g) =>
      match j with
      | some j => s!"{i},{j}:{groupStr g}"
      | none => s!"{i}:{groupStr g}"))

end Yuiv.Drv.KhLink
