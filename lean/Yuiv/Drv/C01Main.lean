import Yuiv.Drv.Loop
-- stub driver for C01 (not built yet)
def main : IO Unit := Yuiv.Drv.loop (fun _ => "unimplemented")
