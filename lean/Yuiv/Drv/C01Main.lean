import Yuiv.Drv.C01
def main : IO Unit := Yuiv.Drv.loop Yuiv.Drv.C01.handle
