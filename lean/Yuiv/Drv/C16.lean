import Yuiv.Model.C16
import Yuiv.Model.C16Rings
import Yuiv.Drv.Loop
/-
Driver for C16: runs the `Lc`/`PolyBase`/monomial code model on the harness's request lines.

  hist <T> <R> <init> <op>*       history on one value, replies joined by `;`
  mono <T> <cmd> <args>*          monomial-level operations (orders, product, MultiDeg constructors, sub, neg)
  hp <R> <init> <op>*             history on an `HPoly`

T: lc (Lc over integer generators), p1 l1 p2 l2 p3 l3 pn ln (Poly, LPoly, Poly2, LPoly2, Poly3, LPoly3, PolyN, LPolyN)
R: z q f3 gi
terms text: `0` or `mono:coef,mono:coef,…` sorted by the exponent key; coef: `-3`, `n/d`, `2`, `a_b`.
-/
namespace Yuiv.Drv.C16
open Yuiv Yuiv.C16 Yuiv.Drv

structure RIO (R : Type) where
  parse : String → Option R
  shw : R → String

structure MIO (M : Type) where
  parse : String → Option M
  shw : M → String
  key : M → List Int
  exps : M → Option (List Nat)
  cmpLex : M → M → Ordering
  cmpGrlex : M → M → Ordering

/-! ### rings -/
def zIO : RIO Int := ⟨parseInt?, toString⟩

def qIO : RIO Rat :=
  ⟨fun s => match s.splitOn "/" with
    | [n, d] => do
        let n ← parseInt? n; let d ← parseNat? d
        if d = 0 then none else some (mkRat n d)
    | _ => none,
   fun q => s!"{q.num}/{q.den}"⟩

def f3IO : RIO F3 := ⟨fun s => (parseInt? s).map F3.ofInt, fun a => toString a.v.val⟩

def giIO : RIO GInt :=
  ⟨fun s => match s.splitOn "_" with
    | [a, b] => do let a ← parseInt? a; let b ← parseInt? b; some ⟨a, b⟩
    | _ => none,
   fun a => s!"{a.re}_{a.im}"⟩

/-! ### monomials -/
def ordStr : Ordering → String
  | .lt => "lt" | .eq => "eq" | .gt => "gt"

def dots (l : List String) : String := String.intercalate "." l

def genIO : MIO Int :=
  ⟨parseInt?, toString, fun x => [x], fun _ => none, fun a b => cmpI a b, fun a b => cmpI a b⟩

def var1N : MIO (Var Nat) :=
  ⟨fun s => (parseNat? s).map Var.mk, fun a => toString a.e, fun a => [(a.e : Int)], fun a => some [a.e],
   Var.cmpLex, Var.cmpGrlex⟩
def var1Z : MIO (Var Int) :=
  ⟨fun s => (parseInt? s).map Var.mk, fun a => toString a.e, fun a => [a.e], fun _ => none,
   Var.cmpLex, Var.cmpGrlex⟩

def var2N : MIO (Var2 Nat) :=
  ⟨fun s => match s.splitOn "." with
    | [a, b] => do let a ← parseNat? a; let b ← parseNat? b; some ⟨a, b⟩
    | _ => none,
   fun a => dots [toString a.e0, toString a.e1], fun a => [(a.e0 : Int), (a.e1 : Int)],
   fun a => some [a.e0, a.e1], Var2.cmpLex, Var2.cmpGrlex⟩
def var2Z : MIO (Var2 Int) :=
  ⟨fun s => match s.splitOn "." with
    | [a, b] => do let a ← parseInt? a; let b ← parseInt? b; some ⟨a, b⟩
    | _ => none,
   fun a => dots [toString a.e0, toString a.e1], fun a => [a.e0, a.e1],
   fun _ => none, Var2.cmpLex, Var2.cmpGrlex⟩

def var3N : MIO (Var3 Nat) :=
  ⟨fun s => match s.splitOn "." with
    | [a, b, c] => do let a ← parseNat? a; let b ← parseNat? b; let c ← parseNat? c; some ⟨a, b, c⟩
    | _ => none,
   fun a => dots [toString a.e0, toString a.e1, toString a.e2],
   fun a => [(a.e0 : Int), (a.e1 : Int), (a.e2 : Int)],
   fun a => some [a.e0, a.e1, a.e2], Var3.cmpLex, Var3.cmpGrlex⟩
def var3Z : MIO (Var3 Int) :=
  ⟨fun s => match s.splitOn "." with
    | [a, b, c] => do let a ← parseInt? a; let b ← parseInt? b; let c ← parseInt? c; some ⟨a, b, c⟩
    | _ => none,
   fun a => dots [toString a.e0, toString a.e1, toString a.e2], fun a => [a.e0, a.e1, a.e2],
   fun _ => none, Var3.cmpLex, Var3.cmpGrlex⟩

/-- raw `(index, exponent)` pairs `i^e.i^e…` (`1` = none), as handed to `MultiDeg::from_iter` -/
def parsePairs {I : Type} (pe : String → Option I) (s : String) : Option (List (Nat × I)) :=
  if s = "1" then some [] else
    (s.splitOn ".").mapM (fun t => match t.splitOn "^" with
      | [i, e] => do let i ← parseNat? i; let e ← pe e; some (i, e)
      | _ => none)

def showPairs {I : Type} (se : I → String) (l : List (Nat × I)) : String :=
  if l.isEmpty then "1" else dots (l.map (fun p => s!"{p.1}^{se p.2}"))

def mvarN : MIO (MVar Nat) :=
  ⟨fun s => (parsePairs parseNat? s).map (fun l => ⟨mdFromIter l⟩),
   fun a => showPairs toString a.d,
   fun a => a.d.flatMap (fun p => [(p.1 : Int), (p.2 : Int)]),
   fun _ => none, MVar.cmpLex, MVar.cmpGrlex⟩
def mvarZ : MIO (MVar Int) :=
  ⟨fun s => (parsePairs parseInt? s).map (fun l => ⟨mdFromIter l⟩),
   fun a => showPairs toString a.d,
   fun a => a.d.flatMap (fun p => [(p.1 : Int), p.2]),
   fun _ => none, MVar.cmpLex, MVar.cmpGrlex⟩

/-! ### terms text -/
def lexLe : List Int → List Int → Bool
  | [], _ => true
  | _ :: _, [] => false
  | a :: s, b :: t => if a < b then true else if a = b then lexLe s t else false

section Generic
variable {X R : Type} [DecidableEq X] [DecidableEq R] [Zero R] [One R] [Add R] [Neg R] [Mul R]

def showTerms (mio : MIO X) (rio : RIO R) (a : List (X × R)) : String :=
  let s := a.mergeSort (fun p q => lexLe (mio.key p.1) (mio.key q.1))
  if s.isEmpty then "0"
  else String.intercalate "," (s.map (fun p => mio.shw p.1 ++ ":" ++ rio.shw p.2))

def parseRaw (mio : MIO X) (rio : RIO R) (s : String) : Option (List (X × R)) :=
  if s = "0" then some [] else
    (s.splitOn ",").mapM (fun t => match t.splitOn ":" with
      | [m, c] => do let m ← mio.parse m; let c ← rio.parse c; some (m, c)
      | _ => none)

/-- operands are built with `from_iter` on the Rust side -/
def parseTerms (mio : MIO X) (rio : RIO R) (s : String) : Option (List (X × R)) :=
  (parseRaw mio rio s).map fromIter

def splitOp (op : String) : String × String :=
  match op.splitOn "=" with
  | [n] => (String.ofList (n.toList.filter (fun c => !c.isDigit)), "")
  | [n, a] => (String.ofList (n.toList.filter (fun c => !c.isDigit)), a)
  | _ => ("", "")

def boolStr (b : Bool) : String := if b then "true" else "false"

/-- operations available on every `Lc` (and hence on every polynomial type) -/
def commonOp (mio : MIO X) (rio : RIO R) (st : List (X × R)) (name arg : String) :
    Option (List (X × R) × String) :=
  let upd (s : List (X × R)) := some (s, showTerms mio rio s)
  match name with
  | "add" => do let p ← parseTerms mio rio arg; upd (addAssign st p)
  | "radd" => do let p ← parseTerms mio rio arg; upd (addAssign p st)
  | "sub" => do let p ← parseTerms mio rio arg; upd (subAssign st p)
  | "rsub" => do let p ← parseTerms mio rio arg; upd (subAssign p st)
  | "smul" => do let c ← rio.parse arg; upd (smul st c)
  | "neg" => upd (neg st)
  | "mapc" => do let c ← rio.parse arg; upd (mapCoeffs (fun r => r * c) st)
  | "nt" => some (st, toString (nterms st))
  | "iz" => some (st, boolStr (isZero st))
  | "co" => do let m ← mio.parse arg; some (st, rio.shw (coeff st m))
  | "eq" => do let p ← parseTerms mio rio arg; some (st, boolStr (eqv st p))
  | "im" => some (st, boolStr (isGen st))
  | _ => none

end Generic

section PolyOps
variable {M R : Type} [DecidableEq M] [Mul M] [One M] [DecidableEq R]
  [Zero R] [One R] [Add R] [Neg R] [Mul R]

/-- The harness keeps products below 600 term pairs.  If the real code deviates from the model, the model's
state is no longer bounded by that, so the driver refuses products beyond this cap (reply `too-big`, which ends
the history) instead of running for hours. -/
def sizeCap : Nat := 20000

def monoEval (pt : List R) (es : List Nat) : Option R :=
  match pt, es with
  | [x], [a] => some (powNat x a)
  | [x, y], [a, b] => some (powNat x a * powNat y b)
  | [x, y, z], [a, b, c] => some (powNat x a * powNat y b * powNat z c)
  | _, _ => none

def polyOp (mio : MIO M) (rio : RIO R) (st : List (M × R)) (name arg : String) :
    Option (List (M × R) × String) :=
  let upd (s : List (M × R)) := some (s, showTerms mio rio s)
  match name with
  | "mul" => do
      let p ← parseTerms mio rio arg
      if st.length * p.length > sizeCap then some (st, "too-big") else upd (mulAssign st p)
  | "rmul" => do
      let p ← parseTerms mio rio arg
      if st.length * p.length > sizeCap then some (st, "too-big") else upd (mulAssign p st)
  | "lcmul" => do
      let p ← parseTerms mio rio arg
      if st.length * p.length > sizeCap then some (st, "too-big") else upd (mul st p)
  | "pow" => do
      let n ← parseNat? arg
      if n > 8 then none
      else if st.length ^ n > sizeCap then some (st, "too-big") else upd (powP st n)
  | "lt" =>
      let t := leadTerm mio.cmpGrlex st
      some (st, mio.shw t.1 ++ ":" ++ rio.shw t.2)
  | "ic" => some (st, boolStr (isConst st))
  | "io" => some (st, boolStr (isOne st))
  | "ct" => some (st, rio.shw (constTerm st))
  | "ev" => do
      let pt ← (arg.splitOn "|").mapM rio.parse
      -- every monomial must be evaluable at this point
      let vals ← st.mapM (fun p => do let es ← mio.exps p.1; let v ← monoEval pt es; some (p.1, v))
      let me : M → R := fun m => coeff vals m
      some (st, rio.shw (evalWith me st))
  | _ => commonOp mio rio st name arg

def runHist (step : List (M × R) → String → String → Option (List (M × R) × String))
    (st : List (M × R)) : List String → List String → Option (List String)
  | [], acc => some acc.reverse
  | op :: ops, acc =>
    let (n, a) := splitOp op
    match step st n a with
    | none => none
    | some (st', r) => if r = "too-big" then some ((r :: acc).reverse) else runHist step st' ops (r :: acc)

def histPoly (mio : MIO M) (rio : RIO R) (init : String) (ops : List String) : Option String := do
  let st ← parseTerms mio rio init
  let rs ← runHist (polyOp mio rio) st ops [showTerms mio rio st]
  some (String.intercalate ";" rs)

end PolyOps

section LcOps
variable {R : Type} [DecidableEq R] [Zero R] [One R] [Add R] [Neg R] [Mul R]

/-- `Lc<Free<i64>, R>`-specific operations with fixed closures (the harness uses the same closures) -/
def lcOp (rio : RIO R) (st : List (Int × R)) (name arg : String) : Option (List (Int × R) × String) :=
  let upd (s : List (Int × R)) := some (s, showTerms genIO rio s)
  match name with
  | "mapg" => do                       -- map_gens(|x| x.rem_euclid(k))
      let k ← parseNat? arg
      if k = 0 then none else upd (mapGens (fun x => x % (k : Int)) st)
  | "filt" => do                       -- filter_gens(|x| x.rem_euclid(2) == k)
      let k ← parseNat? arg
      upd (filterGens (fun x => x % 2 == (k : Int)) st)
  | "app" => do                        -- apply(|x| x − (x+k))
      let k ← parseInt? arg
      upd (apply (fun x => fromIter [(x, (1 : R)), (x + k, -(1 : R))]) st)
  | "comb" => do                       -- combine(other, |x, y| x + y)
      let p ← parseTerms genIO rio arg
      if st.length * p.length > 20000 then some (st, "too-big") else upd (combine (fun x y => x + y) st p)
  | _ => commonOp genIO rio st name arg

def histLc (rio : RIO R) (init : String) (ops : List String) : Option String := do
  let st ← parseTerms genIO rio init
  let rs ← runHist (lcOp rio) st ops [showTerms genIO rio st]
  some (String.intercalate ";" rs)

/-! ### HPoly -/
def showH (rio : RIO R) (a : HPoly R) : String :=
  if a.isZero then "0" else s!"{a.deg}:{rio.shw a.coeff}"

def parseH (rio : RIO R) (s : String) : Option (HPoly R) :=
  match s.splitOn ":" with
  | [d, c] => do let d ← parseNat? d; let c ← rio.parse c; some ⟨d, c⟩
  | _ => none

def hpOp (rio : RIO R) (st : HPoly R) (name arg : String) : Option (Option (HPoly R) × String) :=
  let upd (s : Res (HPoly R)) : Option (Option (HPoly R) × String) :=
    match s with
    | .ok s => some (some s, showH rio s)
    | _ => some (none, "panic")
  match name with
  | "add" => do let p ← parseH rio arg; upd (st.add p)
  | "radd" => do let p ← parseH rio arg; upd (p.add st)
  | "sub" => do let p ← parseH rio arg; upd (st.sub p)
  | "rsub" => do let p ← parseH rio arg; upd (p.sub st)
  | "mul" => do let p ← parseH rio arg; upd (.ok (st.mul p))
  | "rmul" => do let p ← parseH rio arg; upd (.ok (p.mul st))
  | "smul" => do let c ← rio.parse arg; upd (.ok (st.smul c))
  | "neg" => upd (.ok st.neg)
  | "iz" => some (some st, boolStr st.isZero)
  | "io" => some (some st, boolStr st.isOne)
  | "eq" => do let p ← parseH rio arg; some (some st, boolStr (st.eqv p))
  | _ => none

def runHp (rio : RIO R) (st : HPoly R) : List String → List String → Option (List String)
  | [], acc => some acc.reverse
  | op :: ops, acc =>
    let (n, a) := splitOp op
    match hpOp rio st n a with
    | none => none
    | some (some st', r) => runHp rio st' ops (r :: acc)
    | some (none, r) => some ((r :: acc).reverse)     -- a panic ends the history

def histHp (rio : RIO R) (init : String) (ops : List String) : Option String := do
  let st ← parseH rio init
  let rs ← runHp rio st ops [showH rio st]
  some (String.intercalate ";" rs)

end LcOps

/-! ### dispatch -/
def histWithRing {M : Type} [DecidableEq M] [Mul M] [One M] (mio : MIO M)
    (r init : String) (ops : List String) : Option String :=
  match r with
  | "z" => histPoly mio zIO init ops
  | "q" => histPoly mio qIO init ops
  | "f3" => histPoly mio f3IO init ops
  | "gi" => histPoly mio giIO init ops
  | _ => none

def histDispatch (t r init : String) (ops : List String) : Option String :=
  match t with
  | "lc" =>
    match r with
    | "z" => histLc zIO init ops
    | "q" => histLc qIO init ops
    | "f3" => histLc f3IO init ops
    | "gi" => histLc giIO init ops
    | _ => none
  | "p1" => histWithRing var1N r init ops
  | "l1" => histWithRing var1Z r init ops
  | "p2" => histWithRing var2N r init ops
  | "l2" => histWithRing var2Z r init ops
  | "p3" => histWithRing var3N r init ops
  | "l3" => histWithRing var3Z r init ops
  | "pn" => histWithRing mvarN r init ops
  | "ln" => histWithRing mvarZ r init ops
  | _ => none

def hpDispatch (r init : String) (ops : List String) : Option String :=
  match r with
  | "z" => histHp zIO init ops
  | "q" => histHp qIO init ops
  | "f3" => histHp f3IO init ops
  | "gi" => histHp giIO init ops
  | _ => none

/-- monomial-level commands common to all monomial types -/
def monoCmd {M : Type} [Mul M] [One M] (mio : MIO M) (cmd : String) (args : List String) : Option String :=
  match cmd, args with
  | "cmp", [a, b] => do
      let a ← mio.parse a; let b ← mio.parse b
      some (ordStr (mio.cmpLex a b) ++ " " ++ ordStr (mio.cmpGrlex a b))
  | "mul", [a, b] => do let a ← mio.parse a; let b ← mio.parse b; some (mio.shw (a * b))
  | "one", [] => some (mio.shw (1 : M))
  | "id", [a] => do let a ← mio.parse a; some (mio.shw a)
  | _, _ => none

def showResPairs {I : Type} (se : I → String) : Res (List (Nat × I)) → String
  | .ok l => showPairs se l
  | _ => "panic"

def monoDispatch (t cmd : String) (args : List String) : Option String :=
  match t with
  | "p1" => monoCmd var1N cmd args
  | "l1" => monoCmd var1Z cmd args
  | "p2" => monoCmd var2N cmd args
  | "l2" => monoCmd var2Z cmd args
  | "p3" => monoCmd var3N cmd args
  | "l3" => monoCmd var3Z cmd args
  | "pn" =>
    match cmd, args with
    | "sub", [a, b] => do
        let a ← mvarN.parse a; let b ← mvarN.parse b
        some (showResPairs toString (mdSubNat a.d b.d))
    | "arr", [a] => do
        let ds ← (a.splitOn ".").mapM parseNat?
        some (showPairs toString (mdFromArray ds))
    | "tot", [a] => do let a ← mvarN.parse a; some (toString (mdTotal a.d))
    | _, _ => monoCmd mvarN cmd args
  | "ln" =>
    match cmd, args with
    | "sub", [a, b] => do
        let a ← mvarZ.parse a; let b ← mvarZ.parse b
        some (showPairs toString (mdSubInt a.d b.d))
    | "neg", [a] => do let a ← mvarZ.parse a; some (showPairs toString (mdNeg a.d))
    | "arr", [a] => do
        let ds ← (a.splitOn ".").mapM parseInt?
        some (showPairs toString (mdFromArray ds))
    | "tot", [a] => do let a ← mvarZ.parse a; some (toString (mdTotal a.d))
    | _, _ => monoCmd mvarZ cmd args
  | _ => none

def handle (t : List String) : String :=
  let r : Option String :=
    match t with
    | "hist" :: ty :: r :: init :: ops => histDispatch ty r init ops
    | "hp" :: r :: init :: ops => hpDispatch r init ops
    | "mono" :: ty :: cmd :: args => monoDispatch ty cmd args
    | _ => none
  r.getD "bad-request"

end Yuiv.Drv.C16
