import Yuiv.Drv.KhLink
import Yuiv.Model.C03
/-
Driver for C03:
  `tables <reduced 0|1> <link>`  ↦ the four bigraded tables (ℤ, ℚ, 𝔽₂, 𝔽₃; h = t = 0) of the reference cube
  `collect <i>|<f or order>:<q,q,…>;…  …` ↦ the bigraded table `collect_gen_info` derives from a total homology
-/
namespace Yuiv.Drv.C03
open Yuiv.KhRef Yuiv.Drv Yuiv.Drv.KhLink Yuiv.C03

def parseGen? (s : String) : Option GenInfo := do
  match s.splitOn ":" with
  | [o, qs] =>
    let order ← if o = "f" then some none else (parseInt? o).map some
    let qs ← if qs = "" then some [] else (qs.splitOn ",").mapM parseInt?
    some ⟨order, qs⟩
  | _ => none

def parseDeg? (s : String) : Option (Int × List GenInfo) := do
  match s.splitOn "|" with
  | [i, gs] =>
    let i ← parseInt? i
    let gens ← if gs = "" then some [] else (gs.splitOn ";").mapM parseGen?
    some (i, gens)
  | _ => none

def tableStr (t : Table) : String :=
  let cells := t.filter (fun e => e.2.rank != 0 || !e.2.tors.isEmpty)
  if cells.isEmpty then "empty" else
    let arr := cells.toArray.qsort (fun a b => a.1.1 < b.1.1 || (a.1.1 == b.1.1 && a.1.2 < b.1.2))
    String.intercalate " " (arr.toList.map (fun e =>
      let ts := (e.2.tors.map (fun x => x.natAbs)).toArray.qsort (· < ·)
      s!"{e.1.1},{e.1.2}:{e.2.rank}:{String.intercalate "," (ts.toList.map toString)}"))

def handle (t : List String) : String :=
  let r : Option String := do
    match t with
    | "tables" :: red :: rest =>
      let red ← parseNat? red
      let (l, _) ← parseLink? rest
      match crossingSigns l with
      | none => some "err signs"
      | some sg =>
        let one (k : Coeff) : String :=
          match khHomology l sg ⟨0, 0, red == 1⟩ k true with
          | .ok res => cellsStr res
          | .error _ => "err"
        some s!"Z={one .Z} | Q={one .Q} | F2={one (.Fp 2)} | F3={one (.Fp 3)}"
    | "collect" :: rest =>
      let degs ← rest.mapM parseDeg?
      some (tableStr (collect degs))
    | _ => none
  r.getD "bad-request"

end Yuiv.Drv.C03
