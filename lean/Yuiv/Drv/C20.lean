import Yuiv.Model.C20
import Yuiv.Drv.Loop
/-
Driver for C20.

Requests (strings that may contain blanks/commas/anything are hex-encoded UTF-8, `-` = empty):
  run <cmd> <ctype> <cval-hex> <m> <r> <a> <s> <poly> <qint> <ok|invalid|panics>
      reply: `ring <tag> bigraded|graded exit=0` | `unsupported exit=1` | `unsupported-feature exit=1`
           | `err <parse|precheck|link|panic> exit=1` | `err usage exit=2`
  vars <cval-hex>                       reply: H | T | HT | None
  cell <sym-hex> <rank> <tor-hex>*      reply: hex of the cell text (`rmodStr`, torsion texts get sorted here)
  readcell <sym-hex> <cell-hex>         reply: `<rank> <tor-hex>:<multiplicity> …` (`readCell`, the verified reader) | unreadable
-/
namespace Yuiv.Drv.C20
open Yuiv Yuiv.C20 Yuiv.Drv

def hexVal (c : Char) : Option Nat :=
  if '0' ≤ c ∧ c ≤ '9' then some (c.toNat - 48)
  else if 'a' ≤ c ∧ c ≤ 'f' then some (c.toNat - 87)
  else none

def hexBytes : List Char → Option (List UInt8)
  | [] => some []
  | a :: b :: r => do
      let x ← hexVal a; let y ← hexVal b
      let t ← hexBytes r
      some ((UInt8.ofNat (16 * x + y)) :: t)
  | _ => none

def unhex (s : String) : Option String :=
  if s = "-" then some "" else do
    let bs ← hexBytes s.toList
    String.fromUTF8? (ByteArray.mk bs.toArray)

def hexDigit (n : Nat) : Char := if n < 10 then Char.ofNat (48 + n) else Char.ofNat (87 + n)

def tohex (s : String) : String :=
  if s.isEmpty then "-" else
  String.ofList (s.toUTF8.toList.flatMap (fun b => [hexDigit (b.toNat / 16), hexDigit (b.toNat % 16)]))

def parseBool? (s : String) : Option Bool :=
  if s = "1" then some true else if s = "0" then some false else none

def ctypeStr : CType → String
  | .Z => "Z" | .Q => "Q" | .F2 => "F2" | .F3 => "F3" | .Gauss => "Gauss" | .Eisen => "Eisen"

def ringStr : Ring → String
  | .std b => ctypeStr b
  | .polyH b => ctypeStr b ++ "[H]"
  | .polyT b => ctypeStr b ++ "[T]"
  | .polyHT b => ctypeStr b ++ "[H,T]"

def errStr : ErrKind → String
  | .usage => "err usage"
  | .unsupported => "unsupported"
  | .feature => "unsupported-feature"
  | .parse => "err parse"
  | .precheck => "err precheck"
  | .link => "err link"
  | .panic => "err panic"

def outcomeStr (o : Outcome) : String :=
  let p := mainRs o
  let head := match o with
    | .table r b => s!"ring {ringStr r} {if b then "bigraded" else "graded"}"
    | .error k => errStr k
  -- the contract bits are part of the reply so that the comparison covers them
  s!"{head} exit={p.exit}" ++ (if p.tableOnStdout then "" else " notable") ++ (if p.messageOnStderr then " msg" else "")

def parseLink? (s : String) : Option LinkClass :=
  if s = "ok" then some .ok else if s = "invalid" then some .invalid else if s = "panics" then some .panics else none

def varsStr : PolyVars → String
  | .H => "H" | .T => "T" | .HT => "HT" | .none => "None"

/-- insertion sort on texts (the `BTreeMap` key order = lexicographic by code point = by UTF-8 bytes) -/
def insertSorted (x : String) : List String → List String
  | [] => [x]
  | y :: ys => if x ≤ y then x :: y :: ys else y :: insertSorted x ys

def sortTexts (l : List String) : List String := l.foldr insertSorted []

def handle (t : List String) : String :=
  match t with
  | ["run", cmd, ctype, cv, m, r, a, s, fp, fq, lk] =>
    match unhex cv, parseBool? m, parseBool? r, parseBool? a, parseBool? s, parseBool? fp, parseBool? fq, parseLink? lk with
    | some cv, some m, some r, some a, some s, some fp, some fq, some lk =>
      outcomeStr (run ⟨fp, fq⟩ cmd ctype ⟨cv, m, r, a, s⟩ lk)
    | _, _, _, _, _, _, _, _ => "bad-request"
  | ["vars", cv] =>
    match unhex cv with
    | some cv => varsStr (polyVars cv)
    | none => "bad-request"
  | "cell" :: sym :: rank :: tors =>
    match unhex sym, parseNat? rank, tors.mapM unhex with
    | some sym, some rank, some tors =>
      tohex (String.ofList (rmodStr sym.toList rank ((sortTexts tors).map String.toList)))
    | _, _, _ => "bad-request"
  | ["readcell", sym, cell] =>
    match unhex sym, unhex cell with
    | some sym, some cell =>
      match readCell sym.toList cell.toList with
      | some (r, ts) =>
        String.intercalate " " (toString r :: ts.map (fun (t, k) => tohex (String.ofList t) ++ ":" ++ toString k))
      | none => "unreadable"
    | _, _ => "bad-request"
  | _ => "bad-request"

end Yuiv.Drv.C20
