import Yuiv.Drv.C01
import Yuiv.Model.C06
import Yuiv.Model.C06Canon
/-
Driver for C06: `divvec <c> <a1> <a2> …` (valuation loop of `misc::div_vec`), `ss <d> <w> <r>`, and `kh …`
as in C01 (Lee / Bar-Natan ranks from the cube reference).
Canonical cycle construction (Model/C06Canon):
  `seifert <link>`                 ↦ `s=<bits> circles=<e-e-…|…>`   (`ori_pres_state`, `seifert_circles` in order)
  `canon <h> <base|-1> <link>`     ↦ `s=<bits> circ=<least edges> z=<bits/mask:coef,…;…> chk=ok`
where `chk` re-checks on this instance, with the cube reference `KhRef.Cube.d`: d z = 0 for every cycle, every
crossing joins two differently coloured Seifert circles (hypothesis of the local cycle lemma), and the Seifert
circles of the walk model are the circles of the cube at the orientation preserving state.
-/
namespace Yuiv.Drv.C06
open Yuiv Yuiv.C06 Yuiv.Drv

def showRes : Res (Option Nat) → String
  | .ok (some k) => s!"some {k}"
  | .ok none => "none"
  | .panic => "panic"
  | .err => "hang"

section canon
open Yuiv.KhRef Yuiv.C06Canon Yuiv.Drv.KhLink

def bitsStr (bs : List Bool) : String :=
  if bs.isEmpty then "_" else String.ofList (bs.map (fun b => if b then '1' else '0'))

def natsStr (sep : String) (xs : List Nat) : String := String.intercalate sep (xs.map toString)

def chainStr (bits : String) (z : Chain) : String :=
  if z.isEmpty then "0" else String.intercalate "," (z.map (fun (g, a) => s!"{bits}/{g.mask}:{a}"))

/-- `d z` in the cube reference, merged; `none` if the cube is malformed -/
def dOfChain (c : Cube) (p : Params) (z : Chain) : Option (List (Gen × Int)) := do
  let mut acc : Std.HashMap Gen Int := {}
  for (g, a) in z do
    let ts ← c.d p g
    for (y, b) in ts do
      acc := acc.insert y ((acc.get? y).getD 0 + a * b)
  return acc.toList.filter (fun (_, v) => v != 0)

def sortNat (xs : List Nat) : List Nat := (xs.toArray.qsort (· < ·)).toList

/-- every unresolved crossing touches exactly two Seifert circles and they have different colours -/
def crossingsBicoloured (l : Link) (cc : List (Path × Colour)) : Bool :=
  l.all (fun x =>
    x.ct.isResolved ||
    (let idx := x.e.toList.map (fun e => (cc.findIdx? (fun pc => pc.1.edges.contains e)).getD cc.length)
     let ds := idx.eraseDups
     match ds with
     | [i, j] => i < cc.length && j < cc.length && (cc[i]!).2 != (cc[j]!).2
     | _ => false))

def canonReply (l : Link) (h : Int) (base : Option Nat) : String :=
  match crossingSigns l with
  | none => "err signs"
  | some sg =>
    let signs := sg.toList
    match canonCyclesAt l signs h base with
    | .panic => "panic"
    | .err => "hang"
    | .ok zs =>
      let bits := bitsStr (oriPresBits signs)
      let s := oriPresState signs
      let cube : Cube := { (mkCube l ⟨h, 0, false⟩) with base := base }
      let p : Params := ⟨h, 0, base.isSome⟩
      let circ := (cube.circ[s]!).toList
      let dzOk := zs.all (fun z => match dOfChain cube p z with | some [] => true | _ => false)
      let start := match base with | some e => some e | none => firstEdge l
      let (hypOk, setsOk) : Bool × Bool :=
        match start with
        | none => (zs.isEmpty, zs.isEmpty)
        | some e =>
          if zs.isEmpty then (true, true) else
          match coloredSeifertCircles l signs e with
          | .ok cc =>
            let a := (cc.map (fun pc => sortNat pc.1.edges)).toArray.qsort (fun x y => x.headD 0 < y.headD 0)
            (crossingsBicoloured l cc, a.toList == circ.map (·.toList))
          | _ => (false, false)
      let chk := if dzOk && hypOk && setsOk then "ok" else s!"fail(dz={dzOk},hyp={hypOk},sets={setsOk})"
      let zstr := if zs.isEmpty then "none" else String.intercalate ";" (zs.map (chainStr bits))
      s!"s={bits} circ={natsStr "," (circ.map (fun cs => cs[0]!))} z={zstr} chk={chk}"

def seifertReply (l : Link) : String :=
  match crossingSigns l with
  | none => "err signs"
  | some sg =>
    match seifertCircles l sg.toList with
    | .ok cs =>
      let body := String.intercalate "|" (cs.map (fun c => (if c.closed then "o" else "a") ++ natsStr "-" c.edges))
      s!"s={bitsStr (oriPresBits sg.toList)} circles={body}"
    | .panic => "panic"
    | .err => "hang"

end canon

def handle (t : List String) : String :=
  match t with
  | "seifert" :: rest =>
    match Yuiv.Drv.KhLink.parseLink? rest with
    | some (l, []) => seifertReply l
    | _ => "bad-request"
  | "canon" :: h :: base :: rest =>
    let r : Option String := do
      let h ← parseInt? h
      let b ← parseInt? base
      let (l, tl) ← Yuiv.Drv.KhLink.parseLink? rest
      if !tl.isEmpty then none
      if b < -1 then none
      some (canonReply l h (if b < 0 then none else some b.toNat))
    r.getD "bad-request"
  | "divvec" :: c :: rest =>
    let r : Option String := do
      let c ← parseInt? c
      let v ← rest.mapM parseInt?
      some (showRes (divVec v c))
    r.getD "bad-request"
  | ["ss", d, w, r] =>
    let x : Option String := do
      let d ← parseInt? d; let w ← parseInt? w; let r ← parseInt? r
      some (toString (ss d w r))
    x.getD "bad-request"
  | _ => Yuiv.Drv.C01.handle t

end Yuiv.Drv.C06
