import Yuiv.Drv.C01
import Yuiv.Model.C06
/-
Driver for C06: `divvec <c> <a1> <a2> …` (valuation loop of `misc::div_vec`), `ss <d> <w> <r>`, and `kh …`
as in C01 (Lee / Bar-Natan ranks from the cube reference).
-/
namespace Yuiv.Drv.C06
open Yuiv Yuiv.C06 Yuiv.Drv

def showRes : Res (Option Nat) → String
  | .ok (some k) => s!"some {k}"
  | .ok none => "none"
  | .panic => "panic"
  | .err => "hang"

def handle (t : List String) : String :=
  match t with
  | "divvec" :: c :: rest =>
    let r : Option String := do
      let c ← parseInt? c
      let v ← rest.mapM parseInt?
      some (showRes (divVec v c))
    r.getD "bad-request"
  | ["ss", d, w, r] =>
    let x : Option String := do
      let d ← parseInt? d; let w ← parseInt? w; let r ← parseInt? r
      some (toString (ss d w r))
    x.getD "bad-request"
  | _ => Yuiv.Drv.C01.handle t

end Yuiv.Drv.C06
