import Yuiv.Model.C05
import Yuiv.Drv.KhLink
/-
Driver for C05.

`cob <h> <t> <closed 0|1> <nbdr> <endpts> <g> <x> <y>`
    h, t ∈ integer | `H` | `T`   (any `H`/`T` ⇒ coefficients are polynomials in H, T)
    ↦ `pe=<lc> ev=<coef|panic> deg=<int> zus=<is_zero_cob><is_unit_cob><should_part_eval>`
    lc = `0` or `key:coef` joined by `;` sorted by key (`E` = empty cobordism, else `x,y`),
    coef = integer, or `0` / `c*a.b` joined by `+` sorted by (a,b) for polynomials.

`new <reduced 0|1> <link non-empty 0|1> <t is zero 0|1>` ↦ `ok` | `panic`   (constructor assertion)

`hom <h0> <t0> <red 0|1> <ref 0|1> <imin> <k> <n_0> … <n_{k-1}> <M_0> … <M_{k-2}> | <link>`
    M_i = matrix of `d_i : C_i → C_{i+1}` as `RxC:i.j.v,…` (`RxC:` when zero), integer entries
    ↦ `dd=<ok|FAIL@i> mat=<table> ref=<table|->`
    dd: the verified checker `matMulZero` on every consecutive pair (+ shapes);
    mat: homology of the transmitted complex (Smith invariants, `KhRef.smithInvariants`);
    ref: `KhRef.khHomology` of the link with parameters (h0, t0) (cube of resolutions).
-/
namespace Yuiv.Drv.C05
open Yuiv Yuiv.C05 Yuiv.Drv Yuiv.Drv.KhLink

/-! ### text -/

def insertSorted {α} (lt : α → α → Bool) (a : α) : List α → List α
  | [] => [a]
  | b :: l => if lt a b then a :: b :: l else b :: insertSorted lt a l

def sortBy {α} (lt : α → α → Bool) (l : List α) : List α := l.foldl (fun acc a => insertSorted lt a acc) []

def monoLt (a b : Mono × Int) : Bool := a.1.1 < b.1.1 || (a.1.1 == b.1.1 && a.1.2 < b.1.2)

def htStr (p : HT) : String :=
  if p.isEmpty then "0" else
    String.intercalate "+" ((sortBy monoLt p).map (fun (m, c) => s!"{c}*{m.1}.{m.2}"))

def keyRank : Key → Nat × Nat × Nat
  | .empty => (0, 0, 0)
  | .comp x y => (1, x, y)

def keyStr : Key → String
  | .empty => "E"
  | .comp x y => s!"{x},{y}"

def keyLt {R} (a b : Key × R) : Bool :=
  let (a0, a1, a2) := keyRank a.1
  let (b0, b1, b2) := keyRank b.1
  a0 < b0 || (a0 == b0 && (a1 < b1 || (a1 == b1 && a2 < b2)))

def lcStr {R} (f : R → String) (l : Lc Key R) : String :=
  if l.isEmpty then "0" else
    String.intercalate ";" ((sortBy keyLt l).map (fun (k, c) => s!"{keyStr k}:{f c}"))

def resStr {R} (f : R → String) : Res R → String
  | .ok r => f r
  | .panic => "panic"
  | .err => "err"

def b01 (b : Bool) : String := if b then "1" else "0"

/-! ### `cob` -/

inductive Par where | num (n : Int) | H | T

def parsePar? (s : String) : Option Par :=
  if s == "H" then some .H else if s == "T" then some .T else (parseInt? s).map .num

def Par.toHT : Par → HT
  | .num n => if n == 0 then [] else [((0, 0), n)]
  | .H => HT.H
  | .T => HT.T

def cobReply {R} [Coef R] (f : R → String) (h t : R) (closed : Bool) (nbdr endpts g x y : Nat) : String :=
  let pe := partEval h t closed g x y
  let ev := evalClosed h t closed g x y
  s!"pe={lcStr f pe} ev={resStr f ev} deg={deg nbdr endpts g x y} zus={b01 (isZeroCob closed g x y)}{b01 (isUnitCob closed g x y)}{b01 (shouldPartEval closed g x y)}"

/-! ### matrices -/

structure SpM where
  rows : Nat
  cols : Nat
  ents : Array (Nat × Nat × Int)
deriving Inhabited

def parseEnt? (s : String) : Option (Nat × Nat × Int) :=
  match s.splitOn "." with
  | [i, j, v] => do
    let i ← parseNat? i; let j ← parseNat? j; let v ← parseInt? v
    some (i, j, v)
  | _ => none

def parseMat? (s : String) : Option SpM :=
  match s.splitOn ":" with
  | [shape, body] =>
    match shape.splitOn "x" with
    | [r, c] => do
      let r ← parseNat? r; let c ← parseNat? c
      let ents ← if body == "" then some [] else (body.splitOn ",").mapM parseEnt?
      if ents.all (fun (i, j, _) => i < r && j < c) then some ⟨r, c, ents.toArray⟩ else none
    | _ => none
  | _ => none

def SpM.dense (m : SpM) : List (List Int) := Id.run do
  let mut a : Array (Array Int) := Array.replicate m.rows (Array.replicate m.cols 0)
  for (i, j, v) in m.ents do
    a := a.modify i (fun r => r.modify j (fun x => x + v))
  return (a.map (·.toList)).toList

/-- sparse rows for `KhRef.smithInvariants` -/
def SpM.sparseRows (m : SpM) : Array KhRef.Row :=
  (m.dense.map (fun r => ((r.zipIdx.filter (fun (v, _) => v != 0)).map (fun (v, j) => (j, v))).toArray)).toArray

/-- `d_{i+1} · d_i = 0` for all consecutive pairs, with fitting shapes -/
def ddCheck (ns : Array Nat) (ms : Array SpM) : String := Id.run do
  -- shapes against the declared ranks
  for i in [0:ms.size] do
    let m := ms[i]!
    if m.cols != ns[i]! || m.rows != ns[i + 1]! then return s!"FAIL@shape{i}"
  for i in [0:ms.size] do
    if i + 1 < ms.size then
      let a := ms[i + 1]!.dense
      let b := ms[i]!.dense
      let n := ms[i]!.cols
      if !(shapeOk a b n && matMulZero a b n) then return s!"FAIL@{i}"
  return "ok"

def matHomology (imin : Int) (ns : Array Nat) (ms : Array SpM) : KhRef.Result := Id.run do
  let invs := ms.map (fun m => KhRef.smithInvariants m.sparseRows)
  let mut cells : Array (Int × Option Int × KhRef.Group) := #[]
  for i in [0:ns.size] do
    let rOut := if i < invs.size then invs[i]!.1 else 0
    let (rIn, tors) := if i == 0 then (0, #[]) else (invs[i - 1]!.1, invs[i - 1]!.2)
    let g : KhRef.Group := ⟨ns[i]! - rOut - rIn, tors⟩
    if g.rank != 0 || g.tors.size != 0 then cells := cells.push (imin + i, none, g)
  return ⟨cells⟩

def splitBar (ts : List String) : List String × List String :=
  (ts.takeWhile (· != "|"), (ts.dropWhile (· != "|")).drop 1)

def handle (ts : List String) : String :=
  let r : Option String := do
    match ts with
    | ["cob", h, t, closed, nbdr, endpts, g, x, y] =>
      let h ← parsePar? h; let t ← parsePar? t
      let closed ← parseNat? closed; let nbdr ← parseNat? nbdr; let endpts ← parseNat? endpts
      let g ← parseNat? g; let x ← parseNat? x; let y ← parseNat? y
      if closed > 1 || g + x + y > 64 then none
      match h, t with
      | .num h, .num t => some (cobReply (R := Int) toString h t (closed == 1) nbdr endpts g x y)
      | h, t => some (cobReply (R := HT) htStr h.toHT t.toHT (closed == 1) nbdr endpts g x y)
    | ["new", red, nonEmpty, tZero] =>
      let red ← parseNat? red; let ne ← parseNat? nonEmpty; let tz ← parseNat? tZero
      if red > 1 || ne > 1 || tz > 1 then none
      some (resStr (fun _ => "ok") (ctorGuard (red == 1) (ne == 1) (tz == 1)))
    | "hom" :: h0 :: t0 :: red :: ref :: imin :: k :: rest =>
      let h0 ← parseInt? h0; let t0 ← parseInt? t0
      let red ← parseNat? red; let ref ← parseNat? ref
      let imin ← parseInt? imin; let k ← parseNat? k
      let (front, linkToks) := splitBar rest
      if front.length != (if k == 0 then 0 else 2 * k - 1) then none
      let ns ← (front.take k).mapM parseNat?
      let ms ← (front.drop k).mapM parseMat?
      let ns := ns.toArray; let ms := ms.toArray
      let dd := ddCheck ns ms
      let mat := if dd.startsWith "FAIL@shape" then "-" else cellsStr (matHomology imin ns ms)
      let refS ←
        if ref == 0 then some "-" else do
          let (l, restL) ← parseLink? linkToks
          if !restL.isEmpty then none
          match KhRef.crossingSigns l with
          | none => some "err-signs"
          | some sg =>
            match KhRef.khHomology l sg ⟨h0, t0, red == 1⟩ .Z false with
            | .ok res => some (cellsStr res)
            | .error .malformed => some "err-malformed"
            | .error .notComplex => some "err-notcomplex"
      some s!"dd={dd} mat={mat} ref={refS}"
    | _ => none
  r.getD "bad-request"

end Yuiv.Drv.C05
