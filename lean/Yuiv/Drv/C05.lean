import Yuiv.Model.C05
import Yuiv.Model.C05Tng
import Yuiv.Model.C05Engine
import Yuiv.Drv.KhLink
/-
Driver for C05.

`cob <h> <t> <closed 0|1> <nbdr> <endpts> <g> <x> <y>`
    h, t ∈ integer | `H` | `T`   (any `H`/`T` ⇒ coefficients are polynomials in H, T)
    ↦ `pe=<lc> ev=<coef|panic> deg=<int> zus=<is_zero_cob><is_unit_cob><should_part_eval>`
    lc = `0` or `key:coef` joined by `;` sorted by key (`E` = empty cobordism, else `x,y`),
    coef = integer, or `0` / `c*a.b` joined by `+` sorted by (a,b) for polynomials.

`new <reduced 0|1> <link non-empty 0|1> <t is zero 0|1>` ↦ `ok` | `panic`   (constructor assertion)

`hom <h0> <t0> <red 0|1> <ref 0|1> <imin> <k> <n_0> … <n_{k-1}> <M_0> … <M_{k-2}> | <link>`
    M_i = matrix of `d_i : C_i → C_{i+1}` as `RxC:i.j.v,…` (`RxC:` when zero), integer entries
    ↦ `dd=<ok|FAIL@i> mat=<table> ref=<table|->`
    dd: the verified checker `matMulZero` on every consecutive pair (+ shapes);
    mat: homology of the transmitted complex (Smith invariants, `KhRef.smithInvariants`);
    ref: `KhRef.khHomology` of the link with parameters (h0, t0) (cube of resolutions).

Structural requests (model `Yuiv/Model/C05Tng.lean`).  Text: path `A1.2.3` (arc) / `C4.5` (circle); tangle = paths joined
by `,` (`_` = empty); component `src/tgt/g/x/y`; cobordism = components joined by `+` (`_` = empty).  Inputs are RAW (the
constructors `TngComp::arc/circ`, `Tng::new`, `CobComp::new`, `Cob::new` are applied); outputs are canonical up to the
Rust equality of `TngComp` (arcs up to reversal, circles up to rotation/reflection), component order as stored.
`tp P Q` path pair · `tn T` / `ta T P` / `tc T T` / `tv T mode k` / `tr T i` tangles · `ck kind …` constructors ·
`cc C` / `cn C C` / `co C S|T i N|X|Y` components · `kq K` / `kc K K` / `ks K K` / `kp K S|T P N|X|Y` / `ki T` cobordisms.

Engine requests (model `Yuiv/Model/C05Engine.lean`; STATEFUL: the driver keeps numbered slots holding a `TngComplex`
over ℤ; `handleSt` threads the session through the lines of one run, `eg new` empties it):
`eg new [Z|Q|F2|F3]` (the coefficient ring of the script; ℚ as `n/d`, 𝔽₃ as `0..2`) · `eg init S h t dh dq bp|-` · `eg app S X|Xm|V|H e0 e1 e2 e3` · `eg con S S'` (S' is consumed) ·
`eg dl S KEY r` · `eg el S KEY KEY` · `eg q S` · `eg fin S red ref | LINK`.
KEY = `<state bits>.<label X/I>`.  Reply of a state-changing request: `panic` / `err`, or
`[upd=KEY,KEY ]nv=<#vertices> ne=<#edges> wf=<0|1|-> h=<FNV-1a-64 of the canonical state text>[ <state text>]`
(`wf` = `Cx.wfCheck`, evaluated for at most 24 vertices, `-` otherwise;
the text itself only when it has at most 1200 characters).  State text:
`sh=dh,dq bp=e|- n=dim V=KEY:TNG;… E=KEY>KEY:LC[!];…` with vertices / edges / terms sorted as strings,
LC = `coef*COB|…`, `!` = `is_invertible()`.  A request that panics leaves the slot unchanged.
`eg fin`: `panic` unless completely delooped, else `gens=n0,n1,… mat=<table> ref=<table>[ bmat=<table> bref=<table>]`:
homology of the model's own chain complex (Smith invariants) and of the cube of resolutions of LINK
(`KhRef.khHomology`); bigraded tables when h = t = 0.
-/
namespace Yuiv.Drv.C05
open Yuiv Yuiv.C05 Yuiv.Drv Yuiv.Drv.KhLink

/-! ### text -/

def insertSorted {α} (lt : α → α → Bool) (a : α) : List α → List α
  | [] => [a]
  | b :: l => if lt a b then a :: b :: l else b :: insertSorted lt a l

def sortBy {α} (lt : α → α → Bool) (l : List α) : List α := l.foldl (fun acc a => insertSorted lt a acc) []

def monoLt (a b : Mono × Int) : Bool := a.1.1 < b.1.1 || (a.1.1 == b.1.1 && a.1.2 < b.1.2)

def htStr (p : HT) : String :=
  if p.isEmpty then "0" else
    String.intercalate "+" ((sortBy monoLt p).map (fun (m, c) => s!"{c}*{m.1}.{m.2}"))

def keyRank : Key → Nat × Nat × Nat
  | .empty => (0, 0, 0)
  | .comp x y => (1, x, y)

def keyStr : Key → String
  | .empty => "E"
  | .comp x y => s!"{x},{y}"

def keyLt {R} (a b : Key × R) : Bool :=
  let (a0, a1, a2) := keyRank a.1
  let (b0, b1, b2) := keyRank b.1
  a0 < b0 || (a0 == b0 && (a1 < b1 || (a1 == b1 && a2 < b2)))

def lcStr {R} (f : R → String) (l : Lc Key R) : String :=
  if l.isEmpty then "0" else
    String.intercalate ";" ((sortBy keyLt l).map (fun (k, c) => s!"{keyStr k}:{f c}"))

def resStr {R} (f : R → String) : Res R → String
  | .ok r => f r
  | .panic => "panic"
  | .err => "err"

def b01 (b : Bool) : String := if b then "1" else "0"

/-! ### `cob` -/

inductive Par where | num (n : Int) | H | T

def parsePar? (s : String) : Option Par :=
  if s == "H" then some .H else if s == "T" then some .T else (parseInt? s).map .num

def Par.toHT : Par → HT
  | .num n => if n == 0 then [] else [((0, 0), n)]
  | .H => HT.H
  | .T => HT.T

def cobReply {R} [Coef R] (f : R → String) (h t : R) (closed : Bool) (nbdr endpts g x y : Nat) : String :=
  let pe := partEval h t closed g x y
  let ev := evalClosed h t closed g x y
  s!"pe={lcStr f pe} ev={resStr f ev} deg={deg nbdr endpts g x y} zus={b01 (isZeroCob closed g x y)}{b01 (isUnitCob closed g x y)}{b01 (shouldPartEval closed g x y)}"

/-! ### matrices -/

structure SpM where
  rows : Nat
  cols : Nat
  ents : Array (Nat × Nat × Int)
deriving Inhabited

def parseEnt? (s : String) : Option (Nat × Nat × Int) :=
  match s.splitOn "." with
  | [i, j, v] => do
    let i ← parseNat? i; let j ← parseNat? j; let v ← parseInt? v
    some (i, j, v)
  | _ => none

def parseMat? (s : String) : Option SpM :=
  match s.splitOn ":" with
  | [shape, body] =>
    match shape.splitOn "x" with
    | [r, c] => do
      let r ← parseNat? r; let c ← parseNat? c
      let ents ← if body == "" then some [] else (body.splitOn ",").mapM parseEnt?
      if ents.all (fun (i, j, _) => i < r && j < c) then some ⟨r, c, ents.toArray⟩ else none
    | _ => none
  | _ => none

def SpM.dense (m : SpM) : List (List Int) := Id.run do
  let mut a : Array (Array Int) := Array.replicate m.rows (Array.replicate m.cols 0)
  for (i, j, v) in m.ents do
    a := a.modify i (fun r => r.modify j (fun x => x + v))
  return (a.map (·.toList)).toList

/-- sparse rows for `KhRef.smithInvariants` -/
def SpM.sparseRows (m : SpM) : Array KhRef.Row :=
  (m.dense.map (fun r => ((r.zipIdx.filter (fun (v, _) => v != 0)).map (fun (v, j) => (j, v))).toArray)).toArray

/-- `d_{i+1} · d_i = 0` for all consecutive pairs, with fitting shapes -/
def ddCheck (ns : Array Nat) (ms : Array SpM) : String := Id.run do
  -- shapes against the declared ranks
  for i in [0:ms.size] do
    let m := ms[i]!
    if m.cols != ns[i]! || m.rows != ns[i + 1]! then return s!"FAIL@shape{i}"
  for i in [0:ms.size] do
    if i + 1 < ms.size then
      let a := ms[i + 1]!.dense
      let b := ms[i]!.dense
      let n := ms[i]!.cols
      if !(shapeOk a b n && matMulZero a b n) then return s!"FAIL@{i}"
  return "ok"

def matHomology (imin : Int) (ns : Array Nat) (ms : Array SpM) : KhRef.Result := Id.run do
  let invs := ms.map (fun m => KhRef.smithInvariants m.sparseRows)
  let mut cells : Array (Int × Option Int × KhRef.Group) := #[]
  for i in [0:ns.size] do
    let rOut := if i < invs.size then invs[i]!.1 else 0
    let (rIn, tors) := if i == 0 then (0, #[]) else (invs[i - 1]!.1, invs[i - 1]!.2)
    let g : KhRef.Group := ⟨ns[i]! - rOut - rIn, tors⟩
    if g.rank != 0 || g.tors.size != 0 then cells := cells.push (imin + i, none, g)
  return ⟨cells⟩

def splitBar (ts : List String) : List String × List String :=
  (ts.takeWhile (· != "|"), (ts.dropWhile (· != "|")).drop 1)

/-! ### structural requests (`Model/C05Tng`) -/

namespace Tngd
open Yuiv.C05.Tng

def listLt : List Nat → List Nat → Bool
  | [], [] => false
  | [], _ :: _ => true
  | _ :: _, [] => false
  | a :: as, b :: bs => a < b || (a == b && listLt as bs)

def minList (ls : List (List Nat)) : List Nat :=
  match ls with
  | [] => []
  | l :: rest => rest.foldl (fun m x => if listLt x m then x else m) l

def rotations (l : List Nat) : List (List Nat) := (List.range l.length).map (fun i => l.drop i ++ l.take i)

def edgesStr (l : List Nat) : String := String.intercalate "." (l.map toString)

/-- canonical text of a `TngComp` up to `unori_eq` -/
def pathStr (p : Path) : String :=
  if p.closed then "C" ++ edgesStr (minList (rotations p.edges ++ rotations p.edges.reverse))
  else "A" ++ edgesStr (if listLt p.edges.reverse p.edges then p.edges.reverse else p.edges)

/-- exact text (edge order as stored) -/
def pathRaw (p : Path) : String := (if p.closed then "C" else "A") ++ edgesStr p.edges

def tngStr (t : Tng) : String := if t.isEmpty then "_" else String.intercalate "," (t.map pathStr)

def compStr (c : CobComp) : String := s!"{tngStr c.src}/{tngStr c.tgt}/{c.genus}/{c.dots.1}/{c.dots.2}"

def cobStr (k : Cob) : String := if k.isEmpty then "_" else String.intercalate "+" (k.map compStr)

def rs {α} (f : α → String) : Res α → String
  | .ok a => f a
  | .panic => "panic"
  | .err => "err"

def natsStr (l : List Nat) : String :=
  if l.isEmpty then "-" else edgesStr (sortBy (fun a b => decide (a < b)) l)

def optNat : Option Nat → String
  | some i => toString i
  | none => "-"

/-- raw path: `Res` because `Path::new` asserts a non-empty edge list -/
def parsePath? (s : String) : Option (Res Path) :=
  match s.toList with
  | k :: rest =>
    if k != 'A' && k != 'C' then none else
      let body := String.ofList rest
      if body == "" then some .panic else do
        let es ← (body.splitOn ".").mapM parseNat?
        some (Path.new es (k == 'C'))
  | [] => none

def parsePaths? (s : String) : Option (Res (List Path)) :=
  if s == "_" then some (.ok []) else do
    let ps ← (s.splitOn ",").mapM parsePath?
    some (mapMRes (fun x => x) ps)

def bindR {α β} (x : Res α) (f : α → Res β) : Res β :=
  match x with
  | .ok a => f a
  | .panic => .panic
  | .err => .err

/-- raw tangle ↦ `Tng::new` -/
def parseTng? (s : String) : Option (Res Tng) := do
  let ps ← parsePaths? s
  some (bindR ps Tng.new)

def parseComp? (s : String) : Option (Res CobComp) :=
  match s.splitOn "/" with
  | [src, tgt, g, x, y] => do
    let src ← parseTng? src; let tgt ← parseTng? tgt
    let g ← parseNat? g; let x ← parseNat? x; let y ← parseNat? y
    some (bindR src fun s => bindR tgt fun t => CobComp.new s t g (x, y))
  | _ => none

def parseCob? (s : String) : Option (Res Cob) :=
  if s == "_" then some (.ok []) else do
    let cs ← (s.splitOn "+").mapM parseComp?
    some (bindR (mapMRes (fun x => x) cs) fun l => .ok (Cob.new l))

def parseBottom? : String → Option Bottom
  | "S" => some .src | "T" => some .tgt | _ => none

def parseDot? : String → Option Dot
  | "N" => some .none | "X" => some .X | "Y" => some .Y | _ => none

def intStr (x : Int) : String := toString x

/-- `tp P Q` -/
def tpReply (p q : String) : Option String := do
  let p ← parsePath? p; let q ← parsePath? q
  match p, q with
  | .ok p, .ok q =>
    some s!"conn={b01 (isConnectable p q)} eq={b01 (unoriEq p q)} cmp={compCmp p q} pq={rs pathStr (p.connect q)} qp={rs pathStr (q.connect p)} red={pathRaw p.reduce}"
  | _, _ => some "panic"

def tngInfo (t : Tng) : String :=
  let lp := Tng.findLoop t
  let rm := match lp with
    | none => "-"
    | some i => rs (fun (x : Path × Tng) => s!"{pathStr x.1}:{tngStr x.2}") (Tng.removeAt t i)
  s!"t={tngStr t} end={natsStr (Tng.endpts t)} eu={Tng.eulerNum t} loop={optNat lp} closed={b01 (Tng.isClosed t)} rm={rm}"

def tnReply (t : String) : Option String := do
  let t ← parseTng? t
  some (rs tngInfo t)

def taReply (t p : String) : Option String := do
  let t ← parseTng? t; let p ← parsePath? p
  some (rs tngInfo (bindR t fun t => bindR p fun p => Tng.appendArc t p))

def tcReply (t u : String) : Option String := do
  let t ← parseTng? t; let u ← parseTng? u
  match t, u with
  | .ok t, .ok u =>
    let a := Tng.connect t u
    let b := Tng.connect u t
    let eq := match a, b with
      | .ok a, .ok b => b01 (tngEq a b)
      | _, _ => "-"
    some s!"{rs tngInfo a} r={rs tngStr b} eq={eq}"
  | _, _ => some "panic"

def convFn (mode k : Nat) (e : Nat) : Nat :=
  if mode == 0 then e + k else if mode == 1 then k - e else e / (k + 1)

def tvReply (t mode k : String) : Option String := do
  let t ← parseTng? t; let mode ← parseNat? mode; let k ← parseNat? k
  if mode > 2 then none
  some (rs tngStr (bindR t fun t => Tng.convertEdges (convFn mode k) t))

def trReply (t i : String) : Option String := do
  let t ← parseTng? t; let i ← parseNat? i
  some (rs (fun (x : Path × Tng) => s!"{pathStr x.1}:{tngStr x.2}") (bindR t fun t => Tng.removeAt t i))

def flagsStr (c : CobComp) : String :=
  s!"{b01 c.isClosed}{b01 c.isCyl}{b01 c.isId}{b01 c.isInvertible}{b01 c.isZeroCob}{b01 c.isUnitCob}"

def invStr : Option CobComp → String
  | some i => compStr i
  | none => "-"

def compInfo (c : CobComp) : String :=
  s!"c={compStr c} nb={rs toString c.nbdr} eu={rs intStr c.eulerNum} deg={rs intStr c.deg} end={natsStr c.endpts} f={flagsStr c} inv={rs invStr c.inv}"

def ckReply (kind : String) (args : List String) : Option String := do
  match kind, args with
  | "cls", [g] =>
    let g ← parseNat? g
    some (compInfo (CobComp.closedSurf g))
  | _, _ =>
    let ps ← args.mapM parsePath?
    match mapMRes (fun x => x) ps with
    | .ok ps =>
      match kind, ps with
      | "id", [p] => some (compInfo (CobComp.id p))
      | "sdl", [a, b, c, d] => some (rs compInfo (CobComp.sdl a b c d))
      | "mrg", [a, b, c] => some (rs compInfo (CobComp.merge a b c))
      | "spl", [a, b, c] => some (rs compInfo (CobComp.split a b c))
      | "cup", [p] => some (rs compInfo (CobComp.cup p))
      | "cap", [p] => some (rs compInfo (CobComp.cap p))
      | _, _ => none
    | _ => some "panic"

def ccReply (c : String) : Option String := do
  let c ← parseComp? c
  some (rs compInfo c)

def cnReply (c d : String) : Option String := do
  let c ← parseComp? c; let d ← parseComp? d
  match c, d with
  | .ok c, .ok d =>
    let r := c.connect d
    let rr := d.connect c
    let eq := match r, rr with
      | .ok a, .ok b => b01 (cobCompEq a b)
      | _, _ => "-"
    some s!"conn={b01 (c.isConnectable d)} a={sharedEndpts c d} {rs compInfo r} rr={rs compStr rr} eq={eq}"
  | _, _ => some "panic"

def coReply (c b i dot : String) : Option String := do
  let c ← parseComp? c; let b ← parseBottom? b; let i ← parseNat? i; let dot ← parseDot? dot
  some (rs compInfo (bindR c fun c => bindR (c.capOff b i) fun c' => .ok (c'.addDot dot)))

def cobInfo (k : Cob) : String :=
  s!"k={cobStr k} src={rs tngStr (Cob.src k)} tgt={rs tngStr (Cob.tgt k)} nb={rs intStr (Cob.nbdr k)} eu={rs intStr (Cob.eulerNum k)} deg={rs intStr (Cob.deg k)} f={b01 (Cob.isClosed k)}{b01 (Cob.isInvertible k)}{b01 (Cob.isZeroCob k)} inv={rs (fun (o : Option Cob) => match o with | some i => cobStr i | none => "-") (Cob.inv k)}"

def kqReply (k : String) : Option String := do
  let k ← parseCob? k
  some (rs cobInfo k)

def kcReply (k l : String) : Option String := do
  let k ← parseCob? k; let l ← parseCob? l
  match k, l with
  | .ok k, .ok l =>
    let r := Cob.connect k l
    let rr := Cob.connect l k
    let eq := match r, rr with
      | .ok a, .ok b => b01 (cobEq a b)
      | _, _ => "-"
    some s!"{rs cobInfo r} rr={rs cobStr rr} eq={eq}"
  | _, _ => some "panic"

def ksReply (k l : String) : Option String := do
  let k ← parseCob? k; let l ← parseCob? l
  match k, l with
  | .ok k, .ok l => some s!"stk={b01 (Cob.isStackable k l)} {rs cobInfo (Cob.stack k l)}"
  | _, _ => some "panic"

def kpReply (k b p dot : String) : Option String := do
  let k ← parseCob? k; let b ← parseBottom? b; let p ← parsePath? p; let dot ← parseDot? dot
  some (rs cobInfo (bindR k fun k => bindR p fun p => Cob.capOff k b p dot))

def kiReply (t : String) : Option String := do
  let t ← parseTng? t
  some (rs cobInfo (bindR t fun t => .ok (Cob.idFor t)))

end Tngd
open Tngd

/-! ### engine requests (`Model/C05Engine`), stateful -/

namespace Eng
open Yuiv.C05.Tng Yuiv.C05.Engine Yuiv.C05.Deloop Tngd

/-- text form and reference data of a coefficient ring -/
class RingIO (R : Type) extends CoefU R where
  parse? : String → Option R
  txt : R → String
  /-- the ring as a parameter of the reference (`KhRef.Coeff`) -/
  coeff : KhRef.Coeff
  /-- integer entries with the same rank: the differential of ONE generator may be scaled by a non-zero factor -/
  toIntRow : List R → List Int
  /-- integer parameters `(h', t')` whose cube of resolutions has the same homology over the ring:
  the substitution `X = X'/N` turns `X² = hX + t` into `X'² = (N h) X' + N² t` (ℤ, 𝔽p: the representatives) -/
  refParams : R → R → Int × Int

instance : RingIO Int where
  parse? := parseInt?
  txt := toString
  coeff := .Z
  toIntRow l := l
  refParams h t := (h, t)

def parseRat? (s : String) : Option Rat :=
  match s.splitOn "/" with
  | [n] => (parseInt? n).map (fun (x : Int) => (x : Rat))
  | [n, d] => do
    let n ← parseInt? n; let d ← parseNat? d
    if d == 0 then none else some ((n : Rat) / ((d : Int) : Rat))
  | _ => none

instance : RingIO Rat where
  parse? := parseRat?
  txt q := s!"{q.num}/{q.den}"
  coeff := .Q
  toIntRow l :=
    let n : Nat := l.foldl (fun acc q => Nat.lcm acc q.den) 1
    l.map (fun q => q.num * ((n / q.den : Nat) : Int))
  refParams h t :=
    let n : Nat := Nat.lcm h.den t.den
    (h.num * ((n / h.den : Nat) : Int), t.num * ((n * n / t.den : Nat) : Int))

instance : RingIO F2 where
  parse? s := if s == "0" then some ⟨false⟩ else if s == "1" then some ⟨true⟩ else none
  txt a := if a.v then "1" else "0"
  coeff := .Fp 2
  toIntRow l := l.map (fun a => if a.v then 1 else 0)
  refParams h t := (if h.v then 1 else 0, if t.v then 1 else 0)

instance : RingIO F3 where
  parse? s := (parseNat? s).bind (fun n => if n < 3 then some ⟨n⟩ else none)
  txt a := toString (a.v % 3)
  coeff := .Fp 3
  toIntRow l := l.map (fun a => ((a.v % 3 : Nat) : Int))
  refParams h t := (((h.v % 3 : Nat) : Int), ((t.v % 3 : Nat) : Int))

structure Slot (R : Type) where
  h : R
  t : R
  cx : Cx (LcCob R)

abbrev SessOf (R : Type) := List (Nat × Slot R)

/-- the session: one coefficient ring per script (`eg new <ring>`) -/
inductive Sess where
  | z (s : SessOf Int)
  | q (s : SessOf Rat)
  | f2 (s : SessOf F2)
  | f3 (s : SessOf F3)

instance : Inhabited Sess := ⟨.z []⟩

def keyStr (k : TKey) : String :=
  String.ofList (k.state.map (fun b => if b then '1' else '0')) ++ "." ++
  String.ofList (k.label.map (fun g => match g with | .X => 'X' | .I => 'I'))

def parseKey? (s : String) : Option TKey :=
  match s.splitOn "." with
  | [a, b] => do
    let st ← a.toList.mapM (fun c => if c == '0' then some false else if c == '1' then some true else none)
    let lb ← b.toList.mapM (fun c => if c == 'X' then some AlgGen.X else if c == 'I' then some AlgGen.I else none)
    some ⟨st, lb⟩
  | _ => none

def sortStrs (l : List String) : List String := (l.toArray.qsort (· < ·)).toList

def optNatStr : Option Nat → String
  | some e => toString e
  | none => "-"

def fnv64 (s : String) : UInt64 :=
  s.toUTF8.foldl (fun h b => (h ^^^ b.toUInt64) * 0x100000001b3) 0xcbf29ce484222325

def textLimit : Nat := 1200
/-- the well-formedness flag is only evaluated on complexes with at most this many vertices (`-` otherwise) -/
def wfLimit : Nat := 24

def refTables (l : KhRef.Link) (h t : Int) (k : KhRef.Coeff) (red bigraded : Bool) : String × String :=
  match KhRef.crossingSigns l with
  | none => ("err-signs", "err-signs")
  | some sg =>
    let one := fun (bg : Bool) =>
      match KhRef.khHomology l sg ⟨h, t, red⟩ k bg with
      | .ok res => cellsStr res
      | .error .malformed => "err-malformed"
      | .error .notComplex => "err-notcomplex"
    (one false, if bigraded then one true else "-")

section ring
variable {R : Type} [RingIO R]

def SessOf.get? (s : SessOf R) (i : Nat) : Option (Slot R) := s.lookup i
def SessOf.set (s : SessOf R) (i : Nat) (x : Slot R) : SessOf R := (i, x) :: s.filter (fun p => p.1 != i)
def SessOf.del (s : SessOf R) (i : Nat) : SessOf R := s.filter (fun p => p.1 != i)

def lcText (f : LcCob R) : String :=
  if f.isEmpty then "0" else String.intercalate "|" (sortStrs (f.map (fun p => s!"{RingIO.txt p.2}*{cobStr p.1}")))

def stateText (cx : Cx (LcCob R)) : String :=
  let vs := sortStrs (cx.verts.map (fun v => s!"{keyStr v.1}:{tngStr v.2}"))
  let es := sortStrs (cx.edges.map (fun e =>
    s!"{keyStr e.1.1}>{keyStr e.1.2}:{lcText e.2}{if lcIsInvertible e.2 then "!" else ""}"))
  s!"sh={cx.dh},{cx.dq} bp={optNatStr cx.base} n={cx.dim} V={String.intercalate ";" vs} E={String.intercalate ";" es}"

def dump (cx : Cx (LcCob R)) : String :=
  let txt := stateText cx
  let w := if cx.verts.length ≤ wfLimit then b01 cx.wfCheck else "-"
  let head := s!"nv={cx.verts.length} ne={cx.edges.length} wf={w} h={(fnv64 txt).toNat}"
  if txt.length ≤ textLimit then head ++ " " ++ txt else head

def ops (s : Slot R) : EdgeOps (LcCob R) := lcOps s.h s.t

/-- homology tables of the model's chain complex over the ring (ranks from the Smith invariants of integer
matrices of the same rank; torsion only over ℤ) -/
def chainTables (cd : ChainData R) (bigraded : Bool) : String × String := Id.run do
  let k : KhRef.Coeff := RingIO.coeff R
  -- ids
  let mut idx : Std.HashMap String Nat := {}
  let mut qOf : Array Int := #[]
  let mut gens : Array (Array KhRef.Gen) := #[]
  for gs in cd.gens do
    let mut row : Array KhRef.Gen := #[]
    for (k, q) in gs do
      let id := qOf.size
      idx := idx.insert (keyStr k) id
      qOf := qOf.push q
      row := row.push ⟨id, 0⟩
    gens := gens.push row
  -- the differential of every generator, scaled to integers
  let mut dR : Std.HashMap Nat (List (Nat × R)) := {}
  let mut bad := false
  for ds in cd.d do
    for (k, l, v) in ds do
      match idx.get? (keyStr k), idx.get? (keyStr l) with
      | some a, some b => dR := dR.insert a ((b, v) :: (dR.get? a).getD [])
      | _, _ => bad := true
  if bad then return ("err-gen", "err-gen")
  let mut dmap : Std.HashMap Nat (Array KhRef.Term) := {}
  for (a, row) in dR.toList do
    let ints := RingIO.toIntRow (row.map (·.2))
    dmap := dmap.insert a ((List.zip (row.map (·.1)) ints).map (fun (b, v) => ((⟨b, 0⟩ : KhRef.Gen), v))).toArray
  let d : KhRef.Gen → Array KhRef.Term := fun g => ((dmap.get? g.s).getD #[]).filter (fun (_, v) => v != 0)
  let mut cells : Array (Int × Option Int × KhRef.Group) := #[]
  let hs := KhRef.homologyOf k gens d
  for i in [0:hs.size] do
    let g := hs[i]!
    if g.rank != 0 || g.tors.size != 0 then cells := cells.push (cd.imin + i, none, g)
  let plain := cellsStr ⟨cells⟩
  if !bigraded then return (plain, "-")
  let mut qs : Array Int := #[]
  for q in qOf do
    if !qs.contains q then qs := qs.push q
  let mut bcells : Array (Int × Option Int × KhRef.Group) := #[]
  for q in qs.qsort (· < ·) do
    let gq := gens.map (fun gs => gs.filter (fun g => qOf[g.s]! == q))
    for gs in gq do
      for g in gs do
        if (d g).any (fun (y, _) => qOf[y.s]! != q) then return (plain, "err-q")
    let hq := KhRef.homologyOf k gq d
    for i in [0:hq.size] do
      let g := hq[i]!
      if g.rank != 0 || g.tors.size != 0 then bcells := bcells.push (cd.imin + i, some q, g)
  return (plain, cellsStr ⟨bcells⟩)

def resDump (sess : SessOf R) (i : Nat) (s : Slot R) (pre : String) : Res (Cx (LcCob R)) → SessOf R × String
  | .ok cx => (sess.set i { s with cx := cx }, pre ++ dump cx)
  | .panic => (sess, "panic")
  | .err => (sess, "err")

def handleR (sess : SessOf R) (ts : List String) : Option (SessOf R × String) := do
  match ts with
  | ["init", i, h, t, dh, dq, bp] =>
    let i ← parseNat? i; let h ← RingIO.parse? h; let t ← RingIO.parse? t
    let dh ← parseInt? dh; let dq ← parseInt? dq
    let bp ← if bp == "-" then some none else (parseNat? bp).map some
    let cx : Cx (LcCob R) := Cx.init dh dq bp
    some (sess.set i ⟨h, t, cx⟩, dump cx)
  | ["q", i] =>
    let i ← parseNat? i
    match sess.get? i with
    | some s => some (sess, dump s.cx)
    | none => some (sess, "no-slot")
  | ["app", i, ct, a, b, c, d] =>
    let i ← parseNat? i; let ct ← parseCT? ct
    let a ← parseNat? a; let b ← parseNat? b; let c ← parseNat? c; let d ← parseNat? d
    match sess.get? i with
    | some s => some (resDump sess i s "" (s.cx.appendX (ops s) mkSdlLc ct #[a, b, c, d]))
    | none => some (sess, "no-slot")
  | ["con", i, j] =>
    let i ← parseNat? i; let j ← parseNat? j
    match sess.get? i, sess.get? j with
    | some s, some s2 =>
      if i == j then none
      let (sess', r) := resDump sess i s "" (s.cx.connect (ops s) s2.cx)
      some (sess'.del j, r)
    | _, _ => some (sess, "no-slot")
  | ["dl", i, k, r] =>
    let i ← parseNat? i; let k ← parseKey? k; let r ← parseNat? r
    match sess.get? i with
    | some s =>
      match s.cx.deloop (ops s) k r with
      | .ok (upd, cx) => some (sess.set i { s with cx := cx }, s!"upd={String.intercalate "," (upd.map keyStr)} " ++ dump cx)
      | .panic => some (sess, "panic")
      | .err => some (sess, "err")
    | none => some (sess, "no-slot")
  | ["el", i, k0, k1] =>
    let i ← parseNat? i; let k0 ← parseKey? k0; let k1 ← parseKey? k1
    match sess.get? i with
    | some s => some (resDump sess i s "" (s.cx.eliminate (ops s) k0 k1))
    | none => some (sess, "no-slot")
  | "fin" :: i :: red :: wref :: "|" :: linkToks =>
    let i ← parseNat? i; let red ← parseNat? red; let wref ← parseNat? wref
    if red > 1 || wref > 1 then none
    let (l, restL) ← parseLink? linkToks
    if !restL.isEmpty then none
    match sess.get? i with
    | some s =>
      match s.cx.toChain (lcEval s.h s.t) Coef.isZero with
      | .ok cd =>
        let bg := Coef.isZero s.h && Coef.isZero s.t
        let (m, bm) := chainTables cd bg
        let (h', t') := RingIO.refParams s.h s.t
        let (r, br) := if wref == 1 then refTables l h' t' (RingIO.coeff R) (red == 1) bg else ("-", "-")
        let gens := String.intercalate "," (cd.gens.map (fun g => toString g.length))
        let base := s!"gens={gens} mat={m} ref={r}"
        some (sess.del i, if bg then base ++ s!" bmat={bm} bref={br}" else base)
      | .panic => some (sess.del i, "panic")
      | .err => some (sess.del i, "err")
    | none => some (sess, "no-slot")
  | _ => none

end ring

def handle (sess : Sess) (ts : List String) : Option (Sess × String) :=
  match ts with
  | ["new"] | ["new", "Z"] => some (.z [], "ok")
  | ["new", "Q"] => some (.q [], "ok")
  | ["new", "F2"] => some (.f2 [], "ok")
  | ["new", "F3"] => some (.f3 [], "ok")
  | _ =>
    match sess with
    | .z s => (handleR s ts).map (fun (s', r) => (.z s', r))
    | .q s => (handleR s ts).map (fun (s', r) => (.q s', r))
    | .f2 s => (handleR s ts).map (fun (s', r) => (.f2 s', r))
    | .f3 s => (handleR s ts).map (fun (s', r) => (.f3 s', r))

end Eng

def handle (ts : List String) : String :=
  let r : Option String := do
    match ts with
    | ["cob", h, t, closed, nbdr, endpts, g, x, y] =>
      let h ← parsePar? h; let t ← parsePar? t
      let closed ← parseNat? closed; let nbdr ← parseNat? nbdr; let endpts ← parseNat? endpts
      let g ← parseNat? g; let x ← parseNat? x; let y ← parseNat? y
      if closed > 1 || g + x + y > 64 then none
      match h, t with
      | .num h, .num t => some (cobReply (R := Int) toString h t (closed == 1) nbdr endpts g x y)
      | h, t => some (cobReply (R := HT) htStr h.toHT t.toHT (closed == 1) nbdr endpts g x y)
    | ["new", red, nonEmpty, tZero] =>
      let red ← parseNat? red; let ne ← parseNat? nonEmpty; let tz ← parseNat? tZero
      if red > 1 || ne > 1 || tz > 1 then none
      some (resStr (fun _ => "ok") (ctorGuard (red == 1) (ne == 1) (tz == 1)))
    | "hom" :: h0 :: t0 :: red :: ref :: imin :: k :: rest =>
      let h0 ← parseInt? h0; let t0 ← parseInt? t0
      let red ← parseNat? red; let ref ← parseNat? ref
      let imin ← parseInt? imin; let k ← parseNat? k
      let (front, linkToks) := splitBar rest
      if front.length != (if k == 0 then 0 else 2 * k - 1) then none
      let ns ← (front.take k).mapM parseNat?
      let ms ← (front.drop k).mapM parseMat?
      let ns := ns.toArray; let ms := ms.toArray
      let dd := ddCheck ns ms
      let mat := if dd.startsWith "FAIL@shape" then "-" else cellsStr (matHomology imin ns ms)
      let refS ←
        if ref == 0 then some "-" else do
          let (l, restL) ← parseLink? linkToks
          if !restL.isEmpty then none
          match KhRef.crossingSigns l with
          | none => some "err-signs"
          | some sg =>
            match KhRef.khHomology l sg ⟨h0, t0, red == 1⟩ .Z false with
            | .ok res => some (cellsStr res)
            | .error .malformed => some "err-malformed"
            | .error .notComplex => some "err-notcomplex"
      some s!"dd={dd} mat={mat} ref={refS}"
    | ["tp", p, q] => tpReply p q
    | ["tn", t] => tnReply t
    | ["ta", t, p] => taReply t p
    | ["tc", t, u] => tcReply t u
    | ["tv", t, mode, k] => tvReply t mode k
    | ["tr", t, i] => trReply t i
    | "ck" :: kind :: args => ckReply kind args
    | ["cc", c] => ccReply c
    | ["cn", c, d] => cnReply c d
    | ["co", c, b, i, dot] => coReply c b i dot
    | ["kq", k] => kqReply k
    | ["kc", k, l] => kcReply k l
    | ["ks", k, l] => ksReply k l
    | ["kp", k, b, p, dot] => kpReply k b p dot
    | ["ki", t] => kiReply t
    | _ => none
  r.getD "bad-request"

/-- stateful entry point: `eg …` requests thread the session, everything else is stateless -/
def handleSt (sess : Eng.Sess) (ts : List String) : Eng.Sess × String :=
  match ts with
  | "eg" :: rest => (Eng.handle sess rest).getD (sess, "bad-request")
  | _ => (sess, handle ts)

end Yuiv.Drv.C05
