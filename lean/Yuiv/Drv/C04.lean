import Yuiv.Drv.KhLink
import Yuiv.Model.C04
/-
Driver for C04:
  `jones <link>` ↦ `signs=… <coefficient list>` of the code model of `jones_polynomial`
  `chi <link>`   ↦ graded Euler characteristic of the chain groups of the cube reference
Both replies also carry `ev=<a>,<b>`: the formula-level state sum (`evalJones`, resp. `evalChi`, the objects the
theorems are about) and the evaluation of the coefficient list, in ℤ/1000003 at q = 2 — they must coincide.
-/
namespace Yuiv.Drv.C04
open Yuiv.KhRef Yuiv.Drv Yuiv.Drv.KhLink Yuiv.C04

def lpStr (a : LP) : String :=
  if a.isEmpty then "0" else String.intercalate " " (a.map (fun t => s!"{t.1}:{t.2}"))

/-- arithmetic mod the prime P = 1000003 -/
def P : Nat := 1000003
structure Zp where v : Nat
instance : Add Zp := ⟨fun a b => ⟨(a.v + b.v) % P⟩⟩
instance : Mul Zp := ⟨fun a b => ⟨(a.v * b.v) % P⟩⟩
instance : Neg Zp := ⟨fun a => ⟨(P - a.v % P) % P⟩⟩
instance : OfNat Zp 0 := ⟨⟨0⟩⟩
instance : OfNat Zp 1 := ⟨⟨1⟩⟩
def Zp.ofInt (k : Int) : Zp := ⟨(k % (P : Int)).toNat⟩
def q2 : Zp := ⟨2⟩
def q2inv : Zp := ⟨(P + 1) / 2⟩

def handle (t : List String) : String :=
  let r : Option String := do
    match t with
    | "jones" :: rest =>
      let (l, _) ← parseLink? rest
      match crossingSigns l with
      | none => some "err signs"
      | some sg =>
        let j := jones l sg
        let a := evalJones q2 q2inv (crossingNum l) (sg.filter (· > 0)).size (sg.filter (· < 0)).size (circleCount l)
        let b := LP.eval q2 q2inv Zp.ofInt j
        some s!"signs={signsStr sg} {lpStr j} ev={if a.v == b.v then "ok" else s!"MISMATCH {a.v} {b.v}"}"
    | "chi" :: rest =>
      let (l, _) ← parseLink? rest
      match crossingSigns l with
      | none => some "err signs"
      | some sg =>
        let c := chiChain l sg
        let a := evalChi q2 q2inv (crossingNum l) (sg.filter (· > 0)).size (sg.filter (· < 0)).size (circleCount l)
        let b := LP.eval q2 q2inv Zp.ofInt c
        some s!"{lpStr c} ev={if a.v == b.v then "ok" else s!"MISMATCH {a.v} {b.v}"}"
    | _ => none
  r.getD "bad-request"

end Yuiv.Drv.C04
