import Yuiv.Drv.C14
def main : IO Unit := Yuiv.Drv.loop Yuiv.Drv.C14.handle
