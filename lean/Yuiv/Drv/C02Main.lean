import Yuiv.Drv.C02
def main : IO Unit := Yuiv.Drv.loop Yuiv.Drv.C02.handle
