import Yuiv.Model.C18
import Yuiv.Drv.Loop
/-
Driver for C18.  Request lines (link text: crossings `T:a,b,c,d` joined by `;`, `T ∈ {X,Xm,V,H}`; `e` = empty link):

  L <link>            components | free components | signs | writhe | pos,neg | is_knot | seifert circles
  R <link>            number of circles of every resolution state (state index = Σ bit_k·2^k), `!` = not all circles / panic;
                      `h=` a running hash of the sorted least labels of the circles of every state; `ck=1` iff the verified
                      checker `checkComps` accepts the component list of every state (also on `L`, `C` lines)
  T <link> <i> <j>    raw `traverse_edges` sequence
  B <strands> <word>  closure of a braid word (`e` = empty word) as a PD code relabelled by first appearance
  C <link>            components only (partially resolved diagrams)
  A <crossing>        `Crossing::arcs`
  MR <link>           `Link::mirror` (link text)

Canonical forms (same code on the harness side): a circle is rotated so that its least label comes first and
then read in the direction with the smaller second label; an arc is the smaller of the sequence and its reverse;
the list of components is sorted.  Signs on a *free* component (one that never runs along a 0–2 strand of a
crossing, so that the code has to choose its direction) are normalised: the first crossing on it gets `+`.
-/
namespace Yuiv.Drv.C18
open Yuiv Yuiv.C18 Yuiv.Drv

def parseCType? : String → Option CType
  | "X" => some .X
  | "Xm" => some .Xm
  | "V" => some .V
  | "H" => some .H
  | _ => none

def parseCrossing? (s : String) : Option Crossing :=
  match s.splitOn ":" with
  | [t, es] => do
    let t ← parseCType? t
    match (es.splitOn ",").mapM parseNat? with
    | some [a, b, c, d] => some ⟨t, a, b, c, d⟩
    | _ => none
  | _ => none

def parseLink? (s : String) : Option Link :=
  if s = "e" then some [] else (s.splitOn ";").mapM parseCrossing?

def parseWord? (s : String) : Option (List Int) :=
  if s = "e" then some [] else (s.splitOn ",").mapM parseInt?

/-! canonical text -/

def ltList : List Nat → List Nat → Bool
  | [], [] => false
  | [], _ :: _ => true
  | _ :: _, [] => false
  | a :: as, b :: bs => if a < b then true else if b < a then false else ltList as bs

def minOf : List Nat → Nat
  | [] => 0
  | a :: as => as.foldl Nat.min a

def canonCircle (es : List Nat) : List Nat :=
  if es.length ≤ 1 then es else
    let m := minOf es
    let k := es.idxOf m
    let r := es.drop k ++ es.take k             -- m first
    let r' := m :: (r.drop 1).reverse           -- opposite direction, m first
    if ltList r' r then r' else r

def canonArc (es : List Nat) : List Nat :=
  let r := es.reverse
  if ltList r es then r else es

def canonPath (p : Path) : Bool × List Nat :=
  if p.closed then (true, canonCircle p.edges) else (false, canonArc p.edges)

def ltPath (a b : Bool × List Nat) : Bool :=
  if a.1 != b.1 then b.1 else ltList a.2 b.2     -- arcs before circles

def insertSorted (x : Bool × List Nat) : List (Bool × List Nat) → List (Bool × List Nat)
  | [] => [x]
  | y :: ys => if ltPath x y then x :: y :: ys else y :: insertSorted x ys

def sortPaths (ps : List (Bool × List Nat)) : List (Bool × List Nat) := ps.foldr insertSorted []

def pathStr (p : Bool × List Nat) : String :=
  (if p.1 then "c:" else "a:") ++ String.intercalate "-" (p.2.map toString)

def compsStr (ps : List Path) : String :=
  if ps.isEmpty then "-" else String.intercalate "," ((sortPaths (ps.map canonPath)).map pathStr)

def signChar : Sign → Char
  | .pos => '+'
  | .neg => '-'

def signsStr (s : List Sign) : String := if s.isEmpty then "-" else String.ofList (s.map signChar)

/-- a component that never contains the 0- or 2-edge of an unresolved crossing -/
def isFree (l : Link) (p : Path) : Bool :=
  l.all (fun c => c.isResolved || (!p.edges.contains c.e0 && !p.edges.contains c.e2))

/-- flip the signs of the crossings whose 1-edge lies on `p` if the first of them is negative;
`signs` is indexed like the unresolved crossings of `l` (here: all crossings) -/
def normaliseOn (l : Link) (p : Path) (signs : List Sign) : List Sign :=
  let on : List Bool := l.map (fun c => p.edges.contains c.e1)
  let first := (on.zip signs).find? (·.1)
  match first with
  | some (_, .neg) => (on.zip signs).map (fun x => if x.1 then x.2.flip else x.2)
  | _ => signs

def showRes {α} (f : α → String) : Res α → String
  | .ok a => f a
  | .panic => "panic"
  | .err => "err"

def handleL (l : Link) : String :=
  match components l with
  | .ok comps =>
    let free := comps.filter (isFree l)
    let nfree := free.length
    let signsR := crossingSigns l
    let signsTxt :=
      match signsR with
      | .ok s =>
        if nfree = 0 then
          s!"{signsStr s}|{showRes toString (writhe l)}|{showRes (fun (x : Nat × Nat) => s!"{x.1},{x.2}") (signedCrossingNums l)}"
        else
          let s' := (sortPaths (free.map canonPath)).foldl
            (fun acc (q : Bool × List Nat) => normaliseOn l ⟨q.2, q.1⟩ acc) s
          s!"{signsStr s'}|*|*"
      | .panic => "panic|panic|panic"
      | .err => "err|err|err"
    let knot := showRes (fun (b : Bool) => if b then "1" else "0") (isKnot l)
    let seif := if nfree = 0 then showRes compsStr (seifertCircles l) else "*"
    let ck1 := checkComps l comps
    let ck2 := match oriPresState l with
      | .ok st => match resolvedBy l st with
        | .ok r => match components r with
          | .ok cs => checkComps r cs
          | _ => false
        | _ => false
      | _ => false
    s!"{compsStr comps}|{nfree}|{signsTxt}|{knot}|{seif}|ck={if ck1 && ck2 then 1 else 0}"
  | .panic => "panic"
  | .err => "err"

def bitsOf (n k : Nat) : List Bool := (List.range n).map (fun i => (k >>> i) % 2 == 1)

def minLabels (cs : List Path) : List Nat :=
  let ms := cs.map (fun p => minOf p.edges)
  ms.foldr (fun x acc => (acc.takeWhile (· < x)) ++ x :: acc.dropWhile (· < x)) []   -- insertion sort

def hashStep (h x : Nat) : Nat := (h * 31 + x + 1) % 1000000007

def handleR (l : Link) : String :=
  let n := crossingNum l
  let res := (List.range (2 ^ n)).foldl (fun (acc : List String × Nat × Bool) k =>
    match resolvedBy l (bitsOf n k) with
    | .ok r =>
      match components r with
      | .ok cs =>
        if cs.all (·.closed) then
          let h := (minLabels cs).foldl hashStep (hashStep acc.2.1 0)
          (toString cs.length :: acc.1, h, acc.2.2 && checkComps r cs)
        else ("!" :: acc.1, acc.2.1, false)
      | _ => ("!" :: acc.1, acc.2.1, false)
    | _ => ("!" :: acc.1, acc.2.1, false)) ([], 0, true)
  s!"{String.intercalate "," res.1.reverse}|h={res.2.1}|ck={if res.2.2 then 1 else 0}"

def pairsStr (ps : List (Nat × Nat)) : String :=
  String.intercalate "," (ps.map (fun p => s!"{p.1}.{p.2}"))

/-- relabel by first appearance -/
def relabel (pd : List (Nat × Nat × Nat × Nat)) : List (List Nat) :=
  let flat := pd.flatMap (fun x => [x.1, x.2.1, x.2.2.1, x.2.2.2])
  let seen := flat.foldl (fun (acc : List Nat) a => if acc.contains a then acc else acc ++ [a]) []
  pd.map (fun x => [x.1, x.2.1, x.2.2.1, x.2.2.2].map (fun a => seen.idxOf a))

def pdStr (pd : List (List Nat)) : String :=
  if pd.isEmpty then "e" else
    String.intercalate ";" (pd.map (fun x => String.intercalate "," (x.map toString)))

def arcsStr (c : Crossing) : String :=
  let a := c.arcs
  compsStr [a.1, a.2]

def ctypeStr : CType → String
  | .X => "X"
  | .Xm => "Xm"
  | .V => "V"
  | .H => "H"

def linkStr (l : Link) : String :=
  if l.isEmpty then "e" else
    String.intercalate ";" (l.map (fun c => s!"{ctypeStr c.ctype}:{c.e0},{c.e1},{c.e2},{c.e3}"))

def handle (t : List String) : String :=
  let r : Option String :=
    match t with
    | ["L", s] => do let l ← parseLink? s; some (handleL l)
    | ["R", s] => do
        let l ← parseLink? s
        if crossingNum l > 16 then none else some (handleR l)
    | ["T", s, i, j] => do
        let l ← parseLink? s
        let i ← parseNat? i; let j ← parseNat? j
        if i < l.length ∧ j < 4 then some (showRes pairsStr (traverse l (i, j))) else none
    | ["B", n, w] => do
        let n ← parseNat? n
        let w ← parseWord? w
        some (showRes (fun pd => pdStr (relabel pd)) (closurePD n w))
    | ["C", s] => do
        let l ← parseLink? s
        match components l with
        | .ok cs => some s!"{compsStr cs}|ck={if checkComps l cs then 1 else 0}"
        | _ => some "panic"
    | ["A", s] => do let c ← parseCrossing? s; some (arcsStr c)
    | ["MR", s] => do let l ← parseLink? s; some (linkStr (mirror l))
    | _ => none
  r.getD "bad-request"

end Yuiv.Drv.C18
