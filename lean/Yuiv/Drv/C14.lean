import Yuiv.Model.C14
import Yuiv.Drv.Loop
/-
Driver for C14: runs the scalar code models on the harness's request lines.

ring tags: `Z64 Z128 ZB` (integers), `Q64 QB` (Ratio), `F2 F3 F5 F7 …` (`FF<p>`), `B` (FF2),
`G64 GB` (GaussInt, D = -1), `E64 EB` (EisenInt, D = -3).
operand text: integer `n`; Ratio `n/d` (= `Ratio::new(n, d)`) or `n` (= `Ratio::from(n)`);
`FF<p>`/`FF2`: integer (= `from`); QuadInt `a,b`.
value text: integers decimal, Ratio raw `numer/denom`, `FF<p>` representative, FF2 `0/1`, QuadInt `a,b`.

requests:
  `un  <ring> a`        -> `a z o u neg inv [conj norm]`
  `bin <ring> a b`      -> `a+b a-b a*b [a/b] [cmp] eq`
  `hist <ring> a op:b …` -> values after each step, `;`-joined (ops add sub mul div radd rsub rmul rdiv neg inv)
  `mk <ring> a`, `op <ring> add|sub|mul|div|cmp a b`, `op1 <ring> neg a` -> single value (near-limit stream)
-/
namespace Yuiv.Drv.C14
open Yuiv Yuiv.C14 Yuiv.Drv

inductive Kind where
  | z | q | f (p : Int) | b | qi (D : Int)

inductive Val where
  | z (a : Int) | q (r : Ratio) | f (a : Int) | b (x : Bool) | qi (x : QI)

def kindOf (tag : String) : Option Kind :=
  if tag = "Z64" || tag = "Z128" || tag = "ZB" then some .z
  else if tag = "Q64" || tag = "QB" then some .q
  else if tag = "B" then some .b
  else if tag = "G64" || tag = "GB" then some (.qi (-1))
  else if tag = "E64" || tag = "EB" then some (.qi (-3))
  else if tag.startsWith "F" then
    match (tag.drop 1).toString.toNat? with
    | some p => some (.f p)
    | none => none
  else none

def showVal : Val → String
  | .z a => toString a
  | .q r => s!"{r.num}/{r.den}"
  | .f a => toString a
  | .b x => if x then "1" else "0"
  | .qi x => s!"{x.l},{x.r}"

def showR {α} (f : α → String) : Res α → String
  | .ok a => f a
  | .panic => "panic"
  | .err => "err"

def showOpt {α} (f : α → String) : Option α → String
  | some a => f a
  | none => "none"

def b01 (x : Bool) : String := if x then "1" else "0"

def ordStr : Ordering → String
  | .lt => "lt" | .eq => "eq" | .gt => "gt"

/-- construct an operand the way the harness does -/
def mkVal (k : Kind) (s : String) : Option (Res Val) :=
  match k with
  | .z => do let a ← parseInt? s; some (.ok (.z a))
  | .q =>
    match s.splitOn "/" with
    | [n] => do let n ← parseInt? n; some (.ok (.q (Ratio.fromInt n)))
    | [n, d] => do
        let n ← parseInt? n; let d ← parseInt? d
        some ((Ratio.new n d).bind (fun r => .ok (.q r)))
    | _ => none
  | .f p => do let a ← parseInt? s; some ((FF.new p a).bind (fun r => .ok (.f r)))
  | .b => do let a ← parseInt? s; some (.ok (.b (FF2.ofInt a)))
  | .qi D =>
    match s.splitOn "," with
    | [a, b] => do
        let a ← parseInt? a; let b ← parseInt? b
        some ((QI.new D a b).bind (fun r => .ok (.qi r)))
    | _ => none

def vNeg (k : Kind) (v : Val) : Res Val :=
  match k, v with
  | .z, .z a => .ok (.z (-a))
  | .q, .q r => (Ratio.neg r).bind (fun x => .ok (.q x))
  | .f p, .f a => (FF.neg p a).bind (fun x => .ok (.f x))
  | .b, .b x => .ok (.b (FF2.neg x))
  | .qi _, .qi x => .ok (.qi (QI.neg x))
  | _, _ => .err

def vInv (k : Kind) (v : Val) : Res (Option Val) :=
  match k, v with
  | .z, .z a => .ok ((intInv a).map .z)
  | .q, .q r => (Ratio.inv r).bind (fun x => .ok (x.map .q))
  | .f p, .f a => (FF.inv p a).bind (fun x => .ok (x.map .f))
  | .b, .b x => .ok ((FF2.inv x).map .b)
  | .qi D, .qi x => (QI.inv D x).bind (fun y => .ok (y.map .qi))
  | _, _ => .err

def vBin (k : Kind) (op : String) (v w : Val) : Res Val :=
  match k, v, w with
  | .z, .z a, .z b =>
    if op = "add" then .ok (.z (a + b)) else if op = "sub" then .ok (.z (a - b))
    else if op = "mul" then .ok (.z (a * b)) else .err
  | .q, .q a, .q b =>
    let r := if op = "add" then Ratio.add a b else if op = "sub" then Ratio.sub a b
      else if op = "mul" then Ratio.mul a b else if op = "div" then Ratio.div a b else .err
    r.bind (fun x => .ok (.q x))
  | .f p, .f a, .f b =>
    let r := if op = "add" then FF.add p a b else if op = "sub" then FF.sub p a b
      else if op = "mul" then FF.mul p a b else if op = "div" then FF.div p a b else .err
    r.bind (fun x => .ok (.f x))
  | .b, .b a, .b b =>
    let r : Res Bool := if op = "add" then .ok (FF2.add a b) else if op = "sub" then .ok (FF2.sub a b)
      else if op = "mul" then .ok (FF2.mul a b) else if op = "div" then FF2.div a b else .err
    r.bind (fun x => .ok (.b x))
  | .qi D, .qi a, .qi b =>
    let r : Res QI := if op = "add" then .ok (QI.add a b) else if op = "sub" then .ok (QI.sub a b)
      else if op = "mul" then QI.mul D a b else .err
    r.bind (fun x => .ok (.qi x))
  | _, _, _ => .err

def vIsZero : Val → Bool
  | .z a => a == 0 | .q r => r.isZero | .f a => FF.isZero a | .b x => FF2.isZero x | .qi x => x.isZero
def vIsOne : Val → Bool
  | .z a => a == 1 | .q r => r.isOne | .f a => FF.isOne a | .b x => FF2.isOne x | .qi x => x.isOne
def vIsUnit (k : Kind) (v : Val) : Res Bool :=
  match k, v with
  | _, .z a => .ok (intIsUnit a) | _, .q r => .ok r.isUnit | _, .f a => .ok (FF.isUnit a)
  | _, .b x => .ok (!FF2.isZero x)
  | .qi D, .qi x => QI.isUnit D x
  | _, _ => .err

/-- derived structural equality -/
def vEq : Val → Val → Bool
  | .z a, .z b => a == b | .q a, .q b => a == b | .f a, .f b => a == b | .b a, .b b => a == b
  | .qi a, .qi b => a == b | _, _ => false

def hasDiv : Kind → Bool
  | .q | .f _ | .b => true
  | _ => false

def unReply (k : Kind) (v : Val) : String :=
  let base := [showVal v, b01 (vIsZero v), b01 (vIsOne v), showR b01 (vIsUnit k v),
    showR showVal (vNeg k v), showR (showOpt showVal) (vInv k v)]
  let extra := match k, v with
    | .qi D, .qi x => [showR (fun y => showVal (.qi y)) (QI.conj D x), showR toString (QI.norm D x)]
    | _, _ => []
  String.intercalate " " (base ++ extra)

def binReply (k : Kind) (v w : Val) : String :=
  let l := [showR showVal (vBin k "add" v w), showR showVal (vBin k "sub" v w), showR showVal (vBin k "mul" v w)]
  let l := if hasDiv k then l ++ [showR showVal (vBin k "div" v w)] else l
  let l := match v, w with
    | .q a, .q b => l ++ [showR ordStr (Ratio.cmp a b)]
    | _, _ => l
  String.intercalate " " (l ++ [b01 (vEq v w)])

/-- one history step: new accumulator (none = stop) and reply text -/
def histStep (k : Kind) (acc : Val) (tok : String) : Option (Option Val × String) :=
  match tok.splitOn ":" with
  | ["neg"] =>
    match vNeg k acc with
    | .ok v => some (some v, showVal v)
    | r => some (none, showR showVal r)
  | ["inv"] =>
    match vInv k acc with
    | .ok (some v) => some (some v, showVal v)
    | .ok none => some (none, "none")
    | _ => some (none, "panic")
  | [op, s] =>
    match mkVal k s with
    | none => none
    | some (.ok w) =>
      let r :=
        if op = "add" || op = "sub" || op = "mul" || op = "div" then some (vBin k op acc w)
        else if op = "radd" then some (vBin k "add" w acc)
        else if op = "rsub" then some (vBin k "sub" w acc)
        else if op = "rmul" then some (vBin k "mul" w acc)
        else if op = "rdiv" then some (vBin k "div" w acc)
        else none
      match r with
      | none => none
      | some (.err) => none
      | some (.ok v) => some (some v, showVal v)
      | some (.panic) => some (none, "panic")
    | some _ => some (none, "panic")
  | _ => none

def runHist (k : Kind) (acc : Val) : List String → List String → Option (List String)
  | [], out => some out.reverse
  | t :: ts, out =>
    match histStep k acc t with
    | none => none
    | some (some v, r) => runHist k v ts (r :: out)
    | some (none, r) => some ((r :: out).reverse)

def handle (t : List String) : String :=
  let r : Option String :=
    match t with
    | ["un", tag, a] => do
        let k ← kindOf tag
        match ← mkVal k a with
        | .ok v => some (unReply k v)
        | _ => some "panic"
    | ["bin", tag, a, b] => do
        let k ← kindOf tag
        match ← mkVal k a, ← mkVal k b with
        | .ok v, .ok w => some (binReply k v w)
        | _, _ => some "panic"
    | ["mk", tag, a] => do
        let k ← kindOf tag
        match ← mkVal k a with
        | .ok v => some (showVal v)
        | _ => some "panic"
    | ["op", tag, op, a, b] => do
        let k ← kindOf tag
        match ← mkVal k a, ← mkVal k b with
        | .ok v, .ok w =>
          if op = "cmp" then
            match v, w with
            | .q x, .q y => some (showR ordStr (Ratio.cmp x y))
            | _, _ => none
          else
            match vBin k op v w with
            | .err => none
            | r => some (showR showVal r)
        | _, _ => some "panic"
    | ["op1", tag, "neg", a] => do
        let k ← kindOf tag
        match ← mkVal k a with
        | .ok v => some (showR showVal (vNeg k v))
        | _ => some "panic"
    | "hist" :: tag :: a :: ops => do
        let k ← kindOf tag
        match ← mkVal k a with
        | .ok v => do
            let rs ← runHist k v ops [showVal v]
            some (String.intercalate ";" rs)
        | _ => some "panic"
    | _ => none
  r.getD "bad-request"

end Yuiv.Drv.C14
