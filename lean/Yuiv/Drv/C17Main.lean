import Yuiv.Drv.C17
def main : IO Unit := Yuiv.Drv.loop Yuiv.Drv.C17.handle
