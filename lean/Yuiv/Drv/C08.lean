import Yuiv.Model.C08
import Yuiv.Model.C08Step
import Yuiv.Drv.Loop
/-
Driver for C08.

  red <ring> <k> n_0..n_k m_0..m_k t_0..t_k <entries>
      ring ∈ Z | Q | F<p> | ZH ;  entries (row-major, in this order):
      d_1..d_k (n_{i-1}×n_i), d'_1..d'_k (m_{i-1}×m_i), F_0..F_k (m_i×n_i), B_0..B_k (n_i×m_i),
      V_0..V_k (n_i×t_i), V'_0..V'_k (m_i×t_i)
      scalars: Z/F<p>: integer;  Q: `n/d`;  ZH: `c0,c1,…` (coefficients of 1, H, H², …)
    reply:  `<verdict> H=<homology of the given complex>|<homology of the reduced complex>`
      (`redn …`: same request, reply `<verdict> heq` / `<verdict> hne:<h>|<h'>` — only whether the two agree)
      verdict = `ok` (the verified checker `C08.check` accepted) or `fail:<first failing clause>`
      homology: Z: per degree `rank[:t1:t2…]`;  Q, F<p>: Betti numbers;  ZH: `-`

  hom <ring> <k> n_0..n_k <entries d_1..d_k>      reply: homology string as above

  schur <ring> <U|L> m n r <m*n entries>          (code model of `Schur::from_partial_triangular`)
    reply: `S | F_src | B_src | F_tgt | B_tgt`, each `rows cols entries…`, or `panic`
-/
namespace Yuiv.Drv.C08
open Yuiv Yuiv.C08 Yuiv.Drv

def parseRat? (s : String) : Option Rat :=
  match s.splitOn "/" with
  | [a] => (fun (n : Int) => (n : Rat)) <$> a.toInt?
  | [a, b] => do
      let n ← a.toInt?
      let d ← b.toInt?
      if d == 0 then none else some (Rat.divInt n d)
  | _ => none

def parsePoly? (s : String) : Option Poly := do
  let cs ← (s.splitOn ",").mapM (·.toInt?)
  return ⟨cs⟩

/-- read `r*c` scalars starting at `pos` -/
def takeMat {α} (parse : String → Option α) (toks : Array String) (pos r c : Nat) : Option (Mat α × Nat) := do
  let cnt := r * c
  if pos + cnt > toks.size then none
  let mut a : Array α := Array.mkEmpty cnt
  for i in [0:cnt] do
    let v ← parse (toks.getD (pos + i) "")
    a := a.push v
  return (⟨r, c, a⟩, pos + cnt)

def takeNats (toks : Array String) (pos cnt : Nat) : Option (Array Nat × Nat) := do
  if pos + cnt > toks.size then none
  let mut a : Array Nat := Array.mkEmpty cnt
  for i in [0:cnt] do
    let v ← (toks.getD (pos + i) "").toNat?
    a := a.push v
  return (a, pos + cnt)

/-- read a family of matrices with shapes `shape i` for `i ∈ lo..hi` (inclusive), stored at index `i`
(indices below `lo` get an empty placeholder) -/
def takeFam {α} [Inhabited α] (parse : String → Option α) (toks : Array String) (pos lo hi : Nat)
    (shape : Nat → Nat × Nat) : Option (Array (Mat α) × Nat) := do
  let mut out : Array (Mat α) := Array.replicate lo ⟨0, 0, #[]⟩
  let mut pos := pos
  for i in [lo:hi + 1] do
    let (r, c) := shape i
    let (A, p) ← takeMat parse toks pos r c
    out := out.push A
    pos := p
  return (out, pos)

def parseRed {α} [Inhabited α] (parse : String → Option α) (toks : Array String) : Option (RedData α) := do
  let k ← (toks.getD 0 "").toNat?
  if k > 64 then none
  let (n, p) ← takeNats toks 1 (k + 1)
  let (m, p) ← takeNats toks p (k + 1)
  let (t, p) ← takeNats toks p (k + 1)
  let nn := fun i => n.getD i 0
  let mm := fun i => m.getD i 0
  let tt := fun i => t.getD i 0
  let (d, p) ← takeFam parse toks p 1 k fun i => (nn (i - 1), nn i)
  let (d', p) ← takeFam parse toks p 1 k fun i => (mm (i - 1), mm i)
  let (F, p) ← takeFam parse toks p 0 k fun i => (mm i, nn i)
  let (B, p) ← takeFam parse toks p 0 k fun i => (nn i, mm i)
  let (V, p) ← takeFam parse toks p 0 k fun i => (nn i, tt i)
  let (V', p) ← takeFam parse toks p 0 k fun i => (mm i, tt i)
  if p != toks.size then none
  return { k, n, m, d, d', F, B, t, V, V' }

def verdict {α} [Zero α] [One α] [Add α] [Mul α] (eq : α → α → Bool) (x : RedData α) : String :=
  if check eq x then "ok" else "fail:" ++ firstFail eq x

def ratMat (A : Mat Rat) (r c : Nat) : Array (Array Rat) :=
  Array.ofFn (n := r) fun i => Array.ofFn (n := c) fun j => A.get i.val j.val

def homZ (k : Nat) (n : Nat → Nat) (d : Nat → Mat Int) : String :=
  match homologyZ k n d with
  | some h => showHomZ h
  | none => "fuel"

def homP (p k : Nat) (n : Nat → Nat) (d : Nat → Mat Int) : String :=
  showBetti (bettiBy k n fun i => rankModP p (IMat.ofMat (d i) (n (i - 1)) (n i)) (n (i - 1)) (n i))

def homQ (k : Nat) (n : Nat → Nat) (d : Nat → Mat Rat) : String :=
  showBetti (bettiBy k n fun i => rankQ (ratMat (d i) (n (i - 1)) (n i)) (n (i - 1)) (n i))

def primeTag? (s : String) : Option Nat :=
  if s.startsWith "F" then
    match (s.drop 1).toString.toNat? with
    | some p => if p == 2 || p == 3 || p == 5 || p == 7 then some p else none
    | none => none
  else none

/-- `cmpOnly = false` (`red`): print both homologies; `cmpOnly = true` (`redn`): only whether they agree
(used when the library cannot compute the homology of the unreduced complex itself) -/
def hpart (cmpOnly : Bool) (h0 h1 : String) : String :=
  if cmpOnly then (if h0 == h1 then "heq" else s!"hne:{h0}|{h1}") else s!"H={h0}|{h1}"

def handleRed (cmpOnly : Bool) (ring : String) (toks : Array String) : String :=
  if ring == "Z" then
    match parseRed (α := Int) (·.toInt?) toks with
    | none => "bad-request"
    | some x =>
      s!"{verdict (eqMod 0) x} {hpart cmpOnly (homZ x.k x.nn x.dd) (homZ x.k x.mm x.dr)}"
  else if ring == "Q" then
    match parseRed (α := Rat) parseRat? toks with
    | none => "bad-request"
    | some x =>
      s!"{verdict (fun a b => a == b) x} {hpart cmpOnly (homQ x.k x.nn x.dd) (homQ x.k x.mm x.dr)}"
  else if ring == "ZH" then
    match parseRed (α := Poly) parsePoly? toks with
    | none => "bad-request"
    | some x => s!"{verdict Poly.eq x} H=-"
  else match primeTag? ring with
    | some p =>
      match parseRed (α := Int) (·.toInt?) toks with
      | none => "bad-request"
      | some x =>
        s!"{verdict (eqMod p) x} {hpart cmpOnly (homP p x.k x.nn x.dd) (homP p x.k x.mm x.dr)}"
    | none => "bad-request"

def handleHom (ring : String) (toks : Array String) : String :=
  let go {α} [Inhabited α] (parse : String → Option α) (f : Nat → (Nat → Nat) → (Nat → Mat α) → String) : String :=
    match (do
      let k ← (toks.getD 0 "").toNat?
      if k > 64 then none
      let (n, p) ← takeNats toks 1 (k + 1)
      let nn := fun i => n.getD i 0
      let (d, p) ← takeFam parse toks p 1 k fun i => (nn (i - 1), nn i)
      if p != toks.size then none
      return (k, nn, fun i => d.getD i default) : Option (Nat × (Nat → Nat) × (Nat → Mat α))) with
    | none => "bad-request"
    | some (k, nn, d) => f k nn d
  if ring == "Z" then go (α := Int) (·.toInt?) homZ
  else if ring == "Q" then go (α := Rat) parseRat? homQ
  else match primeTag? ring with
    | some p => go (α := Int) (·.toInt?) (homP p)
    | none => "bad-request"

def handleSchur (ring ul : String) (toks : Array String) : String :=
  let go {α} [Inhabited α] (R : Ops α) (parse : String → Option α) : String :=
    match (do
      let m ← (toks.getD 0 "").toNat?
      let n ← (toks.getD 1 "").toNat?
      let r ← (toks.getD 2 "").toNat?
      if m > 4096 || n > 4096 then none
      let (A, p) ← takeMat parse toks 3 m n
      if p != toks.size then none
      return (m, n, r, A) : Option (Nat × Nat × Nat × Mat α)) with
    | none => "bad-request"
    | some (m, n, r, A) =>
      let M : DMat α := dmk m n fun i j => A.a.getD (i * n + j) R.zero
      showSchur R m n r (schurModel R (ul == "U") M m n r)
  if ul != "U" && ul != "L" then "bad-request"
  else if ring == "Z" then go opsZ (·.toInt?)
  else if ring == "Q" then go opsQ parseRat?
  else if ring == "ZH" then go opsZH parsePoly?
  else match primeTag? ring with
    | some p => go (opsP p) (·.toInt?)
    | none => "bad-request"

def handle (t : List String) : String :=
  match t with
  | "red" :: ring :: rest => handleRed false ring rest.toArray
  | "redn" :: ring :: rest => handleRed true ring rest.toArray
  | "hom" :: ring :: rest => handleHom ring rest.toArray
  | "schur" :: ring :: ul :: rest => handleSchur ring ul rest.toArray
  | _ => "bad-request"

end Yuiv.Drv.C08
