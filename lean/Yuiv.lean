import Yuiv.Model.Res
import Yuiv.Model.C17
