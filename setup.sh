#!/bin/sh
# Build the whole framework from files on disk only (offline).
set -e
cd "$(dirname "$0")"
export CARGO_NET_OFFLINE=true
mkdir -p .build work evidence
(cd lean && lake build)
(cd harness && cargo build --offline --bins)
echo "setup done"
