#!/bin/sh
# Build the framework from files on disk only (offline): every claimed property's theorems, driver and harness binary.
cd "$(dirname "$0")"
export CARGO_NET_OFFLINE=true
mkdir -p .build work evidence
ids=$(python3 -c "import json;print(' '.join(c['property_id'] for c in json.load(open('MANIFEST.json'))['checks']))")
fail=0
for id in $ids; do
  lc=$(echo "$id" | tr 'A-Z' 'a-z')
  mod=$(python3 -c "import json;d=json.load(open('props/$id.json'));print(' '.join([d['props_module']]+d.get('extra_props_modules',[])))")
  (cd lean && lake build $mod "yuivd_$lc") || { echo "setup: lean build failed for $id"; fail=1; }
done
for id in $ids; do
  lc=$(echo "$id" | tr 'A-Z' 'a-z')
  (cd harness && cargo build --offline --bin "$lc") || { echo "setup: cargo build failed for $id"; fail=1; }
done
echo "setup done (fail=$fail)"
exit $fail
