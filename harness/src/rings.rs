//! Canonical scalar / matrix text shared by the property bins.
//!
//!  * integers: decimal;  `Ratio`: raw `numer/denom` (so a missing `reduce()` is visible);
//!  * `FF<p>`: the raw representative;  `FF2`: `0`/`1`;  `QuadInt`: `a,b` (for a + bω).
//!  * dense matrix: `m n e11 e12 … emn` (row-major).

use num_bigint::BigInt;
use yui::{EisenInt, GaussInt, QuadInt, Ratio, FF, FF2};
use yui_matrix::dense::{Mat, MatTrait};
use yui_matrix::sparse::SpMat;

pub trait Txt {
    fn txt(&self) -> String;
}

macro_rules! impl_txt_int { ($($t:ty),*) => { $(impl Txt for $t { fn txt(&self) -> String { self.to_string() } })* } }
impl_txt_int!(i32, i64, i128, BigInt, usize);

impl<T: Txt> Txt for Ratio<T> {
    fn txt(&self) -> String { format!("{}/{}", self.numer().txt(), self.denom().txt()) }
}
impl<const P: i32> Txt for FF<P> {
    fn txt(&self) -> String { self.rep().to_string() }
}
impl Txt for FF2 {
    fn txt(&self) -> String { self.to_string() }
}
impl<T: Txt + yui::Integer, const D: i32> Txt for QuadInt<T, D>
where for<'x> &'x T: yui::IntOps<T> {
    fn txt(&self) -> String { format!("{},{}", self.left().txt(), self.right().txt()) }
}

pub fn mat_txt<R: Txt>(m: &Mat<R>) -> String {
    let (r, c) = m.shape();
    let mut s = format!("{} {}", r, c);
    for i in 0..r { for j in 0..c { s.push(' '); s.push_str(&m[(i, j)].txt()); } }
    s
}

pub fn spmat_txt<R: Txt + Clone + num_traits::Zero>(m: &SpMat<R>) -> String
where R: yui::Ring, for<'x> &'x R: yui::RingOps<R> {
    mat_txt(&m.clone().into_dense())
}

pub fn big(s: &str) -> BigInt { s.parse().unwrap() }

#[allow(dead_code)]
fn _types(_: GaussInt<i64>, _: EisenInt<i64>) {}
