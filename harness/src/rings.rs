//! Canonical text for scalars (filled in per property).
