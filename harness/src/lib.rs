//! Shared infrastructure of the correspondence harness: one PRNG state per run (exact replay),
//! a case sink that records request lines / implementation replies / oracle failures / statistics,
//! and panic capture.

use std::collections::{BTreeMap, BTreeSet};
use std::fs::File;
use std::io::{BufWriter, Write};
use std::panic::{catch_unwind, AssertUnwindSafe};
use std::path::PathBuf;

pub mod rings;
pub mod links;

/// SplitMix64: every random choice of a run derives from `VERIF_SEED`.
#[derive(Clone)]
pub struct Rng(pub u64);

impl Rng {
    pub fn new(seed: u64) -> Self { Rng(seed ^ 0x9E3779B97F4A7C15) }
    pub fn next(&mut self) -> u64 {
        self.0 = self.0.wrapping_add(0x9E3779B97F4A7C15);
        let mut z = self.0;
        z = (z ^ (z >> 30)).wrapping_mul(0xBF58476D1CE4E5B9);
        z = (z ^ (z >> 27)).wrapping_mul(0x94D049BB133111EB);
        z ^ (z >> 31)
    }
    /// uniform in `0..n` (n > 0)
    pub fn below(&mut self, n: u64) -> u64 { self.next() % n }
    pub fn range(&mut self, lo: i64, hi: i64) -> i64 { lo + (self.below((hi - lo + 1) as u64) as i64) }
    pub fn bool(&mut self) -> bool { self.next() & 1 == 1 }
    pub fn chance(&mut self, num: u64, den: u64) -> bool { self.below(den) < num }
    pub fn pick<'a, T>(&mut self, xs: &'a [T]) -> &'a T { &xs[self.below(xs.len() as u64) as usize] }
    pub fn shuffle<T>(&mut self, xs: &mut [T]) {
        for i in (1..xs.len()).rev() {
            let j = self.below(i as u64 + 1) as usize;
            xs.swap(i, j);
        }
    }
    pub fn fork(&mut self) -> Rng { Rng(self.next()) }
}

pub struct Args {
    pub tier: String,
    pub seed: u64,
    pub out: PathBuf,
    pub replay: Option<PathBuf>,
    pub extra: Vec<String>,
}

impl Args {
    pub fn parse() -> Args {
        let mut tier = "quick".to_string();
        let mut seed = 1u64;
        let mut out = PathBuf::from("/verif/work/tmp");
        let mut replay = None;
        let mut extra = vec![];
        let mut it = std::env::args().skip(1);
        while let Some(a) = it.next() {
            match a.as_str() {
                "--tier" => tier = it.next().unwrap(),
                "--seed" => seed = it.next().unwrap().parse().unwrap(),
                "--out" => out = PathBuf::from(it.next().unwrap()),
                "--replay" => replay = Some(PathBuf::from(it.next().unwrap())),
                _ => extra.push(a),
            }
        }
        Args { tier, seed, out, replay, extra }
    }
    pub fn thorough(&self) -> bool { self.tier == "thorough" }
}

/// Collects everything one harness run produces.
///  * `ops.txt`    request lines for the Lean driver
///  * `impl.txt`   the real code's canonical reply to each request line (same line numbers)
///  * `oracle.jsonl` property-oracle failures found on the implementation alone
///  * `stats.json` what was generated (sizes, kinds, error kinds, samples)
pub struct Sink {
    dir: PathBuf,
    ops: BufWriter<File>,
    imp: BufWriter<File>,
    oracle: BufWriter<File>,
    pub evaluations: u64,
    pub oracle_checks: u64,
    pub oracle_failures: u64,
    distinct: BTreeSet<u64>,
    pub counters: BTreeMap<String, u64>,
    pub samples: Vec<String>,
    pub rule: String,
    sample_every: u64,
}

fn fnv(s: &str) -> u64 {
    let mut h = 0xcbf29ce484222325u64;
    for b in s.bytes() { h ^= b as u64; h = h.wrapping_mul(0x100000001b3); }
    h
}

impl Sink {
    pub fn new(args: &Args, rule: &str) -> Sink {
        std::fs::create_dir_all(&args.out).unwrap();
        let f = |n: &str| BufWriter::new(File::create(args.out.join(n)).unwrap());
        Sink {
            dir: args.out.clone(), ops: f("ops.txt"), imp: f("impl.txt"), oracle: f("oracle.jsonl"),
            evaluations: 0, oracle_checks: 0, oracle_failures: 0, distinct: BTreeSet::new(),
            counters: BTreeMap::new(), samples: vec![], rule: rule.to_string(), sample_every: 1,
        }
    }

    /// one differential case: request line + the implementation's reply; `nontrivial` by the bin's stated rule
    pub fn case(&mut self, req: &str, reply: &str, nontrivial: bool) {
        debug_assert!(!req.contains('\n') && !reply.contains('\n'));
        writeln!(self.ops, "{}", req).unwrap();
        writeln!(self.imp, "{}", reply).unwrap();
        self.evaluations += 1;
        if nontrivial { self.distinct.insert(fnv(req)); }
        if self.evaluations % self.sample_every == 0 && self.samples.len() < 12 {
            self.samples.push(format!("{} => {}", trunc(req, 300), trunc(reply, 300)));
            self.sample_every *= 4;
        }
    }

    /// an implementation-only case (no model line), counted as an evaluation
    pub fn eval_only(&mut self, desc: &str, nontrivial: bool) {
        self.evaluations += 1;
        if nontrivial { self.distinct.insert(fnv(desc)); }
        if self.evaluations % self.sample_every == 0 && self.samples.len() < 12 {
            self.samples.push(trunc(desc, 400));
            self.sample_every *= 4;
        }
    }

    pub fn count(&mut self, key: &str) { *self.counters.entry(key.to_string()).or_insert(0) += 1; }
    pub fn count_n(&mut self, key: &str, n: u64) { *self.counters.entry(key.to_string()).or_insert(0) += n; }

    /// property oracle evaluated on the implementation alone: `ok == false` is a violation candidate
    pub fn oracle(&mut self, ok: bool, clause: &str, input: &str, detail: &str) {
        self.oracle_checks += 1;
        if !ok {
            self.oracle_failures += 1;
            let v = serde_json::json!({"clause": clause, "input": input, "detail": trunc(detail, 2000)});
            writeln!(self.oracle, "{}", v).unwrap();
        }
    }

    pub fn finish(mut self) {
        self.ops.flush().unwrap();
        self.imp.flush().unwrap();
        self.oracle.flush().unwrap();
        let v = serde_json::json!({
            "evaluations": self.evaluations,
            "distinct_nontrivial": self.distinct.len(),
            "oracle_checks": self.oracle_checks,
            "oracle_failures": self.oracle_failures,
            "rule": self.rule,
            "samples": self.samples,
            "distribution": self.counters,
        });
        std::fs::write(self.dir.join("stats.json"), serde_json::to_string_pretty(&v).unwrap()).unwrap();
    }
}

/// run one generated case; an escape of a panic out of the case body (i.e. out of a call of the real
/// code that the case did not expect to be rejected) is itself recorded as an oracle failure.
pub fn guarded_case(s: &mut Sink, desc: &str, f: impl FnOnce(&mut Sink)) {
    if catch_unwind(AssertUnwindSafe(|| f(s))).is_err() {
        s.oracle(false, "the implementation panicked in a call the case expected to succeed", desc, "panic");
    }
}

pub fn trunc(s: &str, n: usize) -> String {
    if s.len() <= n { return s.to_string() }
    let mut k = n;
    while !s.is_char_boundary(k) { k -= 1; }
    format!("{}…[{} bytes]", &s[..k], s.len())
}

/// Silence the default panic printer (panics are expected outcomes in the boundary streams).
pub fn quiet_panics() {
    if std::env::var("YV_LOUD").is_ok() { return; }   // debugging aid: keep the default panic printer
    std::panic::set_hook(Box::new(|_| {}));
}

/// Run `f`, mapping a panic to `None`.
pub fn guard<T>(f: impl FnOnce() -> T) -> Option<T> {
    catch_unwind(AssertUnwindSafe(f)).ok()
}

/// Run `f` on a helper thread with a time limit. `None` = timed out (the thread is leaked), `Some(None)` = panicked.
pub fn guard_timeout<T: Send + 'static>(secs: u64, f: impl FnOnce() -> T + Send + 'static) -> Option<Option<T>> {
    let (tx, rx) = std::sync::mpsc::channel();
    std::thread::Builder::new().stack_size(64 << 20).spawn(move || {
        let r = catch_unwind(AssertUnwindSafe(f)).ok();
        let _ = tx.send(r);
    }).unwrap();
    rx.recv_timeout(std::time::Duration::from_secs(secs)).ok()
}
