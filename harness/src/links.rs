//! Link generators, isotopy moves and canonical text shared by the Khovanov-level bins (C01–C06, C19).

use crate::Rng;
use std::collections::{BTreeMap, BTreeSet};
use yui::Sign;
use yui_link::{Braid, Crossing, CrossingType, Link};

pub type Pd = Vec<[usize; 4]>;

/// `n` followed by `n` records `<X|Xm|V|H> e0 e1 e2 e3`
pub fn link_txt(l: &Link) -> String {
    let mut s = l.data().len().to_string();
    for c in l.data() {
        let t = match c.ctype() { CrossingType::X => "X", CrossingType::Xm => "Xm", CrossingType::V => "V", CrossingType::H => "H" };
        let e = c.edges();
        s.push_str(&format!(" {} {} {} {} {}", t, e[0], e[1], e[2], e[3]));
    }
    s
}

pub fn signs_txt(l: &Link) -> String {
    let s: String = l.crossing_signs().iter().map(|s| if *s == Sign::Pos { '+' } else { '-' }).collect();
    if s.is_empty() { "_".into() } else { s }
}

pub fn pd_of(l: &Link) -> Pd {
    l.data().iter().map(|c| *c.edges()).collect()
}

/// is every crossing of the link an unresolved `X` crossing (i.e. the link is a plain PD code)?
pub fn is_plain_pd(l: &Link) -> bool {
    l.data().iter().all(|c| c.ctype() == CrossingType::X)
}

pub fn link_of(pd: &Pd) -> Link { Link::from_pd_code(pd.iter().cloned()) }

pub fn mirror_data(l: &Link) -> Link { l.mirror() }

/// names of the link table shipped with yui-link, by crossing number (knots `k_n`, `K11…`, links `L…`)
pub fn table_names(max_crossings: usize) -> Vec<String> {
    let dir = format!("{}/resources/links", "/repo/yui-link");
    let mut out = vec![];
    if let Ok(rd) = std::fs::read_dir(&dir) {
        for e in rd.flatten() {
            let name = e.file_name().to_string_lossy().to_string();
            let Some(stem) = name.strip_suffix(".json") else { continue };
            let digits: String = stem.trim_start_matches(|c: char| c == 'K' || c == 'L').chars().take_while(|c| c.is_ascii_digit()).collect();
            if let Ok(n) = digits.parse::<usize>() {
                if n <= max_crossings { out.push(stem.to_string()); }
            }
        }
    }
    out.sort();
    out
}

pub fn load(name: &str) -> Option<Link> { Link::load(name).ok() }

/// closure of a random braid word in which every strand is used (no free loop)
pub fn random_braid(r: &mut Rng, strands: usize, len: usize) -> (Vec<i32>, Option<Link>) {
    let mut w: Vec<i32> = vec![];
    // make sure every generator index appears at least once
    for i in 1..strands { w.push(if r.bool() { i as i32 } else { -(i as i32) }); }
    while w.len() < len {
        let i = 1 + r.below((strands - 1) as u64) as i32;
        w.push(if r.bool() { i } else { -i });
    }
    r.shuffle(&mut w);
    // make braid relations (Reidemeister III) applicable now and then
    if strands >= 3 && r.bool() {
        let i = 1 + r.below(strands as u64 - 2) as i32;
        let sg = if r.bool() { 1 } else { -1 };
        let (a, b) = if r.bool() { (i, i + 1) } else { (i + 1, i) };
        let pos = r.below(w.len() as u64 + 1) as usize;
        for (k, g) in [a, b, a].into_iter().enumerate() { w.insert(pos + k, sg * g); }
    }
    let l = braid_closure(strands, &w);
    (w, l)
}

pub fn braid_closure(strands: usize, w: &[i32]) -> Option<Link> {
    let w = w.to_vec();
    crate::guard(move || Braid::from_iter_strands(strands, &w).closure())
}

pub trait BraidExt { fn from_iter_strands(strands: usize, w: &[i32]) -> Braid; }
impl BraidExt for Braid {
    fn from_iter_strands(strands: usize, w: &[i32]) -> Braid {
        use yui_link::Generator;
        Braid::new(strands, w.iter().map(|&i| Generator::new(i.unsigned_abs() as usize, if i > 0 { Sign::Pos } else { Sign::Neg })).collect())
    }
}

// ---------------------------------------------------------------------------------------------
// moves on PD codes (all crossings of type X)

fn max_label(pd: &Pd) -> usize { pd.iter().flat_map(|c| c.iter()).cloned().max().unwrap_or(0) }

/// random injective renumbering of the edge labels
pub fn renumber(r: &mut Rng, pd: &Pd) -> Pd {
    let labels: BTreeSet<usize> = pd.iter().flat_map(|c| c.iter()).cloned().collect();
    let mut pool: Vec<usize> = (0..(labels.len() * 2 + 3)).collect();
    r.shuffle(&mut pool);
    let map: BTreeMap<usize, usize> = labels.into_iter().zip(pool).collect();
    pd.iter().map(|c| c.map(|e| map[&e])).collect()
}

pub fn reorder(r: &mut Rng, pd: &Pd) -> Pd {
    let mut p = pd.clone();
    r.shuffle(&mut p);
    p
}

/// reverse the orientation of every component at once: [a,b,c,d] ↦ [c,d,a,b]
pub fn reverse_all(pd: &Pd) -> Pd { pd.iter().map(|c| [c[2], c[3], c[0], c[1]]).collect() }

/// orientation of edges in a valid PD code: for each edge label, is it the edge entering slot 0 / leaving slot 2
/// of the crossings (under strand direction); `dir[e] = (from crossing-slot, to crossing-slot)` for every label.
/// Returns for each label the slot where the edge ENDS (arrives), as (crossing, slot).
pub fn edge_heads(pd: &Pd) -> Option<BTreeMap<usize, (usize, usize)>> {
    let l = link_of(pd);
    let n = pd.len();
    let mut heads = BTreeMap::new();
    let mut seen = BTreeSet::new();
    // walk every component in its orientation; record, for the edge leaving crossing i through slot k, the slot it arrives at
    for j0 in [0usize, 1, 2] {
        for i0 in 0..n {
            let e0 = pd[i0][j0];
            if seen.contains(&e0) { continue }
            let mut entries = vec![];
            let ok = crate::guard(|| { let mut v = vec![]; l.traverse_edges((i0, j0), |i, j| v.push((i, j))); v });
            let Some(v) = ok else { return None };
            entries.extend(v);
            // entries: (i, j) = crossing entered at slot j, in order; the edge pd[i][j] arrives at (i, j)
            for &(i, j) in &entries { seen.insert(pd[i][j]); heads.insert(pd[i][j], (i, j)); }
        }
    }
    Some(heads)
}

/// Reidemeister I: insert a kink of either sign on the edge `e`.
/// The edge e (… → e → …) is split into e, x with a loop y:  new crossing uses labels (e, x, y).
pub fn add_kink(r: &mut Rng, pd: &Pd) -> Option<Pd> {
    if pd.is_empty() { return None }
    let heads = edge_heads(pd)?;
    let labels: Vec<usize> = heads.keys().cloned().collect();
    let e = *r.pick(&labels);
    let (hi, hj) = heads[&e];
    let m = max_label(pd);
    let (x, y) = (m + 1, m + 2);
    let mut out = pd.clone();
    // the head of e now receives x; e ends at the new crossing
    out[hi][hj] = x;
    // four kink shapes: the strand enters on e, runs the loop y, leaves on x
    //   under first then over, or over first then under; loop to the left or right
    let c = match r.below(4) {
        0 => [e, y, y, x],   // enters under at slot 0, leaves slot 2 = y, comes back at slot 1 = y (over), leaves slot 3 = x
        1 => [e, x, y, y],   // under 0→2 (= y), returns at slot 3 (= y) over, leaves slot 1 = x
        2 => [y, e, x, y],   // over first: enters slot 1 = e, leaves slot 3 = y, returns at slot 0 = y (under), leaves slot 2 = x
        _ => [y, y, x, e],   // over first: enters slot 3 = e, leaves slot 1 = y, returns under at slot 0 = y, leaves slot 2 = x
    };
    let pos = r.below(out.len() as u64 + 1) as usize;
    out.insert(pos, c);
    Some(out)
}

// ---------------------------------------------------------------------------------------------
// moves on braid words

pub fn braid_move(r: &mut Rng, strands: usize, w: &[i32]) -> (usize, Vec<i32>, &'static str) {
    let mut w = w.to_vec();
    for _ in 0..20 {
        match r.below(6) {
            0 => { // far commutation
                if w.len() >= 2 {
                    let i = r.below(w.len() as u64 - 1) as usize;
                    if (w[i].abs() - w[i + 1].abs()).abs() >= 2 { w.swap(i, i + 1); return (strands, w, "far-commute") }
                }
            }
            1 => { // braid relation = Reidemeister III
                if w.len() >= 3 {
                    let i = r.below(w.len() as u64 - 2) as usize;
                    let (a, b, c) = (w[i], w[i + 1], w[i + 2]);
                    if a == c && (a.abs() - b.abs()).abs() == 1 && a.signum() == b.signum() {
                        w[i] = b; w[i + 1] = a; w[i + 2] = b; return (strands, w, "braid-relation")
                    }
                }
            }
            2 => { // free insertion = Reidemeister II
                if strands >= 2 {
                    let g = 1 + r.below(strands as u64 - 1) as i32;
                    let g = if r.bool() { g } else { -g };
                    let i = r.below(w.len() as u64 + 1) as usize;
                    w.insert(i, -g); w.insert(i, g); return (strands, w, "insert-cancelling-pair")
                }
            }
            3 => { // free cancellation
                for i in 0..w.len().saturating_sub(1) {
                    if w[i] == -w[i + 1] {
                        let mut v = w.clone(); v.remove(i); v.remove(i);
                        // keep every strand used
                        if (1..strands as i32).all(|g| v.iter().any(|x| x.abs() == g)) { return (strands, v, "cancel-pair") }
                    }
                }
            }
            4 => { // conjugation (cyclic rotation)
                if !w.is_empty() { w.rotate_left(1); return (strands, w, "conjugate") }
            }
            _ => { // Markov stabilisation = Reidemeister I
                let g = strands as i32;
                w.push(if r.bool() { g } else { -g });
                return (strands + 1, w, "stabilise")
            }
        }
    }
    (strands, w, "none")
}

// ---------------------------------------------------------------------------------------------
// canonical text for homology tables

/// turn a list of positive integers into the divisibility chain presenting the same finite abelian group
pub fn chain_form(mut d: Vec<num_bigint::BigInt>) -> Vec<num_bigint::BigInt> {
    use num_integer::Integer;
    use num_traits::{One, Signed, Zero};
    for x in d.iter_mut() { *x = x.abs(); }
    let n = d.len();
    for i in 0..n { for j in (i + 1)..n {
        let g = d[i].gcd(&d[j]);
        if !g.is_zero() { let l = &d[i] * &d[j] / &g; d[i] = g; d[j] = l; }
    } }
    d.into_iter().filter(|x| !x.is_one()).collect()
}

pub fn group_txt(rank: usize, tors: Vec<num_bigint::BigInt>) -> String {
    let t = chain_form(tors);
    format!("{}:{}", rank, t.iter().map(|x| x.to_string()).collect::<Vec<_>>().join(","))
}

/// cells: ((i, Some(j)) or (i, None)) ↦ group text; only non-zero groups; sorted
pub fn table_txt(mut cells: Vec<((isize, Option<isize>), String)>) -> String {
    cells.retain(|(_, g)| g != "0:");
    if cells.is_empty() { return "empty".into() }
    cells.sort_by_key(|(k, _)| (k.0, k.1.unwrap_or(0)));
    cells.into_iter().map(|((i, j), g)| match j { Some(j) => format!("{},{}:{}", i, j, g), None => format!("{}:{}", i, g) }).collect::<Vec<_>>().join(" ")
}

#[allow(dead_code)]
fn _unused(_: Crossing) {}
