//! C05 — every Khovanov complex returned is a graded chain complex, over any ring.
//!
//! (i)  kernel: `CobComp::{part_eval, eval, deg, is_zero_cob, is_unit_cob, should_part_eval}` on components
//!      built through the public constructors, over `i64`, `BigInt`, `Poly<'H',i64>`, `Poly<'T',i64>`,
//!      `Poly2<'H','T',i64>`, compared exactly with the Lean model (`cob` requests).
//! (ii) complexes: `KhComplex::<R>::new` for nine rings; oracle on the implementation alone with naive dense
//!      arithmetic (d∘d = 0, the differential raises h_deg by one, q-homogeneity of every entry, homology of the
//!      complex built with polynomial parameters and evaluated at a point = homology of the complex built
//!      directly); integer matrices additionally go to the Lean driver (`hom` requests: verified `matMulZero`,
//!      homology by Smith invariants, cube-of-resolutions reference).
use num_bigint::BigInt;
use num_traits::Zero;
use yui::lc::Lc;
use yui::poly::{Mono, Poly, Poly2};
use yui::{EucRing, EucRingOps, Ratio, Ring, RingOps, FF, FF2};
use yui_homology::{ChainComplexTrait, GenericChainComplex, GridTrait, SummandTrait};
use yui_kh::kh::internal::v2::cob::{Cob, CobComp};
use yui_kh::kh::internal::v2::tng::{Tng, TngComp};
use yui_kh::kh::{KhChain, KhComplex, KhGen, KhHomology};
use yui_link::Link;
use yui_matrix::sparse::SpMat;
use yui_matrix::MatTrait;
use yui::bitseq::Bit;
use yv::links::*;
use yv::rings::Txt;
use yv::*;

// ---------------------------------------------------------------------------------------------
// entries: monomials H^a T^b with coefficients in a base ring

trait Entry: Sized {
    type Base: Clone;
    fn terms(&self) -> Vec<(usize, usize, Self::Base)>;
}
macro_rules! impl_entry_num { ($($t:ty),*) => { $(impl Entry for $t {
    type Base = $t;
    fn terms(&self) -> Vec<(usize, usize, $t)> { if Zero::is_zero(self) { vec![] } else { vec![(0, 0, self.clone())] } }
})* } }
impl_entry_num!(i64, BigInt, Ratio<i64>, Ratio<BigInt>, FF2, FF<3>);

impl<S> Entry for Poly<'H', S> where S: Ring, for<'x> &'x S: RingOps<S> {
    type Base = S;
    fn terms(&self) -> Vec<(usize, usize, S)> { self.iter().filter(|(_, c)| !c.is_zero()).map(|(m, c)| (m.deg(), 0, c.clone())).collect() }
}
impl<S> Entry for Poly<'T', S> where S: Ring, for<'x> &'x S: RingOps<S> {
    type Base = S;
    fn terms(&self) -> Vec<(usize, usize, S)> { self.iter().filter(|(_, c)| !c.is_zero()).map(|(m, c)| (0, m.deg(), c.clone())).collect() }
}
impl<S> Entry for Poly2<'H', 'T', S> where S: Ring, for<'x> &'x S: RingOps<S> {
    type Base = S;
    fn terms(&self) -> Vec<(usize, usize, S)> { self.iter().filter(|(_, c)| !c.is_zero()).map(|(m, c)| (m.deg_for(0), m.deg_for(1), c.clone())).collect() }
}

/// canonical coefficient text: a base element, or `c*a.b+…` sorted by (a, b) (`0` for zero)
fn poly_txt<P: Entry>(p: &P) -> String where P::Base: Txt {
    let mut t = p.terms();
    if t.is_empty() { return "0".into() }
    t.sort_by_key(|x| (x.0, x.1));
    t.iter().map(|(a, b, c)| format!("{}*{}.{}", c.txt(), a, b)).collect::<Vec<_>>().join("+")
}

// ---------------------------------------------------------------------------------------------
// (i) kernel

#[derive(Clone)]
struct Shape { name: &'static str, src: Vec<TngComp>, tgt: Vec<TngComp>, nbdr: usize, endpts: usize }

fn shapes() -> Vec<Shape> {
    let a = |x: usize, y: usize| TngComp::arc([x, y]);
    let c = |x: usize| TngComp::circ([x]);
    let sh = |name, src, tgt, nbdr, endpts| Shape { name, src, tgt, nbdr, endpts };
    vec![
        sh("closed", vec![], vec![], 0, 0),
        sh("cup", vec![], vec![c(1)], 1, 0),
        sh("cap", vec![c(1)], vec![], 1, 0),
        sh("cyl", vec![c(1)], vec![c(2)], 2, 0),
        sh("id-arc", vec![a(1, 2)], vec![a(1, 2)], 1, 2),
        sh("saddle", vec![a(1, 2), a(3, 4)], vec![a(1, 3), a(2, 4)], 1, 4),
        sh("merge-circ-arc", vec![c(9), a(1, 2)], vec![a(1, 2)], 2, 2),
        sh("split-arc-circ", vec![a(1, 2)], vec![a(1, 2), c(9)], 2, 2),
        sh("pants", vec![c(1), c(2)], vec![c(3)], 3, 0),
        sh("copants", vec![c(10)], vec![c(10), c(11)], 3, 0),
        sh("two-strips", vec![a(1, 2), a(3, 4)], vec![a(1, 2), a(3, 4)], 2, 4),
        sh("saddle+circs", vec![a(1, 2), a(3, 4), c(10)], vec![a(1, 3), a(2, 4), c(11)], 3, 4),
        sh("three-arcs", vec![a(1, 2), a(3, 4), a(5, 6)], vec![a(2, 3), a(4, 5), a(6, 1)], 1, 6),
    ]
}

/// canonical text of an `LcCob` produced from a component with boundary `(src, tgt)`
fn lc_txt<R>(lc: &Lc<Cob, R>, shape: &Shape, bound: usize, ctxt: &dyn Fn(&R) -> String) -> String
where R: Ring, for<'x> &'x R: RingOps<R> {
    let mut terms: Vec<((usize, usize, usize), String, String)> = vec![];
    for (cob, r) in lc.iter() {
        let (rank, key) = if cob.is_empty() { ((0, 0, 0), "E".to_string()) }
        else if cob.ncomps() == 1 {
            let comp = cob.comp(0);
            let mut found = None;
            'o: for x in 0..=bound { for y in 0..=bound {
                let cand = CobComp::new(Tng::new(shape.src.clone()), Tng::new(shape.tgt.clone()), 0, (x, y));
                if *comp == cand { found = Some((x, y)); break 'o }
            } }
            match found {
                Some((x, y)) => ((1, x, y), format!("{},{}", x, y)),
                None => ((2, comp.genus(), comp.ndots()), format!("?g{}d{}[{}]", comp.genus(), comp.ndots(), comp).replace(' ', "")),
            }
        } else { ((3, cob.ncomps(), 0), format!("?{}", cob).replace(' ', "")) };
        terms.push((rank, key, ctxt(r)));
    }
    if terms.is_empty() { return "0".into() }
    terms.sort();
    terms.iter().map(|(_, k, c)| format!("{}:{}", k, c)).collect::<Vec<_>>().join(";")
}

fn cob_case<R>(s: &mut Sink, shape: &Shape, g: usize, x: usize, y: usize, h: &R, t: &R, htxt: &str, ttxt: &str, ring: &str, ctxt: &dyn Fn(&R) -> String)
where R: Ring, for<'x> &'x R: RingOps<R> {
    let closed = shape.src.is_empty() && shape.tgt.is_empty();
    let req = format!("cob {} {} {} {} {} {} {} {}", htxt, ttxt, closed as u8, shape.nbdr, shape.endpts, g, x, y);
    let reply = guard(|| {
        let comp = CobComp::new(Tng::new(shape.src.clone()), Tng::new(shape.tgt.clone()), g, (x, y));
        let pe = comp.part_eval(h, t);
        let pe_s = lc_txt(&pe, shape, g + x + y + 1, ctxt);
        let ev = guard(|| comp.eval(h, t)).map(|r| ctxt(&r)).unwrap_or("panic".into());
        let d = comp.deg();
        format!("pe={} ev={} deg={} zus={}{}{}", pe_s, ev, d, comp.is_zero_cob() as u8, comp.is_unit_cob() as u8, comp.should_part_eval() as u8)
    }).unwrap_or("panic".into());
    s.count(&format!("cob.ring.{}", ring));
    s.count(&format!("cob.shape.{}", shape.name));
    s.count(&format!("cob.genus.{}", g.min(6)));
    s.count(&format!("cob.dots.{}", (x + y).min(12)));
    if reply.contains("ev=panic") { s.count("cob.eval-rejected(open)"); }
    s.case(&req, &reply, g + x + y >= 2);
}

fn kernel(s: &mut Sink, r: &mut Rng, thorough: bool) {
    let shp = shapes();
    type PH = Poly<'H', i64>; type PT = Poly<'T', i64>; type P2 = Poly2<'H', 'T', i64>;
    let run_all = |s: &mut Sink, sh: &Shape, g: usize, x: usize, y: usize, h: i64, t: i64, which: u64| {
        match which {
            0 => cob_case::<i64>(s, sh, g, x, y, &h, &t, &h.to_string(), &t.to_string(), "i64", &|c| c.to_string()),
            1 => cob_case::<BigInt>(s, sh, g, x, y, &BigInt::from(h), &BigInt::from(t), &h.to_string(), &t.to_string(), "BigInt", &|c| c.to_string()),
            2 => cob_case::<P2>(s, sh, g, x, y, &P2::variable(0), &P2::variable(1), "H", "T", "Poly2<H,T>", &|c| poly_txt(c)),
            3 => cob_case::<PH>(s, sh, g, x, y, &PH::variable(), &PH::from_const(t), "H", &t.to_string(), "Poly<H>", &|c| poly_txt(c)),
            _ => cob_case::<PT>(s, sh, g, x, y, &PT::from_const(h), &PT::variable(), &h.to_string(), "T", "Poly<T>", &|c| poly_txt(c)),
        }
    };
    // hand-written corner cases: the seven arms, every shape, h/t in {0, ±1}
    for sh in &shp {
        for (g, x, y) in [(0, 0, 0), (0, 1, 0), (0, 0, 1), (0, 1, 1), (0, 2, 0), (0, 0, 2), (1, 0, 0), (2, 0, 0), (3, 0, 0), (0, 3, 1), (1, 2, 2), (2, 1, 1)] {
            for (h, t) in [(0, 0), (1, 0), (0, 1), (2, 3), (-1, 5)] {
                run_all(s, sh, g, x, y, h, t, 0);
            }
            run_all(s, sh, g, x, y, 0, 0, 2);
            run_all(s, sh, g, x, y, 0, 0, 3);
            run_all(s, sh, g, x, y, 0, 0, 4);
        }
    }
    // exhaustive small box (closed + one open shape), all rings
    let (gm, dm) = if thorough { (5, 7) } else { (3, 4) };
    for sh in [&shp[0], &shp[5], &shp[3]] {
        for g in 0..=gm { for x in 0..=dm { for y in 0..=dm {
            let (h, t) = (r.range(-3, 3), r.range(-3, 3));
            run_all(s, sh, g, x, y, h, t, 0);
            run_all(s, sh, g, x, y, h, t, 2);
            if thorough { run_all(s, sh, g, x, y, r.range(-3, 3), r.range(-3, 3), 3); run_all(s, sh, g, x, y, r.range(-3, 3), r.range(-3, 3), 4); }
        } } }
    }
    // random stream
    let n = if thorough { 6000 } else { 700 };
    for _ in 0..n {
        let sh = r.pick(&shp).clone();
        let which = r.below(5);
        let (g, x, y, h, t) = match which {
            0 => { // i64: keep 2^g (|h|+|t|)^(g+x+y) far below 2^63
                let g = r.below(5) as usize; let x = r.below(8 - g as u64) as usize; let y = r.below((9 - g - x) as u64) as usize;
                (g, x, y, r.range(-6, 6), r.range(-6, 6))
            }
            1 => (r.below(if thorough { 9 } else { 6 }) as usize, r.below(if thorough { 14 } else { 9 }) as usize, r.below(if thorough { 14 } else { 9 }) as usize,
                  r.range(-1000, 1000), r.range(-1000, 1000)),
            _ => (r.below(if thorough { 7 } else { 5 }) as usize, r.below(if thorough { 10 } else { 7 }) as usize, r.below(if thorough { 10 } else { 7 }) as usize,
                  r.range(-4, 4), r.range(-4, 4)),
        };
        run_all(s, &sh, g, x, y, h, t, which);
    }
}

// ---------------------------------------------------------------------------------------------
// (ii) complexes

struct Exported<R> { imin: isize, ranks: Vec<usize>, mats: Vec<Vec<(usize, usize, R)>> }

fn dense<R: Clone>(rows: usize, cols: usize, e: &[(usize, usize, R)], zero: &R) -> Vec<Vec<R>> {
    let mut m = vec![vec![zero.clone(); cols]; rows];
    for (i, j, v) in e { m[*i][*j] = v.clone(); }
    m
}

/// all clauses that can be evaluated on one complex alone
fn check_complex<R>(s: &mut Sink, desc: &str, c: &KhComplex<R>, graded: bool) -> Option<Exported<R>>
where R: Ring + Entry, for<'x> &'x R: RingOps<R> {
    let range = c.h_range();
    let (imin, imax) = (*range.start(), *range.end());
    let is: Vec<isize> = (imin..=imax).collect();
    let ranks: Vec<usize> = is.iter().map(|&i| c.rank(i)).collect();
    let gens: Vec<Vec<KhGen>> = is.iter().map(|&i| c[i].raw_gens().iter().cloned().collect()).collect();
    let k = is.len();
    // --- the differential raises homological degree by one
    let mut ok = c.d_deg() == 1;          // exactly the property: y in d(x) => h_deg(y) = h_deg(x) + 1
    let mut detail = String::new();
    let mut ok2 = true;                   // bookkeeping consistency: C_i is spanned by generators of h_deg i, d(C_i) ⊂ C_{i+1}
    let mut detail2 = String::new();
    for (p, &i) in is.iter().enumerate() {
        if gens[p].len() != ranks[p] { ok2 = false; detail2 = format!("rank({})={} but {} generators", i, ranks[p], gens[p].len()); }
        for x in &gens[p] {
            if x.h_deg() != i { ok2 = false; detail2 = format!("generator {} listed in degree {} has h_deg {}", x, i, x.h_deg()); }
        }
    }
    // d on generators
    let mut dgen: Vec<Vec<Vec<(KhGen, R)>>> = vec![];
    for (p, &i) in is.iter().enumerate() {
        let mut col = vec![];
        for x in &gens[p] {
            let dx = c.d(i, &KhChain::from(x.clone()));
            let mut v: Vec<(KhGen, R)> = vec![];
            for (y, a) in dx.iter() {
                if a.is_zero() { continue }
                if y.h_deg() != x.h_deg() + 1 {
                    ok = false; detail = format!("d({}) (h_deg {}) contains {} of h_deg {}", x, x.h_deg(), y, y.h_deg());
                }
                if !(p + 1 < k && gens[p + 1].contains(y)) {
                    ok2 = false; detail2 = format!("d({}) in degree {} contains {} which is not a generator of degree {}", x, i, y, i + 1);
                }
                v.push((y.clone(), a.clone()));
            }
            col.push(v);
        }
        dgen.push(col);
    }
    s.oracle(ok, "the differential raises homological degree by one (d_deg = 1 and every generator y occurring in d(x) has h_deg(y) = h_deg(x) + 1)", desc, &detail);
    s.oracle(ok2, "the grading of the complex is the generators' homological degree (C_i is spanned by rank(i) generators of h_deg i and d(C_i) lies in the span of the generators of C_{i+1})", desc, &detail2);
    if !ok2 { return None }

    // --- matrices
    let mut mats: Vec<Vec<(usize, usize, R)>> = vec![];
    let mut shape_ok = true; let mut sdetail = String::new();
    for (p, &i) in is.iter().enumerate() {
        let m = c.d_matrix(i);
        let want = (if p + 1 < k { ranks[p + 1] } else { 0 }, ranks[p]);
        if m.shape() != want { shape_ok = false; sdetail = format!("d_matrix({}) has shape {:?}, ranks say {:?}", i, m.shape(), want); }
        mats.push(m.iter().filter(|(_, _, a)| !a.is_zero()).map(|(a, b, v)| (a, b, v.clone())).collect());
    }
    s.oracle(shape_ok, "d_matrix(i) is a rank(i+1) x rank(i) matrix", desc, &sdetail);
    if !shape_ok { return None }

    // --- d∘d = 0 (naive dense product of the exported matrices, and d(d(x)) on generators)
    let zero = R::zero();
    let mut dd_ok = true; let mut ddetail = String::new();
    for p in 0..k.saturating_sub(2) {
        let a = dense(ranks[p + 2], ranks[p + 1], &mats[p + 1], &zero);
        let b = dense(ranks[p + 1], ranks[p], &mats[p], &zero);
        for i in 0..ranks[p + 2] { for j in 0..ranks[p] {
            let mut acc = R::zero();
            for l in 0..ranks[p + 1] { if !a[i][l].is_zero() && !b[l][j].is_zero() { acc = acc + &a[i][l] * &b[l][j]; } }
            if !acc.is_zero() { dd_ok = false; ddetail = format!("(d_{} d_{})[{},{}] = {}", is[p + 1], is[p], i, j, acc); }
        } }
    }
    for (p, &i) in is.iter().enumerate() {
        for x in &gens[p] {
            let dx = c.d(i, &KhChain::from(x.clone()));
            let ddx = c.d(i + 1, &dx);
            if ddx.iter().any(|(_, a)| !a.is_zero()) { dd_ok = false; ddetail = format!("d(d({})) = {} in degree {}", x, ddx, i); }
        }
    }
    s.oracle(dd_ok, "d∘d = 0 (product of consecutive d_matrix, and d(d(x)) for every generator x)", desc, &ddetail);

    // --- q-homogeneity: entry x -> y is homogeneous in H (deg -2), T (deg -4) of degree q(x) - q(y)
    if graded {
        let mut q_ok = true; let mut qdetail = String::new();
        for p in 0..k {
            // through d on generators
            for (jx, x) in gens[p].iter().enumerate() {
                for (y, a) in &dgen[p][jx] {
                    for (ea, eb, _) in a.terms() {
                        if y.q_deg() - x.q_deg() != (2 * ea + 4 * eb) as isize {
                            q_ok = false; qdetail = format!("d: {} (q={}) -> {} (q={}) has coefficient {} with monomial H^{} T^{}", x, x.q_deg(), y, y.q_deg(), a, ea, eb);
                        }
                    }
                }
            }
            // through d_matrix (column j = j-th generator of C_i, row i = i-th generator of C_{i+1})
            if p + 1 < k {
                for (ri, cj, a) in &mats[p] {
                    let (x, y) = (&gens[p][*cj], &gens[p + 1][*ri]);
                    for (ea, eb, _) in a.terms() {
                        if y.q_deg() - x.q_deg() != (2 * ea + 4 * eb) as isize {
                            q_ok = false; qdetail = format!("d_matrix({})[{},{}]: {} (q={}) -> {} (q={}) entry {} has monomial H^{} T^{}", is[p], ri, cj, x, x.q_deg(), y, y.q_deg(), a, ea, eb);
                        }
                    }
                }
            }
        }
        s.oracle(q_ok, "with deg h = -2, deg t = -4 the differential is homogeneous of quantum degree 0: an entry x -> y is a combination of monomials H^a T^b with 2a + 4b = q(y) - q(x)", desc, &qdetail);
    }
    let _ = gens;
    Some(Exported { imin, ranks, mats })
}

fn hom_table<S>(cells: Vec<(isize, usize, Vec<S>)>, tor: &dyn Fn(&S) -> BigInt) -> String {
    table_txt(cells.into_iter().map(|(i, rk, ts)| ((i, None), group_txt(rk, ts.iter().map(|x| tor(x)).collect()))).collect())
}

fn direct_table<S>(l: &Link, h: &S, t: &S, red: bool, tor: &dyn Fn(&S) -> BigInt) -> String
where S: EucRing, for<'x> &'x S: EucRingOps<S> {
    let kh = KhHomology::new(l, h, t, red);
    hom_table(kh.support().map(|i| { let g = kh.get(i); (i, g.rank(), g.tors().iter().cloned().collect::<Vec<S>>()) }).collect(), tor)
}

/// homology of a complex given by matrices over `S`, through the library's own `GenericChainComplex`
fn matrix_table<S>(imin: isize, ranks: &[usize], mats: &[Vec<(usize, usize, S)>], tor: &dyn Fn(&S) -> BigInt) -> String
where S: EucRing, for<'x> &'x S: EucRingOps<S> {
    let k = ranks.len() as isize;
    let c = GenericChainComplex::<S>::generate(imin..imin + k, 1, |i| {
        let p = (i - imin) as usize;
        let rows = if p + 1 < ranks.len() { ranks[p + 1] } else { 0 };
        SpMat::from_entries((rows, ranks[p]), mats[p].iter().cloned())
    });
    let h = c.homology();
    hom_table(h.support().map(|i| { let g = h.get(i); (i, g.rank(), g.tors().iter().cloned().collect::<Vec<S>>()) }).collect(), tor)
}

fn mats_txt(ranks: &[usize], mats: &[Vec<(usize, usize, i64)>]) -> String {
    let k = ranks.len();
    let mut out: Vec<String> = ranks.iter().map(|r| r.to_string()).collect();
    for p in 0..k.saturating_sub(1) {
        let mut e = mats[p].clone();
        e.sort();
        out.push(format!("{}x{}:{}", ranks[p + 1], ranks[p], e.iter().map(|(i, j, v)| format!("{}.{}.{}", i, j, v)).collect::<Vec<_>>().join(",")));
    }
    out.join(" ")
}

fn eval_entry<S>(terms: &[(usize, usize, S)], h0: &S, t0: &S) -> S
where S: Ring, for<'x> &'x S: RingOps<S> {
    let mut acc = S::zero();
    for (a, b, c) in terms {
        let mut v = c.clone();
        for _ in 0..*a { v = &v * h0; }
        for _ in 0..*b { v = &v * t0; }
        acc = acc + v;
    }
    acc
}

struct Ctx<'a> { name: &'a str, link: &'a Link, red: bool, lean_ref: bool }

/// integer complex ⇒ `hom` request for the Lean driver; the implementation's side of the line is the
/// directly built homology table (so matrices / reference / direct must all agree)
fn lean_hom(s: &mut Sink, cx: &Ctx, h0: i64, t0: i64, imin: isize, ranks: &[usize], mats: &[Vec<(usize, usize, i64)>], direct: &str, use_ref: bool) {
    let req = format!("hom {} {} {} {} {} {} {} | {}", h0, t0, cx.red as u8, use_ref as u8, imin, ranks.len(), mats_txt(ranks, mats), link_txt(cx.link));
    let reply = format!("dd=ok mat={} ref={}", direct, if use_ref { direct } else { "-" });
    s.count(if use_ref { "hom.with-reference" } else { "hom.matrices-only" });
    s.case(&req, &reply, cx.link.crossing_num() >= 2);
}

/// polynomial complex evaluated at points vs. the complex built directly there
fn specialise<P, S>(s: &mut Sink, r: &mut Rng, cx: &Ctx, ring: &str, ex: &Exported<P>, pts: &[(i64, i64)], conv: &dyn Fn(i64) -> S,
                    tor: &dyn Fn(&S) -> BigInt, to_i64: Option<&dyn Fn(&S) -> i64>, n_ref: usize)
where P: Entry<Base = S>, S: EucRing, for<'x> &'x S: EucRingOps<S> {
    let mut ref_budget = n_ref;
    let mut order: Vec<usize> = (0..pts.len()).collect();
    r.shuffle(&mut order);
    for (rank_in_order, &pi) in order.iter().enumerate() {
        let (h0, t0) = pts[pi];
        let (hs, ts) = (conv(h0), conv(t0));
        let mats: Vec<Vec<(usize, usize, S)>> = ex.mats.iter().map(|m| m.iter().map(|(i, j, a)| (*i, *j, eval_entry(&a.terms(), &hs, &ts))).filter(|(_, _, v)| !v.is_zero()).collect()).collect();
        let desc = format!("{} ring={} reduced={} built with polynomial parameters, evaluated at (h,t)=({},{}) link: {}", cx.name, ring, cx.red, h0, t0, link_txt(cx.link));
        let ev = guard(|| matrix_table(ex.imin, &ex.ranks, &mats, tor));
        let l2 = cx.link.clone(); let red = cx.red;
        let direct = guard(|| direct_table(&l2, &hs, &ts, red, tor));
        let (Some(ev), Some(direct)) = (ev, direct) else {
            s.oracle(false, "the library computes the homology of the evaluated / directly built complex without panic", &desc, "panic");
            continue
        };
        s.oracle(ev == direct, "a complex built with polynomial parameters (H,T) and evaluated at (h,t) has the same homology as the complex built directly with (h,t)",
            &desc, &format!("evaluated: {} | direct: {}", ev, direct));
        s.count(&format!("spec.{}", ring));
        s.eval_only(&desc, cx.link.crossing_num() >= 2);
        if let Some(f) = to_i64 {
            let im: Vec<Vec<(usize, usize, i64)>> = mats.iter().map(|m| m.iter().map(|(i, j, v)| (*i, *j, f(v))).collect()).collect();
            let use_ref = cx.lean_ref && (n_ref == usize::MAX || (ref_budget > 0 && rank_in_order < n_ref));
            if use_ref { ref_budget -= 1; }
            lean_hom(s, cx, h0, t0, ex.imin, &ex.ranks, &im, &direct, use_ref);
        }
    }
}

fn build<R>(s: &mut Sink, cx: &Ctx, ring: &str, h: &R, t: &R, htxt: &str, graded: bool) -> Option<Exported<R>>
where R: Ring + Entry + Send + Sync + 'static, for<'x> &'x R: RingOps<R> {
    let desc = format!("{} ring={} (h,t)=({}) reduced={} link: {}", cx.name, ring, htxt, cx.red, link_txt(cx.link));
    let (l, h2, t2, red) = (cx.link.clone(), h.clone(), t.clone(), cx.red);
    let c = match guard_timeout(120, move || KhComplex::<R>::new(&l, &h2, &t2, red)) {
        Some(Some(c)) => c,
        other => { s.oracle(false, "KhComplex::new terminates without panic on a valid diagram", &desc, if other.is_none() { "timeout" } else { "panic" }); return None }
    };
    s.count(&format!("complex.ring.{}", ring));
    s.count(&format!("complex.crossings.{}", cx.link.crossing_num()));
    s.count(if cx.red { "complex.reduced" } else { "complex.unreduced" });
    let total: usize = c.h_range().map(|i| c.rank(i)).sum();
    s.count(&format!("complex.generators.{}", match total { 0..=2 => "0-2", 3..=8 => "3-8", 9..=32 => "9-32", _ => "33+" }));
    s.eval_only(&desc, cx.link.crossing_num() >= 2);
    let mut out = None;
    guarded_case(s, &desc, |s| { out = check_complex(s, &desc, &c, graded); });
    out
}

fn complexes_for(s: &mut Sink, r: &mut Rng, cx: &Ctx, thorough: bool) {
    let bigz = |x: &i64| BigInt::from(*x);
    let nonempty = !cx.link.is_empty();
    // numeric rings
    let hts: Vec<(i64, i64)> = if cx.red { vec![(0, 0), (1, 0), (-2, 0), (3, 0)] } else { vec![(0, 0), (1, 0), (0, 1), (2, 3), (-1, 5)] };
    for &(h, t) in &hts {
        let g0 = (h, t) == (0, 0);
        let htxt = format!("{},{}", h, t);
        if g0 || r.chance(1, 2) || thorough {
            if let Some(ex) = build::<i64>(s, cx, "i64", &h, &t, &htxt, g0) {
                // the integer complex itself goes to the Lean checker; its homology must be the directly computed one
                let l2 = cx.link.clone(); let red = cx.red;
                if let Some(direct) = guard(|| direct_table(&l2, &h, &t, red, &bigz)) {
                    let use_ref = cx.lean_ref;
                    lean_hom(s, cx, h, t, ex.imin, &ex.ranks, &ex.mats, &direct, use_ref);
                }
            }
        }
        if g0 || r.chance(1, 3) { build::<Ratio<i64>>(s, cx, "Ratio<i64>", &Ratio::from(h), &Ratio::from(t), &htxt, g0); }
        if g0 || r.chance(1, 3) { build::<FF2>(s, cx, "FF2", &FF2::from(h), &FF2::from(t), &htxt, h % 2 == 0 && t % 2 == 0); }
        if g0 || r.chance(1, 3) { build::<FF<3>>(s, cx, "FF<3>", &FF::<3>::new(h as i32), &FF::<3>::new(t as i32), &htxt, h % 3 == 0 && t % 3 == 0); }
    }
    // polynomial rings
    type PH = Poly<'H', i64>; type PT = Poly<'T', i64>; type P2 = Poly2<'H', 'T', i64>;
    type PHQ = Poly<'H', Ratio<i64>>; type PHF = Poly<'H', FF2>;
    let n_ref = if cx.link.crossing_num() <= 6 { usize::MAX } else { 4 };
    let id = |x: &i64| *x;
    {
        let pts: Vec<(i64, i64)> = (-2..=2).map(|h| (h, 0)).collect();
        if let Some(ex) = build::<PH>(s, cx, "Poly<H,i64>", &PH::variable(), &PH::zero(), "H,0", true) {
            specialise::<PH, i64>(s, r, cx, "Poly<H,i64>", &ex, &pts, &|x| x, &bigz, Some(&id), n_ref);
        }
        if let Some(ex) = build::<PHQ>(s, cx, "Poly<H,Ratio>", &PHQ::variable(), &PHQ::zero(), "H,0", true) {
            specialise::<PHQ, Ratio<i64>>(s, r, cx, "Poly<H,Ratio>", &ex, &pts, &|x| Ratio::from(x), &|_| BigInt::from(0), None, 0);
        }
        if let Some(ex) = build::<PHF>(s, cx, "Poly<H,FF2>", &PHF::variable(), &PHF::zero(), "H,0", true) {
            specialise::<PHF, FF2>(s, r, cx, "Poly<H,FF2>", &ex, &[(0, 0), (1, 0)], &|x| FF2::from(x), &|_| BigInt::from(0), None, 0);
        }
    }
    if !cx.red {
        let pts: Vec<(i64, i64)> = (-2..=2).map(|t| (0, t)).collect();
        if let Some(ex) = build::<PT>(s, cx, "Poly<T,i64>", &PT::zero(), &PT::variable(), "0,T", true) {
            specialise::<PT, i64>(s, r, cx, "Poly<T,i64>", &ex, &pts, &|x| x, &bigz, Some(&id), n_ref);
        }
        let mut pts: Vec<(i64, i64)> = vec![];
        for h in -2..=2 { for t in -2..=2 { pts.push((h, t)); } }
        if let Some(ex) = build::<P2>(s, cx, "Poly2<H,T,i64>", &P2::variable(0), &P2::variable(1), "H,T", true) {
            specialise::<P2, i64>(s, r, cx, "Poly2<H,T,i64>", &ex, &pts, &|x| x, &bigz, Some(&id), n_ref.saturating_add(2));
        }
    }
    let _ = nonempty;
}

/// the constructor's assertion: reduced needs a non-empty link and t = 0
fn ctor_guard(s: &mut Sink, name: &str, l: &Link, t: i64, red: bool) {
    let req = format!("new {} {} {}", red as u8, (!l.is_empty()) as u8, (t == 0) as u8);
    let l2 = l.clone();
    let reply = match guard(move || { let _ = KhComplex::<i64>::new(&l2, &1, &t, red); }) { Some(_) => "ok", None => "panic" };
    s.count(&format!("ctor.{}", reply));
    let _ = name;
    s.case(&req, reply, true);
}

// ---------------------------------------------------------------------------------------------
// (iii) structural operations on tangles and cobordisms (`tng.rs`, `cob.rs`, `path.rs`) against the Lean model
//       `Yuiv/Model/C05Tng.lean`: request kinds tp tn ta tc tv tr ck cc cn co kq kc ks kp ki.
//       Raw inputs (edge lists as given), canonical outputs (paths up to the Rust `PartialEq` of `TngComp`).

mod structural {
    use super::*;
    use yui_kh::kh::internal::v2::cob::{Bottom, Dot};
    use yui_link::Crossing;

    #[derive(Clone, Debug)]
    pub struct PSpec { pub closed: bool, pub edges: Vec<usize> }
    pub type TSpec = Vec<PSpec>;
    #[derive(Clone, Debug)]
    pub struct CSpec { pub src: TSpec, pub tgt: TSpec, pub g: usize, pub x: usize, pub y: usize }
    pub type KSpec = Vec<CSpec>;

    // ----- raw text (requests)
    fn edges_txt(e: &[usize]) -> String { e.iter().map(|x| x.to_string()).collect::<Vec<_>>().join(".") }
    pub fn p_raw(p: &PSpec) -> String { format!("{}{}", if p.closed { "C" } else { "A" }, edges_txt(&p.edges)) }
    pub fn t_raw(t: &TSpec) -> String { if t.is_empty() { "_".into() } else { t.iter().map(p_raw).collect::<Vec<_>>().join(",") } }
    pub fn c_raw(c: &CSpec) -> String { format!("{}/{}/{}/{}/{}", t_raw(&c.src), t_raw(&c.tgt), c.g, c.x, c.y) }
    pub fn k_raw(k: &KSpec) -> String { if k.is_empty() { "_".into() } else { k.iter().map(c_raw).collect::<Vec<_>>().join("+") } }

    // ----- building the real objects (may panic: callers guard)
    pub fn mk_p(p: &PSpec) -> TngComp { if p.closed { TngComp::circ(p.edges.clone()) } else { TngComp::arc(p.edges.clone()) } }
    pub fn mk_t(t: &TSpec) -> Tng { Tng::new(t.iter().map(mk_p).collect::<Vec<_>>()) }
    pub fn mk_c(c: &CSpec) -> CobComp { CobComp::new(mk_t(&c.src), mk_t(&c.tgt), c.g, (c.x, c.y)) }
    pub fn mk_k(k: &KSpec) -> Cob { Cob::new(k.iter().map(mk_c).collect::<Vec<_>>()) }

    // ----- canonical text (replies)
    fn canon_edges(closed: bool, e: &[usize]) -> Vec<usize> {
        let rev: Vec<usize> = e.iter().rev().cloned().collect();
        if closed {
            let n = e.len();
            let mut best: Option<Vec<usize>> = None;
            for s in [e.to_vec(), rev] {
                for i in 0..n {
                    let mut v = s[i..].to_vec(); v.extend_from_slice(&s[..i]);
                    if best.as_ref().map(|b| v < *b).unwrap_or(true) { best = Some(v) }
                }
            }
            best.unwrap_or_default()
        } else if rev < e.to_vec() { rev } else { e.to_vec() }
    }
    pub fn p_txt(p: &TngComp) -> String {
        format!("{}{}", if p.is_circle() { "C" } else { "A" }, edges_txt(&canon_edges(p.is_circle(), p.path().edges())))
    }
    pub fn t_txt(t: &Tng) -> String { if t.is_empty() { "_".into() } else { t.comps().map(p_txt).collect::<Vec<_>>().join(",") } }
    /// the private `dots` pair, recovered through the public constructor and the derived equality
    pub fn dots_of(c: &CobComp) -> (usize, usize) {
        let n = c.ndots();
        for x in 0..=n {
            let cand = guard(|| CobComp::new(c.src().clone(), c.tgt().clone(), c.genus(), (x, n - x)));
            if let Some(cand) = cand { if cand == *c { return (x, n - x) } }
        }
        // end points of src and tgt differ (only reachable through convert_edges): fall back on the Debug text
        let d = format!("{:?}", c);
        let tail = d.rsplit("dots: (").next().unwrap_or("");
        let nums: Vec<usize> = tail.split(|ch: char| !ch.is_ascii_digit()).filter(|s| !s.is_empty()).filter_map(|s| s.parse().ok()).collect();
        if nums.len() >= 2 { (nums[0], nums[1]) } else { (n, 0) }
    }
    pub fn c_txt(c: &CobComp) -> String {
        let (x, y) = dots_of(c);
        format!("{}/{}/{}/{}/{}", t_txt(c.src()), t_txt(c.tgt()), c.genus(), x, y)
    }
    pub fn k_txt(k: &Cob) -> String { if k.is_empty() { "_".into() } else { k.comps().map(c_txt).collect::<Vec<_>>().join("+") } }
    fn nats_txt(mut v: Vec<usize>) -> String { if v.is_empty() { return "-".into() } v.sort(); edges_txt(&v) }
    fn or_panic<T>(x: Option<T>, f: impl FnOnce(T) -> String) -> String { match x { Some(v) => f(v), None => "panic".into() } }
    fn b(x: bool) -> u8 { x as u8 }

    pub fn t_info(t: &Tng) -> String {
        let lp = t.find_comp(|c| c.is_circle());
        let rm = match lp {
            None => "-".to_string(),
            Some(i) => or_panic(guard(|| { let mut u = t.clone(); let c = u.remove_at(i); (c, u) }), |(c, u)| format!("{}:{}", p_txt(&c), t_txt(&u))),
        };
        format!("t={} end={} eu={} loop={} closed={} rm={}", t_txt(t), nats_txt(t.endpts().into_iter().collect()), t.euler_num(),
            lp.map(|i| i.to_string()).unwrap_or("-".into()), b(t.is_closed()), rm)
    }
    pub fn c_info(c: &CobComp) -> String {
        let flags = format!("{}{}{}{}{}{}", b(c.is_closed()), b(c.is_cyl()), b(c.is_id()), b(c.is_invertible()), b(c.is_zero_cob()), b(c.is_unit_cob()));
        let inv = or_panic(guard(|| c.inv()), |o| o.map(|i| c_txt(&i)).unwrap_or("-".into()));
        format!("c={} nb={} eu={} deg={} end={} f={} inv={}", c_txt(c),
            or_panic(guard(|| c.nbdr_comps()), |n| n.to_string()), or_panic(guard(|| c.euler_num()), |n| n.to_string()),
            or_panic(guard(|| c.deg()), |n| n.to_string()), nats_txt(c.endpts().into_iter().collect()), flags, inv)
    }
    pub fn k_info(k: &Cob) -> String {
        let inv = or_panic(guard(|| k.inv()), |o| o.map(|i| k_txt(&i)).unwrap_or("-".into()));
        format!("k={} src={} tgt={} nb={} eu={} deg={} f={}{}{} inv={}", k_txt(k),
            or_panic(guard(|| k.src()), |t| t_txt(&t)), or_panic(guard(|| k.tgt()), |t| t_txt(&t)),
            or_panic(guard(|| k.nbdr_comps()), |n| n.to_string()), or_panic(guard(|| k.euler_num()), |n| n.to_string()),
            or_panic(guard(|| k.deg()), |n| n.to_string()), b(k.is_closed()), b(k.is_invertible()), b(k.is_zero_cob()), inv)
    }

    // ----- generators: every label is used once per tangle; end points come from a small pool, everything else is fresh
    pub struct Gen { pub fresh: usize }
    impl Gen {
        pub fn new() -> Self { Gen { fresh: 100 } }
        fn next(&mut self) -> usize { self.fresh += 1; self.fresh }
        pub fn arc(&mut self, r: &mut Rng, e: usize, f: usize) -> PSpec {
            let mut edges = vec![e];
            for _ in 0..r.below(3) { edges.push(self.next()); }
            edges.push(f);
            if r.bool() { edges.reverse(); }
            PSpec { closed: false, edges }
        }
        pub fn circ(&mut self, r: &mut Rng) -> PSpec {
            let n = 1 + r.below(3);
            PSpec { closed: true, edges: (0..n).map(|_| self.next()).collect() }
        }
        /// random perfect matching of the end points + `ncirc` circles, in random order
        pub fn tangle(&mut self, r: &mut Rng, ends: &[usize], ncirc: usize) -> TSpec {
            // orientable boundaries: an arc joins an even with an odd end point (surplus end points are paired arbitrarily)
            let mut ev: Vec<usize> = ends.iter().cloned().filter(|e| e % 2 == 0).collect();
            let mut od: Vec<usize> = ends.iter().cloned().filter(|e| e % 2 == 1).collect();
            r.shuffle(&mut ev); r.shuffle(&mut od);
            let m = ev.len().min(od.len());
            let mut e: Vec<usize> = vec![];
            for i in 0..m { e.push(ev[i]); e.push(od[i]); }
            e.extend_from_slice(&ev[m..]); e.extend_from_slice(&od[m..]);
            let mut t: TSpec = e.chunks(2).filter(|c| c.len() == 2).map(|c| self.arc(r, c[0], c[1])).collect();
            for _ in 0..ncirc { t.push(self.circ(r)); }
            r.shuffle(&mut t);
            t
        }
        pub fn comp(&mut self, r: &mut Rng, ends: &[usize]) -> CSpec {
            let (cs, ct) = (r.below(3) as usize / 2 + (r.below(4) == 0) as usize, r.below(3) as usize / 2 + (r.below(4) == 0) as usize);
            let src = self.tangle(r, ends, cs);
            let tgt = self.tangle(r, ends, ct);
            let g = if r.chance(1, 3) { 1 + r.below(2) as usize } else { 0 };
            let (x, y) = if r.chance(1, 2) { (0, 0) } else { (r.below(3) as usize, r.below(2) as usize) };
            CSpec { src, tgt, g, x, y }
        }
        /// a cobordism whose components live over disjoint subsets of `pool`
        pub fn cob(&mut self, r: &mut Rng, pool: &[usize], ncomp: usize, extra: bool) -> KSpec {
            let mut ev: Vec<usize> = pool.iter().cloned().filter(|e| e % 2 == 0).collect();
            let mut od: Vec<usize> = pool.iter().cloned().filter(|e| e % 2 == 1).collect();
            r.shuffle(&mut ev); r.shuffle(&mut od);
            let mut k: KSpec = vec![];
            let mut at = 0;
            for _ in 0..ncomp {
                let n = 1 + r.below(2) as usize;
                if at + n > ev.len().min(od.len()) { break }
                let mut e: Vec<usize> = ev[at..at + n].to_vec(); e.extend_from_slice(&od[at..at + n]);
                k.push(self.comp(r, &e));
                at += n;
            }
            if extra {
                if r.chance(1, 3) { let c = self.circ(r); k.push(CSpec { src: vec![], tgt: vec![c], g: 0, x: r.below(2) as usize, y: 0 }); }
                if r.chance(1, 3) { let c = self.circ(r); k.push(CSpec { src: vec![c], tgt: vec![], g: 0, x: 0, y: r.below(2) as usize }); }
                if r.chance(1, 4) { k.push(CSpec { src: vec![], tgt: vec![], g: r.below(3) as usize, x: r.below(2) as usize, y: r.below(2) as usize }); }
                if r.chance(1, 3) { let (c, d) = (self.circ(r), self.circ(r)); k.push(CSpec { src: vec![c], tgt: vec![d], g: 0, x: 0, y: 0 }); }
            }
            r.shuffle(&mut k);
            k
        }
    }
    fn subset(r: &mut Rng, pool: usize, n: usize) -> Vec<usize> {
        let mut p: Vec<usize> = (0..pool).collect();
        r.shuffle(&mut p);
        p.truncate(n);
        p
    }
    /// `n/2` even and `n/2` odd labels below `pool`
    fn balanced(r: &mut Rng, pool: usize, n: usize) -> Vec<usize> {
        let mut ev: Vec<usize> = (0..pool).filter(|e| e % 2 == 0).collect();
        let mut od: Vec<usize> = (0..pool).filter(|e| e % 2 == 1).collect();
        r.shuffle(&mut ev); r.shuffle(&mut od);
        ev.truncate(n / 2); od.truncate(n / 2);
        ev.extend(od);
        ev
    }
    fn spec_of_t(t: &Tng) -> TSpec { t.comps().map(|c| PSpec { closed: c.is_circle(), edges: c.path().edges().clone() }).collect() }
    fn spec_of_c(c: &CobComp) -> CSpec { let (x, y) = dots_of(c); CSpec { src: spec_of_t(c.src()), tgt: spec_of_t(c.tgt()), g: c.genus(), x, y } }
    /// same component, other representative: reversed arc / rotated, reflected circle
    fn rerep(r: &mut Rng, p: &PSpec) -> PSpec {
        let mut e = p.edges.clone();
        if p.closed && !e.is_empty() { let k = r.below(e.len() as u64) as usize; e.rotate_left(k); }
        if r.bool() { e.reverse(); }
        PSpec { closed: p.closed, edges: e }
    }

    // ----- request kinds
    pub fn tp(s: &mut Sink, p: &PSpec, q: &PSpec, valid: bool) {
        let req = format!("tp {} {}", p_raw(p), p_raw(q));
        let reply = match (guard(|| mk_p(p)), guard(|| mk_p(q))) {
            (Some(a), Some(c)) => {
                let pq = guard(|| { let mut x = a.clone(); x.connect(c.clone()); x });
                let qp = guard(|| { let mut x = c.clone(); x.connect(a.clone()); x });
                let red = { let mut x = a.path().clone(); x.reduce(); format!("{}{}", if x.is_circle() { "C" } else { "A" }, edges_txt(x.edges())) };
                let cmp = match a.cmp(&c) { std::cmp::Ordering::Less => 0, std::cmp::Ordering::Equal => 1, _ => 2 };
                if valid {
                    let inp = format!("TngComp {} , {}", p_raw(p), p_raw(q));
                    match (&pq, &qp) {
                        (Some(x), Some(y)) => {
                            s.oracle(x == y, "TngComp::connect gives the same component (Rust equality) in either argument order", &inp, &format!("{} vs {}", p_txt(x), p_txt(y)));
                            let (pe, qe) = (a.endpts().unwrap(), c.endpts().unwrap());
                            let mut sym: Vec<usize> = vec![];
                            for e in [pe.0, pe.1] { if e != qe.0 && e != qe.1 { sym.push(e) } }
                            for e in [qe.0, qe.1] { if e != pe.0 && e != pe.1 { sym.push(e) } }
                            sym.sort();
                            let mut got: Vec<usize> = x.endpts().map(|(u, v)| vec![u, v]).unwrap_or_default(); got.sort();
                            s.oracle(got == sym && x.is_circle() == sym.is_empty(), "the end points of connected arcs are the symmetric difference of the end points; the result is a circle exactly when both ends are shared", &inp, &p_txt(x));
                            s.oracle(x.len() + (pe.0 == qe.0 || pe.0 == qe.1) as usize + (pe.1 == qe.0 || pe.1 == qe.1) as usize == a.len() + c.len(),
                                "connecting arcs keeps every edge once (length adds up minus the shared end points)", &inp, &p_txt(x));
                        }
                        (None, None) => s.oracle(!a.is_connectable(&c), "TngComp::connect succeeds on connectable arcs", &inp, "panic"),
                        _ => s.oracle(false, "TngComp::connect gives the same component (Rust equality) in either argument order", &inp, "one order panics"),
                    }
                }
                format!("conn={} eq={} cmp={} pq={} qp={} red={}", b(a.is_connectable(&c)), b(a == c), cmp, or_panic(pq, |x| p_txt(&x)), or_panic(qp, |x| p_txt(&x)), red)
            }
            _ => "panic".into(),
        };
        s.count("struct.tp");
        s.case(&req, &reply, p.edges.len() + q.edges.len() >= 4);
    }

    pub fn tn(s: &mut Sink, t: &TSpec) {
        let reply = or_panic(guard(|| mk_t(t)), |x| t_info(&x));
        s.count("struct.tn");
        s.case(&format!("tn {}", t_raw(t)), &reply, t.len() >= 2);
    }
    pub fn ta(s: &mut Sink, t: &TSpec, p: &PSpec) {
        let reply = or_panic(guard(|| { let mut x = mk_t(t); x.append_arc(mk_p(p)); x }), |x| t_info(&x));
        if reply == "panic" { s.count("struct.ta.panic"); }
        s.count("struct.ta");
        s.case(&format!("ta {} {}", t_raw(t), p_raw(p)), &reply, t.len() >= 1);
    }
    pub fn tc(s: &mut Sink, t: &TSpec, u: &TSpec, valid: bool) {
        let req = format!("tc {} {}", t_raw(t), t_raw(u));
        let reply = match (guard(|| mk_t(t)), guard(|| mk_t(u))) {
            (Some(a), Some(c)) => {
                let x = guard(|| a.connected(&c));
                let y = guard(|| c.connected(&a));
                let eq = match (&x, &y) { (Some(x), Some(y)) => b(x == y).to_string(), _ => "-".into() };
                if valid {
                    let inp = format!("Tng {} , {}", t_raw(t), t_raw(u));
                    match (&x, &y) {
                        (Some(x), Some(y)) => {
                            s.oracle(x == y, "Tng::connect gives the same tangle (Rust equality) in either argument order", &inp, &format!("{} vs {}", t_txt(x), t_txt(y)));
                            let (ea, ec) = (a.endpts(), c.endpts());
                            let mut sym: Vec<usize> = ea.symmetric_difference(&ec).cloned().collect(); sym.sort();
                            let mut got: Vec<usize> = x.endpts().into_iter().collect(); got.sort();
                            s.oracle(got == sym, "the end points of connected tangles are the symmetric difference of the end points", &inp, &t_txt(x));
                            let shared = ea.intersection(&ec).count();
                            let len = |t: &Tng| t.comps().map(|c| c.len()).sum::<usize>();
                            s.oracle(len(x) + shared == len(&a) + len(&c), "connecting tangles keeps every edge once", &inp, &t_txt(x));
                        }
                        _ => s.oracle(false, "Tng::connect of valid tangles does not panic", &inp, "panic"),
                    }
                }
                format!("{} r={} eq={}", or_panic(x, |x| t_info(&x)), or_panic(y, |y| t_txt(&y)), eq)
            }
            _ => "panic".into(),
        };
        if reply.starts_with("panic") { s.count("struct.tc.panic"); }
        s.count("struct.tc");
        s.case(&req, &reply, t.len() + u.len() >= 3);
    }
    pub fn tv(s: &mut Sink, t: &TSpec, mode: usize, k: usize) {
        let reply = or_panic(guard(|| {
            let x = mk_t(t);
            match mode { 0 => x.convert_edges(|e| e + k), 1 => x.convert_edges(|e| k - e), _ => x.convert_edges(|e| e / (k + 1)) }
        }), |x| t_txt(&x));
        s.count("struct.tv");
        s.case(&format!("tv {} {} {}", t_raw(t), mode, k), &reply, t.len() >= 2);
    }
    pub fn tr(s: &mut Sink, t: &TSpec, i: usize) {
        let reply = or_panic(guard(|| { let mut x = mk_t(t); let c = x.remove_at(i); (c, x) }), |(c, x)| format!("{}:{}", p_txt(&c), t_txt(&x)));
        s.count("struct.tr");
        s.case(&format!("tr {} {}", t_raw(t), i), &reply, t.len() >= 2);
    }
    pub fn ck(s: &mut Sink, kind: &str, ps: &[PSpec], g: usize) {
        let req = if kind == "cls" { format!("ck cls {}", g) } else { format!("ck {} {}", kind, ps.iter().map(p_raw).collect::<Vec<_>>().join(" ")) };
        let reply = or_panic(guard(|| {
            let q: Vec<TngComp> = ps.iter().map(mk_p).collect();
            match kind {
                "cls" => CobComp::closed(g),
                "id" => CobComp::id(q[0].clone()),
                "sdl" => CobComp::sdl((q[0].clone(), q[1].clone()), (q[2].clone(), q[3].clone())),
                "mrg" => CobComp::merge((q[0].clone(), q[1].clone()), q[2].clone()),
                "spl" => CobComp::split(q[0].clone(), (q[1].clone(), q[2].clone())),
                "cup" => CobComp::cup(q[0].clone()),
                _ => CobComp::cap(q[0].clone()),
            }
        }), |c| c_info(&c));
        s.count(&format!("struct.ck.{}", kind));
        s.case(&req, &reply, true);
    }
    pub fn cc(s: &mut Sink, c: &CSpec) {
        let reply = or_panic(guard(|| mk_c(c)), |x| {
            if let (Some(eu), Some(nb)) = (guard(|| x.euler_num()), guard(|| x.nbdr_comps())) {
                s.oracle(eu == 2 - 2 * (x.genus() as i32) - nb as i32, "euler_num = 2 - 2*genus - #boundary components", &c_raw(c), &eu.to_string());
            }
            c_info(&x)
        });
        if reply == "panic" { s.count("struct.cc.panic"); }
        s.count("struct.cc");
        s.case(&format!("cc {}", c_raw(c)), &reply, c.src.len() + c.tgt.len() >= 2);
    }
    pub fn cn(s: &mut Sink, c: &CSpec, d: &CSpec, valid: bool) {
        let req = format!("cn {} {}", c_raw(c), c_raw(d));
        let reply = match (guard(|| mk_c(c)), guard(|| mk_c(d))) {
            (Some(a), Some(e)) => {
                let x = guard(|| { let mut x = a.clone(); x.connect(e.clone()); x });
                let y = guard(|| { let mut y = e.clone(); y.connect(a.clone()); y });
                let eq = match (&x, &y) { (Some(x), Some(y)) => b(x == y).to_string(), _ => "-".into() };
                let shared = a.endpts().intersection(&e.endpts()).count();
                if valid {
                    let inp = format!("CobComp {} , {}", c_raw(c), c_raw(d));
                    match (&x, &y) {
                        (Some(x), Some(y)) => {
                            s.count("struct.cn.connected");
                            s.oracle(x == y, "CobComp::connect (horizontal composition) gives the same component (Rust equality) in either argument order", &inp, &format!("{} vs {}", c_txt(x), c_txt(y)));
                            s.oracle(x.euler_num() == a.euler_num() + e.euler_num() - shared as i32 && x.euler_num() == 2 - 2 * (x.genus() as i32) - x.nbdr_comps() as i32,
                                "Euler characteristic of a horizontal composite: chi = chi1 + chi2 - #shared end points = 2 - 2*genus - #boundary", &inp, &c_txt(x));
                            s.oracle(x.deg() == a.deg() + e.deg(), "deg is additive under horizontal composition of components", &inp, &format!("{} vs {} + {}", x.deg(), a.deg(), e.deg()));
                            let mut sym: Vec<usize> = a.endpts().symmetric_difference(&e.endpts()).cloned().collect(); sym.sort();
                            let mut got: Vec<usize> = x.endpts().into_iter().collect(); got.sort();
                            let mut gott: Vec<usize> = x.tgt().endpts().into_iter().collect(); gott.sort();
                            s.oracle(got == sym && gott == sym, "end points of a horizontal composite are the symmetric difference (source and target)", &inp, &c_txt(x));
                        }
                        (None, None) => s.count("struct.cn.rejected"),
                        _ => s.oracle(false, "CobComp::connect (horizontal composition) gives the same component (Rust equality) in either argument order", &inp, "one order panics"),
                    }
                }
                format!("conn={} a={} {} rr={} eq={}", b(a.is_connectable(&e)), shared, or_panic(x, |x| c_info(&x)), or_panic(y, |y| c_txt(&y)), eq)
            }
            _ => "panic".into(),
        };
        s.count("struct.cn");
        s.case(&req, &reply, true);
    }
    fn bot_txt(bt: Bottom) -> &'static str { match bt { Bottom::Src => "S", Bottom::Tgt => "T" } }
    fn dot_txt(d: Dot) -> &'static str { match d { Dot::None => "N", Dot::X => "X", Dot::Y => "Y" } }
    fn disc_deg(d: Dot) -> i32 { if d == Dot::None { 1 } else { -1 } }
    pub fn co(s: &mut Sink, c: &CSpec, bt: Bottom, i: usize, dot: Dot) {
        let req = format!("co {} {} {} {}", c_raw(c), bot_txt(bt), i, dot_txt(dot));
        let reply = or_panic(guard(|| { let a = mk_c(c); let mut x = a.clone(); x.cap_off(bt, i); x.add_dot(dot); (a, x) }), |(a, x)| {
            if let (Some(d0), Some(d1)) = (guard(|| a.deg()), guard(|| x.deg())) {
                s.oracle(d1 == d0 + disc_deg(dot), "capping off a circle with a (dotted) disc changes deg by the degree of the disc (+1 plain, -1 dotted)", &req, &format!("{} -> {}", d0, d1));
            }
            c_info(&x)
        });
        s.count("struct.co");
        s.case(&req, &reply, true);
    }
    pub fn kq(s: &mut Sink, k: &KSpec, valid: bool) {
        let req = format!("kq {}", k_raw(k));
        let reply = or_panic(guard(|| mk_k(k)), |x| {
            if valid {
                // stacking with the identity cobordisms of source and target
                let r = guard(|| {
                    let (i0, i1) = (Cob::id(&x.src()), Cob::id(&x.tgt()));
                    let mut a = i0.clone(); a.stack(x.clone());
                    let mut c = x.clone(); c.stack(i1.clone());
                    let m = x.clone() * i0;       // `top * bot`
                    (a, c, m)
                });
                match r {
                    Some((a, c, m)) => {
                        s.oracle(a == x && c == x && m == x, "stacking with the identity cobordism (below / above, through `stack` and `*`) is the identity", &req,
                            &format!("{} | {} | {}", k_txt(&a), k_txt(&c), k_txt(&m)));
                        s.count("struct.kq.stack-id");
                    }
                    None => {
                        let ok = guard(|| (x.euler_num(), x.src(), x.tgt())).is_some();
                        s.oracle(!ok, "stacking with the identity cobordism does not panic on a cobordism whose boundary and Euler number are computable", &req, "panic");
                    }
                }
                if x.is_invertible() {
                    let r = guard(|| {
                        let inv = x.inv().unwrap();
                        let mut a = x.clone(); a.stack(inv.clone());
                        let mut c = inv.clone(); c.stack(x.clone());
                        (a == Cob::id(&x.src()), c == Cob::id(&x.tgt()))
                    });
                    s.oracle(r == Some((true, true)), "inv of an invertible cobordism is a two-sided inverse under stacking", &req, &format!("{:?}", r));
                    s.count("struct.kq.inverse");
                }
            }
            k_info(&x)
        });
        s.count("struct.kq");
        s.case(&req, &reply, k.len() >= 2);
    }
    pub fn kc(s: &mut Sink, k: &KSpec, l: &KSpec, valid: bool) {
        let req = format!("kc {} {}", k_raw(k), k_raw(l));
        let reply = match (guard(|| mk_k(k)), guard(|| mk_k(l))) {
            (Some(a), Some(e)) => {
                let x = guard(|| a.connected(&e));
                let y = guard(|| e.connected(&a));
                let eq = match (&x, &y) { (Some(x), Some(y)) => b(x == y).to_string(), _ => "-".into() };
                if valid {
                    match (&x, &y) {
                        (Some(x), Some(y)) => {
                            s.count("struct.kc.connected");
                            s.oracle(x == y, "Cob::connect (horizontal composition) gives the same cobordism (Rust equality) in either argument order", &req, &format!("{} vs {}", k_txt(x), k_txt(y)));
                            if let Some((d, da, de)) = guard(|| (x.deg(), a.deg(), e.deg())) {
                                s.oracle(d == da + de, "deg is additive under horizontal composition of cobordisms", &req, &format!("{} vs {} + {}", d, da, de));
                            }
                            if let Some((sx, sa)) = guard(|| (x.src(), a.src().connected(&e.src()))) {
                                s.oracle(sx == sa, "the source of a horizontal composite is the connected tangle of the sources", &req, &format!("{} vs {}", t_txt(&sx), t_txt(&sa)));
                            }
                        }
                        (None, None) => s.count("struct.kc.rejected"),
                        _ => s.oracle(false, "Cob::connect (horizontal composition) gives the same cobordism (Rust equality) in either argument order", &req, "one order panics"),
                    }
                }
                format!("{} rr={} eq={}", or_panic(x, |x| k_info(&x)), or_panic(y, |y| k_txt(&y)), eq)
            }
            _ => "panic".into(),
        };
        s.count("struct.kc");
        s.case(&req, &reply, k.len() + l.len() >= 2);
    }
    pub fn ks(s: &mut Sink, bot: &KSpec, top: &KSpec, valid: bool) {
        let req = format!("ks {} {}", k_raw(bot), k_raw(top));
        let reply = match (guard(|| mk_k(bot)), guard(|| mk_k(top))) {
            (Some(a), Some(e)) => {
                let x = guard(|| { let mut x = a.clone(); x.stack(e.clone()); x });
                let m = guard(|| e.clone() * a.clone());
                let same = match (&x, &m) { (Some(x), Some(m)) => x == m, (None, None) => true, _ => false };
                if valid {
                    match &x {
                        Some(x) => {
                            s.count("struct.ks.stacked");
                            if let Some((d, da, de)) = guard(|| (x.deg(), a.deg(), e.deg())) {
                                s.oracle(d == da + de, "deg is additive under vertical composition (stacking) of cobordisms", &req, &format!("{} vs {} + {}", d, da, de));
                            }
                            if let Some((sx, sa, tx, te)) = guard(|| (x.src(), a.src(), x.tgt(), e.tgt())) {
                                s.oracle(sx == sa && tx == te, "a stacked cobordism goes from the source of the lower to the target of the upper one", &req, &k_txt(x));
                            }
                        }
                        None => s.count("struct.ks.rejected"),
                    }
                }
                format!("stk={} {}{}", b(a.is_stackable(&e)), or_panic(x, |x| k_info(&x)), if same { "" } else { " mul!=stack" })
            }
            _ => "panic".into(),
        };
        s.count("struct.ks");
        s.case(&req, &reply, bot.len() + top.len() >= 2);
    }
    pub fn kp(s: &mut Sink, k: &KSpec, bt: Bottom, p: &PSpec, dot: Dot) {
        let req = format!("kp {} {} {} {}", k_raw(k), bot_txt(bt), p_raw(p), dot_txt(dot));
        let reply = or_panic(guard(|| { let a = mk_k(k); let mut x = a.clone(); x.cap_off(bt, &mk_p(p), dot); (a, x) }), |(a, x)| {
            if let (Some(d0), Some(d1)) = (guard(|| a.deg()), guard(|| x.deg())) {
                s.oracle(d1 == d0 + disc_deg(dot), "Cob::cap_off changes deg by the degree of the (dotted) disc", &req, &format!("{} -> {}", d0, d1));
            }
            s.count("struct.kp.capped");
            k_info(&x)
        });
        s.count("struct.kp");
        s.case(&req, &reply, true);
    }
    pub fn ki(s: &mut Sink, t: &TSpec) {
        let reply = or_panic(guard(|| Cob::id(&mk_t(t))), |x| k_info(&x));
        s.count("struct.ki");
        s.case(&format!("ki {}", t_raw(t)), &reply, t.len() >= 2);
    }

    /// a cobordism that can be stacked on `bot`: its sources partition the target components of `bot`
    fn top_for(g: &mut Gen, r: &mut Rng, bot: &KSpec) -> KSpec {
        let mut comps: Vec<PSpec> = bot.iter().flat_map(|c| c.tgt.iter().cloned()).collect();
        r.shuffle(&mut comps);
        let mut top: KSpec = vec![];
        let mut at = 0;
        while at < comps.len() {
            let n = (1 + r.below(3) as usize).min(comps.len() - at);
            let grp: Vec<PSpec> = comps[at..at + n].iter().map(|p| rerep(r, p)).collect();
            at += n;
            let ends: Vec<usize> = grp.iter().filter(|p| !p.closed).flat_map(|p| vec![p.edges[0], *p.edges.last().unwrap()]).collect();
            let tgt = { let n_ = (r.below(3) / 2) as usize; g.tangle(r, &ends, n_) };
            let gg = if r.chance(1, 4) { 1 } else { 0 };
            let (x, y) = if r.chance(2, 3) { (0, 0) } else { (r.below(2) as usize, r.below(2) as usize) };
            top.push(CSpec { src: grp, tgt, g: gg, x, y });
        }
        if r.chance(1, 4) { let c = g.circ(r); top.push(CSpec { src: vec![], tgt: vec![c], g: 0, x: 0, y: 0 }); }
        if r.chance(1, 6) { top.push(CSpec { src: vec![], tgt: vec![], g: r.below(2) as usize, x: 0, y: 0 }); }
        r.shuffle(&mut top);
        top
    }

    fn a(e: &[usize]) -> PSpec { PSpec { closed: false, edges: e.to_vec() } }
    fn c(e: &[usize]) -> PSpec { PSpec { closed: true, edges: e.to_vec() } }
    fn cs(src: Vec<PSpec>, tgt: Vec<PSpec>, g: usize, x: usize, y: usize) -> CSpec { CSpec { src, tgt, g, x, y } }

    pub fn run(s: &mut Sink, r: &mut Rng, thorough: bool) {
        use Bottom::{Src, Tgt};
        // ---- hand-written corpus (the unit tests of tng.rs / cob.rs / path.rs and the corners of the model)
        for (p, q) in [(a(&[1, 2, 3, 4]), a(&[4, 5])), (a(&[1, 2, 3, 4]), a(&[5, 4])), (a(&[1, 2, 3, 4]), a(&[6, 1])), (a(&[1, 2, 3, 4]), a(&[1, 6])),
                       (a(&[1, 2, 3, 4]), a(&[1])), (a(&[1, 2, 3, 4]), a(&[4])), (a(&[0, 1]), a(&[1, 2])), (a(&[0, 1, 2]), a(&[0, 2])), (a(&[0, 1, 2]), a(&[2, 0])),
                       (a(&[1]), a(&[1])), (a(&[0, 0]), a(&[0, 0])), (a(&[0, 0]), a(&[0, 5])), (a(&[1, 2]), a(&[3, 4])), (a(&[1, 2]), c(&[2])), (c(&[1, 2, 3]), c(&[3, 1, 2])),
                       (c(&[1, 2, 3, 4]), c(&[3, 2, 1, 4])), (c(&[1, 2, 3, 4]), c(&[1, 2, 4, 3])), (c(&[1, 2, 3]), a(&[1, 2, 3])), (a(&[1, 2, 3]), a(&[3, 2, 1])), (a(&[]), a(&[1])),
                       (c(&[1, 1, 2]), c(&[1, 2, 1])), (a(&[5, 1, 2, 0, 7]), a(&[7, 9])), (c(&[4, 2, 9]), c(&[2]))] {
            tp(s, &p, &q, false);
        }
        let t0 = vec![a(&[0, 1]), a(&[2, 3]), c(&[10])];
        let t1 = vec![a(&[1, 2]), a(&[3, 4]), c(&[11])];
        tc(s, &t0, &t1, true);
        tc(s, &vec![], &t0, true);
        tc(s, &t0, &vec![], true);
        tc(s, &vec![a(&[1, 2]), a(&[1, 3])], &vec![a(&[3, 4])], false);
        tc(s, &vec![a(&[1, 2]), a(&[3, 4])], &vec![a(&[2, 3]), a(&[4, 1])], true);
        tn(s, &vec![a(&[2, 3]), a(&[0, 1])]);
        tn(s, &vec![a(&[1, 3]), a(&[1, 2]), c(&[0])]);
        tn(s, &vec![c(&[5]), a(&[7, 8]), c(&[2, 9])]);
        tn(s, &vec![]);
        for (t, p) in [(vec![], a(&[0, 1])), (vec![a(&[0, 1])], a(&[2, 3])), (vec![a(&[0, 1]), a(&[2, 3])], a(&[1, 2])), (vec![a(&[0, 1, 2, 3])], a(&[0, 3])),
                       (vec![a(&[0, 1]), a(&[2, 3])], a(&[2, 3])), (vec![a(&[1, 2]), a(&[1, 3])], a(&[3, 4])), (vec![a(&[1, 2]), a(&[1, 3]), a(&[8, 9])], a(&[3, 4])),
                       (vec![a(&[0, 1])], c(&[5])), (vec![a(&[1]), c(&[7])], a(&[1]))] {
            ta(s, &t, &p);
        }
        tv(s, &t0, 0, 100); tv(s, &t0, 1, 10); tv(s, &t0, 2, 1); tv(s, &t0, 1, 15);
        tr(s, &t0, 2); tr(s, &t0, 3); tr(s, &t0, 0);
        ki(s, &t0); ki(s, &vec![]);
        ck(s, "cls", &[], 0); ck(s, "cls", &[], 3);
        ck(s, "id", &[a(&[1, 2])], 0); ck(s, "id", &[c(&[7])], 0);
        ck(s, "sdl", &[a(&[3, 4]), a(&[5, 6]), a(&[4, 5]), a(&[6, 3])], 0);
        ck(s, "sdl", &[a(&[3, 4]), a(&[5, 6]), a(&[4, 3]), a(&[6, 5])], 0);
        ck(s, "sdl", &[a(&[3, 4]), c(&[5, 6]), a(&[4, 5]), a(&[6, 3])], 0);
        ck(s, "sdl", &[a(&[3, 4]), a(&[5, 6]), a(&[4, 7]), a(&[6, 3])], 0);
        ck(s, "mrg", &[c(&[1]), c(&[2]), c(&[3])], 0); ck(s, "mrg", &[a(&[1, 2]), a(&[3, 4]), a(&[1, 4])], 0); ck(s, "mrg", &[c(&[9]), a(&[1, 2]), a(&[1, 2])], 0);
        ck(s, "spl", &[c(&[0]), c(&[1]), c(&[2])], 0); ck(s, "spl", &[a(&[1, 2]), a(&[1, 2]), a(&[3, 4])], 0);
        ck(s, "cup", &[c(&[20])], 0); ck(s, "cup", &[a(&[20, 21])], 0); ck(s, "cap", &[c(&[30])], 0); ck(s, "cap", &[a(&[30, 31])], 0);
        let big = cs(vec![a(&[1, 2]), a(&[3, 4]), c(&[10])], vec![a(&[1, 3]), a(&[2, 4]), c(&[11])], 0, 0, 0);
        cc(s, &big);
        cc(s, &cs(vec![a(&[1, 2])], vec![a(&[3, 4])], 0, 0, 0));
        cc(s, &cs(vec![a(&[1, 2]), a(&[3, 4])], vec![a(&[1, 2, 3, 4])], 0, 0, 0));
        cn(s, &big, &cs(vec![a(&[0, 1])], vec![a(&[0, 1])], 0, 0, 0), true);
        cn(s, &big, &cs(vec![a(&[1, 3])], vec![a(&[1, 3])], 0, 0, 0), true);
        cn(s, &big, &cs(vec![a(&[5, 6])], vec![a(&[5, 6])], 0, 0, 0), true);
        let strips = cs(vec![a(&[1, 2]), a(&[3, 4])], vec![a(&[1, 2]), a(&[3, 4])], 0, 0, 0);
        cn(s, &strips, &cs(vec![a(&[1, 3])], vec![a(&[1, 3])], 0, 1, 0), true);
        cn(s, &cs(vec![a(&[2, 1, 3, 4])], vec![a(&[2, 1, 3, 4])], 1, 0, 0), &cs(vec![a(&[2, 4])], vec![a(&[2, 4])], 0, 0, 1), true);
        // a Moebius band: a strip glued to a half-twisted strip (odd "genus" -> the parity assertion)
        cn(s, &cs(vec![a(&[1, 2])], vec![a(&[1, 2])], 0, 0, 0), &cs(vec![a(&[1, 2])], vec![a(&[1, 2])], 0, 0, 0), true);
        cn(s, &cs(vec![a(&[1, 2]), a(&[3, 4])], vec![a(&[1, 4]), a(&[3, 2])], 0, 0, 0), &cs(vec![a(&[1, 2]), a(&[3, 4])], vec![a(&[1, 3]), a(&[2, 4])], 0, 0, 0), true);
        for (i, bt) in [(0, Src), (1, Src), (2, Src), (3, Src), (2, Tgt), (0, Tgt)] { for d in [Dot::None, Dot::X, Dot::Y] { co(s, &big, bt, i, d); } }
        co(s, &cs(vec![c(&[1])], vec![], 0, 0, 0), Src, 0, Dot::X);
        // real saddles (CobComp::sdl_from on PD crossings), re-read through the model
        for pd in [[0usize, 1, 2, 3], [4, 2, 5, 1], [0, 0, 1, 1], [0, 1, 1, 0], [3, 7, 3, 9], [1, 2, 2, 3]] {
            if let Some(x) = guard(|| CobComp::sdl_from(&Crossing::from_pd_code(pd))) {
                let sp = spec_of_c(&x);
                let direct = c_info(&x);
                let again = or_panic(guard(|| mk_c(&sp)), |y| c_info(&y));
                s.oracle(direct == again, "a saddle built by sdl_from is reproduced by CobComp::new on its own boundary", &format!("{:?}", pd), &format!("{} vs {}", direct, again));
                cc(s, &sp);
                s.count("struct.sdl_from");
            }
        }
        kq(s, &vec![cs(vec![a(&[0, 1, 2, 3])], vec![a(&[0, 3]), c(&[1, 2])], 0, 0, 0), cs(vec![], vec![c(&[4])], 0, 0, 0), cs(vec![c(&[5])], vec![], 0, 0, 0)], true);
        kq(s, &vec![cs(vec![a(&[0, 1])], vec![a(&[0, 1])], 0, 0, 0), cs(vec![c(&[2])], vec![c(&[3])], 0, 0, 0)], true);
        kq(s, &vec![], true);
        ks(s, &vec![cs(vec![], vec![], 0, 0, 0)], &vec![cs(vec![], vec![], 1, 0, 0)], true);
        ks(s, &vec![cs(vec![], vec![c(&[0])], 0, 0, 0)], &vec![cs(vec![c(&[0])], vec![], 0, 0, 0)], true);
        ks(s, &vec![cs(vec![c(&[0])], vec![], 0, 0, 0)], &vec![cs(vec![], vec![c(&[0])], 0, 0, 0)], true);
        ks(s, &vec![cs(vec![a(&[0, 1])], vec![a(&[0, 1])], 0, 0, 0), cs(vec![], vec![c(&[2])], 0, 0, 0)], &vec![cs(vec![c(&[2])], vec![], 0, 0, 0), cs(vec![a(&[0, 1])], vec![a(&[0, 1])], 0, 0, 0)], true);
        ks(s, &vec![cs(vec![], vec![c(&[1]), c(&[2])], 0, 0, 0)], &vec![cs(vec![c(&[1]), c(&[2])], vec![c(&[3])], 0, 0, 0)], true);
        ks(s, &vec![cs(vec![], vec![c(&[1]), c(&[2])], 0, 0, 0)], &vec![cs(vec![c(&[1])], vec![c(&[3])], 0, 0, 0)], false);
        ks(s, &vec![], &vec![cs(vec![], vec![c(&[3])], 0, 1, 0)], true);
        ks(s, &vec![cs(vec![c(&[3])], vec![], 0, 1, 0)], &vec![], true);
        kp(s, &vec![cs(vec![c(&[1])], vec![c(&[2])], 0, 0, 0)], Src, &c(&[1]), Dot::X);
        kp(s, &vec![cs(vec![c(&[1])], vec![], 0, 0, 0)], Src, &c(&[1]), Dot::X);
        kp(s, &vec![cs(vec![c(&[1])], vec![], 0, 0, 0)], Src, &c(&[1]), Dot::None);
        kp(s, &vec![cs(vec![c(&[1])], vec![], 0, 0, 0)], Tgt, &c(&[1]), Dot::Y);
        kp(s, &vec![cs(vec![a(&[1, 2])], vec![a(&[1, 2])], 0, 0, 0)], Src, &a(&[1, 2]), Dot::Y);
        kc(s, &vec![strips.clone()], &vec![cs(vec![a(&[1, 3])], vec![a(&[1, 3])], 0, 0, 0), cs(vec![a(&[2, 4])], vec![a(&[2, 4])], 0, 0, 0)], true);
        kc(s, &vec![], &vec![strips.clone()], true);

        // ---- random streams
        let n = if thorough { 15000 } else { 1200 };
        for it in 0..n {
            let mut g = Gen::new();
            // paths: valid pairs (distinct labels, one or two shared end points) and degenerate ones
            {
                let pool = 6;
                let (e0, e1) = { let v = subset(r, pool, 2); (v[0], v[1]) };
                let p = g.arc(r, e0, e1);
                let q = match r.below(4) {
                    0 => g.arc(r, e0, e1),                                         // closes up
                    1 => { let f = 10 + r.below(3) as usize; g.arc(r, e1, f) }     // one shared end
                    2 => { let f = 10 + r.below(3) as usize; g.arc(r, f, e0) }
                    _ => { let f = 10 + r.below(3) as usize; g.arc(r, f, f + 5) }  // not connectable
                };
                tp(s, &p, &q, true);
                // degenerate: tiny label pool, repeated labels, single-edge arcs, circles
                let rnd = |r: &mut Rng| { let n = 1 + r.below(4) as usize; PSpec { closed: r.chance(1, 4), edges: (0..n).map(|_| r.below(4) as usize).collect() } };
                let (p, q) = (rnd(r), rnd(r));
                tp(s, &p, &q, false);
            }
            // tangles
            {
                let e1 = { let n_ = 2 * (1 + r.below(3) as usize); subset(r, 8, n_) };
                let e2 = { let n_ = 2 * (1 + r.below(3) as usize); subset(r, 8, n_) };
                let t = { let n_ = r.below(2) as usize; g.tangle(r, &e1, n_) };
                let u = { let n_ = r.below(2) as usize; g.tangle(r, &e2, n_) };
                tc(s, &t, &u, true);
                if it % 2 == 0 {
                    tn(s, &t);
                    let i = r.below(t.len() as u64 + 1) as usize;
                    tr(s, &t, i);
                    let mx = t.iter().flat_map(|p| p.edges.iter().cloned()).max().unwrap_or(0);
                    match r.below(3) { 0 => tv(s, &t, 0, r.below(50) as usize), 1 => tv(s, &t, 1, mx + r.below(3) as usize), _ => tv(s, &t, 2, r.below(3) as usize) }
                    ki(s, &t);
                }
                let f = subset(r, 9, 2);
                let arc = g.arc(r, f[0], f[1]);
                ta(s, &t, &arc);
                // degenerate raw tangles: ties in min_edge, repeated end points (the un-adjusted index of append_arc)
                let m = 1 + r.below(4) as usize;
                let raw: TSpec = (0..m).map(|_| { let n = 1 + r.below(3) as usize; PSpec { closed: r.chance(1, 5), edges: (0..n).map(|_| r.below(5) as usize).collect() } }).collect();
                let n2 = 1 + r.below(3) as usize;
                let arc2 = PSpec { closed: r.chance(1, 8), edges: (0..n2).map(|_| r.below(5) as usize).collect() };
                // a circle without edges only appears from [e]+[e]; keep Tng-level sorting deterministic (it is) and compare
                tn(s, &raw);
                ta(s, &raw, &arc2);
                if it % 3 == 0 { let raw2: TSpec = raw.iter().rev().cloned().collect(); tc(s, &raw, &raw2, false); }
            }
            // components
            {
                let e1 = { let n_ = 2 * (1 + r.below(3) as usize); balanced(r, 8, n_) };
                let e2 = { let mut v = { let n_ = 2 * (1 + r.below(2) as usize); balanced(r, 8, n_) }; if r.chance(3, 4) && !v.contains(&e1[0]) { v[0] = e1[0]; } v };
                let c1 = g.comp(r, &e1);
                let c2 = g.comp(r, &e2);
                cn(s, &c1, &c2, true);
                cc(s, &c1);
                let bt = if r.bool() { Src } else { Tgt };
                let len = if bt == Src { c1.src.len() } else { c1.tgt.len() };
                let dot = *r.pick(&[Dot::None, Dot::X, Dot::Y]);
                co(s, &c1, bt, r.below(len as u64 + 1) as usize, dot);
                if it % 4 == 0 {
                    // malformed boundary: end points of src and tgt differ (debug_assert), or arc counts differ
                    let mut bad = c2.clone();
                    if r.bool() { let e_ = subset(r, 9, e2.len()); bad.tgt = g.tangle(r, &e_, 0); } else if !bad.tgt.is_empty() { bad.tgt.pop(); }
                    cc(s, &bad);
                }
            }
            // cobordisms
            {
                let pool: Vec<usize> = (0..10).collect();
                let nk_ = 1 + r.below(3) as usize; let k = g.cob(r, &pool, nk_, true);
                let nl_ = 1 + r.below(3) as usize; let xl_ = r.chance(1, 3); let l = g.cob(r, &pool, nl_, xl_);
                kc(s, &k, &l, true);
                kq(s, &k, true);
                let top = top_for(&mut g, r, &k);
                ks(s, &k, &top, true);
                if it % 5 == 0 {
                    // not stackable: one upper component missing / foreign circle
                    let mut bad = top.clone();
                    if !bad.is_empty() && r.bool() { bad.pop(); } else { let c = g.circ(r); bad.push(CSpec { src: vec![c], tgt: vec![], g: 0, x: 0, y: 0 }); }
                    ks(s, &k, &bad, false);
                }
                // invertible cobordisms: cylinders over arcs and circles
                if it % 3 == 0 {
                    let ends = { let v = balanced(r, 8, 4); vec![v[0], v[2], v[1], v[3]] };
                    let mut inv: KSpec = vec![];
                    for ch in ends.chunks(2) { let (s0, t0) = (g.arc(r, ch[0], ch[1]), g.arc(r, ch[0], ch[1])); inv.push(CSpec { src: vec![s0], tgt: vec![t0], g: 0, x: 0, y: 0 }); }
                    if r.bool() { let (c0, c1) = (g.circ(r), g.circ(r)); inv.push(CSpec { src: vec![c0], tgt: vec![c1], g: 0, x: 0, y: 0 }); }
                    kq(s, &inv, true);
                }
                // cap off a circle of k (or something that is not there)
                let bt = if r.bool() { Src } else { Tgt };
                let circs: Vec<PSpec> = k.iter().flat_map(|c| if bt == Src { c.src.clone() } else { c.tgt.clone() }).filter(|p| p.closed).collect();
                let dot = *r.pick(&[Dot::None, Dot::X, Dot::Y]);
                if !circs.is_empty() && r.chance(5, 6) { let p0_ = r.pick(&circs).clone(); let p = rerep(r, &p0_); kp(s, &k, bt, &p, dot); }
                else { let p = if r.bool() { g.circ(r) } else { k.iter().flat_map(|c| c.src.clone()).next().unwrap_or(PSpec { closed: false, edges: vec![1, 2] }) }; kp(s, &k, bt, &p, dot); }
            }
        }
    }
}

// ---------------------------------------------------------------------------------------------
// (iv) the whole v2 engine, step by step (`tng_complex.rs`) against the Lean model `Yuiv/Model/C05Engine.lean`.
//      STATEFUL requests `eg …`: the driver keeps numbered slots; every step of an explicit script
//      (`init`, `app`end a crossing, `con`nect two sub-complexes, `dl` = deloop(key, r), `el` = eliminate(k0, k1))
//      is applied to the real `TngComplex<i64>` and to the model, and the canonical dump of the whole state
//      (counts, well-formedness, FNV hash of the text, the text itself when short) is compared after EVERY step.
//      `fin`: homology of the final complex from the library = from the model's matrices = from the cube of
//      resolutions (Lean reference), evaluated inside the driver.

pub struct Plan { pub cap: usize, pub with_ref: bool, pub malformed: bool }

// one copy of the engine stream per coefficient ring (`TngComplex<R>` for R = i64, Ratio<i64>, FF2, FF<3>)
macro_rules! engine_mod { ($name:ident, $R:ty, $tag:expr, $from:expr, $tor:expr, $hasbig:expr, $bigrun:expr) => {
mod $name {
    use super::*;
    use super::structural::{dots_of, t_txt};
    use std::collections::BTreeMap;
    use yui_kh::kh::internal::v2::cob::{Cob, CobComp, LcCob, LcCobTrait};
    use yui_kh::kh::internal::v2::tng_complex::{TngComplex, TngKey};
    use yui_kh::kh::{KhAlgGen, KhLabel};
    use yui_link::{Crossing, CrossingType, State};

    pub type Rg = $R;
    type C = TngComplex<Rg>;
    pub const TAG: &str = $tag;
    const HAS_BIG: bool = $hasbig;
    pub fn of(x: i64) -> Rg { ($from)(x) }
    fn tor(x: &Rg) -> BigInt { ($tor)(x) }
    const TEXT_LIMIT: usize = 1200;
    const WF_LIMIT: usize = 24;

    pub fn key_txt(k: &TngKey) -> String {
        let mut s = String::new();
        for b in k.state.iter() { s.push(if b.is_zero() { '0' } else { '1' }); }
        s.push('.');
        for g in k.label.iter() { s.push(if g.is_X() { 'X' } else { 'I' }); }
        s
    }
    fn comp_txt(c: &CobComp) -> String {
        let (x, y) = if c.ndots() == 0 { (0, 0) } else { dots_of(c) };
        format!("{}/{}/{}/{}/{}", t_txt(c.src()), t_txt(c.tgt()), c.genus(), x, y)
    }
    fn cob_txt(k: &Cob) -> String { if k.is_empty() { "_".into() } else { k.comps().map(comp_txt).collect::<Vec<_>>().join("+") } }
    fn lc_txt(f: &LcCob<Rg>) -> String {
        if f.is_zero() { return "0".into() }
        let mut v: Vec<String> = f.iter().map(|(c, r)| format!("{}*{}", r.txt(), cob_txt(c))).collect();
        v.sort();
        v.join("|")
    }
    fn sorted_keys(c: &C) -> Vec<TngKey> { let mut v: Vec<TngKey> = c.keys().cloned().collect(); v.sort(); v }
    fn state_text(c: &C) -> String {
        let (dh, dq) = c.deg_shift();
        let bp = c.base_pt().map(|e| e.to_string()).unwrap_or("-".into());
        let mut vs: Vec<String> = c.keys().map(|k| format!("{}:{}", key_txt(k), t_txt(c.vertex(k).tng()))).collect();
        vs.sort();
        let mut es: Vec<String> = vec![];
        for k in c.keys() { for l in c.keys_out_from(k) {
            let f = c.edge(k, l);
            es.push(format!("{}>{}:{}{}", key_txt(k), key_txt(l), lc_txt(f), if f.is_invertible() { "!" } else { "" }));
        } }
        es.sort();
        format!("sh={},{} bp={} n={} V={} E={}", dh, dq, bp, c.dim(), vs.join(";"), es.join(";"))
    }
    fn fnv(s: &str) -> u64 {
        let mut h = 0xcbf29ce484222325u64;
        for b in s.bytes() { h ^= b as u64; h = h.wrapping_mul(0x100000001b3); }
        h
    }
    /// `validate()` (in/out edge sets consistent, no zero label, boundary tangles of every term match the vertices)
    /// + every edge raises the weight by one + no zero coefficient is stored
    fn wf(c: &C) -> bool {
        if guard(|| c.validate()).is_none() { return false }
        for k in c.keys() { for l in c.keys_out_from(k) {
            if l.weight() != k.weight() + 1 { return false }
            if c.edge(k, l).iter().any(|(_, r)| r.is_zero()) { return false }
            if !c.keys_into(l).any(|j| j == k) { return false }
        } }
        true
    }
    fn nedges(c: &C) -> usize { c.keys().map(|k| c.keys_out_from(k).count()).sum() }
    fn dump(c: &C) -> String {
        let txt = state_text(c);
        // the (expensive) well-formedness check only on complexes with at most WF_LIMIT vertices — same rule in the driver
        let w = if c.nverts() <= WF_LIMIT { (wf(c) as u8).to_string() } else { "-".to_string() };
        let head = format!("nv={} ne={} wf={} h={}", c.nverts(), nedges(c), w, fnv(&txt));
        if txt.len() <= TEXT_LIMIT || std::env::var("C05_FULLTEXT").is_ok() { format!("{} {}", head, txt) } else { head }
    }
    /// circles that may be delooped now.  A circle through the base point (reduced theory) is only delooped at the very
    /// end (`based = true`), as `TngComplexBuilder` does (`deloop_in(i, allow_based = false)` while crossings are
    /// processed, `finalize` afterwards): restricting ONE vertex to its X-copy while neighbours still carry the based
    /// strand as an open arc is not an operation of the reduced theory.
    fn loops(c: &C, based: bool) -> Vec<(TngKey, usize)> {
        let mut out = vec![];
        for k in sorted_keys(c) { for (r, a) in c.vertex(&k).tng().comps().enumerate() {
            if a.is_circle() && c.contains_base_pt(a) == based { out.push((k, r)); }
        } }
        out
    }
    fn pivots(c: &C) -> Vec<(TngKey, TngKey)> {
        let mut out = vec![];
        for k in sorted_keys(c) {
            let mut ls: Vec<TngKey> = c.keys_out_from(&k).cloned().collect(); ls.sort();
            for l in ls { if c.edge(&k, &l).is_invertible() { out.push((k, l)); } }
        }
        out
    }
    /// one of the factors `b : l0 → k1`, `c : k0 → l1` that `eliminate(k0, k1)` stacks has a term that LOOKS like an
    /// identity (every component plain, genus 0, same tangle on both ends) but is not one: some component is a
    /// connected surface over two or more arcs (strips joined by a tube)
    fn tube_factor(c: &C, k0: &TngKey, k1: &TngKey) -> bool {
        let looks_id_but_tube = |f: &LcCob<Rg>| f.iter().any(|(cob, _)|
            !cob.is_empty()
            && cob.comps().all(|x| !x.is_closed() && x.is_plain() && x.genus() == 0 && x.src() == x.tgt())
            && cob.comps().any(|x| x.src().ncomps() >= 2));
        if !c.contains_key(k0) || !c.contains_key(k1) || !c.keys_out_from(k0).any(|l| l == k1) { return false }
        let Some(ainv) = c.edge(k0, k1).inv() else { return false };
        let has_b = c.keys_into(k1).any(|l0| l0 != k0);
        let has_c = c.keys_out_from(k0).any(|l1| l1 != k1);
        if !has_b || !has_c { return false }
        c.keys_into(k1).any(|l0| l0 != k0 && looks_id_but_tube(c.edge(l0, k1)))
        || c.keys_out_from(k0).any(|l1| l1 != k1 && (looks_id_but_tube(c.edge(k0, l1))
            || guard(|| c.edge(k0, l1) * &ainv).map(|x| looks_id_but_tube(&x)).unwrap_or(false)))
    }
    fn ct_txt(x: &Crossing) -> &'static str { match x.ctype() { CrossingType::X => "X", CrossingType::Xm => "Xm", CrossingType::V => "V", CrossingType::H => "H" } }

    pub struct Run<'a> {
        pub s: &'a mut Sink,
        pub slots: BTreeMap<usize, C>,
        pub steps: usize,
        pub dead: bool,           // an unexpected panic left a slot in an unknown state: the script stops
        pub ht: (Rg, Rg),
        pub greedy_above: usize,
        /// request / reply lines and counters of this script; written to the sink when the run is dropped — unless
        /// the script is repeated in arbitrary precision (`discard`)
        pub lines: Vec<(String, String, bool)>,
        pub cnts: Vec<String>,
        pub panicked: bool,       // a step that was expected to succeed panicked
        pub discard: bool,
    }
    impl<'a> Drop for Run<'a> {
        fn drop(&mut self) {
            if self.discard { return }
            for (req, reply, nt) in self.lines.drain(..) { self.s.case(&req, &reply, nt); }
            for c in self.cnts.drain(..) { self.s.count(&c); }
        }
    }
    impl<'a> Run<'a> {
        pub fn new(s: &'a mut Sink, ht: (Rg, Rg)) -> Self {
            Run { s, slots: BTreeMap::new(), steps: 0, dead: false, ht, greedy_above: 24,
                  lines: vec![(format!("eg new {}", TAG), "ok".to_string(), false)], cnts: vec![format!("eng.ring.{}", TAG)],
                  panicked: false, discard: false }
        }
        pub fn cnt(&mut self, c: &str) { self.cnts.push(c.to_string()); }
        fn emit(&mut self, kind: &str, req: String, reply: String) {
            self.steps += 1;
            self.cnt(&format!("eng.step.{}", kind));
            if reply == "panic" { self.cnt(&format!("eng.panic.{}", kind)); }
            self.lines.push((req, reply, true));
        }
        pub fn init(&mut self, i: usize, sh: (isize, isize), bp: Option<usize>) {
            let c = C::init(&self.ht.0, &self.ht.1, sh, bp);
            let reply = dump(&c);
            self.slots.insert(i, c);
            self.emit("init", format!("eg init {} {} {} {} {} {}", i, self.ht.0.txt(), self.ht.1.txt(), sh.0, sh.1, bp.map(|e| e.to_string()).unwrap_or("-".into())), reply);
        }
        pub fn app(&mut self, i: usize, x: &Crossing) {
            let e = x.edges();
            let req = format!("eg app {} {} {} {} {} {}", i, ct_txt(x), e[0], e[1], e[2], e[3]);
            let c = self.slots.get_mut(&i).unwrap();
            let reply = match guard(|| c.append(x)) { Some(_) => dump(c), None => { self.dead = true; self.panicked = true; "panic".into() } };
            self.emit("app", req, reply);
        }
        pub fn con(&mut self, i: usize, j: usize, expect_panic: bool) {
            let other = self.slots.remove(&j).unwrap();
            let c = self.slots.get_mut(&i).unwrap();
            let reply = match guard(|| c.connect(other)) { Some(_) => dump(c), None => { if !expect_panic { self.dead = true; self.panicked = true; } "panic".into() } };
            self.emit("con", format!("eg con {} {}", i, j), reply);
        }
        pub fn dl(&mut self, i: usize, k: &TngKey, r: usize, expect_panic: bool) {
            let c = self.slots.get_mut(&i).unwrap();
            let reply = match guard(|| c.deloop(k, r)) {
                Some(upd) => format!("upd={} {}", upd.iter().map(key_txt).collect::<Vec<_>>().join(","), dump(c)),
                None => { if !expect_panic { self.dead = true; self.panicked = true; } "panic".into() }
            };
            self.emit(if expect_panic { "dl-bad" } else { "dl" }, format!("eg dl {} {} {}", i, key_txt(k), r), reply);
        }
        pub fn el(&mut self, i: usize, k0: &TngKey, k1: &TngKey, expect_panic: bool) {
            // coverage: does this step stack a "tube" (see `tube_factor`)?
            if !expect_panic && tube_factor(&self.slots[&i], k0, k1) {
                self.cnt("eng.el.stacks-tube(connected surface over the same arcs on both ends)");
                if std::env::var("C05_TRACE_TUBE").is_ok() { eprintln!("TUBE ring={} step={} el {} {}", TAG, self.steps, key_txt(k0), key_txt(k1)); }
            }
            let c = self.slots.get_mut(&i).unwrap();
            let reply = match guard(|| c.eliminate(k0, k1)) { Some(_) => dump(c), None => { if !expect_panic { self.dead = true; self.panicked = true; } "panic".into() } };
            self.emit(if expect_panic { "el-bad" } else { "el" }, format!("eg el {} {} {}", i, key_txt(k0), key_txt(k1)), reply);
        }
        pub fn query(&mut self, i: usize) {
            let reply = dump(&self.slots[&i]);
            self.emit("q", format!("eg q {}", i), reply);
        }
        /// final step: the library's homology of the complex; the reply claims that the model's matrices and the cube
        /// of resolutions give the same tables
        pub fn fin(&mut self, i: usize, red: bool, link: &Link, with_ref: bool, desc: &str) {
            let c = self.slots.remove(&i).unwrap();
            let bg = self.ht.0.is_zero() && self.ht.1.is_zero();
            let req = format!("eg fin {} {} {} | {}", i, red as u8, with_ref as u8, link_txt(link));
            let res = guard(|| {
                let kc = c.into_kh_complex(vec![]);
                let gens: Vec<String> = kc.h_range().map(|i| kc.rank(i).to_string()).collect();
                let kh = kc.homology();
                let plain = hom_table(kh.support().map(|i| { let g = kh.get(i); (i, g.rank(), g.tors().iter().cloned().collect::<Vec<Rg>>()) }).collect(), &tor);
                let big = if bg {
                    let kb = kh.into_bigraded();
                    let cells = kb.support().map(|idx| { let g = kb.get(idx); ((idx.0, Some(idx.1)), group_txt(g.rank(), g.tors().iter().map(|x| tor(x)).collect())) }).collect();
                    table_txt(cells)
                } else { String::new() };
                (kc, gens.join(","), plain, big)
            });
            let reply = match res {
                Some((kc, gens, plain, big)) => {
                    // the property's own oracle on the complex the engine produced through THIS script
                    let s = &mut *self.s;
                    guarded_case(s, desc, |s| { let _ = check_complex(s, desc, &kc, bg); });
                    let r = if with_ref { plain.clone() } else { "-".to_string() };
                    let base = format!("gens={} mat={} ref={}", gens, plain, r);
                    if bg { format!("{} bmat={} bref={}", base, big, if with_ref { big.clone() } else { "-".to_string() }) } else { base }
                }
                None => { self.panicked = true; "panic".into() }
            };
            self.emit("fin", req, reply);
        }
        pub fn nverts(&self, i: usize) -> usize { self.slots[&i].nverts() }

        /// random pivot on small complexes; on larger ones the builder's rule (least fill-in `(nk-1)*(nl-1)`), because
        /// random elimination orders make the complex dense
        pub fn pick_pivot(&mut self, r: &mut Rng, i: usize, ps: &[(TngKey, TngKey)]) -> (TngKey, TngKey) {
            let c = &self.slots[&i];
            if c.nverts() <= self.greedy_above { return *r.pick(ps) }
            *ps.iter().min_by_key(|(k, l)| (c.keys_out_from(k).count() - 1) * (c.keys_into(l).count() - 1)).unwrap()
        }

        /// apply legal simplification steps chosen at random; `all`: until nothing is left
        pub fn simplify(&mut self, r: &mut Rng, i: usize, all: bool, cap: usize) {
            loop {
                if self.dead { return }
                let c = &self.slots[&i];
                let ls = loops(c, false);
                let ps = pivots(c);
                if ls.is_empty() && ps.is_empty() { return }
                let big = c.nverts() > cap;
                if !all && !big && r.chance(1, 7) { return }
                // a large complex is first shrunk by eliminations
                if nedges(c) > 2500 || c.nverts() > 400 { self.dead = true; self.cnt("eng.abandoned(too big)"); return }
                let pick_el = !ps.is_empty() && (ls.is_empty() || (big && r.chance(3, 4)) || r.chance(1, 2));
                if pick_el { let (k, l) = self.pick_pivot(r, i, &ps); self.el(i, &k, &l, false); }
                else { let (k, q) = *r.pick(&ls); self.dl(i, &k, q, false); }
            }
        }

        /// requests the real code rejects with a panic BEFORE touching the complex; the model must say `panic` too
        pub fn malformed(&mut self, r: &mut Rng, i: usize) {
            let keys = sorted_keys(&self.slots[&i]);
            if keys.is_empty() { return }
            let k = *r.pick(&keys);
            let ncomp = self.slots[&i].vertex(&k).tng().ncomps();
            match r.below(7) {
                0 => { // unknown key
                    let mut u = k; u.label.push(KhAlgGen::X); u.label.push(KhAlgGen::I); u.label.push(KhAlgGen::X);
                    if !self.slots[&i].contains_key(&u) { self.dl(i, &u, 0, true); }
                }
                1 => self.dl(i, &k, ncomp + r.below(2) as usize, true),       // index out of range
                2 => { // not a circle
                    let arcs: Vec<usize> = self.slots[&i].vertex(&k).tng().comps().enumerate().filter(|(_, a)| a.is_arc()).map(|(q, _)| q).collect();
                    if !arcs.is_empty() { let q = *r.pick(&arcs); self.dl(i, &k, q, true); }
                }
                3 => { // no such edge (k -> k, or two vertices without an edge)
                    let l = *r.pick(&keys);
                    if !self.slots[&i].keys_out_from(&k).any(|x| *x == l) { self.el(i, &k, &l, true); }
                }
                4 => { // unknown key in eliminate
                    let u = TngKey { state: State::from_iter([1u8, 1, 1, 1, 1, 1, 1, 1, 1, 1, 1, 1]), label: KhLabel::from_iter([KhAlgGen::I]) };
                    if r.bool() { self.el(i, &u, &k, true); } else { self.el(i, &k, &u, true); }
                }
                5 => { // an edge that is not invertible (one term only: `LcCob::inv` looks at "the first" term)
                    let c = &self.slots[&i];
                    let mut cand = vec![];
                    for k in &keys { for l in c.keys_out_from(k) { let f = c.edge(k, l); if f.nterms() == 1 && !f.is_invertible() { cand.push((*k, *l)); } } }
                    cand.sort();
                    if !cand.is_empty() { let (a, b) = *r.pick(&cand); self.el(i, &a, &b, true); }
                }
                _ => self.query(i),
            }
        }
    }

    pub use super::Plan;

    /// one explicit script for one diagram
    /// one explicit script for one diagram.  A ℤ / ℚ script in which a step that should succeed panics in fixed width
    /// (checked `i64` overflow of a coefficient, numerator or denominator) is REPEATED from its first step in
    /// arbitrary precision (`BigInt` / `Ratio<BigInt>`): the same generator state gives the same explicit steps as long
    /// as the states agree, and only a panic or a different state in arbitrary precision is a disagreement.
    pub fn script(s: &mut Sink, r: &mut Rng, name: &str, link: &Link, ht: (Rg, Rg), red: bool, plan: &Plan) {
        let r0 = r.clone();
        if script_once(s, r, name, link, ht.clone(), red, plan) {
            *r = r0;
            s.count("eng.machine-overflow.repeated-in-arbitrary-precision");
            ($bigrun)(s, r, name, link, &ht, red, plan);
        }
    }

    /// returns `true` when the script has to be repeated in arbitrary precision (nothing was written to the sink)
    fn script_once(s: &mut Sink, r: &mut Rng, name: &str, link: &Link, ht: (Rg, Rg), red: bool, plan: &Plan) -> bool {
        let data = link.data().clone();
        let n = data.len();
        let mut order: Vec<usize> = (0..n).collect();
        r.shuffle(&mut order);
        let total = KhComplex::<Rg>::deg_shift_for(link, red);
        let base = if red { link.first_edge() } else { None };
        let split = n >= 2 && r.chance(1, 3);
        let desc = format!("engine script {} ring={} (h,t)=({},{}) reduced={} order={:?} split={} link: {}", name, TAG, ht.0.txt(), ht.1.txt(), red, order, split, link_txt(link));
        let head_counts = vec![format!("eng.crossings.{}", n), format!("eng.ht.{}.{},{}", TAG, ht.0.txt(), ht.1.txt()),
            (if red { "eng.reduced" } else { "eng.unreduced" }).to_string(), (if split { "eng.split" } else { "eng.single" }).to_string()];
        let mut run = Run::new(s, ht);
        for c in &head_counts { run.cnt(c); }
        run.greedy_above = if n >= 8 { 8 } else { plan.cap / 2 };
        let parts: Vec<Vec<usize>> = if split { let cut = 1 + r.below(n as u64 - 1) as usize; vec![order[..cut].to_vec(), order[cut..].to_vec()] } else { vec![order.clone()] };
        let a = if split { (r.range(-2, 2) as isize, r.range(-3, 3) as isize) } else { total };
        let shifts = [a, (total.0 - a.0, total.1 - a.1)];
        // base point: on the first part always; on the second part sometimes as well (`connect_init` accepts equal ones)
        // (a sub-complex that contains the base edge must know the base point, otherwise it deloops the based circle
        //  with both copies — not an operation of the reduced theory)
        let touches = |part: &Vec<usize>| base.map(|e| part.iter().any(|&ix| data[ix].edges().contains(&e))).unwrap_or(false);
        let b1 = if split && (touches(&parts[1]) || r.bool()) { base } else { None };
        let b0 = if split && !touches(&parts[0]) && b1.is_some() && r.bool() { None } else { base };
        let bases = [b0, b1];
        let mut mal_left = if plan.malformed { 3 } else { 0 };
        for (p, part) in parts.iter().enumerate() {
            run.init(p, shifts[p], bases[p]);
            for &ix in part {
                if run.dead { break }
                run.app(p, &data[ix]);
                if run.dead { break }
                if mal_left > 0 && r.chance(1, 3) { run.malformed(r, p); mal_left -= 1; }
                let defer = r.chance(1, 4) && run.nverts(p) <= plan.cap / 4;
                if !defer { run.simplify(r, p, false, plan.cap); }
                // never let a deferred complex double beyond the cap
                if !run.dead && run.nverts(p) > plan.cap { run.simplify(r, p, true, plan.cap); }
            }
        }
        if split && !run.dead {
            // keep the product small: simplify both factors when they are big
            for p in 0..2 { if run.nverts(p) > 8 || r.chance(1, 2) { let all = run.nverts(p) > 8 || r.bool(); run.simplify(r, p, all, plan.cap); } }
            // the product has nverts(0) * nverts(1) vertices
            for p in 0..2 { if !run.dead && run.nverts(0) * run.nverts(1) > 4 * plan.cap { run.simplify(r, p, true, plan.cap); } }
            if !run.dead { run.con(0, 1, false); }
        }
        if !run.dead {
            if mal_left > 0 { run.malformed(r, 0); }
            // finish: every circle must go; eliminations mostly all, sometimes only some
            loop {
                if run.dead { break }
                let ls = loops(&run.slots[&0], false);
                if ls.is_empty() { break }
                let big = run.nverts(0) > plan.cap;
                let ps = if big || run.nverts(0) > run.greedy_above || r.chance(1, 3) { pivots(&run.slots[&0]) } else { vec![] };
                if nedges(&run.slots[&0]) > 2500 || run.nverts(0) > 400 { run.dead = true; run.cnt("eng.abandoned(too big)"); break }
                if !ps.is_empty() { let (k, l) = run.pick_pivot(r, 0, &ps); run.el(0, &k, &l, false); }
                else { let (k, q) = *r.pick(&ls); run.dl(0, &k, q, false); }
            }
            if !run.dead && red && r.chance(1, 2) { let all = r.bool(); run.simplify(r, 0, all, plan.cap); }
            // reduced theory: now the circles through the base point, all of them in one go
            loop {
                if run.dead { break }
                let ls = loops(&run.slots[&0], true);
                if ls.is_empty() { break }
                let (k, q) = *r.pick(&ls);
                run.dl(0, &k, q, false);
                run.cnt("eng.step.dl-based");
            }
            if !run.dead && r.chance(4, 5) { let all = r.chance(3, 4); run.simplify(r, 0, all, plan.cap); }
        }
        if !run.dead { run.fin(0, red, link, plan.with_ref, &desc); }
        let steps = run.steps;
        run.cnt(&format!("eng.script-steps.{}", match steps { 0..=9 => "0-9", 10..=39 => "10-39", 40..=159 => "40-159", _ => "160+" }));
        run.cnt("eng.scripts");
        if run.panicked && HAS_BIG { run.discard = true; return true }
        false
    }

    fn key_of(t: &str) -> TngKey {
        let (st, lb) = t.split_once('.').unwrap();
        TngKey {
            state: State::from_iter(st.chars().map(|c| if c == '1' { 1u8 } else { 0u8 })),
            label: KhLabel::from_iter(lb.chars().map(|c| if c == 'X' { KhAlgGen::X } else { KhAlgGen::I })),
        }
    }

    /// hand-written script on an OPEN tangle (four of the six crossings of a diagram) whose last elimination is a
    /// second-round elimination in which the composite `c ∘ a⁻¹` has a term that is a CONNECTED genus-0 surface over
    /// the same two circles on both ends (two cylinders joined by a tube; coefficient 2, so it vanishes over 𝔽₂):
    /// every component then looks like an identity although the cobordism is not one — `Cob::stack` must not
    /// shortcut it.  The detector `tube_factor` confirms that the configuration is reached (`eng.tube-script.hit`).
    pub fn tube_script(s: &mut Sink) {
        let mut run = Run::new(s, (of(0), of(0)));
        run.init(0, (0, -1), None);
        let x = |e: [usize; 4]| Crossing::from_pd_code(e);
        run.app(0, &x([3, 8, 4, 5]));
        run.app(0, &x([12, 8, 9, 7]));
        run.app(0, &x([4, 12, 1, 11]));
        for (kind, a, b, r) in [("dl", "100.", "", 3), ("el", "100.I", "110.", 0), ("el", "000.", "100.X", 0)] {
            if run.dead { return }
            if kind == "dl" { run.dl(0, &key_of(a), r, false) } else { run.el(0, &key_of(a), &key_of(b), false) }
        }
        if run.dead { return }
        run.app(0, &x([9, 3, 10, 2]));
        for (kind, a, b, r) in [("dl", "0110.", "", 3), ("dl", "0100.", "", 3), ("el", "0100.I", "1010.", 0)] {
            if run.dead { return }
            if kind == "dl" { run.dl(0, &key_of(a), r, false) } else { run.el(0, &key_of(a), &key_of(b), false) }
        }
        if run.dead { return }
        let (k0, k1) = (key_of("0010."), key_of("0110.X"));
        let hit = run.slots[&0].contains_key(&k0) && tube_factor(&run.slots[&0], &k0, &k1);
        run.cnt(if hit { "eng.tube-script.hit" } else { "eng.tube-script.MISSED-configuration" });
        run.el(0, &k0, &k1, false);
        if !run.dead { run.query(0); }
    }

    /// scripts that end in a rejected request: `fin` before everything is delooped, `connect` with two base points
    pub fn rejected(s: &mut Sink, r: &mut Rng) {
        let l = Link::trefoil();
        let data = l.data().clone();
        {
            let mut run = Run::new(s, (of(0), of(0)));
            run.init(0, (0, 0), None);
            run.app(0, &data[0]); run.app(0, &data[1]); run.app(0, &data[2]);
            run.malformed(r, 0);
            run.fin(0, false, &l, false, "fin before delooping");     // `assert!(self.is_completely_delooped())`
        }
        {
            let mut run = Run::new(s, (of(0), of(0)));
            run.init(0, (0, 0), Some(1));
            run.init(1, (0, 0), Some(2));
            run.app(0, &data[0]);
            run.app(1, &data[1]);
            run.con(0, 1, true);                                      // two different base points
            run.query(0);
        }
        {
            // a resolved crossing, the empty complex, and a kink closed up in one step
            let mut run = Run::new(s, (of(1), of(0)));
            run.init(0, (0, 0), None);
            run.app(0, &Crossing::from_pd_code([0, 1, 1, 0]).resolved(Bit::Bit0));
            run.app(0, &Crossing::from_pd_code([2, 2, 3, 3]));
            run.simplify(r, 0, true, 64);
            let un = Link::from_pd_code([[2, 2, 3, 3]]);
            let _ = un;
            run.query(0);
        }
    }

    /// the scripts of one ring: `corpus` = every small hand-written diagram with every parameter pair (else a random
    /// third of them), then `n_scripts` random diagrams
    pub fn stream(s: &mut Sink, r: &mut Rng, thorough: bool, cases: &[Case], hts: &[(Rg, Rg)], corpus: bool, n_scripts: usize, n_big: usize) {
        rejected(s, r);
        tube_script(s);
        for c in cases.iter().take(12) {
            if c.link.data().len() > 5 { continue }
            for ht in hts {
                if !corpus && !r.chance(1, 3) { continue }
                let plan = Plan { cap: 48, with_ref: true, malformed: true };
                script(s, r, &c.name, &c.link, ht.clone(), false, &plan);
                if ht.1.is_zero() && !c.link.is_empty() && (thorough || r.bool()) { script(s, r, &c.name, &c.link, ht.clone(), true, &plan); }
            }
        }
        let max_n = if thorough { 8 } else { 6 };
        let mut pool: Vec<&Case> = cases.iter().filter(|c| c.link.data().len() <= max_n && c.link.data().len() >= 2).collect();
        r.shuffle(&mut pool);
        for k in 0..n_scripts {
            if pool.is_empty() { break }
            let c = pool[k % pool.len()];
            let ht = r.pick(hts).clone();
            let red = ht.1.is_zero() && r.chance(1, 3);
            let plan = Plan { cap: if thorough { 64 } else { 40 }, with_ref: true, malformed: r.chance(1, 4) };
            script(s, r, &c.name, &c.link, ht, red, &plan);
        }
        // a few larger ones in the thorough tier (9–10 crossings; the cube reference only up to 9)
        if thorough && n_big > 0 {
            let mut names = table_names(10);
            names.retain(|n| load(n).map(|l| l.crossing_num() >= 9).unwrap_or(false));
            r.shuffle(&mut names);
            for n in names.into_iter().take(n_big) {
                if let Some(l) = load(&n) {
                    let ht = r.pick(hts).clone();
                    let plan = Plan { cap: 40, with_ref: l.crossing_num() <= 9, malformed: false };
                    script(s, r, &n, &l, ht, false, &plan);
                }
            }
            for _ in 0..(n_big / 2) {
                let strands = 3 + r.below(2) as usize;
                let len = 9 + r.below(2) as usize;
                let (w, l) = random_braid(r, strands, len);
                if let Some(l) = l { if l.crossing_num() <= 10 {
                    let plan = Plan { cap: 40, with_ref: l.crossing_num() <= 9, malformed: false };
                    let ht = r.pick(hts).clone();
                    script(s, r, &format!("braid{}{:?}", strands, w), &l, ht, false, &plan);
                } }
            }
        }
    }
}
} }

engine_mod!(engine, i64, "Z", |x: i64| x, |x: &i64| BigInt::from(*x), true,
    |s: &mut Sink, r: &mut Rng, n: &str, l: &Link, ht: &(Rg, Rg), red: bool, p: &Plan|
        super::engine_zb::script(s, r, n, l, (BigInt::from(ht.0), BigInt::from(ht.1)), red, p));
engine_mod!(engine_q, Ratio<i64>, "Q", |x: i64| Ratio::from(x), |_x: &Ratio<i64>| BigInt::from(0), true,
    |s: &mut Sink, r: &mut Rng, n: &str, l: &Link, ht: &(Rg, Rg), red: bool, p: &Plan| {
        let big = |x: &Ratio<i64>| Ratio::new(BigInt::from(*x.numer()), BigInt::from(*x.denom()));
        super::engine_qb::script(s, r, n, l, (big(&ht.0), big(&ht.1)), red, p) });
engine_mod!(engine_f2, FF2, "F2", |x: i64| FF2::from(x), |_x: &FF2| BigInt::from(0), false,
    |_s: &mut Sink, _r: &mut Rng, _n: &str, _l: &Link, _ht: &(Rg, Rg), _red: bool, _p: &Plan| ());
engine_mod!(engine_f3, FF<3>, "F3", |x: i64| FF::<3>::new(x as i32), |_x: &FF<3>| BigInt::from(0), false,
    |_s: &mut Sink, _r: &mut Rng, _n: &str, _l: &Link, _ht: &(Rg, Rg), _red: bool, _p: &Plan| ());
// arbitrary precision: the scripts of ℤ and ℚ are repeated here when the fixed-width run overflows
engine_mod!(engine_zb, BigInt, "Z", |x: i64| BigInt::from(x), |x: &BigInt| x.clone(), false,
    |_s: &mut Sink, _r: &mut Rng, _n: &str, _l: &Link, _ht: &(Rg, Rg), _red: bool, _p: &Plan| ());
engine_mod!(engine_qb, Ratio<BigInt>, "Q", |x: i64| Ratio::from(BigInt::from(x)), |_x: &Ratio<BigInt>| BigInt::from(0), false,
    |_s: &mut Sink, _r: &mut Rng, _n: &str, _l: &Link, _ht: &(Rg, Rg), _red: bool, _p: &Plan| ());

struct Case { name: String, link: Link }

fn engine_stream(s: &mut Sink, r: &mut Rng, thorough: bool, cases: &[Case]) {
    // ℤ: units ±1 are self-inverse; ℚ and 𝔽₃ have units that are not (2·2⁻¹, 2·2 = 1); 𝔽₂ has −1 = 1
    {
        let hts: Vec<(i64, i64)> = if thorough { vec![(0, 0), (1, 0), (0, 1), (2, 3), (-1, 5)] } else { vec![(0, 0), (1, 0), (0, 1), (2, 3)] };
        engine::stream(s, r, thorough, cases, &hts, true, if thorough { 60 } else { 14 }, if thorough { 4 } else { 0 });
    }
    {
        let q = |a: i64, b: i64| Ratio::new(a, b);
        let hts = vec![(q(0, 1), q(0, 1)), (q(1, 2), q(0, 1)), (q(2, 1), q(0, 1)), (q(0, 1), q(1, 1)), (q(3, 2), q(2, 3)), (q(-1, 3), q(0, 1))];
        engine_q::stream(s, r, thorough, cases, &hts, true, if thorough { 40 } else { 12 }, if thorough { 2 } else { 0 });
    }
    {
        let f = |a: i32| FF::<3>::new(a);
        let hts = vec![(f(0), f(0)), (f(1), f(0)), (f(2), f(0)), (f(0), f(1)), (f(2), f(1)), (f(1), f(2))];
        engine_f3::stream(s, r, thorough, cases, &hts, true, if thorough { 40 } else { 12 }, if thorough { 2 } else { 0 });
    }
    {
        let f = |a: i64| FF2::from(a);
        let hts = vec![(f(0), f(0)), (f(1), f(0)), (f(0), f(1)), (f(1), f(1))];
        engine_f2::stream(s, r, thorough, cases, &hts, true, if thorough { 30 } else { 8 }, if thorough { 2 } else { 0 });
    }
}

fn corpus_cases(cases: &mut Vec<Case>) {
    let mk = |name: &str, link: Link| Case { name: name.to_string(), link };
    cases.push(mk("empty", Link::empty()));
    cases.push(mk("unknot", Link::unknot()));
    cases.push(mk("kink+", Link::from_pd_code([[0, 0, 1, 1]])));
    cases.push(mk("kink-", Link::from_pd_code([[0, 1, 1, 0]])));
    cases.push(mk("unlink2", Link::from_pd_code([[0, 0, 1, 1]]).resolved_at(0, Bit::Bit0)));
    cases.push(mk("hopf", Link::hopf_link()));
    cases.push(mk("hopf-mirror", Link::hopf_link().mirror()));
    cases.push(mk("trefoil", Link::trefoil()));
    cases.push(mk("trefoil-mirror", Link::trefoil().mirror()));
    cases.push(mk("figure8", Link::figure8()));
}
fn extra_cases(cases: &mut Vec<Case>, r: &mut Rng, thorough: bool) {
    let mut names = table_names(if thorough { 8 } else { 6 });
    r.shuffle(&mut names);
    names.truncate(if thorough { 60 } else { 8 });
    for n in names { if let Some(l) = load(&n) { cases.push(Case { name: n, link: l }); } }
    for _ in 0..(if thorough { 40 } else { 8 }) {
        let strands = 2 + r.below(3) as usize;
        let len = (strands - 1) + r.below(5) as usize;
        let (w, l) = random_braid(r, strands, len.min(if thorough { 8 } else { 6 }));
        if let Some(l) = l { cases.push(Case { name: format!("braid{}{:?}", strands, w), link: l }); }
    }
}

fn main() {
    let args = Args::parse();
    quiet_panics();
    let thorough = args.thorough();
    let mut s = Sink::new(&args, "kernel cases: (component shape, genus, X-dots, Y-dots, ring in {i64,BigInt,Poly<H>,Poly<T>,Poly2<H,T>}, h, t) -> part_eval/eval/deg/predicates compared with the Lean model; \
        complex cases: (link diagram, ring in {i64,Ratio,FF2,FF<3>,Poly<H,i64>,Poly<T,i64>,Poly2<H,T,i64>,Poly<H,Ratio>,Poly<H,FF2>}, (h,t), reduced?) -> d∘d=0, h-degree, q-homogeneity, \
        specialisation at (h0,t0) in {-2..2}^2 vs the directly built complex; integer matrices also to the Lean checker (matMulZero, Smith homology, cube reference); \
        non-trivial = genus+dots >= 2 (kernel) / diagram with >= 2 crossings (complexes); distinct = distinct request lines / descriptions");
    let mut r = Rng::new(args.seed);

    // `engine-only` (extra argument): just the engine stream (used for timing and mutation trials)
    if args.extra.iter().any(|a| a == "engine-only") {
        let mut cases: Vec<Case> = vec![];
        corpus_cases(&mut cases);
        let mut r0 = Rng::new(args.seed);
        extra_cases(&mut cases, &mut r0, thorough);
        let mut r4 = Rng::new(args.seed ^ 0x0e61_9e05);
        engine_stream(&mut s, &mut r4, thorough, &cases);
        s.finish();
        return
    }

    // (i) kernel
    kernel(&mut s, &mut r, thorough);

    // (ii) complexes
    let mut cases: Vec<Case> = vec![];
    let mk = |name: &str, link: Link| Case { name: name.to_string(), link };
    cases.push(mk("empty", Link::empty()));
    cases.push(mk("unknot", Link::unknot()));
    cases.push(mk("kink+", Link::from_pd_code([[0, 0, 1, 1]])));
    cases.push(mk("kink-", Link::from_pd_code([[0, 1, 1, 0]])));
    cases.push(mk("unlink2", Link::from_pd_code([[0, 0, 1, 1]]).resolved_at(0, Bit::Bit0)));
    cases.push(mk("hopf", Link::hopf_link()));
    cases.push(mk("hopf-mirror", Link::hopf_link().mirror()));
    cases.push(mk("trefoil", Link::trefoil()));
    cases.push(mk("trefoil-mirror", Link::trefoil().mirror()));
    cases.push(mk("figure8", Link::figure8()));
    {
        let mut pd = pd_of(&Link::trefoil());
        pd.extend(pd_of(&Link::hopf_link()).into_iter().map(|c| c.map(|e| e + 10)));
        cases.push(mk("split:trefoil+hopf", link_of(&pd)));
    }
    if let Some(l) = braid_closure(2, &[1, -1]) { cases.push(mk("braid[1,-1]", l)); }

    // constructor guard (boundary stream)
    for c in cases.iter().take(6) {
        for t in [0i64, 1] { for red in [false, true] { ctor_guard(&mut s, &c.name, &c.link, t, red); } }
    }

    let max_tbl = if thorough { 8 } else { 6 };
    let mut names = table_names(max_tbl);
    r.shuffle(&mut names);
    names.truncate(if thorough { 90 } else { 7 });
    for n in names { if let Some(l) = load(&n) { cases.push(mk(&n, l)); } }

    let n_braids = if thorough { 80 } else { 7 };
    for _ in 0..n_braids {
        let strands = 2 + r.below(if thorough { 4 } else { 3 }) as usize;
        let len = (strands - 1) + r.below(if thorough { 6 } else { 4 }) as usize;
        let (w, l) = random_braid(&mut r, strands, len.min(if thorough { 8 } else { 6 }));
        if let Some(l) = l { cases.push(mk(&format!("braid{}{:?}", strands, w), l)); }
    }

    let base: Vec<(String, Pd)> = cases.iter().filter(|c| is_plain_pd(&c.link) && !c.link.is_empty()).map(|c| (c.name.clone(), pd_of(&c.link))).collect();
    let n_var = if thorough { 60 } else { 6 };
    for _ in 0..n_var {
        let (name, pd) = r.pick(&base).clone();
        if pd.len() > (if thorough { 7 } else { 5 }) { continue }
        let mut p = pd;
        let mut tag = String::new();
        for _ in 0..(1 + r.below(2)) {
            match r.below(3) {
                0 => { if let Some(q) = add_kink(&mut r, &p) { p = q; tag.push_str("+kink"); } }
                1 => { p = renumber(&mut r, &p); tag.push_str("+renum"); }
                _ => { p = reorder(&mut r, &p); tag.push_str("+reorder"); }
            }
        }
        cases.push(mk(&format!("{}{}", name, tag), link_of(&p)));
    }

    for c in &cases {
        let n = c.link.crossing_num();
        if n > (if thorough { 8 } else { 6 }) { continue }
        s.count(&format!("diagram.{}", c.name.split(|ch: char| !ch.is_ascii_alphabetic()).next().unwrap_or("other")));
        // the Lean cube reference is exponential in the crossing number
        let lean_ref = n <= (if thorough { 8 } else { 6 });
        for red in [false, true] {
            if red && c.link.is_empty() { continue }
            let cx = Ctx { name: &c.name, link: &c.link, red, lean_ref };
            guarded_case(&mut s, &format!("{} reduced={}", c.name, red), |s| complexes_for(s, &mut r, &cx, thorough));
        }
    }

    // (iii) structural operations (tangles, cobordisms): appended last so that the streams above keep their draws
    let mut r3 = Rng::new(args.seed ^ 0x5712_c05b);
    let t3 = std::time::Instant::now();
    structural::run(&mut s, &mut r3, thorough);
    eprintln!("c05: structural streams took {} ms", t3.elapsed().as_millis());

    // (iv) the engine, step by step (own generator state as well)
    let mut r4 = Rng::new(args.seed ^ 0x0e61_9e05);
    let t4 = std::time::Instant::now();
    engine_stream(&mut s, &mut r4, thorough, &cases);
    eprintln!("c05: engine stream took {} ms", t4.elapsed().as_millis());
    s.finish();
}
