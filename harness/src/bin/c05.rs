//! C05 — every Khovanov complex returned is a graded chain complex, over any ring.
//!
//! (i)  kernel: `CobComp::{part_eval, eval, deg, is_zero_cob, is_unit_cob, should_part_eval}` on components
//!      built through the public constructors, over `i64`, `BigInt`, `Poly<'H',i64>`, `Poly<'T',i64>`,
//!      `Poly2<'H','T',i64>`, compared exactly with the Lean model (`cob` requests).
//! (ii) complexes: `KhComplex::<R>::new` for nine rings; oracle on the implementation alone with naive dense
//!      arithmetic (d∘d = 0, the differential raises h_deg by one, q-homogeneity of every entry, homology of the
//!      complex built with polynomial parameters and evaluated at a point = homology of the complex built
//!      directly); integer matrices additionally go to the Lean driver (`hom` requests: verified `matMulZero`,
//!      homology by Smith invariants, cube-of-resolutions reference).
use num_bigint::BigInt;
use num_traits::Zero;
use yui::lc::Lc;
use yui::poly::{Mono, Poly, Poly2};
use yui::{EucRing, EucRingOps, Ratio, Ring, RingOps, FF, FF2};
use yui_homology::{ChainComplexTrait, GenericChainComplex, GridTrait, SummandTrait};
use yui_kh::kh::internal::v2::cob::{Cob, CobComp};
use yui_kh::kh::internal::v2::tng::{Tng, TngComp};
use yui_kh::kh::{KhChain, KhComplex, KhGen, KhHomology};
use yui_link::Link;
use yui_matrix::sparse::SpMat;
use yui_matrix::MatTrait;
use yui::bitseq::Bit;
use yv::links::*;
use yv::rings::Txt;
use yv::*;

// ---------------------------------------------------------------------------------------------
// entries: monomials H^a T^b with coefficients in a base ring

trait Entry: Sized {
    type Base: Clone;
    fn terms(&self) -> Vec<(usize, usize, Self::Base)>;
}
macro_rules! impl_entry_num { ($($t:ty),*) => { $(impl Entry for $t {
    type Base = $t;
    fn terms(&self) -> Vec<(usize, usize, $t)> { if Zero::is_zero(self) { vec![] } else { vec![(0, 0, self.clone())] } }
})* } }
impl_entry_num!(i64, BigInt, Ratio<i64>, FF2, FF<3>);

impl<S> Entry for Poly<'H', S> where S: Ring, for<'x> &'x S: RingOps<S> {
    type Base = S;
    fn terms(&self) -> Vec<(usize, usize, S)> { self.iter().filter(|(_, c)| !c.is_zero()).map(|(m, c)| (m.deg(), 0, c.clone())).collect() }
}
impl<S> Entry for Poly<'T', S> where S: Ring, for<'x> &'x S: RingOps<S> {
    type Base = S;
    fn terms(&self) -> Vec<(usize, usize, S)> { self.iter().filter(|(_, c)| !c.is_zero()).map(|(m, c)| (0, m.deg(), c.clone())).collect() }
}
impl<S> Entry for Poly2<'H', 'T', S> where S: Ring, for<'x> &'x S: RingOps<S> {
    type Base = S;
    fn terms(&self) -> Vec<(usize, usize, S)> { self.iter().filter(|(_, c)| !c.is_zero()).map(|(m, c)| (m.deg_for(0), m.deg_for(1), c.clone())).collect() }
}

/// canonical coefficient text: a base element, or `c*a.b+…` sorted by (a, b) (`0` for zero)
fn poly_txt<P: Entry>(p: &P) -> String where P::Base: Txt {
    let mut t = p.terms();
    if t.is_empty() { return "0".into() }
    t.sort_by_key(|x| (x.0, x.1));
    t.iter().map(|(a, b, c)| format!("{}*{}.{}", c.txt(), a, b)).collect::<Vec<_>>().join("+")
}

// ---------------------------------------------------------------------------------------------
// (i) kernel

#[derive(Clone)]
struct Shape { name: &'static str, src: Vec<TngComp>, tgt: Vec<TngComp>, nbdr: usize, endpts: usize }

fn shapes() -> Vec<Shape> {
    let a = |x: usize, y: usize| TngComp::arc([x, y]);
    let c = |x: usize| TngComp::circ([x]);
    let sh = |name, src, tgt, nbdr, endpts| Shape { name, src, tgt, nbdr, endpts };
    vec![
        sh("closed", vec![], vec![], 0, 0),
        sh("cup", vec![], vec![c(1)], 1, 0),
        sh("cap", vec![c(1)], vec![], 1, 0),
        sh("cyl", vec![c(1)], vec![c(2)], 2, 0),
        sh("id-arc", vec![a(1, 2)], vec![a(1, 2)], 1, 2),
        sh("saddle", vec![a(1, 2), a(3, 4)], vec![a(1, 3), a(2, 4)], 1, 4),
        sh("merge-circ-arc", vec![c(9), a(1, 2)], vec![a(1, 2)], 2, 2),
        sh("split-arc-circ", vec![a(1, 2)], vec![a(1, 2), c(9)], 2, 2),
        sh("pants", vec![c(1), c(2)], vec![c(3)], 3, 0),
        sh("copants", vec![c(10)], vec![c(10), c(11)], 3, 0),
        sh("two-strips", vec![a(1, 2), a(3, 4)], vec![a(1, 2), a(3, 4)], 2, 4),
        sh("saddle+circs", vec![a(1, 2), a(3, 4), c(10)], vec![a(1, 3), a(2, 4), c(11)], 3, 4),
        sh("three-arcs", vec![a(1, 2), a(3, 4), a(5, 6)], vec![a(2, 3), a(4, 5), a(6, 1)], 1, 6),
    ]
}

/// canonical text of an `LcCob` produced from a component with boundary `(src, tgt)`
fn lc_txt<R>(lc: &Lc<Cob, R>, shape: &Shape, bound: usize, ctxt: &dyn Fn(&R) -> String) -> String
where R: Ring, for<'x> &'x R: RingOps<R> {
    let mut terms: Vec<((usize, usize, usize), String, String)> = vec![];
    for (cob, r) in lc.iter() {
        let (rank, key) = if cob.is_empty() { ((0, 0, 0), "E".to_string()) }
        else if cob.ncomps() == 1 {
            let comp = cob.comp(0);
            let mut found = None;
            'o: for x in 0..=bound { for y in 0..=bound {
                let cand = CobComp::new(Tng::new(shape.src.clone()), Tng::new(shape.tgt.clone()), 0, (x, y));
                if *comp == cand { found = Some((x, y)); break 'o }
            } }
            match found {
                Some((x, y)) => ((1, x, y), format!("{},{}", x, y)),
                None => ((2, comp.genus(), comp.ndots()), format!("?g{}d{}[{}]", comp.genus(), comp.ndots(), comp).replace(' ', "")),
            }
        } else { ((3, cob.ncomps(), 0), format!("?{}", cob).replace(' ', "")) };
        terms.push((rank, key, ctxt(r)));
    }
    if terms.is_empty() { return "0".into() }
    terms.sort();
    terms.iter().map(|(_, k, c)| format!("{}:{}", k, c)).collect::<Vec<_>>().join(";")
}

fn cob_case<R>(s: &mut Sink, shape: &Shape, g: usize, x: usize, y: usize, h: &R, t: &R, htxt: &str, ttxt: &str, ring: &str, ctxt: &dyn Fn(&R) -> String)
where R: Ring, for<'x> &'x R: RingOps<R> {
    let closed = shape.src.is_empty() && shape.tgt.is_empty();
    let req = format!("cob {} {} {} {} {} {} {} {}", htxt, ttxt, closed as u8, shape.nbdr, shape.endpts, g, x, y);
    let reply = guard(|| {
        let comp = CobComp::new(Tng::new(shape.src.clone()), Tng::new(shape.tgt.clone()), g, (x, y));
        let pe = comp.part_eval(h, t);
        let pe_s = lc_txt(&pe, shape, g + x + y + 1, ctxt);
        let ev = guard(|| comp.eval(h, t)).map(|r| ctxt(&r)).unwrap_or("panic".into());
        let d = comp.deg();
        format!("pe={} ev={} deg={} zus={}{}{}", pe_s, ev, d, comp.is_zero_cob() as u8, comp.is_unit_cob() as u8, comp.should_part_eval() as u8)
    }).unwrap_or("panic".into());
    s.count(&format!("cob.ring.{}", ring));
    s.count(&format!("cob.shape.{}", shape.name));
    s.count(&format!("cob.genus.{}", g.min(6)));
    s.count(&format!("cob.dots.{}", (x + y).min(12)));
    if reply.contains("ev=panic") { s.count("cob.eval-rejected(open)"); }
    s.case(&req, &reply, g + x + y >= 2);
}

fn kernel(s: &mut Sink, r: &mut Rng, thorough: bool) {
    let shp = shapes();
    type PH = Poly<'H', i64>; type PT = Poly<'T', i64>; type P2 = Poly2<'H', 'T', i64>;
    let run_all = |s: &mut Sink, sh: &Shape, g: usize, x: usize, y: usize, h: i64, t: i64, which: u64| {
        match which {
            0 => cob_case::<i64>(s, sh, g, x, y, &h, &t, &h.to_string(), &t.to_string(), "i64", &|c| c.to_string()),
            1 => cob_case::<BigInt>(s, sh, g, x, y, &BigInt::from(h), &BigInt::from(t), &h.to_string(), &t.to_string(), "BigInt", &|c| c.to_string()),
            2 => cob_case::<P2>(s, sh, g, x, y, &P2::variable(0), &P2::variable(1), "H", "T", "Poly2<H,T>", &|c| poly_txt(c)),
            3 => cob_case::<PH>(s, sh, g, x, y, &PH::variable(), &PH::from_const(t), "H", &t.to_string(), "Poly<H>", &|c| poly_txt(c)),
            _ => cob_case::<PT>(s, sh, g, x, y, &PT::from_const(h), &PT::variable(), &h.to_string(), "T", "Poly<T>", &|c| poly_txt(c)),
        }
    };
    // hand-written corner cases: the seven arms, every shape, h/t in {0, ±1}
    for sh in &shp {
        for (g, x, y) in [(0, 0, 0), (0, 1, 0), (0, 0, 1), (0, 1, 1), (0, 2, 0), (0, 0, 2), (1, 0, 0), (2, 0, 0), (3, 0, 0), (0, 3, 1), (1, 2, 2), (2, 1, 1)] {
            for (h, t) in [(0, 0), (1, 0), (0, 1), (2, 3), (-1, 5)] {
                run_all(s, sh, g, x, y, h, t, 0);
            }
            run_all(s, sh, g, x, y, 0, 0, 2);
            run_all(s, sh, g, x, y, 0, 0, 3);
            run_all(s, sh, g, x, y, 0, 0, 4);
        }
    }
    // exhaustive small box (closed + one open shape), all rings
    let (gm, dm) = if thorough { (5, 7) } else { (3, 4) };
    for sh in [&shp[0], &shp[5], &shp[3]] {
        for g in 0..=gm { for x in 0..=dm { for y in 0..=dm {
            let (h, t) = (r.range(-3, 3), r.range(-3, 3));
            run_all(s, sh, g, x, y, h, t, 0);
            run_all(s, sh, g, x, y, h, t, 2);
            if thorough { run_all(s, sh, g, x, y, r.range(-3, 3), r.range(-3, 3), 3); run_all(s, sh, g, x, y, r.range(-3, 3), r.range(-3, 3), 4); }
        } } }
    }
    // random stream
    let n = if thorough { 6000 } else { 700 };
    for _ in 0..n {
        let sh = r.pick(&shp).clone();
        let which = r.below(5);
        let (g, x, y, h, t) = match which {
            0 => { // i64: keep 2^g (|h|+|t|)^(g+x+y) far below 2^63
                let g = r.below(5) as usize; let x = r.below(8 - g as u64) as usize; let y = r.below((9 - g - x) as u64) as usize;
                (g, x, y, r.range(-6, 6), r.range(-6, 6))
            }
            1 => (r.below(if thorough { 9 } else { 6 }) as usize, r.below(if thorough { 14 } else { 9 }) as usize, r.below(if thorough { 14 } else { 9 }) as usize,
                  r.range(-1000, 1000), r.range(-1000, 1000)),
            _ => (r.below(if thorough { 7 } else { 5 }) as usize, r.below(if thorough { 10 } else { 7 }) as usize, r.below(if thorough { 10 } else { 7 }) as usize,
                  r.range(-4, 4), r.range(-4, 4)),
        };
        run_all(s, &sh, g, x, y, h, t, which);
    }
}

// ---------------------------------------------------------------------------------------------
// (ii) complexes

struct Exported<R> { imin: isize, ranks: Vec<usize>, mats: Vec<Vec<(usize, usize, R)>> }

fn dense<R: Clone>(rows: usize, cols: usize, e: &[(usize, usize, R)], zero: &R) -> Vec<Vec<R>> {
    let mut m = vec![vec![zero.clone(); cols]; rows];
    for (i, j, v) in e { m[*i][*j] = v.clone(); }
    m
}

/// all clauses that can be evaluated on one complex alone
fn check_complex<R>(s: &mut Sink, desc: &str, c: &KhComplex<R>, graded: bool) -> Option<Exported<R>>
where R: Ring + Entry, for<'x> &'x R: RingOps<R> {
    let range = c.h_range();
    let (imin, imax) = (*range.start(), *range.end());
    let is: Vec<isize> = (imin..=imax).collect();
    let ranks: Vec<usize> = is.iter().map(|&i| c.rank(i)).collect();
    let gens: Vec<Vec<KhGen>> = is.iter().map(|&i| c[i].raw_gens().iter().cloned().collect()).collect();
    let k = is.len();
    // --- the differential raises homological degree by one
    let mut ok = c.d_deg() == 1;          // exactly the property: y in d(x) => h_deg(y) = h_deg(x) + 1
    let mut detail = String::new();
    let mut ok2 = true;                   // bookkeeping consistency: C_i is spanned by generators of h_deg i, d(C_i) ⊂ C_{i+1}
    let mut detail2 = String::new();
    for (p, &i) in is.iter().enumerate() {
        if gens[p].len() != ranks[p] { ok2 = false; detail2 = format!("rank({})={} but {} generators", i, ranks[p], gens[p].len()); }
        for x in &gens[p] {
            if x.h_deg() != i { ok2 = false; detail2 = format!("generator {} listed in degree {} has h_deg {}", x, i, x.h_deg()); }
        }
    }
    // d on generators
    let mut dgen: Vec<Vec<Vec<(KhGen, R)>>> = vec![];
    for (p, &i) in is.iter().enumerate() {
        let mut col = vec![];
        for x in &gens[p] {
            let dx = c.d(i, &KhChain::from(x.clone()));
            let mut v: Vec<(KhGen, R)> = vec![];
            for (y, a) in dx.iter() {
                if a.is_zero() { continue }
                if y.h_deg() != x.h_deg() + 1 {
                    ok = false; detail = format!("d({}) (h_deg {}) contains {} of h_deg {}", x, x.h_deg(), y, y.h_deg());
                }
                if !(p + 1 < k && gens[p + 1].contains(y)) {
                    ok2 = false; detail2 = format!("d({}) in degree {} contains {} which is not a generator of degree {}", x, i, y, i + 1);
                }
                v.push((y.clone(), a.clone()));
            }
            col.push(v);
        }
        dgen.push(col);
    }
    s.oracle(ok, "the differential raises homological degree by one (d_deg = 1 and every generator y occurring in d(x) has h_deg(y) = h_deg(x) + 1)", desc, &detail);
    s.oracle(ok2, "the grading of the complex is the generators' homological degree (C_i is spanned by rank(i) generators of h_deg i and d(C_i) lies in the span of the generators of C_{i+1})", desc, &detail2);
    if !ok2 { return None }

    // --- matrices
    let mut mats: Vec<Vec<(usize, usize, R)>> = vec![];
    let mut shape_ok = true; let mut sdetail = String::new();
    for (p, &i) in is.iter().enumerate() {
        let m = c.d_matrix(i);
        let want = (if p + 1 < k { ranks[p + 1] } else { 0 }, ranks[p]);
        if m.shape() != want { shape_ok = false; sdetail = format!("d_matrix({}) has shape {:?}, ranks say {:?}", i, m.shape(), want); }
        mats.push(m.iter().filter(|(_, _, a)| !a.is_zero()).map(|(a, b, v)| (a, b, v.clone())).collect());
    }
    s.oracle(shape_ok, "d_matrix(i) is a rank(i+1) x rank(i) matrix", desc, &sdetail);
    if !shape_ok { return None }

    // --- d∘d = 0 (naive dense product of the exported matrices, and d(d(x)) on generators)
    let zero = R::zero();
    let mut dd_ok = true; let mut ddetail = String::new();
    for p in 0..k.saturating_sub(2) {
        let a = dense(ranks[p + 2], ranks[p + 1], &mats[p + 1], &zero);
        let b = dense(ranks[p + 1], ranks[p], &mats[p], &zero);
        for i in 0..ranks[p + 2] { for j in 0..ranks[p] {
            let mut acc = R::zero();
            for l in 0..ranks[p + 1] { if !a[i][l].is_zero() && !b[l][j].is_zero() { acc = acc + &a[i][l] * &b[l][j]; } }
            if !acc.is_zero() { dd_ok = false; ddetail = format!("(d_{} d_{})[{},{}] = {}", is[p + 1], is[p], i, j, acc); }
        } }
    }
    for (p, &i) in is.iter().enumerate() {
        for x in &gens[p] {
            let dx = c.d(i, &KhChain::from(x.clone()));
            let ddx = c.d(i + 1, &dx);
            if ddx.iter().any(|(_, a)| !a.is_zero()) { dd_ok = false; ddetail = format!("d(d({})) = {} in degree {}", x, ddx, i); }
        }
    }
    s.oracle(dd_ok, "d∘d = 0 (product of consecutive d_matrix, and d(d(x)) for every generator x)", desc, &ddetail);

    // --- q-homogeneity: entry x -> y is homogeneous in H (deg -2), T (deg -4) of degree q(x) - q(y)
    if graded {
        let mut q_ok = true; let mut qdetail = String::new();
        for p in 0..k {
            // through d on generators
            for (jx, x) in gens[p].iter().enumerate() {
                for (y, a) in &dgen[p][jx] {
                    for (ea, eb, _) in a.terms() {
                        if y.q_deg() - x.q_deg() != (2 * ea + 4 * eb) as isize {
                            q_ok = false; qdetail = format!("d: {} (q={}) -> {} (q={}) has coefficient {} with monomial H^{} T^{}", x, x.q_deg(), y, y.q_deg(), a, ea, eb);
                        }
                    }
                }
            }
            // through d_matrix (column j = j-th generator of C_i, row i = i-th generator of C_{i+1})
            if p + 1 < k {
                for (ri, cj, a) in &mats[p] {
                    let (x, y) = (&gens[p][*cj], &gens[p + 1][*ri]);
                    for (ea, eb, _) in a.terms() {
                        if y.q_deg() - x.q_deg() != (2 * ea + 4 * eb) as isize {
                            q_ok = false; qdetail = format!("d_matrix({})[{},{}]: {} (q={}) -> {} (q={}) entry {} has monomial H^{} T^{}", is[p], ri, cj, x, x.q_deg(), y, y.q_deg(), a, ea, eb);
                        }
                    }
                }
            }
        }
        s.oracle(q_ok, "with deg h = -2, deg t = -4 the differential is homogeneous of quantum degree 0: an entry x -> y is a combination of monomials H^a T^b with 2a + 4b = q(y) - q(x)", desc, &qdetail);
    }
    let _ = gens;
    Some(Exported { imin, ranks, mats })
}

fn hom_table<S>(cells: Vec<(isize, usize, Vec<S>)>, tor: &dyn Fn(&S) -> BigInt) -> String {
    table_txt(cells.into_iter().map(|(i, rk, ts)| ((i, None), group_txt(rk, ts.iter().map(|x| tor(x)).collect()))).collect())
}

fn direct_table<S>(l: &Link, h: &S, t: &S, red: bool, tor: &dyn Fn(&S) -> BigInt) -> String
where S: EucRing, for<'x> &'x S: EucRingOps<S> {
    let kh = KhHomology::new(l, h, t, red);
    hom_table(kh.support().map(|i| { let g = kh.get(i); (i, g.rank(), g.tors().iter().cloned().collect::<Vec<S>>()) }).collect(), tor)
}

/// homology of a complex given by matrices over `S`, through the library's own `GenericChainComplex`
fn matrix_table<S>(imin: isize, ranks: &[usize], mats: &[Vec<(usize, usize, S)>], tor: &dyn Fn(&S) -> BigInt) -> String
where S: EucRing, for<'x> &'x S: EucRingOps<S> {
    let k = ranks.len() as isize;
    let c = GenericChainComplex::<S>::generate(imin..imin + k, 1, |i| {
        let p = (i - imin) as usize;
        let rows = if p + 1 < ranks.len() { ranks[p + 1] } else { 0 };
        SpMat::from_entries((rows, ranks[p]), mats[p].iter().cloned())
    });
    let h = c.homology();
    hom_table(h.support().map(|i| { let g = h.get(i); (i, g.rank(), g.tors().iter().cloned().collect::<Vec<S>>()) }).collect(), tor)
}

fn mats_txt(ranks: &[usize], mats: &[Vec<(usize, usize, i64)>]) -> String {
    let k = ranks.len();
    let mut out: Vec<String> = ranks.iter().map(|r| r.to_string()).collect();
    for p in 0..k.saturating_sub(1) {
        let mut e = mats[p].clone();
        e.sort();
        out.push(format!("{}x{}:{}", ranks[p + 1], ranks[p], e.iter().map(|(i, j, v)| format!("{}.{}.{}", i, j, v)).collect::<Vec<_>>().join(",")));
    }
    out.join(" ")
}

fn eval_entry<S>(terms: &[(usize, usize, S)], h0: &S, t0: &S) -> S
where S: Ring, for<'x> &'x S: RingOps<S> {
    let mut acc = S::zero();
    for (a, b, c) in terms {
        let mut v = c.clone();
        for _ in 0..*a { v = &v * h0; }
        for _ in 0..*b { v = &v * t0; }
        acc = acc + v;
    }
    acc
}

struct Ctx<'a> { name: &'a str, link: &'a Link, red: bool, lean_ref: bool }

/// integer complex ⇒ `hom` request for the Lean driver; the implementation's side of the line is the
/// directly built homology table (so matrices / reference / direct must all agree)
fn lean_hom(s: &mut Sink, cx: &Ctx, h0: i64, t0: i64, imin: isize, ranks: &[usize], mats: &[Vec<(usize, usize, i64)>], direct: &str, use_ref: bool) {
    let req = format!("hom {} {} {} {} {} {} {} | {}", h0, t0, cx.red as u8, use_ref as u8, imin, ranks.len(), mats_txt(ranks, mats), link_txt(cx.link));
    let reply = format!("dd=ok mat={} ref={}", direct, if use_ref { direct } else { "-" });
    s.count(if use_ref { "hom.with-reference" } else { "hom.matrices-only" });
    s.case(&req, &reply, cx.link.crossing_num() >= 2);
}

/// polynomial complex evaluated at points vs. the complex built directly there
fn specialise<P, S>(s: &mut Sink, r: &mut Rng, cx: &Ctx, ring: &str, ex: &Exported<P>, pts: &[(i64, i64)], conv: &dyn Fn(i64) -> S,
                    tor: &dyn Fn(&S) -> BigInt, to_i64: Option<&dyn Fn(&S) -> i64>, n_ref: usize)
where P: Entry<Base = S>, S: EucRing, for<'x> &'x S: EucRingOps<S> {
    let mut ref_budget = n_ref;
    let mut order: Vec<usize> = (0..pts.len()).collect();
    r.shuffle(&mut order);
    for (rank_in_order, &pi) in order.iter().enumerate() {
        let (h0, t0) = pts[pi];
        let (hs, ts) = (conv(h0), conv(t0));
        let mats: Vec<Vec<(usize, usize, S)>> = ex.mats.iter().map(|m| m.iter().map(|(i, j, a)| (*i, *j, eval_entry(&a.terms(), &hs, &ts))).filter(|(_, _, v)| !v.is_zero()).collect()).collect();
        let desc = format!("{} ring={} reduced={} built with polynomial parameters, evaluated at (h,t)=({},{}) link: {}", cx.name, ring, cx.red, h0, t0, link_txt(cx.link));
        let ev = guard(|| matrix_table(ex.imin, &ex.ranks, &mats, tor));
        let l2 = cx.link.clone(); let red = cx.red;
        let direct = guard(|| direct_table(&l2, &hs, &ts, red, tor));
        let (Some(ev), Some(direct)) = (ev, direct) else {
            s.oracle(false, "the library computes the homology of the evaluated / directly built complex without panic", &desc, "panic");
            continue
        };
        s.oracle(ev == direct, "a complex built with polynomial parameters (H,T) and evaluated at (h,t) has the same homology as the complex built directly with (h,t)",
            &desc, &format!("evaluated: {} | direct: {}", ev, direct));
        s.count(&format!("spec.{}", ring));
        s.eval_only(&desc, cx.link.crossing_num() >= 2);
        if let Some(f) = to_i64 {
            let im: Vec<Vec<(usize, usize, i64)>> = mats.iter().map(|m| m.iter().map(|(i, j, v)| (*i, *j, f(v))).collect()).collect();
            let use_ref = cx.lean_ref && (n_ref == usize::MAX || (ref_budget > 0 && rank_in_order < n_ref));
            if use_ref { ref_budget -= 1; }
            lean_hom(s, cx, h0, t0, ex.imin, &ex.ranks, &im, &direct, use_ref);
        }
    }
}

fn build<R>(s: &mut Sink, cx: &Ctx, ring: &str, h: &R, t: &R, htxt: &str, graded: bool) -> Option<Exported<R>>
where R: Ring + Entry + Send + Sync + 'static, for<'x> &'x R: RingOps<R> {
    let desc = format!("{} ring={} (h,t)=({}) reduced={} link: {}", cx.name, ring, htxt, cx.red, link_txt(cx.link));
    let (l, h2, t2, red) = (cx.link.clone(), h.clone(), t.clone(), cx.red);
    let c = match guard_timeout(120, move || KhComplex::<R>::new(&l, &h2, &t2, red)) {
        Some(Some(c)) => c,
        other => { s.oracle(false, "KhComplex::new terminates without panic on a valid diagram", &desc, if other.is_none() { "timeout" } else { "panic" }); return None }
    };
    s.count(&format!("complex.ring.{}", ring));
    s.count(&format!("complex.crossings.{}", cx.link.crossing_num()));
    s.count(if cx.red { "complex.reduced" } else { "complex.unreduced" });
    let total: usize = c.h_range().map(|i| c.rank(i)).sum();
    s.count(&format!("complex.generators.{}", match total { 0..=2 => "0-2", 3..=8 => "3-8", 9..=32 => "9-32", _ => "33+" }));
    s.eval_only(&desc, cx.link.crossing_num() >= 2);
    let mut out = None;
    guarded_case(s, &desc, |s| { out = check_complex(s, &desc, &c, graded); });
    out
}

fn complexes_for(s: &mut Sink, r: &mut Rng, cx: &Ctx, thorough: bool) {
    let bigz = |x: &i64| BigInt::from(*x);
    let nonempty = !cx.link.is_empty();
    // numeric rings
    let hts: Vec<(i64, i64)> = if cx.red { vec![(0, 0), (1, 0), (-2, 0), (3, 0)] } else { vec![(0, 0), (1, 0), (0, 1), (2, 3), (-1, 5)] };
    for &(h, t) in &hts {
        let g0 = (h, t) == (0, 0);
        let htxt = format!("{},{}", h, t);
        if g0 || r.chance(1, 2) || thorough {
            if let Some(ex) = build::<i64>(s, cx, "i64", &h, &t, &htxt, g0) {
                // the integer complex itself goes to the Lean checker; its homology must be the directly computed one
                let l2 = cx.link.clone(); let red = cx.red;
                if let Some(direct) = guard(|| direct_table(&l2, &h, &t, red, &bigz)) {
                    let use_ref = cx.lean_ref;
                    lean_hom(s, cx, h, t, ex.imin, &ex.ranks, &ex.mats, &direct, use_ref);
                }
            }
        }
        if g0 || r.chance(1, 3) { build::<Ratio<i64>>(s, cx, "Ratio<i64>", &Ratio::from(h), &Ratio::from(t), &htxt, g0); }
        if g0 || r.chance(1, 3) { build::<FF2>(s, cx, "FF2", &FF2::from(h), &FF2::from(t), &htxt, h % 2 == 0 && t % 2 == 0); }
        if g0 || r.chance(1, 3) { build::<FF<3>>(s, cx, "FF<3>", &FF::<3>::new(h as i32), &FF::<3>::new(t as i32), &htxt, h % 3 == 0 && t % 3 == 0); }
    }
    // polynomial rings
    type PH = Poly<'H', i64>; type PT = Poly<'T', i64>; type P2 = Poly2<'H', 'T', i64>;
    type PHQ = Poly<'H', Ratio<i64>>; type PHF = Poly<'H', FF2>;
    let n_ref = if cx.link.crossing_num() <= 6 { usize::MAX } else { 4 };
    let id = |x: &i64| *x;
    {
        let pts: Vec<(i64, i64)> = (-2..=2).map(|h| (h, 0)).collect();
        if let Some(ex) = build::<PH>(s, cx, "Poly<H,i64>", &PH::variable(), &PH::zero(), "H,0", true) {
            specialise::<PH, i64>(s, r, cx, "Poly<H,i64>", &ex, &pts, &|x| x, &bigz, Some(&id), n_ref);
        }
        if let Some(ex) = build::<PHQ>(s, cx, "Poly<H,Ratio>", &PHQ::variable(), &PHQ::zero(), "H,0", true) {
            specialise::<PHQ, Ratio<i64>>(s, r, cx, "Poly<H,Ratio>", &ex, &pts, &|x| Ratio::from(x), &|_| BigInt::from(0), None, 0);
        }
        if let Some(ex) = build::<PHF>(s, cx, "Poly<H,FF2>", &PHF::variable(), &PHF::zero(), "H,0", true) {
            specialise::<PHF, FF2>(s, r, cx, "Poly<H,FF2>", &ex, &[(0, 0), (1, 0)], &|x| FF2::from(x), &|_| BigInt::from(0), None, 0);
        }
    }
    if !cx.red {
        let pts: Vec<(i64, i64)> = (-2..=2).map(|t| (0, t)).collect();
        if let Some(ex) = build::<PT>(s, cx, "Poly<T,i64>", &PT::zero(), &PT::variable(), "0,T", true) {
            specialise::<PT, i64>(s, r, cx, "Poly<T,i64>", &ex, &pts, &|x| x, &bigz, Some(&id), n_ref);
        }
        let mut pts: Vec<(i64, i64)> = vec![];
        for h in -2..=2 { for t in -2..=2 { pts.push((h, t)); } }
        if let Some(ex) = build::<P2>(s, cx, "Poly2<H,T,i64>", &P2::variable(0), &P2::variable(1), "H,T", true) {
            specialise::<P2, i64>(s, r, cx, "Poly2<H,T,i64>", &ex, &pts, &|x| x, &bigz, Some(&id), n_ref.saturating_add(2));
        }
    }
    let _ = nonempty;
}

/// the constructor's assertion: reduced needs a non-empty link and t = 0
fn ctor_guard(s: &mut Sink, name: &str, l: &Link, t: i64, red: bool) {
    let req = format!("new {} {} {}", red as u8, (!l.is_empty()) as u8, (t == 0) as u8);
    let l2 = l.clone();
    let reply = match guard(move || { let _ = KhComplex::<i64>::new(&l2, &1, &t, red); }) { Some(_) => "ok", None => "panic" };
    s.count(&format!("ctor.{}", reply));
    let _ = name;
    s.case(&req, reply, true);
}

struct Case { name: String, link: Link }

fn main() {
    let args = Args::parse();
    quiet_panics();
    let thorough = args.thorough();
    let mut s = Sink::new(&args, "kernel cases: (component shape, genus, X-dots, Y-dots, ring in {i64,BigInt,Poly<H>,Poly<T>,Poly2<H,T>}, h, t) -> part_eval/eval/deg/predicates compared with the Lean model; \
        complex cases: (link diagram, ring in {i64,Ratio,FF2,FF<3>,Poly<H,i64>,Poly<T,i64>,Poly2<H,T,i64>,Poly<H,Ratio>,Poly<H,FF2>}, (h,t), reduced?) -> d∘d=0, h-degree, q-homogeneity, \
        specialisation at (h0,t0) in {-2..2}^2 vs the directly built complex; integer matrices also to the Lean checker (matMulZero, Smith homology, cube reference); \
        non-trivial = genus+dots >= 2 (kernel) / diagram with >= 2 crossings (complexes); distinct = distinct request lines / descriptions");
    let mut r = Rng::new(args.seed);

    // (i) kernel
    kernel(&mut s, &mut r, thorough);

    // (ii) complexes
    let mut cases: Vec<Case> = vec![];
    let mk = |name: &str, link: Link| Case { name: name.to_string(), link };
    cases.push(mk("empty", Link::empty()));
    cases.push(mk("unknot", Link::unknot()));
    cases.push(mk("kink+", Link::from_pd_code([[0, 0, 1, 1]])));
    cases.push(mk("kink-", Link::from_pd_code([[0, 1, 1, 0]])));
    cases.push(mk("unlink2", Link::from_pd_code([[0, 0, 1, 1]]).resolved_at(0, Bit::Bit0)));
    cases.push(mk("hopf", Link::hopf_link()));
    cases.push(mk("hopf-mirror", Link::hopf_link().mirror()));
    cases.push(mk("trefoil", Link::trefoil()));
    cases.push(mk("trefoil-mirror", Link::trefoil().mirror()));
    cases.push(mk("figure8", Link::figure8()));
    {
        let mut pd = pd_of(&Link::trefoil());
        pd.extend(pd_of(&Link::hopf_link()).into_iter().map(|c| c.map(|e| e + 10)));
        cases.push(mk("split:trefoil+hopf", link_of(&pd)));
    }
    if let Some(l) = braid_closure(2, &[1, -1]) { cases.push(mk("braid[1,-1]", l)); }

    // constructor guard (boundary stream)
    for c in cases.iter().take(6) {
        for t in [0i64, 1] { for red in [false, true] { ctor_guard(&mut s, &c.name, &c.link, t, red); } }
    }

    let max_tbl = if thorough { 8 } else { 6 };
    let mut names = table_names(max_tbl);
    r.shuffle(&mut names);
    names.truncate(if thorough { 90 } else { 7 });
    for n in names { if let Some(l) = load(&n) { cases.push(mk(&n, l)); } }

    let n_braids = if thorough { 80 } else { 7 };
    for _ in 0..n_braids {
        let strands = 2 + r.below(if thorough { 4 } else { 3 }) as usize;
        let len = (strands - 1) + r.below(if thorough { 6 } else { 4 }) as usize;
        let (w, l) = random_braid(&mut r, strands, len.min(if thorough { 8 } else { 6 }));
        if let Some(l) = l { cases.push(mk(&format!("braid{}{:?}", strands, w), l)); }
    }

    let base: Vec<(String, Pd)> = cases.iter().filter(|c| is_plain_pd(&c.link) && !c.link.is_empty()).map(|c| (c.name.clone(), pd_of(&c.link))).collect();
    let n_var = if thorough { 60 } else { 6 };
    for _ in 0..n_var {
        let (name, pd) = r.pick(&base).clone();
        if pd.len() > (if thorough { 7 } else { 5 }) { continue }
        let mut p = pd;
        let mut tag = String::new();
        for _ in 0..(1 + r.below(2)) {
            match r.below(3) {
                0 => { if let Some(q) = add_kink(&mut r, &p) { p = q; tag.push_str("+kink"); } }
                1 => { p = renumber(&mut r, &p); tag.push_str("+renum"); }
                _ => { p = reorder(&mut r, &p); tag.push_str("+reorder"); }
            }
        }
        cases.push(mk(&format!("{}{}", name, tag), link_of(&p)));
    }

    for c in &cases {
        let n = c.link.crossing_num();
        if n > (if thorough { 8 } else { 6 }) { continue }
        s.count(&format!("diagram.{}", c.name.split(|ch: char| !ch.is_ascii_alphabetic()).next().unwrap_or("other")));
        // the Lean cube reference is exponential in the crossing number
        let lean_ref = n <= (if thorough { 8 } else { 6 });
        for red in [false, true] {
            if red && c.link.is_empty() { continue }
            let cx = Ctx { name: &c.name, link: &c.link, red, lean_ref };
            guarded_case(&mut s, &format!("{} reduced={}", c.name, red), |s| complexes_for(s, &mut r, &cx, thorough));
        }
    }
    s.finish();
}
