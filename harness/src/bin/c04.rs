//! C04 — Jones polynomial: library routine vs. Lean code model; vs. graded Euler characteristic of the library's
//! Khovanov homology; invariance under isotopy moves; q -> 1/q under mirroring.
use std::collections::BTreeMap;
use yui::Ratio;
use yui_homology::{GridTrait, SummandTrait};
use yui_kh::kh::{KhComplexBigraded, KhHomologyBigraded};
use yui_link::Link;
use yui_link::util::jones_polynomial;
use yv::links::*;
use yv::*;

type LP = BTreeMap<isize, i64>;

fn jones(l: &Link) -> LP {
    let p = jones_polynomial(l);
    let mut m = LP::new();
    for (x, c) in p.iter() { if *c != 0 { *m.entry(yui::poly::Mono::deg(x)).or_insert(0) += *c as i64; } }
    m.retain(|_, c| *c != 0);
    m
}
fn lp_txt(p: &LP) -> String {
    if p.is_empty() { "0".into() } else { p.iter().map(|(e, c)| format!("{}:{}", e, c)).collect::<Vec<_>>().join(" ") }
}
fn chi_kh(l: &Link) -> LP {
    let kh = KhHomologyBigraded::<Ratio<i64>>::new(l, &Ratio::from(0), &Ratio::from(0), false);
    let mut m = LP::new();
    for idx in kh.support() {
        let r = kh.get(idx).rank() as i64;
        if r != 0 { *m.entry(idx.1).or_insert(0) += if idx.0.rem_euclid(2) == 0 { r } else { -r }; }
    }
    m.retain(|_, c| *c != 0);
    m
}
/// the same Euler characteristic through the other public route to a bigraded table (homology of the bigraded complex), over Z
fn chi_kh_complex(l: &Link) -> LP {
    let kh = KhComplexBigraded::<i64>::new(l, &0, &0, false).homology();
    let mut m = LP::new();
    for idx in kh.support() {
        let r = kh.get(idx).rank() as i64;
        if r != 0 { *m.entry(idx.1).or_insert(0) += if idx.0.rem_euclid(2) == 0 { r } else { -r }; }
    }
    m.retain(|_, c| *c != 0);
    m
}
fn inv_q(p: &LP) -> LP { p.iter().map(|(e, c)| (-e, *c)).collect() }

fn base_case(s: &mut Sink, name: &str, l: &Link, with_kh: bool) -> Option<LP> {
    let l2 = l.clone();
    let j = guard(move || jones(&l2));
    let sg = guard(|| signs_txt(l));
    let req = format!("jones {}", link_txt(l));
    let reply = match (&sg, &j) { (Some(sg), Some(j)) => format!("signs={} {} ev=ok", sg, lp_txt(j)), _ => "panic".into() };
    s.oracle(j.is_some(), "jones_polynomial terminates without panic on a valid diagram", &format!("{} [{}]", req, name), &reply);
    s.count(&format!("crossings.{}", l.crossing_num()));
    s.case(&req, &reply, l.crossing_num() >= 2);
    let j = j?;
    if with_kh {
        let l3 = l.clone();
        if let Some(Some(c)) = guard_timeout(120, move || chi_kh(&l3)) {
            s.oracle(c == j, "graded Euler characteristic of Kh (library table over Q) = jones_polynomial", &format!("{} [{}]", link_txt(l), name), &format!("chi {} jones {}", lp_txt(&c), lp_txt(&j)));
            s.case(&format!("chi {}", link_txt(l)), &format!("{} ev=ok", lp_txt(&c)), l.crossing_num() >= 2);
            s.count("with-kh");
            let l4 = l.clone();
            match guard_timeout(120, move || chi_kh_complex(&l4)) {
                Some(Some(c2)) => s.oracle(c2 == j, "graded Euler characteristic of Kh (homology of the bigraded complex over Z) = jones_polynomial", &format!("{} [{}]", link_txt(l), name), &format!("chi {} jones {}", lp_txt(&c2), lp_txt(&j))),
                _ => s.oracle(false, "Khovanov homology terminates without panic on a valid diagram", &link_txt(l), "panic/timeout (bigraded complex)"),
            }
        } else {
            s.oracle(false, "Khovanov homology terminates without panic on a valid diagram", &link_txt(l), "panic/timeout");
        }
    }
    Some(j)
}

fn main() {
    let args = Args::parse();
    quiet_panics();
    let thorough = args.thorough();
    let mut s = Sink::new(&args, "cases: link diagrams (corner cases, yui-link table, random braid closures) and their images under random sequences of isotopy moves \
        (braid relations, cancelling pairs, conjugation, stabilisation; PD-level kinks, edge renumbering, crossing reordering, global orientation reversal) and mirroring; \
        jones_polynomial compared exactly with the Lean code model, with the Euler characteristic of the library's Kh table and of the Lean cube reference; \
        non-trivial = diagram with >= 2 crossings; distinct = distinct request lines");
    let mut r = Rng::new(args.seed);
    let kh_max = if thorough { 9 } else { 7 };
    let js_max = if thorough { 12 } else { 10 };

    let mut bases: Vec<(String, Link)> = vec![
        ("empty".into(), Link::empty()), ("unknot".into(), Link::unknot()), ("hopf".into(), Link::hopf_link()),
        ("trefoil".into(), Link::trefoil()), ("figure8".into(), Link::figure8()),
        ("kink+".into(), Link::from_pd_code([[0, 0, 1, 1]])), ("kink-".into(), Link::from_pd_code([[0, 1, 1, 0]])),
    ];
    let mut names = table_names(js_max);
    r.shuffle(&mut names);
    names.truncate(if thorough { 400 } else { 60 });
    for n in names { if let Some(l) = load(&n) { bases.push((n, l)); } }

    for (name, l) in &bases {
        if l.crossing_num() > js_max { continue }
        let Some(j) = base_case(&mut s, name, l, l.crossing_num() <= kh_max) else { continue };
        // mirror: q -> 1/q
        let m = l.mirror();
        if let Some(jm) = base_case(&mut s, &format!("{}-mirror", name), &m, false) {
            s.oracle(jm == inv_q(&j), "jones(mirror L)(q) = jones(L)(1/q)", &format!("{} [{}]", link_txt(l), name), &format!("{} vs {}", lp_txt(&jm), lp_txt(&j)));
        }
        // PD-level moves
        if is_plain_pd(l) && !l.is_empty() {
            let mut pd = pd_of(l);
            let mut tags = vec![];
            for _ in 0..(1 + r.below(4)) {
                match r.below(4) {
                    0 => { if pd.len() < js_max { if let Some(q) = add_kink(&mut r, &pd) { pd = q; tags.push("kink"); } } }
                    1 => { pd = renumber(&mut r, &pd); tags.push("renumber"); }
                    2 => { pd = reorder(&mut r, &pd); tags.push("reorder"); }
                    _ => { pd = reverse_all(&pd); tags.push("reverse"); }
                }
            }
            let moved = link_of(&pd);
            for t in &tags { s.count(&format!("move.{}", t)); }
            if let Some(jm) = base_case(&mut s, &format!("{}+{}", name, tags.join("+")), &moved, moved.crossing_num() <= kh_max && r.chance(1, 3)) {
                s.oracle(jm == j, "jones_polynomial is unchanged by isotopy moves / relabelling", &format!("{} --[{}]--> {}", link_txt(l), tags.join(","), link_txt(&moved)), &format!("{} vs {}", lp_txt(&jm), lp_txt(&j)));
            }
        }
    }
    // partially resolved diagrams (some crossings already smoothed with resolved_at): still link diagrams for every routine
    for (name, l) in bases.iter().filter(|(_, l)| l.crossing_num() >= 2 && l.crossing_num() <= 7).take(if thorough { 40 } else { 10 }) {
        let n = l.crossing_num();
        let i = r.below(n as u64) as usize;
        let b = yui::bitseq::Bit::from(r.bool());
        let l2 = l.clone();
        let Some(pr) = guard(move || l2.resolved_at(i, b)) else { continue };
        let pr = if n >= 3 && r.bool() { let j = r.below(n as u64 - 1) as usize; let p2 = pr.clone(); guard(move || p2.resolved_at(j, yui::bitseq::Bit::Bit1)).unwrap_or(pr) } else { pr };
        s.count("partially-resolved");
        let _ = base_case(&mut s, &format!("{}|resolved_at({},{})", name, i, if b.is_one() { 1 } else { 0 }), &pr, true);
    }
    // split (disconnected) diagrams: disjoint unions of small pieces with shifted labels — the number of circles of a state can then
    // exceed (number of crossings + 1); the Jones polynomial of a split union is (q + 1/q) · product of the pieces
    {
        let pieces: Vec<(&str, Pd)> = vec![("kink+", vec![[0, 0, 1, 1]]), ("kink-", vec![[0, 1, 1, 0]]), ("kink-b", vec![[1, 0, 0, 1]]),
            ("hopf", pd_of(&Link::hopf_link())), ("trefoil", pd_of(&Link::trefoil())), ("figure8", pd_of(&Link::figure8()))];
        for _ in 0..(if thorough { 60 } else { 14 }) {
            let k = 2 + r.below(3) as usize;
            let mut pd: Pd = vec![];
            let mut names = vec![];
            let mut off = 0usize;
            for _ in 0..k {
                let (nm, p) = r.pick(&pieces).clone();
                let mut q = p.clone();
                if r.bool() { if let Some(x) = add_kink(&mut r, &q) { q = x; } }
                let mx = q.iter().flat_map(|c| c.iter()).cloned().max().unwrap_or(0);
                pd.extend(q.iter().map(|c| c.map(|e| e + off)));
                off += mx + 1;
                names.push(nm);
            }
            if pd.len() > js_max { continue }
            if r.bool() { pd = reorder(&mut r, &pd); }
            let l = link_of(&pd);
            let name = format!("split:{}", names.join("+"));
            s.count("split-diagram");
            let _ = base_case(&mut s, &name, &l, l.crossing_num() <= kh_max);
        }
    }
    // braid words and Markov / braid moves
    for _ in 0..(if thorough { 600 } else { 100 }) {
        let strands = 2 + r.below(4) as usize;
        let len = strands - 1 + r.below(5) as usize;
        let (w, l) = random_braid(&mut r, strands, len);
        let Some(l) = l else { continue };
        let name = format!("braid{}{:?}", strands, w);
        let Some(j) = base_case(&mut s, &name, &l, l.crossing_num() <= kh_max && r.chance(1, 2)) else { continue };
        let (mut st, mut ww) = (strands, w.clone());
        let mut tags = vec![];
        for _ in 0..(1 + r.below(6)) {
            let (s2, w2, tag) = braid_move(&mut r, st, &ww);
            if w2.len() > js_max { break }
            st = s2; ww = w2; tags.push(tag);
        }
        for t in &tags { s.count(&format!("move.{}", t)); }
        if let Some(m) = braid_closure(st, &ww) {
            if let Some(jm) = base_case(&mut s, &format!("{}~{:?}", name, ww), &m, false) {
                s.oracle(jm == j, "jones_polynomial is unchanged by braid relations and Markov moves", &format!("braid {} {:?} --[{}]--> {} {:?}", strands, w, tags.join(","), st, ww), &format!("{} vs {}", lp_txt(&jm), lp_txt(&j)));
            }
        }
    }
    s.finish();
}
