//! C14 — scalar types (i64, i128, BigInt, Ratio, FF<p>, FF2, GaussInt, EisenInt) vs. exact arithmetic in
//! BigInt (oracle, on the implementation alone) vs. the Lean code model (through request lines).
//!
//! request lines (see lean/Yuiv/Drv/C14.lean):
//!   un <ring> a | bin <ring> a b | hist <ring> a op:b … | mk <ring> a | op <ring> <op> a b | op1 <ring> neg a
use num_bigint::BigInt;
use num_integer::Integer as NumInteger;
use num_traits::{One, Signed, ToPrimitive, Zero};
use std::cmp::Ordering;
use yui::{EisenInt, EucRing, EucRingOps, GaussInt, Ratio, FF, FF2};
use yv::rings::Txt;
use yv::*;

// ---------------------------------------------------------------------------------------------------
// integer generation

fn pow2(k: u32) -> BigInt { BigInt::one() << k }

fn rand_bits(r: &mut Rng, bits: u32) -> BigInt {
    let mut x = BigInt::zero();
    let mut left = bits;
    while left > 0 {
        let k = left.min(32);
        x = (x << k) + BigInt::from(r.below(1u64 << k));
        left -= k;
    }
    x
}

fn rand_digits(r: &mut Rng, digits: usize) -> BigInt {
    let mut s = String::new();
    s.push((b'1' + r.below(9) as u8) as char);
    for _ in 1..digits { s.push((b'0' + r.below(10) as u8) as char); }
    s.parse().unwrap()
}

fn smooth(r: &mut Rng, bits: u32) -> BigInt {
    let ps = [2u32, 2, 2, 3, 3, 5, 7, 11, 13];
    let mut x = BigInt::one();
    for _ in 0..r.below(12) {
        let y = &x * BigInt::from(*r.pick(&ps));
        if y.bits() as u32 >= bits { break; }
        x = y;
    }
    x
}

const NO_CAP: u32 = u32::MAX;

/// an integer with |x| < 2^cap (cap = NO_CAP: unbounded, then 20–300-digit values are included)
fn gen_int(r: &mut Rng, cap: u32) -> BigInt {
    let eff = if cap == NO_CAP { 200 } else { cap };
    let x: BigInt = match r.below(12) {
        0 => BigInt::zero(),
        1 => BigInt::one(),
        2 | 3 => BigInt::from(2 + r.below(11)),
        4 | 5 => smooth(r, eff.min(40)),
        6 => { let k = 1 + r.below(eff.min(24) as u64) as u32; rand_bits(r, k) }
        7 | 8 => {
            let ks: Vec<u32> = [7u32, 8, 15, 16, 20, 31, 32, 53, 62, 63, 64, 127, 128].iter().copied().filter(|&k| k + 1 < eff || (cap == NO_CAP)).collect();
            if ks.is_empty() { BigInt::from(r.below(1 << eff.min(20))) } else {
                let k = *r.pick(&ks);
                pow2(k) + BigInt::from(r.range(-3, 3))
            }
        }
        9 | 10 => if cap == NO_CAP { let d = 20 + r.below(281) as usize; rand_digits(r, d) } else { rand_bits(r, eff) },
        _ => { let k = 1 + r.below(eff.min(70) as u64) as u32; rand_bits(r, k) }
    };
    let x = if cap != NO_CAP && x.bits() as u32 >= cap { x % pow2(cap - 1) } else { x };
    if r.bool() { -x } else { x }
}

fn gen_nonzero(r: &mut Rng, cap: u32) -> BigInt {
    loop { let x = gen_int(r, cap); if !x.is_zero() { return x; } }
}

/// operands of the near-limit stream for 64-bit types
fn gen_nl64(r: &mut Rng) -> BigInt {
    let x: BigInt = match r.below(10) {
        0 => BigInt::from(i64::MAX) - BigInt::from(r.below(3)),
        1 => BigInt::from(i64::MIN) + BigInt::from(r.below(3)),
        2 | 3 => pow2(*r.pick(&[31u32, 32, 53, 61, 62])) + BigInt::from(r.range(-2, 2)),
        4 => -(pow2(*r.pick(&[31u32, 32, 53, 61, 62])) + BigInt::from(r.range(-2, 2))),
        5 => { let x = rand_bits(r, 63); if r.bool() { -x } else { x } }
        6 => { let k = 31 + r.below(3) as u32; let x = rand_bits(r, k); if r.bool() { -x } else { x } }
        7 => { let k = r.below(30) as u32; let x = pow2(62 - k) * BigInt::from(1 + r.below(3)); if r.bool() { -x } else { x } } // highly composite big values
        _ => BigInt::from(r.range(-6, 6)),
    };
    if x.to_i64().is_some() { x } else { BigInt::from(r.range(-6, 6)) }
}

fn gen_nl128(r: &mut Rng) -> BigInt {
    match r.below(6) {
        0 => BigInt::from(i128::MAX) - BigInt::from(r.below(3)),
        1 => BigInt::from(i128::MIN) + BigInt::from(r.below(3)),
        2 => pow2(*r.pick(&[63u32, 64, 126])) + BigInt::from(r.range(-2, 2)),
        3 => -(pow2(*r.pick(&[63u32, 64, 126])) + BigInt::from(r.range(-2, 2))),
        4 => { let x = rand_bits(r, 127); if r.bool() { -x } else { x } }
        _ => BigInt::from(r.range(-6, 6)),
    }
}

trait IntLike: Clone + Txt + std::str::FromStr {
    const SUF: &'static str;
    const BITS: u32; // NO_CAP = unbounded
    fn from_big(b: &BigInt) -> Option<Self>;
    fn to_big(&self) -> BigInt;
}
impl IntLike for i64 {
    const SUF: &'static str = "64"; const BITS: u32 = 64;
    fn from_big(b: &BigInt) -> Option<Self> { b.to_i64() }
    fn to_big(&self) -> BigInt { BigInt::from(*self) }
}
impl IntLike for i128 {
    const SUF: &'static str = "128"; const BITS: u32 = 128;
    fn from_big(b: &BigInt) -> Option<Self> { b.to_i128() }
    fn to_big(&self) -> BigInt { BigInt::from(*self) }
}
impl IntLike for BigInt {
    const SUF: &'static str = "B"; const BITS: u32 = NO_CAP;
    fn from_big(b: &BigInt) -> Option<Self> { Some(b.clone()) }
    fn to_big(&self) -> BigInt { self.clone() }
}

// ---------------------------------------------------------------------------------------------------
// the ring interface of the harness

#[derive(Clone, Copy, PartialEq, Eq, Debug)]
enum Op { Add, Sub, Mul, Div }
impl Op {
    fn name(self) -> &'static str { match self { Op::Add => "add", Op::Sub => "sub", Op::Mul => "mul", Op::Div => "div" } }
}

/// magnitude limits (in bits) of generated operands; NO_CAP = unbounded
#[derive(Clone, Copy)]
struct Caps { free: u32, hist: u32, triple: u32 }

trait Scal: EucRing + Txt where for<'x> &'x Self: EucRingOps<Self> {
    /// exact mathematical value
    type M: Clone;
    const HAS_DIV: bool = false;
    /// fixed-width representation: near-limit stream applies
    const MACHINE: bool = false;
    fn tag() -> String;
    /// operand text of the integer `n` embedded in the ring
    fn lit(n: i64) -> String { n.to_string() }
    fn caps() -> Caps;
    /// construct from operand text exactly as the Lean driver does; `None` = the constructor panicked
    fn mk(s: &str) -> Option<Self>;
    /// operand text; `rel` = a value the operand should be related to (shared denominators, inverse, negative …)
    fn gen(r: &mut Rng, cap: u32, rel: Option<&Self>) -> String;
    fn gen_nl(_r: &mut Rng) -> String { unreachable!() }
    fn m(&self) -> Self::M;
    /// mathematical value of operand text (None = not a value, e.g. zero denominator)
    fn m_of_txt(s: &str) -> Option<Self::M>;
    fn m_txt(m: &Self::M) -> String;
    fn m_bin(op: Op, a: &Self::M, b: &Self::M) -> Option<Self::M>;
    fn m_neg(a: &Self::M) -> Self::M;
    fn m_eq(a: &Self::M, b: &Self::M) -> bool;
    fn m_cmp(_a: &Self::M, _b: &Self::M) -> Option<Ordering> { None }
    fn real_cmp(_a: &Self, _b: &Self) -> Option<Ordering> { None }
    fn ord_forms_ok(_a: &Self, _b: &Self, _c: Ordering) -> bool { true }
    /// is the mathematical value representable in this type
    fn m_fits(_m: &Self::M) -> bool { true }
    /// is a panic of `a op b` (op = None: the constructor / negation of `a`) explained by the DOCUMENTED fixed-width limitation
    /// (known finding F8: an intermediate of the lcm-based algorithm itself leaves the machine range, or a part is T::MIN)?
    /// Only such panics are reported under a `KNOWN?` clause; any other panic on a representable result is a fresh violation.
    fn inherent_overflow(_op: Option<Op>, _a: &Self::M, _b: &Self::M) -> bool { false }
    /// canonical representative of a mathematical value, built WITHOUT the code under test where possible
    fn from_m(m: &Self::M) -> Option<Self>;
    /// canonical-form invariant demanded by the property (Ratio: den > 0, gcd = 1; FF: 0 <= rep < p)
    fn canon(&self) -> bool { true }
    /// may the value serve as accumulator of a further history step without any risk of overflow
    fn hist_ok(&self) -> bool;
    fn extra_un(&self) -> Vec<String> { vec![] }
}

fn ord_str(o: Ordering) -> &'static str { match o { Ordering::Less => "lt", Ordering::Equal => "eq", Ordering::Greater => "gt" } }
fn b01(b: bool) -> &'static str { if b { "1" } else { "0" } }

macro_rules! forms {
    ($a:expr, $b:expr, $op:tt, $opa:tt) => {{
        let (a, b) = ($a, $b);
        vec![
            guard(|| a.clone() $op b.clone()),
            guard(|| a $op b.clone()),
            guard(|| a.clone() $op b),
            guard(|| a $op b),
            guard(|| { let mut x = a.clone(); x $opa b.clone(); x }),
            guard(|| { let mut x = a.clone(); x $opa b; x }),
        ]
    }};
}
const FORM_NAMES: [&str; 6] = ["a∘b", "&a∘b", "a∘&b", "&a∘&b", "a∘=b", "a∘=&b"];

fn six<R: Scal>(op: Op, a: &R, b: &R) -> Vec<Option<R>> where for<'x> &'x R: EucRingOps<R> {
    match op {
        Op::Add => forms!(a, b, +, +=),
        Op::Sub => forms!(a, b, -, -=),
        Op::Mul => forms!(a, b, *, *=),
        Op::Div => forms!(a, b, /, /=),
    }
}

fn show_opt<R: Txt>(x: &Option<R>) -> String { match x { Some(v) => v.txt(), None => "panic".into() } }

/// all six operator forms; oracle: they agree (raw representation). Returns the common result (first form).
fn apply<R: Scal>(s: &mut Sink, op: Op, a: &R, b: &R, ctx: &str) -> Option<R> where for<'x> &'x R: EucRingOps<R> {
    let v = six(op, a, b);
    let t: Vec<String> = v.iter().map(show_opt).collect();
    let ok = t.iter().all(|x| *x == t[0]);
    s.oracle(ok, "all by-value / by-reference / assigning operator forms give the same result", ctx,
        &format!("{} {} {} {}: {}", R::tag(), a.txt(), op.name(), b.txt(),
            t.iter().zip(FORM_NAMES).map(|(x, n)| format!("{}={}", n, x)).collect::<Vec<_>>().join(" ")));
    v.into_iter().next().unwrap()
}

fn apply_neg<R: Scal>(s: &mut Sink, a: &R, ctx: &str) -> Option<R> where for<'x> &'x R: EucRingOps<R> {
    let v1 = guard(|| -a.clone());
    let v2 = guard(|| -a);
    s.oracle(show_opt(&v1) == show_opt(&v2), "both forms of negation give the same result", ctx,
        &format!("{} -({}) = {} / -(&) = {}", R::tag(), a.txt(), show_opt(&v1), show_opt(&v2)));
    v1
}

/// oracle: result of the real code denotes the exact result, and is canonical
fn check_val<R: Scal>(s: &mut Sink, what: &str, got: &R, expect: &R::M, ctx: &str) where for<'x> &'x R: EucRingOps<R> {
    s.oracle(R::m_eq(&got.m(), expect), &format!("{} agrees with the mathematical ring", what), ctx,
        &format!("{}: got {} expected value {}", R::tag(), got.txt(), R::m_txt(expect)));
    s.oracle(got.canon(), "result is the canonical representative (Ratio: denom > 0 and lowest terms; FF: 0 <= rep < p)", ctx,
        &format!("{}: {} = {}", R::tag(), what, got.txt()));
}

// ---------------------------------------------------------------------------------------------------
// streams

fn un_case<R: Scal>(s: &mut Sink, a_txt: &str) where for<'x> &'x R: EucRingOps<R> {
    let tag = R::tag();
    let req = format!("un {} {}", tag, a_txt);
    s.count(&format!("{}.un", tag));
    let a = match R::mk(a_txt) {
        Some(a) => a,
        None => {
            s.oracle(R::m_of_txt(a_txt).is_none(), "constructor accepts every valid operand", &req, "constructor panicked");
            s.count("outcome.ctor-panic");
            s.case(&req, "panic", true);
            return;
        }
    };
    let ma = match R::m_of_txt(a_txt) { Some(m) => m, None => { s.oracle(false, "constructor rejects a zero denominator", &req, &a.txt()); return; } };
    check_val(s, "constructed value", &a, &ma, &req);
    let z = a.is_zero();
    let o = a.is_one();
    let u = a.is_unit();
    s.oracle(z == R::m_eq(&ma, &R::zero().m()), "is_zero iff the value is 0", &req, &a.txt());
    s.oracle(o == R::m_eq(&ma, &R::one().m()), "is_one iff the value is 1", &req, &a.txt());
    s.oracle((a == R::zero()) == z && (a == R::one()) == o, "== zero()/one() iff the value is 0/1", &req, &a.txt());
    let neg = apply_neg(s, &a, &req);
    if let Some(n) = &neg {
        check_val(s, "-a", n, &R::m_neg(&ma), &req);
        if let Some(sum) = apply(s, Op::Add, &a, n, &req) {
            s.oracle(sum.is_zero() && sum == R::zero(), "a + (-a) = 0", &req, &format!("{} + {} = {}", a.txt(), n.txt(), sum.txt()));
        }
        if let Some(nn) = apply_neg(s, n, &req) {
            s.oracle(nn == a && nn.txt() == a.txt(), "-(-a) = a", &req, &nn.txt());
        }
    }
    if let Some(p) = apply(s, Op::Mul, &a, &R::one(), &req) {
        s.oracle(p == a && p.txt() == a.txt(), "a * 1 = a", &req, &p.txt());
    }
    if let Some(p) = apply(s, Op::Mul, &R::one(), &a, &req) {
        s.oracle(p == a && p.txt() == a.txt(), "1 * a = a", &req, &p.txt());
    }
    if let Some(p) = apply(s, Op::Add, &a, &R::zero(), &req) {
        s.oracle(p == a && p.txt() == a.txt(), "a + 0 = a", &req, &p.txt());
    }
    if let Some(p) = apply(s, Op::Mul, &a, &R::zero(), &req) {
        s.oracle(p.is_zero() && p == R::zero(), "a * 0 = 0", &req, &p.txt());
    }
    if let Some(p) = apply(s, Op::Sub, &a, &a, &req) {
        s.oracle(p.is_zero() && p == R::zero(), "a - a = 0", &req, &p.txt());
    }
    let inv = guard(|| a.inv());
    let mut parts = vec![a.txt(), b01(z).into(), b01(o).into(), b01(u).into(), show_opt(&neg),
        match &inv { Some(Some(i)) => i.txt(), Some(None) => "none".into(), None => "panic".into() }];
    parts.extend(a.extra_un());
    s.case(&req, &parts.join(" "), !(z || o));
}

fn bin_case<R: Scal>(s: &mut Sink, a_txt: &str, b_txt: &str) where for<'x> &'x R: EucRingOps<R> {
    let tag = R::tag();
    let req = format!("bin {} {} {}", tag, a_txt, b_txt);
    s.count(&format!("{}.bin", tag));
    let (a, b) = match (R::mk(a_txt), R::mk(b_txt)) { (Some(a), Some(b)) => (a, b), _ => { s.case(&req, "panic", true); return; } };
    let (ma, mb) = (R::m_of_txt(a_txt).unwrap(), R::m_of_txt(b_txt).unwrap());
    let mut parts = vec![];
    let ops: &[Op] = if R::HAS_DIV { &[Op::Add, Op::Sub, Op::Mul, Op::Div] } else { &[Op::Add, Op::Sub, Op::Mul] };
    for &op in ops {
        let got = apply(s, op, &a, &b, &req);
        let exp = R::m_bin(op, &ma, &mb);
        match (&got, &exp) {
            (Some(g), Some(e)) => {
                if op != Op::Div { check_val(s, &format!("a {} b", op.name()), g, e, &req); }
                if op == Op::Add || op == Op::Mul {
                    // commutativity on the raw representation
                    if let Some(h) = apply(s, op, &b, &a, &req) {
                        s.oracle(h == *g && h.txt() == g.txt(), &format!("{} is commutative", op.name()), &req, &format!("{} vs {}", g.txt(), h.txt()));
                    }
                }
            }
            (None, Some(_)) if op != Op::Div => s.oracle(false, "operation panicked on in-range operands", &req, op.name()),
            _ => {}
        }
        parts.push(show_opt(&got));
    }
    // a - b = a + (-b)
    if let (Some(nb), Some(d)) = (apply_neg(s, &b, &req), R::mk(&parts[1])) {
        if let Some(e) = apply(s, Op::Add, &a, &nb, &req) {
            s.oracle(e == d && e.txt() == d.txt(), "a - b = a + (-b)", &req, &format!("{} vs {}", d.txt(), e.txt()));
        }
    }
    let eq = a == b;
    s.oracle(eq == R::m_eq(&ma, &mb), "a == b exactly when a and b denote the same ring element", &req, &format!("{} == {} is {}", a.txt(), b.txt(), eq));
    s.oracle((b == a) == eq, "== is symmetric", &req, "");
    if let Some(c) = guard(|| R::real_cmp(&a, &b)) {
        if let Some(c) = c {
            let e = R::m_cmp(&ma, &mb).unwrap();
            s.oracle(c == e, "cmp is the order of Q (comparison of cross products)", &req, &format!("cmp({}, {}) = {:?}, exact {:?}", a.txt(), b.txt(), c, e));
            s.oracle((c == Ordering::Equal) == eq, "cmp == Equal exactly when ==", &req, &format!("cmp {:?} eq {}", c, eq));
            let c2 = R::real_cmp(&b, &a).unwrap();
            s.oracle(c2 == c.reverse(), "cmp is antisymmetric", &req, &format!("{:?} / {:?}", c, c2));
            s.oracle(R::ord_forms_ok(&a, &b, c), "partial_cmp, <, <=, > agree with cmp", &req, "");
            parts.push(ord_str(c).into());
        }
    } else {
        s.oracle(false, "cmp panicked", &req, "");
        parts.push("panic".into());
    }
    parts.push(b01(eq).into());
    s.case(&req, &parts.join(" "), !(a.is_zero() || b.is_zero()));
}

/// ring axioms on a triple, on the implementation alone (raw representations must coincide)
fn triple_case<R: Scal>(s: &mut Sink, at: &str, bt: &str, ct: &str) where for<'x> &'x R: EucRingOps<R> {
    let tag = R::tag();
    let desc = format!("triple {} {} {} {}", tag, at, bt, ct);
    s.count(&format!("{}.triple", tag));
    let (a, b, c) = match (R::mk(at), R::mk(bt), R::mk(ct)) { (Some(a), Some(b), Some(c)) => (a, b, c), _ => return };
    guarded_case(s, &desc, |s| {
        let same = |x: &R, y: &R| x == y && x.txt() == y.txt();
        let l = (&a + &b) + &c; let r = &a + (&b + &c);
        s.oracle(same(&l, &r), "(a+b)+c = a+(b+c)", &desc, &format!("{} vs {}", l.txt(), r.txt()));
        let l = (&a * &b) * &c; let r = &a * (&b * &c);
        s.oracle(same(&l, &r), "(a*b)*c = a*(b*c)", &desc, &format!("{} vs {}", l.txt(), r.txt()));
        let l = &a * (&b + &c); let r = &a * &b + &a * &c;
        s.oracle(same(&l, &r), "a*(b+c) = a*b + a*c", &desc, &format!("{} vs {}", l.txt(), r.txt()));
        let l = (&a + &b) * &c; let r = &a * &c + &b * &c;
        s.oracle(same(&l, &r), "(a+b)*c = a*c + b*c", &desc, &format!("{} vs {}", l.txt(), r.txt()));
        let l = &a - (&b - &c); let r = (&a - &b) + &c;
        s.oracle(same(&l, &r), "a-(b-c) = (a-b)+c", &desc, &format!("{} vs {}", l.txt(), r.txt()));
        let l = -(&a * &b); let r = (-&a) * &b;
        s.oracle(same(&l, &r), "-(a*b) = (-a)*b", &desc, &format!("{} vs {}", l.txt(), r.txt()));
        if let (Some(x), Some(y), Some(z)) = (R::real_cmp(&a, &b), R::real_cmp(&b, &c), R::real_cmp(&a, &c)) {
            if x != Ordering::Greater && y != Ordering::Greater {
                s.oracle(z != Ordering::Greater && ((x == Ordering::Less || y == Ordering::Less) == (z == Ordering::Less)), "cmp is transitive", &desc, &format!("{:?} {:?} {:?}", x, y, z));
            }
            // order is compatible with addition
            let z2 = R::real_cmp(&(&a + &c), &(&b + &c)).unwrap();
            s.oracle(z2 == x, "a <=> b equals a+c <=> b+c", &desc, &format!("{:?} {:?}", x, z2));
        }
        s.eval_only(&desc, true);
    });
}

#[derive(Clone)]
enum Step { Bin(Op, bool, String), Neg, Inv }
impl Step {
    fn text(&self) -> String {
        match self {
            Step::Bin(op, rev, t) => format!("{}{}:{}", if *rev { "r" } else { "" }, op.name(), t),
            Step::Neg => "neg".into(),
            Step::Inv => "inv".into(),
        }
    }
}

/// one random history: ops are generated on the fly (operands related to the accumulator), the accumulator is
/// mirrored by the exact value, every step is computed in all six forms.
fn hist_case<R: Scal>(s: &mut Sink, r: &mut Rng, max_len: usize) where for<'x> &'x R: EucRingOps<R> {
    let tag = R::tag();
    let cap = R::caps().hist;
    let init_txt = R::gen(r, cap, None);
    let mut acc = match R::mk(&init_txt) { Some(a) => a, None => return };
    let mut macc = R::m_of_txt(&init_txt).unwrap();
    let mut steps: Vec<String> = vec![];
    let mut replies = vec![acc.txt()];
    let n = 1 + r.below(max_len as u64) as usize;
    s.count(&format!("{}.hist", tag));
    for k in 0..n {
        if !acc.hist_ok() { s.count("hist.stopped-at-magnitude-bound"); break; }
        let step = match r.below(20) {
            0 => Step::Neg,
            1 if R::HAS_DIV || r.chance(1, 4) => Step::Inv,
            _ => {
                let op = match r.below(if R::HAS_DIV { 8 } else { 6 }) { 0 | 1 => Op::Add, 2 | 3 => Op::Sub, 4 | 5 => Op::Mul, _ => Op::Div };
                let rel = if r.chance(1, 2) { Some(&acc) } else { None };
                let mut t = R::gen(r, cap, rel);
                if op == Op::Div { // mostly avoid division by zero
                    for _ in 0..4 { if R::mk(&t).map(|x| x.is_zero()).unwrap_or(true) { t = R::gen(r, cap, None); } }
                }
                Step::Bin(op, r.chance(1, 3), t)
            }
        };
        let ctx = format!("hist {} {} {} @step{} {}", tag, init_txt, steps.join(" "), k, step.text());
        steps.push(step.text());
        s.count(&format!("op.{}", step.text().split(':').next().unwrap()));
        match &step {
            Step::Neg => {
                match apply_neg(s, &acc, &ctx) {
                    Some(v) => { macc = R::m_neg(&macc); check_val(s, "-a", &v, &macc, &ctx); acc = v; replies.push(acc.txt()); }
                    None => { s.oracle(false, "negation panicked on in-range operand", &ctx, ""); replies.push("panic".into()); break; }
                }
            }
            Step::Inv => {
                match guard(|| acc.inv()) {
                    Some(Some(v)) => {
                        // keep the mirror exact: 1 / value
                        // inverses and quotients are C15's business: the mirror follows the implementation here (a wrong
                        // inverse still shows up in the model comparison); only the canonical form is demanded by C14
                        macc = v.m();
                        s.oracle(v.canon(), "result is the canonical representative (Ratio: denom > 0 and lowest terms; FF: 0 <= rep < p)", &ctx, &v.txt());
                        acc = v; replies.push(acc.txt());
                    }
                    Some(None) => { replies.push("none".into()); break; }
                    None => { replies.push("panic".into()); break; }
                }
            }
            Step::Bin(op, rev, t) => {
                let b = match R::mk(t) { Some(b) => b, None => { replies.push("panic".into()); break; } };
                let mb = R::m_of_txt(t).unwrap();
                let (x, y, mx, my) = if *rev { (&b, &acc, &mb, &macc) } else { (&acc, &b, &macc, &mb) };
                let got = apply(s, *op, x, y, &ctx);
                let exp = R::m_bin(*op, mx, my);
                match (got, exp) {
                    (Some(v), Some(_)) if *op == Op::Div => {
                        macc = v.m();
                        s.oracle(v.canon(), "result is the canonical representative (Ratio: denom > 0 and lowest terms; FF: 0 <= rep < p)", &ctx, &v.txt());
                        acc = v; replies.push(acc.txt());
                    }
                    (Some(v), Some(e)) => { macc = e; check_val(s, &format!("a {} b", op.name()), &v, &macc, &ctx); acc = v; replies.push(acc.txt()); }
                    (Some(v), None) => { replies.push(v.txt()); break; }
                    (None, e) => {
                        if *op != Op::Div || e.is_some() { s.oracle(false, "operation panicked on in-range operands", &ctx, op.name()); }
                        s.count("outcome.div-by-zero-panic");
                        replies.push("panic".into()); break;
                    }
                }
            }
        }
    }
    // after the whole history: structural equality with the canonical representative of the exact value
    if R::m_fits(&macc) {
        if let Some(c) = R::from_m(&macc) {
            let ctx = format!("hist {} {} {}", tag, init_txt, steps.join(" "));
            if replies.last().map(|x| x != "panic" && x != "none").unwrap_or(false) {
                s.oracle(acc == c && acc.txt() == c.txt(), "after any sequence of operations: equal (==, structurally) to the canonical representative of the exact value",
                    &ctx, &format!("{} vs {}", acc.txt(), c.txt()));
            }
        }
    }
    s.count(&format!("hist.len.{:02}", steps.len() / 5 * 5));
    s.case(&format!("hist {} {} {}", tag, init_txt, steps.join(" ")).trim_end(), &replies.join(";"), steps.len() >= 2);
}

/// `KNOWN?` records (a panic on an intermediate overflow although the exact result is representable; never a wrong
/// value) are limited to a handful per run; the rest is only counted.
static KNOWN_SEEN: std::sync::Mutex<Option<std::collections::HashMap<String, i64>>> = std::sync::Mutex::new(None);
fn known(s: &mut Sink, clause: &str, input: &str, detail: &str) {
    // at most 4 records per ring tag (clause = "KNOWN? <tag> …")
    let tag = clause.split_whitespace().nth(1).unwrap_or("?").trim_end_matches(':').to_string();
    let mut g = KNOWN_SEEN.lock().unwrap();
    let m = g.get_or_insert_with(Default::default);
    let c = m.entry(tag).or_insert(0);
    *c += 1;
    if *c <= 4 { s.oracle(false, clause, input, detail); } else { s.count("nearlimit.known-suppressed"); }
}

/// single operations on operands near the limits of the machine type
fn near_limit_case<R: Scal>(s: &mut Sink, r: &mut Rng) where for<'x> &'x R: EucRingOps<R> {
    let (at, bt) = (R::gen_nl(r), R::gen_nl(r));
    near_limit_pair::<R>(s, &at, &bt);
}

fn near_limit_pair<R: Scal>(s: &mut Sink, at: &str, bt: &str) where for<'x> &'x R: EucRingOps<R> {
    let tag = R::tag();
    let (at, bt) = (at.to_string(), bt.to_string());
    s.count(&format!("{}.nearlimit", tag));
    let mut operands = vec![];
    for t in [&at, &bt] {
        let m = match R::m_of_txt(t) { Some(m) => m, None => return };
        let req = format!("mk {} {}", tag, t);
        match R::mk(t) {
            Some(v) => { check_val(s, "constructed value", &v, &m, &req); s.case(&req, &v.txt(), true); operands.push((v, m)); }
            None => {
                s.count("nearlimit.ctor-panic");
                if R::m_fits(&m) {
                    if R::inherent_overflow(None, &m, &m) { known(s, &format!("KNOWN? {}: constructor panics (intermediate overflow) although the value is representable", tag), &req, &R::m_txt(&m)); }
                    else { s.oracle(false, "the constructor returns the canonical representative of every representable value (no intermediate of the documented algorithm overflows here)", &req, &format!("panic; exact value {}", R::m_txt(&m))); }
                }
                return;
            }
        }
    }
    let (a, ma) = operands[0].clone();
    let (b, mb) = operands[1].clone();
    let ops: &[Op] = if R::HAS_DIV { &[Op::Add, Op::Sub, Op::Mul, Op::Div] } else { &[Op::Add, Op::Sub, Op::Mul] };
    for &op in ops {
        let req = format!("op {} {} {} {}", tag, op.name(), at, bt);
        let exp = R::m_bin(op, &ma, &mb);
        let got = apply(s, op, &a, &b, &req);
        match (got, exp) {
            (Some(v), Some(e)) => {
                if op != Op::Div { check_val(s, &format!("a {} b", op.name()), &v, &e, &req); } else { s.oracle(v.canon(), "result is the canonical representative (Ratio: denom > 0 and lowest terms; FF: 0 <= rep < p)", &req, &v.txt()); }
                s.count("nearlimit.ok"); s.case(&req, &v.txt(), true);
            }
            (Some(v), None) => { s.case(&req, &v.txt(), true); }
            (None, Some(e)) => {
                if R::m_fits(&e) {
                    s.count("nearlimit.panic-representable");
                    if R::inherent_overflow(Some(op), &ma, &mb) { known(s, &format!("KNOWN? {} {}: panics (intermediate overflow) although the exact result is representable", tag, op.name()), &req, &R::m_txt(&e)); }
                    else { s.oracle(false, "a op b agrees with the mathematical ring whenever the result is representable (no intermediate of the documented algorithm overflows here)", &req, &format!("panic; exact result {}", R::m_txt(&e))); }
                } else { s.count("nearlimit.panic-unrepresentable"); }
            }
            (None, None) => { s.case(&req, "panic", true); }
        }
    }
    let req = format!("op1 {} neg {}", tag, at);
    let e = R::m_neg(&ma);
    match apply_neg(s, &a, &req) {
        Some(v) => { check_val(s, "-a", &v, &e, &req); s.case(&req, &v.txt(), true); }
        None => if R::m_fits(&e) {
            if R::inherent_overflow(None, &ma, &ma) { known(s, &format!("KNOWN? {} neg: panics (intermediate overflow) although the exact result is representable", tag), &req, &R::m_txt(&e)); }
            else { s.oracle(false, "-a agrees with the mathematical ring whenever the result is representable", &req, &format!("panic; exact result {}", R::m_txt(&e))); }
        }
    }
    if let Some(c) = guard(|| R::real_cmp(&a, &b)) {
        if let Some(c) = c {
            let e = R::m_cmp(&ma, &mb).unwrap();
            let req = format!("op {} cmp {} {}", tag, at, bt);
            s.oracle(c == e, "cmp is the order of Q (comparison of cross products)", &req, &format!("cmp({}, {}) = {:?}, exact {:?}", a.txt(), b.txt(), c, e));
            s.oracle((c == Ordering::Equal) == (a == b), "cmp == Equal exactly when ==", &req, "");
            s.case(&req, ord_str(c), true);
        }
    } else {
        s.oracle(false, "cmp panicked", &format!("op {} cmp {} {}", tag, at, bt), "");
    }
}

// ---------------------------------------------------------------------------------------------------
// ring instances

fn fits_bits(x: &BigInt, bits: u32) -> bool {
    if bits == NO_CAP { return true; }
    let lim = pow2(bits - 1);
    *x >= -&lim && *x < lim
}
fn below_pow(x: &BigInt, bits: u32) -> bool { x.bits() as u32 <= bits }

macro_rules! impl_int {
    ($t:ty, $tag:expr, $caps:expr, $machine:expr, $nl:ident) => {
        impl Scal for $t {
            type M = BigInt;
            const MACHINE: bool = $machine;
            fn tag() -> String { $tag.into() }
            fn caps() -> Caps { $caps }
            fn mk(s: &str) -> Option<Self> { s.parse().ok() }
            fn gen(r: &mut Rng, cap: u32, rel: Option<&Self>) -> String {
                match rel {
                    Some(a) if r.chance(1, 3) => match r.below(3) { 0 => a.txt(), 1 => (-a.to_big()).to_string(), _ => (a.to_big() + BigInt::from(r.range(-1, 1))).to_string() },
                    _ => gen_int(r, cap).to_string(),
                }
            }
            fn gen_nl(r: &mut Rng) -> String { $nl(r).to_string() }
            fn m(&self) -> BigInt { self.to_big() }
            fn m_of_txt(s: &str) -> Option<BigInt> { s.parse().ok() }
            fn m_txt(m: &BigInt) -> String { m.to_string() }
            fn m_bin(op: Op, a: &BigInt, b: &BigInt) -> Option<BigInt> {
                match op { Op::Add => Some(a + b), Op::Sub => Some(a - b), Op::Mul => Some(a * b), Op::Div => None }
            }
            fn m_neg(a: &BigInt) -> BigInt { -a }
            fn m_eq(a: &BigInt, b: &BigInt) -> bool { a == b }
            fn m_fits(m: &BigInt) -> bool { fits_bits(m, <$t as IntLike>::BITS) }
            fn from_m(m: &BigInt) -> Option<Self> { <$t as IntLike>::from_big(m) }
            fn hist_ok(&self) -> bool { below_pow(&self.to_big(), Self::caps().hist.min(8000)) }
        }
    };
}
fn no_nl(_r: &mut Rng) -> BigInt { unreachable!() }
impl_int!(i64, "Z64", Caps { free: 31, hist: 31, triple: 20 }, true, gen_nl64);
impl_int!(i128, "Z128", Caps { free: 63, hist: 63, triple: 41 }, true, gen_nl128);
impl_int!(BigInt, "ZB", Caps { free: NO_CAP, hist: NO_CAP, triple: NO_CAP }, false, no_nl);

type QM = (BigInt, BigInt);
fn q_reduce(m: &QM) -> QM {
    let (n, d) = m;
    if n.is_zero() { return (BigInt::zero(), BigInt::one()); }
    let g = n.gcd(d);
    let (n, d) = (n / &g, d / &g);
    if d.is_negative() { (-n, -d) } else { (n, d) }
}

macro_rules! impl_ratio {
    ($i:ty, $caps:expr, $machine:expr) => {
        impl Scal for Ratio<$i> {
            type M = QM;
            const HAS_DIV: bool = true;
            const MACHINE: bool = $machine;
            fn tag() -> String { format!("Q{}", <$i as IntLike>::SUF) }
            fn caps() -> Caps { $caps }
            fn mk(s: &str) -> Option<Self> {
                match s.split_once('/') {
                    None => { let n: $i = s.parse().ok()?; Some(Ratio::from(n)) }
                    Some((n, d)) => { let n: $i = n.parse().ok()?; let d: $i = d.parse().ok()?; guard(move || Ratio::new(n, d)) }
                }
            }
            fn gen(r: &mut Rng, cap: u32, rel: Option<&Self>) -> String {
                if let Some(a) = rel {
                    let (n, d) = (a.numer().to_big(), a.denom().to_big());
                    let k = gen_int(r, cap.min(12));
                    let sm = BigInt::from(1 + r.below(6));
                    let fit = |x: &BigInt| cap == NO_CAP || (x.bits() as u32) < cap;
                    let cand: Option<(BigInt, BigInt)> = match r.below(10) {
                        0 => Some((k, d.clone())),                                  // same denominator
                        1 => Some((-&n, d.clone())),                                // the negative
                        2 => Some((n.clone(), d.clone())),                          // the value itself
                        3 => if n.is_zero() { None } else { Some((d.clone(), n.clone())) },     // the inverse (possibly negative denominator)
                        4 => Some((&k * &d, sm)),                                   // numerator cancels the denominator
                        5 => Some((k, &d * &sm)),                                   // denominator is a multiple
                        6 => if (&d % &sm).is_zero() { Some((k, &d / &sm)) } else { Some((k, -&d)) }, // a divisor / negated denominator
                        7 => if n.is_zero() { None } else { Some((k, n.clone())) }, // denominator = numerator of acc
                        8 => Some((&d - &n, d.clone())),                            // sum is one
                        _ => Some((&n * &sm, &d * &sm)),                            // unreduced spelling of the same value
                    };
                    if let Some((p, q)) = cand { if !q.is_zero() && fit(&p) && fit(&q) { return format!("{}/{}", p, q); } }
                }
                if r.chance(1, 6) { return gen_int(r, cap).to_string(); }
                let n = gen_int(r, cap);
                let d = if r.chance(1, 8) { BigInt::from(if r.bool() { 1 } else { -1 }) } else { gen_nonzero(r, cap) };
                // common factors are frequent
                if r.chance(1, 3) { let f = smooth(r, 10); let (n2, d2) = (&n * &f, &d * &f); if cap == NO_CAP || ((n2.bits() as u32) < cap && (d2.bits() as u32) < cap) { return format!("{}/{}", n2, d2); } }
                format!("{}/{}", n, d)
            }
            fn gen_nl(r: &mut Rng) -> String {
                match r.below(4) {
                    0 => gen_nl64(r).to_string(),
                    1 => format!("{}/{}", gen_nl64(r), r.range(1, 6)),
                    2 => format!("{}/{}", r.range(-6, 6), { let d = gen_nl64(r); if d.is_zero() { BigInt::one() } else { d } }),
                    _ => format!("{}/{}", gen_nl64(r), { let d = gen_nl64(r); if d.is_zero() { BigInt::one() } else { d } }),
                }
            }
            fn m(&self) -> QM { (self.numer().to_big(), self.denom().to_big()) }
            fn m_of_txt(s: &str) -> Option<QM> {
                match s.split_once('/') {
                    None => Some((s.parse().ok()?, BigInt::one())),
                    Some((n, d)) => { let d: BigInt = d.parse().ok()?; if d.is_zero() { None } else { Some((n.parse().ok()?, d)) } }
                }
            }
            fn m_txt(m: &QM) -> String { let m = q_reduce(m); format!("{}/{}", m.0, m.1) }
            fn m_bin(op: Op, a: &QM, b: &QM) -> Option<QM> {
                let r = match op {
                    Op::Add => (&a.0 * &b.1 + &b.0 * &a.1, &a.1 * &b.1),
                    Op::Sub => (&a.0 * &b.1 - &b.0 * &a.1, &a.1 * &b.1),
                    Op::Mul => (&a.0 * &b.0, &a.1 * &b.1),
                    Op::Div => { if b.0.is_zero() { return None; } (&a.0 * &b.1, &a.1 * &b.0) }
                };
                Some(q_reduce(&r))
            }
            fn m_neg(a: &QM) -> QM { (-&a.0, a.1.clone()) }
            fn m_eq(a: &QM, b: &QM) -> bool { &a.0 * &b.1 == &b.0 * &a.1 }
            fn inherent_overflow(op: Option<Op>, a: &QM, b: &QM) -> bool {
                let lo = if <$i as IntLike>::BITS == NO_CAP { return false } else { -(BigInt::one() << (<$i as IntLike>::BITS as usize - 1)) }; let hi = -&lo - BigInt::one();
                let fits = |x: &BigInt| &lo <= x && x <= &hi;
                let (ra, rb) = (q_reduce(a), q_reduce(b));
                // a part equal to T::MIN: its negation / absolute value does not exist (sign normalisation, gcd, inv)
                if [&a.0, &a.1, &b.0, &b.1, &ra.0, &ra.1, &rb.0, &rb.1].iter().any(|x| **x == lo) { return true; }
                match op {
                    Some(o @ (Op::Add | Op::Sub)) => {
                        if ra.0.is_zero() || rb.0.is_zero() { return false; }
                        let sg = |x: &BigInt, y: &BigInt| if o == Op::Add { x + y } else { x - y };
                        if ra.1 == rb.1 { let v = sg(&ra.0, &rb.0); return !fits(&v) || v == lo; }   // numerator T::MIN: reduce() needs |numer|
                        // the documented algorithm: l = lcm(b, d); a·(l/b) ± (l/d)·c over l, then reduce
                        let l = ra.1.lcm(&rb.1);
                        let x = &ra.0 * (&l / &ra.1);
                        let y = (&l / &rb.1) * &rb.0;
                        let v = sg(&x, &y);
                        !fits(&l) || !fits(&x) || !fits(&y) || !fits(&v) || [&l, &x, &y, &v].iter().any(|w| **w == lo)
                    }
                    _ => false,
                }
            }
            fn m_cmp(a: &QM, b: &QM) -> Option<Ordering> {
                let (a, b) = (q_reduce(a), q_reduce(b));
                Some((&a.0 * &b.1).cmp(&(&b.0 * &a.1)))
            }
            fn real_cmp(a: &Self, b: &Self) -> Option<Ordering> { Some(a.cmp(b)) }
            fn ord_forms_ok(a: &Self, b: &Self, c: Ordering) -> bool {
                (a < b) == (c == Ordering::Less) && (a <= b) == (c != Ordering::Greater) && (a > b) == (c == Ordering::Greater) && a.partial_cmp(b) == Some(c)
            }
            fn m_fits(m: &QM) -> bool { let m = q_reduce(m); fits_bits(&m.0, <$i as IntLike>::BITS) && fits_bits(&m.1, <$i as IntLike>::BITS) }
            fn from_m(m: &QM) -> Option<Self> {
                let m = q_reduce(m);
                let (n, d) = (<$i as IntLike>::from_big(&m.0)?, <$i as IntLike>::from_big(&m.1)?);
                // lowest terms already: the constructor only has to keep it
                guard(move || Ratio::new(n, d))
            }
            fn canon(&self) -> bool {
                let (n, d) = self.m();
                d.is_positive() && n.gcd(&d).is_one()
            }
            fn hist_ok(&self) -> bool { let (n, d) = self.m(); let c = Self::caps().hist.min(6000); below_pow(&n, c) && below_pow(&d, c) }
        }
    };
}
impl_ratio!(i64, Caps { free: 20, hist: 20, triple: 10 }, true);
impl_ratio!(BigInt, Caps { free: NO_CAP, hist: NO_CAP, triple: NO_CAP }, false);

fn modp(x: &BigInt, p: i32) -> i64 { let p = BigInt::from(p); (((x % &p) + &p) % &p).to_i64().unwrap() }

impl<const P: i32> Scal for FF<P> {
    type M = i64;
    const HAS_DIV: bool = true;
    fn tag() -> String { format!("F{}", P) }
    fn caps() -> Caps { Caps { free: 32, hist: 32, triple: 32 } }
    fn mk(s: &str) -> Option<Self> { let a: i32 = s.parse().ok()?; guard(move || FF::<P>::from(a)) }
    fn gen(r: &mut Rng, _cap: u32, _rel: Option<&Self>) -> String {
        match r.below(6) {
            0 => r.range(-(P as i64), 2 * P as i64).to_string(),
            1 => (*r.pick(&[i32::MAX, i32::MIN, i32::MAX - 1, i32::MIN + 1, 0, -1, P, -P, P - 1, 1 - P])).to_string(),
            2 => (r.next() as i32).to_string(),
            _ => r.range(0, P as i64 - 1).to_string(),
        }
    }
    fn m(&self) -> i64 { *self.rep() as i64 }
    fn m_of_txt(s: &str) -> Option<i64> { let a: BigInt = s.parse().ok()?; Some(modp(&a, P)) }
    fn m_txt(m: &i64) -> String { m.to_string() }
    fn m_bin(op: Op, a: &i64, b: &i64) -> Option<i64> {
        let p = P as i64;
        Some(match op {
            Op::Add => (a + b).rem_euclid(p), Op::Sub => (a - b).rem_euclid(p), Op::Mul => (a * b).rem_euclid(p),
            Op::Div => { let i = (1..p).find(|i| (b * i).rem_euclid(p) == 1)?; (a * i).rem_euclid(p) }
        })
    }
    fn m_neg(a: &i64) -> i64 { (-a).rem_euclid(P as i64) }
    fn m_eq(a: &i64, b: &i64) -> bool { (a - b).rem_euclid(P as i64) == 0 }
    fn from_m(m: &i64) -> Option<Self> { Some(FF::<P>::from(m.rem_euclid(P as i64) as i32)) }
    fn canon(&self) -> bool { 0 <= *self.rep() && *self.rep() < P }
    fn hist_ok(&self) -> bool { true }
}

impl Scal for FF2 {
    type M = i64;
    const HAS_DIV: bool = true;
    fn tag() -> String { "B".into() }
    fn caps() -> Caps { Caps { free: 64, hist: 64, triple: 64 } }
    fn mk(s: &str) -> Option<Self> { let a: i64 = s.parse().ok()?; guard(move || FF2::from(a)) }
    fn gen(r: &mut Rng, _cap: u32, _rel: Option<&Self>) -> String {
        match r.below(4) { 0 => (r.next() as i64).to_string(), 1 => (*r.pick(&[i64::MAX, i64::MIN, -1, -2, 2, 3])).to_string(), _ => r.below(2).to_string() }
    }
    fn m(&self) -> i64 { if self.is_one() { 1 } else { 0 } }
    fn m_of_txt(s: &str) -> Option<i64> { let a: BigInt = s.parse().ok()?; Some(modp(&a, 2)) }
    fn m_txt(m: &i64) -> String { m.to_string() }
    fn m_bin(op: Op, a: &i64, b: &i64) -> Option<i64> {
        Some(match op { Op::Add => (a + b) % 2, Op::Sub => (a - b).rem_euclid(2), Op::Mul => a * b % 2, Op::Div => { if *b == 0 { return None; } *a } })
    }
    fn m_neg(a: &i64) -> i64 { *a }
    fn m_eq(a: &i64, b: &i64) -> bool { a == b }
    fn from_m(m: &i64) -> Option<Self> { Some(FF2::from(*m)) }
    fn hist_ok(&self) -> bool { true }
}

type PM = (BigInt, BigInt);

macro_rules! impl_quad {
    ($ty:ident, $i:ty, $tagc:expr, $e:expr, $f:expr, $caps:expr, $machine:expr) => {
        impl Scal for $ty<$i> {
            type M = PM;
            const MACHINE: bool = $machine;
            fn tag() -> String { format!("{}{}", $tagc, <$i as IntLike>::SUF) }
            fn caps() -> Caps { $caps }
            fn mk(s: &str) -> Option<Self> {
                let (a, b) = s.split_once(',')?;
                let a: $i = a.parse().ok()?; let b: $i = b.parse().ok()?;
                guard(move || $ty::<$i>::new(a, b))
            }
            fn gen(r: &mut Rng, cap: u32, rel: Option<&Self>) -> String {
                if let Some(a) = rel {
                    let (x, y) = a.m();
                    match r.below(6) {
                        0 => return format!("{},{}", x, y),
                        1 => return format!("{},{}", -x, -y),
                        2 => return format!("{},{}", x, -y),
                        _ => {}
                    }
                }
                let a = gen_int(r, cap);
                let b = if r.chance(1, 4) { BigInt::zero() } else { gen_int(r, cap) };
                if r.chance(1, 8) { format!("{},{}", b, a) } else { format!("{},{}", a, b) }
            }
            fn lit(n: i64) -> String { format!("{},0", n) }
            fn gen_nl(r: &mut Rng) -> String { format!("{},{}", gen_nl64(r), if r.chance(1, 3) { BigInt::zero() } else { gen_nl64(r) }) }
            fn m(&self) -> PM { (self.left().to_big(), self.right().to_big()) }
            fn m_of_txt(s: &str) -> Option<PM> { let (a, b) = s.split_once(',')?; Some((a.parse().ok()?, b.parse().ok()?)) }
            fn m_txt(m: &PM) -> String { format!("{},{}", m.0, m.1) }
            fn m_bin(op: Op, x: &PM, y: &PM) -> Option<PM> {
                let (a, b) = x; let (c, d) = y;
                // ω² = e + fω
                let (e, f) = (BigInt::from($e), BigInt::from($f));
                match op {
                    Op::Add => Some((a + c, b + d)),
                    Op::Sub => Some((a - c, b - d)),
                    Op::Mul => Some((a * c + b * d * &e, a * d + b * c + b * d * &f)),
                    Op::Div => None,
                }
            }
            fn m_neg(a: &PM) -> PM { (-&a.0, -&a.1) }
            fn m_eq(a: &PM, b: &PM) -> bool { a == b }
            fn inherent_overflow(op: Option<Op>, x: &PM, y: &PM) -> bool {
                // known finding F10: the product formula of qint.rs is evaluated term by term in the machine type; a panic is
                // "explained" only if one of ITS intermediates (computed exactly here) leaves the machine range
                if <$i as IntLike>::BITS == NO_CAP { return false; }
                let fits = |v: &BigInt| fits_bits(v, <$i as IntLike>::BITS);
                let (a, b) = x; let (c, d) = y;
                match op {
                    Some(Op::Mul) => {
                        if b.is_zero() { return !fits(&(a * c)) || !fits(&(a * d)); }
                        if d.is_zero() { return !fits(&(a * c)) || !fits(&(b * c)); }
                        let e = BigInt::from($e);
                        let (ac, bd, ad, bc) = (a * c, b * d, a * d, b * c);
                        let bde = &bd * &e;
                        let mut mids = vec![ac.clone(), bd.clone(), bde.clone(), &ac + &bde, ad.clone(), bc.clone(), &ad + &bc];
                        if $f != 0 { mids.push(&ad + &bc + &bd); }
                        mids.iter().any(|v| !fits(v))
                    }
                    _ => false,
                }
            }
            fn m_fits(m: &PM) -> bool { fits_bits(&m.0, <$i as IntLike>::BITS) && fits_bits(&m.1, <$i as IntLike>::BITS) }
            fn from_m(m: &PM) -> Option<Self> { Some($ty::<$i>::new(<$i as IntLike>::from_big(&m.0)?, <$i as IntLike>::from_big(&m.1)?)) }
            fn hist_ok(&self) -> bool { let (a, b) = self.m(); let c = Self::caps().hist.min(6000); below_pow(&a, c) && below_pow(&b, c) }
            fn extra_un(&self) -> Vec<String> {
                let c = guard(|| self.conj());
                let n = guard(|| self.norm());
                vec![show_opt(&c), show_opt(&n)]
            }
        }
    };
}
impl_quad!(GaussInt, i64, "G", -1, 0, Caps { free: 30, hist: 30, triple: 15 }, true);
impl_quad!(GaussInt, BigInt, "G", -1, 0, Caps { free: NO_CAP, hist: NO_CAP, triple: NO_CAP }, false);
impl_quad!(EisenInt, i64, "E", -1, 1, Caps { free: 30, hist: 30, triple: 15 }, true);
impl_quad!(EisenInt, BigInt, "E", -1, 1, Caps { free: NO_CAP, hist: NO_CAP, triple: NO_CAP }, false);

// ---------------------------------------------------------------------------------------------------

struct Plan { un: usize, bin: usize, triple: usize, hist: usize, hist_len: usize, nl: usize }

fn run_ring<R: Scal>(s: &mut Sink, r: &mut Rng, plan: &Plan, corpus: &[&str]) where for<'x> &'x R: EucRingOps<R> {
    let caps = R::caps();
    // zero() / one() are the canonical representatives of 0 / 1
    for (n, v) in [(0i64, R::zero()), (1, R::one())] {
        let t = R::lit(n);
        let w = R::mk(&t).unwrap();
        s.oracle(v == w && v.txt() == w.txt() && v.canon(), "zero()/one() are the canonical representatives of 0/1", &format!("un {} {}", R::tag(), t), &format!("{} vs {}", v.txt(), w.txt()));
    }
    if R::MACHINE {
        for (a, b) in nl_corpus(&R::tag()) { guarded_case(s, &format!("nearlimit {} {} {}", R::tag(), a, b), |s| near_limit_pair::<R>(s, a, b)); }
    }
    // corpus: every value alone, every ordered pair
    for a in corpus { guarded_case(s, &format!("un {} {}", R::tag(), a), |s| un_case::<R>(s, a)); }
    for a in corpus { for b in corpus {
        if R::mk(a).is_some() && R::mk(b).is_some() { guarded_case(s, &format!("bin {} {} {}", R::tag(), a, b), |s| bin_case::<R>(s, a, b)); }
    } }
    for _ in 0..plan.un {
        let a = R::gen(r, caps.free, None);
        guarded_case(s, &format!("un {} {}", R::tag(), a), |s| un_case::<R>(s, &a));
    }
    for _ in 0..plan.bin {
        let a = R::gen(r, caps.free, None);
        let b = match R::mk(&a) { Some(v) if r.chance(1, 3) => R::gen(r, caps.free, Some(&v)), _ => R::gen(r, caps.free, None) };
        if R::mk(&a).is_none() || R::mk(&b).is_none() { continue; }
        guarded_case(s, &format!("bin {} {} {}", R::tag(), a, b), |s| bin_case::<R>(s, &a, &b));
    }
    for _ in 0..plan.triple {
        let a = R::gen(r, caps.triple, None);
        let b = match R::mk(&a) { Some(v) if r.chance(1, 3) => R::gen(r, caps.triple, Some(&v)), _ => R::gen(r, caps.triple, None) };
        let c = match R::mk(&b) { Some(v) if r.chance(1, 3) => R::gen(r, caps.triple, Some(&v)), _ => R::gen(r, caps.triple, None) };
        triple_case::<R>(s, &a, &b, &c);
    }
    for _ in 0..plan.hist {
        let mut r2 = r.fork();
        guarded_case(s, &format!("hist {} (seeded)", R::tag()), |s| hist_case::<R>(s, &mut r2, plan.hist_len));
    }
    if R::MACHINE {
        for _ in 0..plan.nl {
            let mut r2 = r.fork();
            guarded_case(s, &format!("nearlimit {}", R::tag()), |s| near_limit_case::<R>(s, &mut r2));
        }
    }
}

/// hand-written near-limit pairs with representable results (the Ratio<i64> additions that hit an intermediate overflow are
/// the deterministic `KNOWN? Q64` witnesses; everything else must succeed)
fn nl_corpus(tag: &str) -> Vec<(&'static str, &'static str)> {
    match tag {
        "Z64" => vec![("9223372036854775807", "0"), ("9223372036854775806", "1"), ("-9223372036854775807", "-1"), ("4611686018427387904", "4611686018427387903"),
            ("3037000499", "3037000499"), ("-3037000499", "3037000499"), ("2147483648", "4294967295"), ("9007199254740993", "1024"), ("-9223372036854775808", "1"), ("-9223372036854775808", "0")],
        "Z128" => vec![("170141183460469231731687303715884105727", "0"), ("170141183460469231731687303715884105726", "1"), ("-170141183460469231731687303715884105727", "-1"),
            ("13043817825332782212", "13043817825332782212"), ("9223372036854775808", "18446744073709551615"), ("-170141183460469231731687303715884105728", "1")],
        "Q64" => vec![("9007199254740993", "9007199254740992"), ("9007199254740993/2", "9007199254740992/2"), ("-9007199254740993", "-9007199254740992"),
            ("9007199254740993/9007199254740992", "9007199254740992/9007199254740991"), ("1/9007199254740993", "1/9007199254740992"),
            ("4611686018427387904/3", "4611686018427387905/3"), ("9223372036854775807", "9223372036854775806"), ("1/9223372036854775807", "1/9223372036854775806"),
            ("9223372036854775807/2", "1/2"), ("3037000499/3037000500", "3037000500/3037000499"), ("4294967296/3", "3/4294967296"), ("-9223372036854775807", "1"),
            ("6442450941/4294967296", "6442450943/4294967296"), ("4611686018427387904", "1/4611686018427387904"),
            // large denominators with a large common factor: b·d overflows, lcm(b, d) and the result do not
            ("1/1099511627776", "1/2199023255552"), ("1/6000000000", "1/9000000000"), ("-3/2199023255552", "5/1099511627776"), ("7/3221225472", "1/6442450944")],
        "G64" | "E64" => vec![("2305843009213693954,34359738368", "2,-4"),   // F10 witness: a·d overflows, the product fits
            ("3037000499,0", "3037000499,0"), ("0,3037000499", "0,3037000499"), ("2147483648,2147483647", "2147483647,-2147483648"),
            ("9223372036854775807,0", "0,1"), ("9223372036854775806,-9223372036854775807", "1,1"), ("4611686018427387904,4611686018427387903", "1,0"), ("1000000007,998244353", "998244353,-1000000007")],
        _ => vec![],
    }
}

/// exhaustive grids of small values (every ordered pair, every triple)
fn grid<R: Scal>(s: &mut Sink, vals: &[String], triples: bool) where for<'x> &'x R: EucRingOps<R> {
    for a in vals { un_case::<R>(s, a); }
    for a in vals { for b in vals { bin_case::<R>(s, a, b); } }
    if triples { for a in vals { for b in vals { for c in vals { triple_case::<R>(s, a, b, c); } } } }
    s.count_n(&format!("{}.grid-values", R::tag()), vals.len() as u64);
}

fn main() {
    let args = Args::parse();
    quiet_panics();
    let mut s = Sink::new(&args, "cases: un (constructor, is_zero/is_one/is_unit, neg, inv [conj norm]), bin (+ - * [/] [cmp] == in all six operator forms), \
        ring-axiom triples (implementation only), operation histories (<= 30 steps, operands related to the accumulator), near-limit single operations \
        for the fixed-width types; rings Z64 Z128 ZB Q64 QB F2 F3 F5 F7 B G64 GB E64 EB; non-trivial = operands other than 0/1 (un), both non-zero (bin), \
        history with >= 2 steps; distinct = distinct request lines");
    let mut r = Rng::new(args.seed);
    let t = args.thorough();
    let k = if t { 90 } else { 3 };
    let plan = Plan { un: 120 * k, bin: 260 * k, triple: 160 * k, hist: 70 * k, hist_len: 30, nl: 150 * k };
    let plan_small = Plan { un: 30 * k, bin: 60 * k, triple: 60 * k, hist: 30 * k, hist_len: 30, nl: 0 };

    let ints = ["0", "1", "-1", "2", "-2", "3", "6", "-6", "10"];
    let ints_m = ["2147483647", "-2147483647", "65536", "46341"];
    let ints_b = ["9007199254740993", "9007199254740992", "-9007199254740993", "4611686018427387904", "9223372036854775807", "-9223372036854775808",
        "18446744073709551616", "340282366920938463463374607431768211456", "123456789012345678901234567890123456789012345678901234567890"];
    let rats = ["0", "1", "-1", "0/-4", "-3/1", "1/-3", "6/-8", "1/2", "3/5", "1/3", "2/3", "1/6", "3/10", "-2/7", "2/7", "3/4", "-3/10", "7/7", "-5/-5", "4/2", "1/0", "0/0", "2/-1"];
    let rats_b = ["9007199254740993/1", "9007199254740992/1", "9007199254740993/9007199254740992", "1/9007199254740993", "1/9007199254740992",
        "123456789012345678901234567890/987654321098765432109876543210", "-340282366920938463463374607431768211456/18446744073709551616"];
    let quads = ["0,0", "1,0", "-1,0", "0,1", "0,-1", "1,1", "1,-1", "2,0", "0,2", "3,-4", "2,3", "-2,5"];
    let quads_b = ["9007199254740993,1", "4611686018427387904,-4611686018427387904", "123456789012345678901234567890,-987654321098765432109876543210"];
    let ffs = ["0", "1", "-1", "2", "3", "4", "5", "6", "7", "-7", "2147483647", "-2147483648"];

    let cat = |a: &[&'static str], b: &[&'static str]| -> Vec<&'static str> { a.iter().chain(b.iter()).copied().collect() };
    run_ring::<i64>(&mut s, &mut r, &plan, &cat(&ints, &ints_m));
    run_ring::<i128>(&mut s, &mut r, &plan, &cat(&cat(&ints, &ints_m), &ints_b[..6]));
    run_ring::<BigInt>(&mut s, &mut r, &plan, &cat(&cat(&ints, &ints_m), &ints_b));
    run_ring::<Ratio<i64>>(&mut s, &mut r, &plan, &rats);
    run_ring::<Ratio<BigInt>>(&mut s, &mut r, &plan, &cat(&rats, &rats_b));
    run_ring::<FF<2>>(&mut s, &mut r, &plan_small, &ffs);
    run_ring::<FF<3>>(&mut s, &mut r, &plan_small, &ffs);
    run_ring::<FF<5>>(&mut s, &mut r, &plan_small, &ffs);
    run_ring::<FF<7>>(&mut s, &mut r, &plan_small, &ffs);
    run_ring::<FF2>(&mut s, &mut r, &plan_small, &["0", "1", "2", "3", "-1", "-2", "9223372036854775807", "-9223372036854775808"]);
    run_ring::<GaussInt<i64>>(&mut s, &mut r, &plan, &quads);
    run_ring::<GaussInt<BigInt>>(&mut s, &mut r, &plan, &cat(&quads, &quads_b));
    run_ring::<EisenInt<i64>>(&mut s, &mut r, &plan, &quads);
    run_ring::<EisenInt<BigInt>>(&mut s, &mut r, &plan, &cat(&quads, &quads_b));

    // exhaustive small spaces
    let nq = if t { 8 } else { 3 };
    let mut qv = vec![];
    for n in -nq..=nq { for d in -nq..=nq { if d != 0 { qv.push(format!("{}/{}", n, d)); } } }
    grid::<Ratio<i64>>(&mut s, &qv, false);
    grid::<Ratio<BigInt>>(&mut s, &qv[..if t { qv.len() } else { 12 }], false);
    let fv = |p: i64| -> Vec<String> { (-1..=p).map(|x| x.to_string()).collect() };
    grid::<FF<2>>(&mut s, &fv(2), true);
    grid::<FF<3>>(&mut s, &fv(3), true);
    grid::<FF<5>>(&mut s, &fv(5), true);
    grid::<FF<7>>(&mut s, &fv(7), t);
    grid::<FF2>(&mut s, &fv(2), true);
    let nz = if t { 3 } else { 2 };
    let mut zv = vec![]; for a in -nz..=nz { for b in -nz..=nz { zv.push(format!("{},{}", a, b)); } }
    grid::<GaussInt<i64>>(&mut s, &zv, false);
    grid::<EisenInt<i64>>(&mut s, &zv, false);
    if t {
        grid::<GaussInt<BigInt>>(&mut s, &zv, false);
        grid::<EisenInt<BigInt>>(&mut s, &zv, false);
        let small: Vec<String> = (-4..=4).map(|x: i64| x.to_string()).collect();
        grid::<i64>(&mut s, &small, true);
        grid::<BigInt>(&mut s, &small, true);
        let mut qs = vec![]; for n in -3..=3 { for d in 1..=3 { qs.push(format!("{}/{}", n, d)); } }
        grid::<Ratio<i64>>(&mut s, &qs, true);
    }
    s.finish();
}
