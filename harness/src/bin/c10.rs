//! C10 — `lll` / `lll_hnf` of yui-matrix/src/dense/lll.rs.
//!
//! For every generated matrix the REAL code is called (under a timeout, panics captured) over
//! i64 / i128 / BigInt / GaussInt<i64|BigInt> / EisenInt<i64|BigInt> with every transform-flag combination.
//! Oracle (implementation alone, naive exact arithmetic on BigInt pairs and home-made rationals, independent of
//! `Mat` multiplication): H = P·A, P·P⁻¹ = I, echelon shape incl. the norm condition above pivots;
//! B = P·A, P unimodular (exact inverse over the fraction field is integral), size-reduced, Lovász.
//! For the Z-type rings the outputs are additionally sent to the Lean driver: the VERIFIED checkers must give the
//! same verdicts as the harness oracle (also on corrupted outputs), and the literal Lean model of LLLData must
//! reproduce `(B, P, P⁻¹)` exactly.
use num_bigint::BigInt;
use num_integer::Integer as _;
use num_traits::{One, Signed, ToPrimitive, Zero};
use std::panic::{catch_unwind, AssertUnwindSafe};
use yui::{EisenInt, GaussInt};
use yui_matrix::dense::lll::{lll, lll_hnf};
use yui_matrix::dense::{Mat, MatTrait};
use yv::*;

type ZZ = BigInt;

static PROF: std::sync::Mutex<Vec<(&'static str, u128)>> = std::sync::Mutex::new(Vec::new());
fn timed<T>(name: &'static str, f: impl FnOnce() -> T) -> T {
    let t0 = std::time::Instant::now();
    let r = f();
    let dt = t0.elapsed().as_micros();
    let mut g = PROF.lock().unwrap();
    if let Some(e) = g.iter_mut().find(|e| e.0 == name) { e.1 += dt; } else { g.push((name, dt)); }
    r
}

#[derive(Clone, Copy, PartialEq, Eq, Debug)]
enum Kind { Z, G, E }

// ---------------------------------------------------------------------------------------------
// oracle arithmetic: integers of Z, Z[i], Z[ω] (ω² = ω − 1) as pairs; their fraction fields over home-made rationals
// ---------------------------------------------------------------------------------------------

#[derive(Clone, PartialEq, Eq, Debug)]
struct Zq(ZZ, ZZ);

fn zi(a: i64) -> ZZ { ZZ::from(a) }

impl Zq {
    fn zero() -> Zq { Zq(zi(0), zi(0)) }
    fn one() -> Zq { Zq(zi(1), zi(0)) }
    fn is_zero(&self) -> bool { self.0.is_zero() && self.1.is_zero() }
    fn add(&self, o: &Zq) -> Zq { Zq(&self.0 + &o.0, &self.1 + &o.1) }
    fn sub(&self, o: &Zq) -> Zq { Zq(&self.0 - &o.0, &self.1 - &o.1) }
    fn neg(&self) -> Zq { Zq(-&self.0, -&self.1) }
    fn mul(&self, o: &Zq, k: Kind) -> Zq {
        let (a, b, c, d) = (&self.0, &self.1, &o.0, &o.1);
        match k {
            Kind::Z => Zq(a * c, zi(0)),
            Kind::G => Zq(a * c - b * d, a * d + b * c),
            Kind::E => Zq(a * c - b * d, a * d + b * c + b * d),
        }
    }
    fn conj(&self, k: Kind) -> Zq {
        match k {
            Kind::Z => self.clone(),
            Kind::G => Zq(self.0.clone(), -&self.1),
            Kind::E => Zq(&self.0 + &self.1, -&self.1),
        }
    }
    /// exact quotient self / y (None if y does not divide self)
    fn div_exact(&self, y: &Zq, k: Kind) -> Option<Zq> {
        let w = self.mul(&y.conj(k), k);
        let n = y.norm(k);
        if n.is_zero() { return None }
        let (a, ra) = w.0.div_rem(&n);
        let (b, rb) = w.1.div_rem(&n);
        if ra.is_zero() && rb.is_zero() { Some(Zq(a, b)) } else { None }
    }
    fn int(a: ZZ) -> Zq { Zq(a, zi(0)) }
    /// N(z) = z·conj(z)
    fn norm(&self, k: Kind) -> ZZ {
        let (a, b) = (&self.0, &self.1);
        match k {
            Kind::Z => a * a,
            Kind::G => a * a + b * b,
            Kind::E => a * a + a * b + b * b,
        }
    }
    /// the representative chosen by `normalizing_unit`: positive integers; first sector a > 0, b >= 0
    fn normalised(&self, k: Kind) -> bool {
        match k {
            Kind::Z => self.0.is_positive(),
            Kind::G | Kind::E => self.0.is_positive() && !self.1.is_negative(),
        }
    }
    fn txt(&self, k: Kind) -> String {
        match k { Kind::Z => self.0.to_string(), _ => format!("{},{}", self.0, self.1) }
    }
}

#[derive(Clone, PartialEq, Eq, Debug)]
struct Q { n: ZZ, d: ZZ }

impl Q {
    fn new(n: ZZ, d: ZZ) -> Q {
        assert!(!d.is_zero());
        let g = n.gcd(&d);
        let (mut n, mut d) = if g.is_one() { (n, d) } else { (n / &g, d / &g) };
        if d.is_negative() { n = -n; d = -d; }
        Q { n, d }
    }
    fn int(n: ZZ) -> Q { Q { n, d: zi(1) } }
    fn zero() -> Q { Q::int(zi(0)) }
    fn is_zero(&self) -> bool { self.n.is_zero() }
    fn add(&self, o: &Q) -> Q { Q::new(&self.n * &o.d + &o.n * &self.d, &self.d * &o.d) }
    fn sub(&self, o: &Q) -> Q { Q::new(&self.n * &o.d - &o.n * &self.d, &self.d * &o.d) }
    fn mul(&self, o: &Q) -> Q { Q::new(&self.n * &o.n, &self.d * &o.d) }
    fn div(&self, o: &Q) -> Q { Q::new(&self.n * &o.d, &self.d * &o.n) }
    fn neg(&self) -> Q { Q { n: -&self.n, d: self.d.clone() } }
    fn le(&self, o: &Q) -> bool { &self.n * &o.d <= &o.n * &self.d }
    fn is_pos(&self) -> bool { self.n.is_positive() }
    fn frac(p: i64, q: i64) -> Q { Q::new(zi(p), zi(q)) }
}

/// element x + yθ of the fraction field
#[derive(Clone, PartialEq, Eq, Debug)]
struct K(Q, Q);

impl K {
    fn zero() -> K { K(Q::zero(), Q::zero()) }
    fn one() -> K { K(Q::int(zi(1)), Q::zero()) }
    fn from_z(z: &Zq) -> K { K(Q::int(z.0.clone()), Q::int(z.1.clone())) }
    fn is_zero(&self) -> bool { self.0.is_zero() && self.1.is_zero() }
    fn add(&self, o: &K) -> K { K(self.0.add(&o.0), self.1.add(&o.1)) }
    fn sub(&self, o: &K) -> K { K(self.0.sub(&o.0), self.1.sub(&o.1)) }
    fn mul(&self, o: &K, k: Kind) -> K {
        let (a, b, c, d) = (&self.0, &self.1, &o.0, &o.1);
        match k {
            Kind::Z => K(a.mul(c), Q::zero()),
            Kind::G => K(a.mul(c).sub(&b.mul(d)), a.mul(d).add(&b.mul(c))),
            Kind::E => K(a.mul(c).sub(&b.mul(d)), a.mul(d).add(&b.mul(c)).add(&b.mul(d))),
        }
    }
    fn conj(&self, k: Kind) -> K {
        match k {
            Kind::Z => self.clone(),
            Kind::G => K(self.0.clone(), self.1.neg()),
            Kind::E => K(self.0.add(&self.1), self.1.neg()),
        }
    }
    fn norm(&self, k: Kind) -> Q {
        let (a, b) = (&self.0, &self.1);
        match k {
            Kind::Z => a.mul(a),
            Kind::G => a.mul(a).add(&b.mul(b)),
            Kind::E => a.mul(a).add(&a.mul(b)).add(&b.mul(b)),
        }
    }
    fn scale(&self, q: &Q) -> K { K(self.0.mul(q), self.1.mul(q)) }
    fn inv(&self, k: Kind) -> K { let n = self.norm(k); self.conj(k).scale(&Q::int(zi(1)).div(&n)) }
    fn to_int(&self) -> Option<Zq> {
        if self.0.d.is_one() && self.1.d.is_one() { Some(Zq(self.0.n.clone(), self.1.n.clone())) } else { None }
    }
}

type IM = Vec<Vec<Zq>>; // rows

fn shape(a: &IM, n_if_empty: usize) -> (usize, usize) { (a.len(), a.first().map(|r| r.len()).unwrap_or(n_if_empty)) }

fn im_txt(a: &IM, m: usize, n: usize, k: Kind) -> String {
    let mut s = format!("{} {}", m, n);
    for r in a { for e in r { s.push(' '); s.push_str(&e.txt(k)); } }
    s
}
fn im_entries(a: &IM, k: Kind) -> String {
    let mut s = String::new();
    for r in a { for e in r { s.push(' '); s.push_str(&e.txt(k)); } }
    s
}

fn mat_mul(p: &IM, a: &IM, n: usize, k: Kind) -> IM { timed("o.mat_mul", || mat_mul_(p, a, n, k)) }
fn mat_mul_(p: &IM, a: &IM, n: usize, k: Kind) -> IM {
    p.iter().map(|row| {
        (0..n).map(|j| {
            let mut s = Zq::zero();
            for (l, x) in row.iter().enumerate() { if !x.is_zero() { s = s.add(&x.mul(&a[l][j], k)); } }
            s
        }).collect()
    }).collect()
}
fn is_identity(a: &IM) -> bool {
    let m = a.len();
    a.iter().enumerate().all(|(i, r)| r.len() == m && r.iter().enumerate().all(|(j, e)| if i == j { *e == Zq::one() } else { e.is_zero() }))
}

fn lead(row: &[Zq]) -> usize { row.iter().position(|e| !e.is_zero()).unwrap_or(row.len()) }

/// the echelon shape the property demands of H (zero rows last)
fn hnf_shape(h: &IM, n: usize, k: Kind) -> Result<(), String> {
    let m = h.len();
    for i in 0..m {
        let c = lead(&h[i]);
        if c == n {
            for i2 in i + 1..m { if lead(&h[i2]) != n { return Err(format!("zero row {} above the non-zero row {}", i, i2)); } }
            continue;
        }
        if !h[i][c].normalised(k) { return Err(format!("pivot ({},{}) = {} is not normalised", i, c, h[i][c].txt(k))); }
        let np = h[i][c].norm(k);
        for i2 in 0..m {
            if i2 > i {
                if !(lead(&h[i2]) > c) { return Err(format!("leading column of row {} is not right of the pivot ({},{})", i2, i, c)); }
                if !h[i2][c].is_zero() { return Err(format!("non-zero entry below the pivot ({},{})", i, c)); }
            } else if i2 < i {
                if !(h[i2][c].norm(k) < np) { return Err(format!("entry ({},{}) above the pivot ({},{}) has norm >= the pivot's", i2, c, i, c)); }
            }
        }
    }
    Ok(())
}

/// only echelon with non-zero pivots (what `reduce_by` needs)
fn is_echelon(h: &IM, n: usize) -> bool {
    let mut prev: Option<usize> = None;
    let mut seen_zero = false;
    for r in h {
        let c = lead(r);
        if c == n { seen_zero = true; continue; }
        if seen_zero { return false; }
        if let Some(p) = prev { if c <= p { return false; } }
        prev = Some(c);
    }
    true
}

/// does `v` lie in the row lattice of the echelon matrix `h`?
fn in_lattice(h: &IM, v: &[Zq], n: usize, k: Kind) -> bool {
    let mut v: Vec<Zq> = v.to_vec();
    for r in h {
        let c = lead(r);
        if c == n { break; }
        if v[c].is_zero() { continue; }
        let q = K::from_z(&v[c]).mul(&K::from_z(&r[c]).inv(k), k);
        let Some(q) = q.to_int() else { return false };
        for j in 0..n { v[j] = v[j].sub(&q.mul(&r[j], k)); }
    }
    v.iter().all(|e| e.is_zero())
}

fn h_dot(x: &[K], y: &[K], k: Kind) -> K {
    let mut s = K::zero();
    for (a, b) in x.iter().zip(y) { if !a.is_zero() && !b.is_zero() { s = s.add(&a.mul(&b.conj(k), k)); } }
    s
}

/// Gram–Schmidt over the fraction field: (|b*_i|², μ); None if the rows are dependent
fn gram_schmidt(b: &IM, k: Kind) -> Option<(Vec<Q>, Vec<Vec<K>>)> {
    let m = b.len();
    let bk: Vec<Vec<K>> = b.iter().map(|r| r.iter().map(K::from_z).collect()).collect();
    let mut bs: Vec<Vec<K>> = vec![];
    let mut nrm: Vec<Q> = vec![];
    let mut mu: Vec<Vec<K>> = vec![];
    for i in 0..m {
        let mut v = bk[i].clone();
        let mut mui = vec![];
        for j in 0..i {
            let c = h_dot(&bk[i], &bs[j], k).scale(&Q::int(zi(1)).div(&nrm[j]));
            for t in 0..v.len() { v[t] = v[t].sub(&c.mul(&bs[j][t], k)); }
            mui.push(c);
        }
        let nn = h_dot(&v, &v, k);
        debug_assert!(nn.1.is_zero());
        if !nn.0.is_pos() { return None; }
        nrm.push(nn.0);
        bs.push(v);
        mu.push(mui);
    }
    Some((nrm, mu))
}

fn alpha(k: Kind) -> Q { match k { Kind::Z | Kind::G => Q::frac(3, 4), Kind::E => Q::frac(2, 3) } }
/// bound on N(μ) guaranteed by coordinate-wise nearest rounding: 1/4 (Z), 1/2 (Z[i]), 3/4 (Z[ω], basis 1, ω−1)
fn rho(k: Kind) -> Q { match k { Kind::Z => Q::frac(1, 4), Kind::G => Q::frac(1, 2), Kind::E => Q::frac(3, 4) } }

/// integral Gram–Schmidt data from the Gram matrix (Cohen, Algorithm 2.6.7, Hermitian version):
/// d[i] = det Gram(b_0..b_i) = Π_{l<=i} |b*_l|², lam[i][j] = d[j]·μ_ij.  None if the rows are dependent.
fn gs_integral(b: &IM, k: Kind) -> Option<(Vec<ZZ>, Vec<Vec<Zq>>)> {
    let m = b.len();
    let dot = |x: &Vec<Zq>, y: &Vec<Zq>| -> Zq { let mut s = Zq::zero(); for (a, c) in x.iter().zip(y) { if !a.is_zero() && !c.is_zero() { s = s.add(&a.mul(&c.conj(k), k)); } } s };
    let mut d: Vec<ZZ> = vec![];
    let mut lam: Vec<Vec<Zq>> = vec![];
    for i in 0..m {
        let mut li = vec![];
        for j in 0..=i {
            let mut u = dot(&b[i], &b[j]);
            for l in 0..j {
                // u = (d_l·u − λ_il·conj(λ_jl)) / d_{l−1}
                let ljl: &Zq = if j == i { &li[l] } else { &lam[j][l] };
                let num = Zq::int(d[l].clone()).mul(&u, k).sub(&li[l].mul(&ljl.conj(k), k));
                let den = if l == 0 { Zq::one() } else { Zq::int(d[l - 1].clone()) };
                u = num.div_exact(&den, k).expect("HARNESS-SELF-CHECK: integral Gram–Schmidt division is exact");
            }
            if j < i { li.push(u); } else {
                assert!(u.1.is_zero(), "HARNESS-SELF-CHECK: Gram determinant is rational");
                if !u.0.is_positive() { return None }
                d.push(u.0);
            }
        }
        lam.push(li);
    }
    Some((d, lam))
}

/// (numerator, denominator) of α and of the bound ρ on N(μ)
fn alpha_pq(k: Kind) -> (i64, i64) { match k { Kind::Z | Kind::G => (3, 4), Kind::E => (2, 3) } }
fn rho_pq(k: Kind) -> (i64, i64) { match k { Kind::Z => (1, 4), Kind::G => (1, 2), Kind::E => (3, 4) } }

fn lll_reduced(b: &IM, k: Kind) -> Result<(), String> { timed("o.lll_reduced", || lll_reduced_(b, k)) }
fn lll_reduced_(b: &IM, k: Kind) -> Result<(), String> {
    let Some((d, lam)) = gs_integral(b, k) else { return Err("rows of B are linearly dependent".into()) };
    let (rp, rq) = rho_pq(k);
    for i in 0..b.len() {
        for j in 0..i {
            // N(μ_ij) = N(λ_ij)/d_j² <= rp/rq
            if !(zi(rq) * lam[i][j].norm(k) <= zi(rp) * &d[j] * &d[j]) { return Err(format!("not size-reduced: N(mu[{},{}]) > {}/{}", i, j, rp, rq)); }
        }
    }
    let (p, q) = alpha_pq(k);
    for i in 1..b.len() {
        // |b*_i|² >= (α − N(μ_{i,i-1})) |b*_{i-1}|²  ⇔  q (d_{i-2} d_i + N(λ_{i,i-1})) >= p d_{i-1}²
        let d0 = if i >= 2 { d[i - 2].clone() } else { zi(1) };
        let lhs = zi(q) * (d0 * &d[i] + lam[i][i - 1].norm(k));
        let rhs = zi(p) * &d[i - 1] * &d[i - 1];
        if !(lhs >= rhs) { return Err(format!("Lovász condition fails at k={}", i)); }
    }
    Ok(())
}

/// the same verdict from the definition (Gram–Schmidt over the fraction field); used to cross-check `lll_reduced`
fn lll_reduced_rational(b: &IM, k: Kind) -> Result<(), String> { timed("o.lll_reduced_rational", || lll_reduced_rational_(b, k)) }
fn lll_reduced_rational_(b: &IM, k: Kind) -> Result<(), String> {
    let Some((nrm, mu)) = gram_schmidt(b, k) else { return Err("rows of B are linearly dependent".into()) };
    for i in 0..b.len() {
        for j in 0..i {
            if !mu[i][j].norm(k).le(&rho(k)) { return Err(format!("not size-reduced: N(mu[{},{}]) > {:?}", i, j, rho(k))); }
        }
    }
    for i in 1..b.len() {
        let rhs = alpha(k).sub(&mu[i][i - 1].norm(k)).mul(&nrm[i - 1]);
        if !rhs.le(&nrm[i]) { return Err(format!("Lovász condition fails at k={}", i)); }
    }
    Ok(())
}

/// Some(P⁻¹) iff P is unimodular: fraction-free Gauss–Jordan, the result is verified by multiplication
fn integral_inverse(p: &IM, k: Kind) -> Option<IM> { timed("o.inverse", || integral_inverse_(p, k)) }
fn integral_inverse_(p: &IM, k: Kind) -> Option<IM> {
    let m = p.len();
    if p.iter().any(|r| r.len() != m) { return None; }
    let fast = (|| -> Option<Option<IM>> {
        let mut a: Vec<Vec<Zq>> = p.iter().enumerate().map(|(i, r)| { let mut v = r.clone(); v.extend((0..m).map(|j| if i == j { Zq::one() } else { Zq::zero() })); v }).collect();
        let mut prev = Zq::one();
        for c in 0..m {
            let Some(piv) = (c..m).find(|&r| !a[r][c].is_zero()) else { return Some(None) };
            a.swap(c, piv);
            let pc = a[c].clone();
            for i in 0..m {
                if i == c { continue }
                let f = a[i][c].clone();
                for j in 0..2 * m { a[i][j] = pc[c].mul(&a[i][j], k).sub(&f.mul(&pc[j], k)).div_exact(&prev, k)?; }
            }
            prev = pc[c].clone();
        }
        if m == 0 { return Some(Some(vec![])) }
        let det = a[m - 1][m - 1].clone();
        if !det.norm(k).is_one() { return Some(None) }
        let mut out = vec![];
        for r in 0..m { let mut row = vec![]; for j in 0..m { row.push(a[r][m + j].div_exact(&a[r][r], k)?); } out.push(row); }
        if !is_identity(&mat_mul(p, &out, m, k)) { return None }
        Some(Some(out))
    })();
    match fast { Some(r) => r, None => integral_inverse_rational(p, k) }
}

/// exact inverse over the fraction field; Some only if it exists and is integral (⇔ P unimodular)
fn integral_inverse_rational(p: &IM, k: Kind) -> Option<IM> { timed("o.inverse_rational", || integral_inverse_rational_(p, k)) }
fn integral_inverse_rational_(p: &IM, k: Kind) -> Option<IM> {
    let m = p.len();
    if p.iter().any(|r| r.len() != m) { return None; }
    let mut a: Vec<Vec<K>> = p.iter().enumerate().map(|(i, r)| {
        let mut v: Vec<K> = r.iter().map(K::from_z).collect();
        v.extend((0..m).map(|j| if i == j { K::one() } else { K::zero() }));
        v
    }).collect();
    for c in 0..m {
        let piv = (c..m).find(|&r| !a[r][c].is_zero())?;
        a.swap(c, piv);
        let inv = a[c][c].inv(k);
        for j in 0..2 * m { a[c][j] = a[c][j].mul(&inv, k); }
        for r in 0..m {
            if r != c && !a[r][c].is_zero() {
                let f = a[r][c].clone();
                for j in 0..2 * m { let t = f.mul(&a[c][j], k); a[r][j] = a[r][j].sub(&t); }
            }
        }
    }
    let mut out = vec![];
    for r in 0..m {
        let mut row = vec![];
        for j in 0..m { row.push(a[r][m + j].to_int()?); }
        out.push(row);
    }
    Some(out)
}

fn rank(a: &IM, n: usize, k: Kind) -> usize { timed("o.rank", || rank_(a, n, k)) }
fn rank_(a: &IM, n: usize, k: Kind) -> usize {
    let mut a = a.clone();
    let m = a.len();
    let mut prev = Zq::one();
    let mut r = 0;
    for c in 0..n {
        if r == m { break; }
        let Some(p) = (r..m).find(|&i| !a[i][c].is_zero()) else { continue };
        a.swap(r, p);
        let pr = a[r].clone();
        for i in r + 1..m {
            let f = a[i][c].clone();
            for j in c + 1..n { a[i][j] = pr[c].mul(&a[i][j], k).sub(&f.mul(&pr[j], k)).div_exact(&prev, k).expect("HARNESS-SELF-CHECK: Bareiss division is exact"); }
            a[i][c] = Zq::zero();
        }
        prev = pr[c].clone();
        r += 1;
    }
    r
}

// ---------------------------------------------------------------------------------------------
// calling the real code over the seven scalar types
// ---------------------------------------------------------------------------------------------

trait Conv: Sized { fn fp(a: &ZZ, b: &ZZ) -> Option<Self>; fn tp(&self) -> Zq; }
impl Conv for i64 { fn fp(a: &ZZ, b: &ZZ) -> Option<Self> { if b.is_zero() { a.to_i64() } else { None } } fn tp(&self) -> Zq { Zq(ZZ::from(*self), zi(0)) } }
impl Conv for i128 { fn fp(a: &ZZ, b: &ZZ) -> Option<Self> { if b.is_zero() { a.to_i128() } else { None } } fn tp(&self) -> Zq { Zq(ZZ::from(*self), zi(0)) } }
impl Conv for BigInt { fn fp(a: &ZZ, b: &ZZ) -> Option<Self> { if b.is_zero() { Some(a.clone()) } else { None } } fn tp(&self) -> Zq { Zq(self.clone(), zi(0)) } }
impl Conv for GaussInt<i64> { fn fp(a: &ZZ, b: &ZZ) -> Option<Self> { Some(GaussInt::new(a.to_i64()?, b.to_i64()?)) } fn tp(&self) -> Zq { Zq(ZZ::from(*self.left()), ZZ::from(*self.right())) } }
impl Conv for GaussInt<BigInt> { fn fp(a: &ZZ, b: &ZZ) -> Option<Self> { Some(GaussInt::new(a.clone(), b.clone())) } fn tp(&self) -> Zq { Zq(self.left().clone(), self.right().clone()) } }
impl Conv for EisenInt<i64> { fn fp(a: &ZZ, b: &ZZ) -> Option<Self> { Some(EisenInt::new(a.to_i64()?, b.to_i64()?)) } fn tp(&self) -> Zq { Zq(ZZ::from(*self.left()), ZZ::from(*self.right())) } }
impl Conv for EisenInt<BigInt> { fn fp(a: &ZZ, b: &ZZ) -> Option<Self> { Some(EisenInt::new(a.clone(), b.clone())) } fn tp(&self) -> Zq { Zq(self.left().clone(), self.right().clone()) } }

#[derive(Clone, Copy, PartialEq, Eq, Debug)]
enum Ty { I64, I128, Big, GI64, GBig, EI64, EBig }
impl Ty {
    fn name(self) -> &'static str { match self { Ty::I64 => "i64", Ty::I128 => "i128", Ty::Big => "BigInt", Ty::GI64 => "GaussInt<i64>", Ty::GBig => "GaussInt<BigInt>", Ty::EI64 => "EisenInt<i64>", Ty::EBig => "EisenInt<BigInt>" } }
    fn kind(self) -> Kind { match self { Ty::I64 | Ty::I128 | Ty::Big => Kind::Z, Ty::GI64 | Ty::GBig => Kind::G, _ => Kind::E } }
    fn fixed_width(self) -> bool { matches!(self, Ty::I64 | Ty::I128 | Ty::GI64 | Ty::EI64) }
}

enum Out<T> { Timeout, Panic(String), Ok(T) }

fn panic_msg(e: Box<dyn std::any::Any + Send>) -> String {
    if let Some(s) = e.downcast_ref::<&str>() { s.to_string() } else if let Some(s) = e.downcast_ref::<String>() { s.clone() } else { "?".into() }
}

fn from_mat<T: Conv>(m: &Mat<T>) -> IM where T: Clone {
    let (r, c) = m.shape();
    (0..r).map(|i| (0..c).map(|j| m[(i, j)].tp()).collect()).collect()
}

type HnfRes = (IM, Option<IM>, Option<IM>, (usize, usize));
type LllRes = (IM, Option<IM>, (usize, usize));

macro_rules! runner {
    ($hname:ident, $lname:ident, $t:ty) => {
        fn $hname(a: &IM, m: usize, n: usize, flags: [bool; 2], secs: u64) -> Option<Out<HnfRes>> {
            let mut data: Vec<$t> = vec![];
            for r in a { for e in r { data.push(<$t as Conv>::fp(&e.0, &e.1)?); } }
            let r = guard_timeout(secs, move || {
                let mat: Mat<$t> = Mat::from_data((m, n), data);
                catch_unwind(AssertUnwindSafe(|| lll_hnf(&mat, flags))).map_err(panic_msg)
            });
            Some(match r {
                None => Out::Timeout,
                Some(None) => Out::Panic("panic outside the call".into()),
                Some(Some(Err(s))) => Out::Panic(s),
                Some(Some(Ok((h, p, q)))) => { let sh = h.shape(); Out::Ok((from_mat(&h), p.as_ref().map(from_mat), q.as_ref().map(from_mat), sh)) }
            })
        }
        fn $lname(a: &IM, m: usize, n: usize, flag: bool, secs: u64) -> Option<Out<LllRes>> {
            let mut data: Vec<$t> = vec![];
            for r in a { for e in r { data.push(<$t as Conv>::fp(&e.0, &e.1)?); } }
            let r = guard_timeout(secs, move || {
                let mat: Mat<$t> = Mat::from_data((m, n), data);
                catch_unwind(AssertUnwindSafe(|| lll(&mat, flag))).map_err(panic_msg)
            });
            Some(match r {
                None => Out::Timeout,
                Some(None) => Out::Panic("panic outside the call".into()),
                Some(Some(Err(s))) => Out::Panic(s),
                Some(Some(Ok((b, p)))) => { let sh = b.shape(); Out::Ok((from_mat(&b), p.as_ref().map(from_mat), sh)) }
            })
        }
    };
}
runner!(hnf_i64, lll_i64, i64);
runner!(hnf_i128, lll_i128, i128);
runner!(hnf_big, lll_big, BigInt);
runner!(hnf_gi64, lll_gi64, GaussInt<i64>);
runner!(hnf_gbig, lll_gbig, GaussInt<BigInt>);
runner!(hnf_ei64, lll_ei64, EisenInt<i64>);
runner!(hnf_ebig, lll_ebig, EisenInt<BigInt>);

fn call_hnf(ty: Ty, a: &IM, m: usize, n: usize, flags: [bool; 2], secs: u64) -> Option<Out<HnfRes>> {
    timed("impl.hnf", || match ty {
        Ty::I64 => hnf_i64(a, m, n, flags, secs), Ty::I128 => hnf_i128(a, m, n, flags, secs), Ty::Big => hnf_big(a, m, n, flags, secs),
        Ty::GI64 => hnf_gi64(a, m, n, flags, secs), Ty::GBig => hnf_gbig(a, m, n, flags, secs),
        Ty::EI64 => hnf_ei64(a, m, n, flags, secs), Ty::EBig => hnf_ebig(a, m, n, flags, secs),
    })
}
fn call_lll(ty: Ty, a: &IM, m: usize, n: usize, flag: bool, secs: u64) -> Option<Out<LllRes>> {
    timed("impl.lll", || match ty {
        Ty::I64 => lll_i64(a, m, n, flag, secs), Ty::I128 => lll_i128(a, m, n, flag, secs), Ty::Big => lll_big(a, m, n, flag, secs),
        Ty::GI64 => lll_gi64(a, m, n, flag, secs), Ty::GBig => lll_gbig(a, m, n, flag, secs),
        Ty::EI64 => lll_ei64(a, m, n, flag, secs), Ty::EBig => lll_ebig(a, m, n, flag, secs),
    })
}

// ---------------------------------------------------------------------------------------------
// one case
// ---------------------------------------------------------------------------------------------

struct Ctx { secs: u64, timeouts: u32, mutate_every: u64, tick: u64 }

fn chk_name(what: &str, k: Kind) -> String {
    match k { Kind::Z => format!("chk{}", what), Kind::G => format!("chk{}q g", what), Kind::E => format!("chk{}q e", what) }
}

fn b01(b: bool) -> &'static str { if b { "1" } else { "0" } }

fn desc(what: &str, ty: Ty, flags: &str, a: &IM, m: usize, n: usize) -> String {
    format!("{} {} flags={} A={}", what, ty.name(), flags, im_txt(a, m, n, ty.kind()))
}

/// verdicts of the harness oracle in the driver's reply format
fn verdict_hnf(a: &IM, h: &IM, p: &IM, q: &IM, m: usize, n: usize, k: Kind) -> String {
    let t = dims_ok(h, m, n) && dims_ok(p, m, m) && dims_ok(q, m, m) && mat_mul(p, a, n, k) == *h && is_identity(&mat_mul(p, q, m, k));
    format!("t={} h={}", b01(t), b01(dims_ok(h, m, n) && hnf_shape(h, n, k).is_ok()))
}
fn verdict_lll(a: &IM, b: &IM, p: &IM, q: &IM, m: usize, n: usize, k: Kind) -> String {
    let t = dims_ok(b, m, n) && dims_ok(p, m, m) && dims_ok(q, m, m) && mat_mul(p, a, n, k) == *b && is_identity(&mat_mul(p, q, m, k));
    format!("t={} r={}", b01(t), b01(dims_ok(b, m, n) && lll_reduced(b, k).is_ok()))
}
fn dims_ok(a: &IM, m: usize, n: usize) -> bool { a.len() == m && a.iter().all(|r| r.len() == n) }


fn hnf_case(s: &mut Sink, cx: &mut Ctx, r: &mut Rng, ty: Ty, a: &IM, m: usize, n: usize) {
    let k = ty.kind();
    s.count(&format!("hnf.{}", ty.name()));
    s.count(&format!("hnf.shape.{}x{}", m, n));
    let mut reference: Option<IM> = None;
    for flags in [[true, true], [true, false], [false, true], [false, false]] {
        let fl = format!("[{},{}]", flags[0], flags[1]);
        let d = desc("lll_hnf", ty, &fl, a, m, n);
        let t0 = std::time::Instant::now();
        let Some(out) = call_hnf(ty, a, m, n, flags, cx.secs) else { s.count("skipped.does-not-fit-type"); return };
        if std::env::var("C10_PROF").is_ok() && t0.elapsed().as_millis() > 300 { eprintln!("SLOW {} ms {}x{} {} bits={} rank={}", t0.elapsed().as_millis(), m, n, ty.name(), max_bits(a), rank(a, n, k)); }
        let (h, p, q, sh) = match out {
            Out::Timeout => { cx.timeouts += 1; s.oracle(false, "lll_hnf terminates", &d, &format!("no result after {} s", cx.secs)); s.eval_only(&d, true); return }
            Out::Panic(msg) => {
                if ty.fixed_width() && msg.contains("overflow") { s.count(&format!("out-of-scope.overflow.{}", ty.name())); return }
                s.oracle(false, "lll_hnf returns (does not panic)", &d, &msg); s.eval_only(&d, true); return
            }
            Out::Ok(x) => x,
        };
        s.oracle(sh == (m, n) && dims_ok(&h, m, n), "H has the shape of A", &d, &format!("{:?}", sh));
        s.oracle(p.is_some() == flags[0] || !flags[0], "P is returned when requested", &d, "");
        s.oracle(q.is_some() == flags[1] || !flags[1], "P⁻¹ is returned when requested", &d, "");
        if !dims_ok(&h, m, n) { return }
        // shape of H
        let hs = hnf_shape(&h, n, k);
        match &hs {
            Ok(()) => s.oracle(true, "H is in row echelon form with normalised pivots and reduced columns", &d, ""),
            Err(e) => s.oracle(false, "H is in row echelon form with normalised pivots and reduced columns", &d, &format!("{}; H={}", e, im_txt(&h, m, n, k))),
        }
        let mut p_unimod: Option<IM> = None; // verified inverse of P
        if let Some(p) = &p {
            if flags[0] {
                let ok = dims_ok(p, m, m) && mat_mul(p, a, n, k) == h;
                s.oracle(ok, "H = P·A", &d, &format!("H={} P={}", im_txt(&h, m, n, k), im_txt(p, m, m, k)));
                if dims_ok(p, m, m) {
                    match &q {
                        Some(q) if flags[1] => {
                            let ok2 = dims_ok(q, m, m) && is_identity(&mat_mul(p, q, m, k));
                            s.oracle(ok2, "P·P⁻¹ = I", &d, &format!("P={} Pinv={}", im_txt(p, m, m, k), im_txt(q, m, m, k)));
                            if ok2 { p_unimod = Some(q.clone()); }
                        }
                        _ => {
                            let inv = integral_inverse(p, k);
                            s.oracle(inv.is_some(), "P is unimodular", &d, &format!("P={}", im_txt(p, m, m, k)));
                            p_unimod = inv;
                        }
                    }
                }
                if ok && p_unimod.is_some() && is_echelon(&h, n) && reference.is_none() { reference = Some(h.clone()); }
            }
        } else if let Some(q) = &q {
            if flags[1] {
                // only P⁻¹: A = P⁻¹·H and P⁻¹ unimodular
                let ok = dims_ok(q, m, m) && mat_mul(q, &h, n, k) == *a;
                s.oracle(ok, "A = P⁻¹·H", &d, &format!("H={} Pinv={}", im_txt(&h, m, n, k), im_txt(q, m, m, k)));
                if dims_ok(q, m, m) { s.oracle(integral_inverse(q, k).is_some(), "P⁻¹ is unimodular", &d, &im_txt(q, m, m, k)); }
            }
        }
        if !flags[0] && !flags[1] {
            // no transform returned: H must still span the row lattice of A (compared through the verified reference)
            if let Some(h0) = &reference {
                let ok = is_echelon(&h, n) && h.iter().all(|v| in_lattice(h0, v, n, k)) && h0.iter().all(|v| in_lattice(&h, v, n, k));
                if is_echelon(&h, n) { s.oracle(ok, "H (no transforms requested) spans the row lattice of A", &d, &im_txt(&h, m, n, k)); }
            }
        }
        s.eval_only(&d, m > 1 && n > 0);
        // Lean: verified checkers on the real outputs (all rings), literal model (Z)
        if let (true, true, Some(p), Some(q)) = (flags[0], flags[1], &p, &q) {
            if dims_ok(p, m, m) && dims_ok(q, m, m) {
                let req = format!("{} {} {}{}{}{}{}", chk_name("hnf", k), m, n, im_entries(a, k), im_entries(&h, k), im_entries(p, k), im_entries(q, k));
                s.case(&req, &verdict_hnf(a, &h, p, q, m, n, k), m > 1);
                cx.tick += 1;
                if cx.tick % cx.mutate_every == 0 { mutated_hnf(s, r, a, &h, p, q, m, n, k); }
            }
        }
        if k == Kind::Z {
            if flags == [true, true] && ty == Ty::Big && max_bits(a) <= 70 && m <= 8 {
                // bookkeeping probe of the model: det/lambda = integral Gram–Schmidt data of P before every iteration
                s.case(&format!("bookhnf {} {}{}", m, n, im_entries(a, k)), "ok", m > 1);
            }
            let req = format!("runhnf {} {} {} {}{}", b01(flags[0]), b01(flags[1]), m, n, im_entries(a, k));
            let reply = format!("{};{};{}", im_txt(&h, m, n, k),
                if flags[0] { p.as_ref().map(|p| im_txt(p, m, m, k)).unwrap_or("none".into()) } else { "-".into() },
                if flags[1] { q.as_ref().map(|q| im_txt(q, m, m, k)).unwrap_or("none".into()) } else { "-".into() });
            s.case(&req, &reply, m > 1);
        }
    }
}

/// corrupted outputs: the verified checker must give the same verdict as the harness oracle
fn mutated_hnf(s: &mut Sink, r: &mut Rng, a: &IM, h: &IM, p: &IM, q: &IM, m: usize, n: usize, k: Kind) {
    if m == 0 || n == 0 { return }
    let (mut h, mut p, mut q) = (h.clone(), p.clone(), q.clone());
    let i = r.below(m as u64) as usize;
    let j = r.below(m as u64) as usize;
    let c = r.below(n as u64) as usize;
    let kind = r.below(7);
    match kind {
        6 => { // consistent multiplication of a row by a unit: pivots leave the normalised sector
            let u = r.pick(&units(k)).clone();
            let ui = u.conj(k);
            for e in h[i].iter_mut() { *e = e.mul(&u, k); } for e in p[i].iter_mut() { *e = e.mul(&u, k); } for row in q.iter_mut() { row[i] = row[i].mul(&ui, k); }
        }
        0 => { h[i][c] = h[i][c].add(&Zq::one()); }
        1 => { p[i][j] = p[i][j].add(&Zq::one()); }
        2 => { q[i][j] = q[i][j].sub(&Zq::one()); }
        3 => { // consistent row swap: transform stays valid, shape usually breaks
            h.swap(i, j); p.swap(i, j); for row in q.iter_mut() { row.swap(i, j); }
        }
        4 => { // consistent negation of a row
            for e in h[i].iter_mut() { *e = e.neg(); } for e in p[i].iter_mut() { *e = e.neg(); } for row in q.iter_mut() { row[i] = row[i].neg(); }
        }
        _ => { // consistent addition of row j to row i (i != j): column reduction above pivots usually breaks
            if i == j { return }
            for t in 0..n { let x = h[j][t].clone(); h[i][t] = h[i][t].add(&x); }
            for t in 0..m { let x = p[j][t].clone(); p[i][t] = p[i][t].add(&x); }
            for row in q.iter_mut() { let x = row[i].clone(); row[j] = row[j].sub(&x); }
        }
    }
    s.count(&format!("mutated.hnf.{}", kind));
    let req = format!("{} {} {}{}{}{}{}", chk_name("hnf", k), m, n, im_entries(a, k), im_entries(&h, k), im_entries(&p, k), im_entries(&q, k));
    let v = verdict_hnf(a, &h, &p, &q, m, n, k);
    s.count(&format!("mutated.verdict.{}", v.replace(' ', ",")));
    s.case(&req, &v, true);
}

fn mutated_lll(s: &mut Sink, r: &mut Rng, a: &IM, b: &IM, p: &IM, q: &IM, m: usize, n: usize, k: Kind) {
    if m == 0 || n == 0 { return }
    let (mut b, mut p, mut q) = (b.clone(), p.clone(), q.clone());
    let i = r.below(m as u64) as usize;
    let j = r.below(m as u64) as usize;
    let c = r.below(n as u64) as usize;
    let kind = r.below(5);
    match kind {
        0 => { b[i][c] = b[i][c].add(&Zq::one()); }
        1 => { p[i][j] = p[i][j].add(&Zq::one()); }
        2 => { b.swap(i, j); p.swap(i, j); for row in q.iter_mut() { row.swap(i, j); } }
        3 => { for e in b[i].iter_mut() { *e = e.neg(); } for e in p[i].iter_mut() { *e = e.neg(); } for row in q.iter_mut() { row[i] = row[i].neg(); } }
        _ => {
            if i == j { return }
            let f = Zq(zi(r.range(1, 3)), zi(0));
            for t in 0..n { let x = b[j][t].mul(&f, k); b[i][t] = b[i][t].add(&x); }
            for t in 0..m { let x = p[j][t].mul(&f, k); p[i][t] = p[i][t].add(&x); }
            for row in q.iter_mut() { let x = row[i].mul(&f, k); row[j] = row[j].sub(&x); }
        }
    }
    s.count(&format!("mutated.lll.{}", kind));
    let req = format!("{} {} {}{}{}{}{}", chk_name("lll", k), m, n, im_entries(a, k), im_entries(&b, k), im_entries(&p, k), im_entries(&q, k));
    let v = verdict_lll(a, &b, &p, &q, m, n, k);
    s.count(&format!("mutated.verdict.{}", v.replace(' ', ",")));
    s.case(&req, &v, true);
}

/// `a` has independent rows (checked by the caller)
fn lll_case(s: &mut Sink, cx: &mut Ctx, r: &mut Rng, ty: Ty, a: &IM, m: usize, n: usize) {
    let k = ty.kind();
    s.count(&format!("lll.{}", ty.name()));
    s.count(&format!("lll.shape.{}x{}", m, n));
    for flag in [true, false] {
        let d = desc("lll", ty, &format!("{}", flag), a, m, n);
        let Some(out) = call_lll(ty, a, m, n, flag, cx.secs) else { s.count("skipped.does-not-fit-type"); return };
        let (b, p, sh) = match out {
            Out::Timeout => { cx.timeouts += 1; s.oracle(false, "lll terminates", &d, &format!("no result after {} s", cx.secs)); s.eval_only(&d, true); return }
            Out::Panic(msg) => {
                if ty.fixed_width() && msg.contains("overflow") { s.count(&format!("out-of-scope.overflow.{}", ty.name())); return }
                s.oracle(false, "lll returns (does not panic) on independent rows", &d, &msg); s.eval_only(&d, true); return
            }
            Out::Ok(x) => x,
        };
        s.oracle(sh == (m, n) && dims_ok(&b, m, n), "B has the shape of A", &d, &format!("{:?}", sh));
        s.oracle(p.is_some() || !flag, "P is returned when requested", &d, "");
        if !dims_ok(&b, m, n) { return }
        let red = lll_reduced(&b, k);
        s.oracle(red.is_ok(), "B is size-reduced and satisfies the Lovász condition", &d, &format!("{:?}; B={}", red, im_txt(&b, m, n, k)));
        let mut pinv: Option<IM> = None;
        if let (true, Some(p)) = (flag, &p) {
            let ok = dims_ok(p, m, m) && mat_mul(p, a, n, k) == b;
            s.oracle(ok, "B = P·A", &d, &format!("B={} P={}", im_txt(&b, m, n, k), im_txt(p, m, m, k)));
            if dims_ok(p, m, m) {
                pinv = integral_inverse(p, k);
                s.oracle(pinv.is_some(), "P is unimodular", &d, &im_txt(p, m, m, k));
            }
        }
        if !flag {
            // no transform returned: B must still span the row lattice of A.  L(B) ⊆ L(A) is tested against an echelon
            // basis of L(A) (the Hermite form returned by lll_hnf, used only after the oracle has verified H0 = P0·A,
            // P0·Q0 = I and the echelon shape); equal Gram determinants then give equality of the lattices.
            if let Some(Out::Ok((h0, Some(p0), Some(q0), _))) = call_hnf(ty, a, m, n, [true, true], cx.secs) {
                if dims_ok(&h0, m, n) && dims_ok(&p0, m, m) && dims_ok(&q0, m, m) && mat_mul(&p0, a, n, k) == h0 && is_identity(&mat_mul(&p0, &q0, m, k)) && is_echelon(&h0, n) {
                    let ga = gs_integral(a, k).map(|x| x.0[m - 1].clone());
                    let gb = gs_integral(&b, k).map(|x| x.0[m - 1].clone());
                    let ok = ga.is_some() && ga == gb && b.iter().all(|v| in_lattice(&h0, v, n, k));
                    s.oracle(ok, "B (no transform requested) spans the row lattice of A", &d, &im_txt(&b, m, n, k));
                }
            }
        }
        if max_bits(&b) <= 40 {
            assert!(red.is_ok() == lll_reduced_rational(&b, k).is_ok(), "HARNESS-SELF-CHECK: integral and rational reducedness tests agree");
            if let Some(p) = &p { if dims_ok(p, m, m) { assert!(integral_inverse(p, k) == integral_inverse_rational(p, k), "HARNESS-SELF-CHECK: inverse"); } }
        }
        s.eval_only(&d, m > 1);
        if let (true, Some(p)) = (flag, &p) {
            if dims_ok(p, m, m) {
                // certificate for unimodularity: the harness's exact inverse (zero matrix if none exists → t=0)
                let q = pinv.clone().unwrap_or_else(|| vec![vec![Zq::zero(); m]; m]);
                let req = format!("{} {} {}{}{}{}{}", chk_name("lll", k), m, n, im_entries(a, k), im_entries(&b, k), im_entries(p, k), im_entries(&q, k));
                s.case(&req, &verdict_lll(a, &b, p, &q, m, n, k), m > 1);
                cx.tick += 1;
                if cx.tick % cx.mutate_every == 0 { mutated_lll(s, r, a, &b, p, &q, m, n, k); }
            }
        }
        if k == Kind::Z {
            if flag && ty == Ty::Big && max_bits(a) <= 70 && m <= 8 {
                s.case(&format!("booklll {} {}{}", m, n, im_entries(a, k)), "ok", m > 1);
            }
            let req = format!("runlll {} {} {}{}", b01(flag), m, n, im_entries(a, k));
            let reply = format!("{};{}", im_txt(&b, m, n, k),
                if flag { p.as_ref().map(|p| im_txt(p, m, m, k)).unwrap_or("none".into()) } else { "-".into() });
            s.case(&req, &reply, m > 1);
        }
    }
}

// ---------------------------------------------------------------------------------------------
// generators
// ---------------------------------------------------------------------------------------------

#[derive(Clone, Copy, PartialEq, Debug)]
enum Mag { Tiny, Small, Medium, Near53, Big(usize) }

fn mag_name(m: Mag) -> String { match m { Mag::Big(d) => format!("Big{}", d), _ => format!("{:?}", m) } }

fn rand_big(r: &mut Rng, digits: usize) -> ZZ {
    let mut s = String::new();
    s.push(char::from(b'1' + r.below(9) as u8));
    for _ in 1..digits { s.push(char::from(b'0' + r.below(10) as u8)); }
    let v: ZZ = s.parse().unwrap();
    if r.bool() { -v } else { v }
}

fn rand_int(r: &mut Rng, mag: Mag) -> ZZ {
    match mag {
        Mag::Tiny => zi(r.range(-3, 3)),
        Mag::Small => zi(r.range(-20, 20)),
        Mag::Medium => zi(r.range(-(1 << 20), 1 << 20)),
        Mag::Near53 => { let b = 1i64 << 53; let v = b + r.range(-4, 4); let v = if r.chance(1, 3) { v * 3 } else { v }; zi(if r.bool() { -v } else { v }) }
        Mag::Big(d) => { let d = if r.chance(1, 5) { 1 + r.below(d as u64) as usize } else { d }; rand_big(r, d) }
    }
}
fn rand_elem(r: &mut Rng, mag: Mag, k: Kind, zero_pm: u64) -> Zq {
    if r.chance(zero_pm, 1000) { return Zq::zero() }
    match k {
        Kind::Z => Zq(rand_int(r, mag), zi(0)),
        _ => { let a = rand_int(r, mag); let b = if r.chance(1, 6) { zi(0) } else { rand_int(r, mag) }; if r.chance(1, 10) { Zq(zi(0), b) } else { Zq(a, b) } }
    }
}
fn rand_mat(r: &mut Rng, m: usize, n: usize, mag: Mag, k: Kind, zero_pm: u64) -> IM {
    (0..m).map(|_| (0..n).map(|_| rand_elem(r, mag, k, zero_pm)).collect()).collect()
}
fn units(k: Kind) -> Vec<Zq> {
    match k {
        Kind::Z => vec![Zq(zi(1), zi(0)), Zq(zi(-1), zi(0))],
        Kind::G => vec![Zq(zi(1), zi(0)), Zq(zi(0), zi(1)), Zq(zi(-1), zi(0)), Zq(zi(0), zi(-1))],
        Kind::E => vec![Zq(zi(1), zi(0)), Zq(zi(0), zi(1)), Zq(zi(-1), zi(1)), Zq(zi(-1), zi(0)), Zq(zi(0), zi(-1)), Zq(zi(1), zi(-1))],
    }
}
/// scramble the rows by random elementary operations (keeps the lattice)
fn scramble(r: &mut Rng, a: &mut IM, k: Kind, steps: usize, mag: Mag) {
    let m = a.len();
    if m < 2 { return }
    for _ in 0..steps {
        let i = r.below(m as u64) as usize;
        let mut j = r.below(m as u64) as usize;
        if i == j { j = (j + 1) % m; }
        match r.below(4) {
            0 => a.swap(i, j),
            1 => { let u = r.pick(&units(k)).clone(); for e in a[i].iter_mut() { *e = e.mul(&u, k); } }
            _ => { let f = rand_elem(r, mag, k, 0); let src = a[j].clone(); for (e, x) in a[i].iter_mut().zip(&src) { *e = e.add(&x.mul(&f, k)); } }
        }
    }
}

/// structured input for the Hermite routine: any rank, any shape
fn gen_hnf_input(r: &mut Rng, m: usize, n: usize, mag: Mag, k: Kind) -> (IM, &'static str) {
    match r.below(12) {
        0 => (rand_mat(r, m, n, mag, k, 0), "dense"),
        1 => (rand_mat(r, m, n, mag, k, 500), "sparse"),
        2 | 3 => { // low rank: (m×rk)·(rk×n)
            let rk = r.below(m.min(n) as u64 + 1) as usize;
            let small = if mag == Mag::Tiny { Mag::Tiny } else { Mag::Small };
            let x = rand_mat(r, m, rk, small, k, 100);
            let y = rand_mat(r, rk, n, mag, k, 100);
            let a = if rk == 0 { vec![vec![Zq::zero(); n]; m] } else { mat_mul(&x, &y, n, k) };
            (a, "low-rank")
        }
        4 => { // echelon matrix scrambled by unimodular row operations
            let mut a = vec![vec![Zq::zero(); n]; m];
            let mut c = 0usize;
            for i in 0..m {
                c += r.below(2) as usize;
                if c >= n || r.chance(1, 6) { break }
                for j in c..n { a[i][j] = rand_elem(r, mag, k, 200); }
                if a[i][c].is_zero() { a[i][c] = Zq::one(); }
                c += 1;
            }
            let small = if mag == Mag::Tiny { Mag::Tiny } else { Mag::Small };
            scramble(r, &mut a, k, 2 * m + 2, small);
            (a, "scrambled-echelon")
        }
        5 => { // duplicate / proportional rows
            let mut a = rand_mat(r, m, n, mag, k, 100);
            if m >= 2 { let i = r.below(m as u64) as usize; let j = (i + 1 + r.below(m as u64 - 1) as usize) % m; let f = rand_elem(r, Mag::Tiny, k, 0); a[j] = a[i].iter().map(|e| e.mul(&f, k)).collect(); }
            (a, "proportional-rows")
        }
        6 => { // signed / unit-multiplied permutation-like
            let mut a = vec![vec![Zq::zero(); n]; m];
            let mut cols: Vec<usize> = (0..n).collect(); r.shuffle(&mut cols);
            for i in 0..m.min(n) { a[i][cols[i]] = r.pick(&units(k)).clone(); if r.chance(1, 3) { a[i][cols[i]] = a[i][cols[i]].mul(&rand_elem(r, mag, k, 0), k); } }
            (a, "unit-permutation")
        }
        7 => { // [I | column] (extended gcd) when it fits
            let mut a = vec![vec![Zq::zero(); n]; m];
            for i in 0..m { if i + 1 < n { a[i][i] = Zq::one(); } a[i][n - 1] = rand_elem(r, mag, k, 0); }
            (a, "identity-plus-column")
        }
        8 => (vec![vec![Zq::zero(); n]; m], "zero"),
        9 => { // single column / gcd-like: all rows multiples of one vector
            let v: Vec<Zq> = (0..n).map(|_| rand_elem(r, mag, k, 200)).collect();
            let a = (0..m).map(|_| { let f = rand_elem(r, Mag::Small, k, 100); v.iter().map(|e| e.mul(&f, k)).collect() }).collect();
            (a, "rank-one")
        }
        10 => { // negative / non-normalised leading entries, already echelon
            let mut a = vec![vec![Zq::zero(); n]; m];
            for i in 0..m.min(n) { for j in i..n { a[i][j] = rand_elem(r, mag, k, 300); } let u = r.pick(&units(k)).clone(); a[i][i] = rand_elem(r, mag, k, 0).mul(&u, k); }
            (a, "echelon-with-unit-multiples")
        }
        _ => { // mixed magnitudes
            let mut a = rand_mat(r, m, n, Mag::Tiny, k, 200);
            for _ in 0..1 + r.below(3) { let i = r.below(m as u64) as usize; let j = r.below(n as u64) as usize; a[i][j] = rand_elem(r, mag, k, 0); }
            (a, "mixed-magnitude")
        }
    }
}

/// full row rank input for LLL (m <= n)
fn gen_lll_input(r: &mut Rng, m: usize, n: usize, mag: Mag, k: Kind) -> Option<(IM, &'static str)> {
    let (a, what): (IM, &'static str) = match r.below(8) {
        0 | 1 => (rand_mat(r, m, n, mag, k, 0), "dense"),
        2 => (rand_mat(r, m, n, mag, k, 400), "sparse"),
        3 => { // knapsack / extended-gcd lattice [I | c]
            if n < m + 1 { return None }
            let mut a = vec![vec![Zq::zero(); n]; m];
            for i in 0..m { a[i][i] = Zq::one(); for j in m..n { a[i][j] = rand_elem(r, mag, k, 0); } }
            (a, "identity-plus-columns")
        }
        4 => { // a short basis scrambled by unimodular operations
            let mut a = rand_mat(r, m, n, Mag::Tiny, k, 300);
            let small = if mag == Mag::Tiny { Mag::Tiny } else { Mag::Small };
            scramble(r, &mut a, k, 3 * m, small);
            (a, "scrambled-short-basis")
        }
        5 => { // nearly dependent rows
            let mut a = rand_mat(r, m, n, mag, k, 0);
            if m >= 2 { let src = a[0].clone(); let i = 1 + r.below(m as u64 - 1) as usize; a[i] = src; let j = r.below(n as u64) as usize; a[i][j] = a[i][j].add(&Zq::one()); }
            (a, "nearly-dependent")
        }
        6 => { // already reduced: unit-multiplied identity rows, scaled
            let mut a = vec![vec![Zq::zero(); n]; m];
            let f = rand_elem(r, mag, k, 0);
            for i in 0..m { a[i][i] = r.pick(&units(k)).mul(&f, k); }
            if r.bool() { a.reverse(); }
            (a, "scaled-unit-diagonal")
        }
        _ => { // strongly graded rows (many swaps)
            let mut a = rand_mat(r, m, n, Mag::Tiny, k, 100);
            for i in 0..m { let f = Zq(zi(1i64 << (2 * (m - i)).min(40)), zi(0)); for e in a[i].iter_mut() { *e = e.mul(&f, k); } }
            (a, "graded")
        }
    };
    if gs_integral(&a, k).is_some() { Some((a, what)) } else { None }
}

fn max_bits(a: &IM) -> u64 { a.iter().flatten().map(|e| e.0.bits().max(e.1.bits())).max().unwrap_or(0) }

/// the scalar types a matrix is run over
fn types_for(k: Kind, a: &IM, m: usize) -> Vec<Ty> {
    let bits = max_bits(a);
    let mut v = vec![];
    match k {
        Kind::Z => {
            // fixed-width runs only where the Gram data have a chance to fit (an overflow panic is out of scope anyway)
            if bits * 2 * (m as u64 + 1) <= 70 { v.push(Ty::I64); }
            if bits * 2 * (m as u64 + 1) <= 150 { v.push(Ty::I128); }
            v.push(Ty::Big);
        }
        Kind::G => { if bits * 2 * (m as u64 + 1) <= 70 { v.push(Ty::GI64); } v.push(Ty::GBig); }
        Kind::E => { if bits * 2 * (m as u64 + 1) <= 70 { v.push(Ty::EI64); } v.push(Ty::EBig); }
    }
    v
}

fn z(rows: &[&[i64]]) -> IM { rows.iter().map(|r| r.iter().map(|&x| Zq(zi(x), zi(0))).collect()).collect() }
fn q2(rows: &[&[(i64, i64)]]) -> IM { rows.iter().map(|r| r.iter().map(|&(a, b)| Zq(zi(a), zi(b))).collect()).collect() }

fn main() {
    let args = Args::parse();
    quiet_panics();
    let mut s = Sink::new(&args, "cases: one call of lll_hnf (any rank/shape) or lll (independent rows) per (matrix, scalar type, flag \
        combination) over i64/i128/BigInt/GaussInt/EisenInt, entries from {-3..3} up to 300 digits, structured generators (dense, sparse, \
        low-rank, scrambled echelon, proportional rows, unit permutations, [I|c], zero, graded …) plus Lean checker/model request lines \
        for the Z-type rings incl. corrupted outputs; non-trivial = at least 2 rows; distinct = distinct call descriptions / request lines");
    let mut r = Rng::new(args.seed);
    let thorough = args.thorough();
    let mut cx = Ctx { secs: if thorough { 60 } else { 30 }, timeouts: 0, mutate_every: 2, tick: 0 };

    // ---- corpus -------------------------------------------------------------------------------
    let corpus_hnf: Vec<(Kind, IM)> = vec![
        (Kind::Z, z(&[&[8, 44, 43], &[4, 10, 43], &[56, -550, -328], &[76, 10, 42]])),
        (Kind::Z, z(&[&[0, 1], &[-1, 0]])),
        (Kind::Z, z(&[&[-3]])),
        (Kind::Z, z(&[&[0, -2, 5]])),
        (Kind::Z, z(&[&[0, 0], &[0, 0]])),
        (Kind::Z, z(&[&[2, 4], &[1, 2], &[3, 6]])),
        (Kind::Z, z(&[&[1, 0, 0, 40], &[0, 1, 0, 60], &[0, 0, 1, 90]])),
        (Kind::Z, z(&[&[6], &[10], &[15]])),
        (Kind::Z, z(&[&[9007199254740993, 3], &[3, 9007199254740995]])),
        (Kind::G, q2(&[&[(-2, 3), (7, 3), (7, 3)], &[(3, 3), (-2, 4), (6, 2)], &[(2, 2), (-8, 0), (-9, 1)]])),
        (Kind::E, q2(&[&[(-2, 3), (7, 3), (7, 3)], &[(3, 3), (-2, 4), (6, 2)], &[(2, 2), (-8, 0), (-9, 1)]])),
        (Kind::G, q2(&[&[(0, -1)]])),
        (Kind::E, q2(&[&[(0, 0), (-1, 1)], &[(0, 1), (2, 0)]])),
        (Kind::G, q2(&[&[(1, 1), (2, 0)], &[(2, 0), (2, -2)]])),
        // regression witnesses of the un-normalised first pivot (fixed in /repo 35212c3)
        (Kind::G, q2(&[&[(0, 0), (1, 0)], &[(0, 1), (0, 0)]])),
        (Kind::G, q2(&[&[(-2, -5)]])),
        (Kind::E, q2(&[&[(0, 0), (1, 0)], &[(0, 1), (0, 0)]])),
        (Kind::E, q2(&[&[(-1, 1), (4, 0)]])),
        (Kind::Z, z(&[&[0, 0, 1], &[0, -1, 0], &[-1, 0, 0]])),
    ];
    for (k, a) in &corpus_hnf {
        let (m, n) = shape(a, 0);
        for ty in types_for(*k, a, m) { guarded_case(&mut s, "corpus hnf", |s| hnf_case(s, &mut cx, &mut r, ty, a, m, n)); }
    }
    let corpus_lll: Vec<(Kind, IM)> = vec![
        (Kind::Z, z(&[&[1, -1, 3], &[1, 0, 5], &[1, 2, 6]])),
        (Kind::Z, z(&[&[1, 0, 0, 40], &[0, 1, 0, 60], &[0, 0, 1, 90]])),
        (Kind::Z, z(&[&[5]])),
        (Kind::Z, z(&[&[-7, 0]])),
        (Kind::Z, z(&[&[1, 0], &[0, 1]])),
        (Kind::Z, z(&[&[2, 0], &[1, 1]])),
        (Kind::Z, z(&[&[1, 0, 9007199254740993], &[0, 1, 27021597764222979]])),
        (Kind::G, q2(&[&[(-2, 3), (7, 3), (7, 3)], &[(3, 3), (-2, 4), (6, 2)], &[(2, 2), (-8, 0), (-9, 1)]])),
        (Kind::E, q2(&[&[(-2, 3), (7, 3), (7, 3)], &[(3, 3), (-2, 4), (6, 2)], &[(2, 2), (-8, 0), (-9, 1)]])),
        (Kind::G, q2(&[&[(1, 0), (0, 0), (12, 7)], &[(0, 0), (1, 0), (5, -9)]])),
    ];
    for (k, a) in &corpus_lll {
        let (m, n) = shape(a, 0);
        if rank(a, n, *k) != m { continue }
        for ty in types_for(*k, a, m) { guarded_case(&mut s, "corpus lll", |s| lll_case(s, &mut cx, &mut r, ty, a, m, n)); }
    }

    // ---- random stream ------------------------------------------------------------------------
    let max_dim: usize = if thorough { 12 } else { 7 };
    let (n_hnf, n_lll) = if thorough { (6000, 5000) } else { (420, 360) };
    let mags = [Mag::Tiny, Mag::Tiny, Mag::Small, Mag::Small, Mag::Medium, Mag::Near53, Mag::Big(0)];
    for it in 0..n_hnf + n_lll {
        if cx.timeouts >= 3 { break }
        let is_hnf = it < n_hnf;
        let k = *r.pick(&[Kind::Z, Kind::Z, Kind::Z, Kind::G, Kind::G, Kind::E, Kind::E]);
        let mut mag = *r.pick(&mags);
        if let Mag::Big(_) = mag { mag = Mag::Big(*r.pick(&[20usize, 25, 40, 80, 150, 300])); }
        // small shapes are exhausted often, large ones sampled
        let dim = |r: &mut Rng| -> usize { if r.chance(3, 4) { 1 + r.below(max_dim.min(7) as u64) as usize } else { 1 + r.below(max_dim as u64) as usize } };
        let (mut m, mut n) = (dim(&mut r), dim(&mut r));
        if let Mag::Big(d) = mag {
            // the real code needs ~15 s for a 7×5 Eisenstein matrix of 300-digit entries: keep single calls well below 1 s
            let cap = match d { 0..=25 => 7, 26..=80 => 6, 81..=150 => 5, _ => 4 } + if thorough { 1 } else { 0 };
            m = m.min(cap); n = n.min(cap);
        }
        if is_hnf {
            let (a, what) = gen_hnf_input(&mut r, m, n, mag, k);
            s.count(&format!("gen.hnf.{}", what));
            s.count(&format!("gen.mag.{}", mag_name(mag)));
            s.count(&format!("gen.rank.{}", rank(&a, n, k)));
            for ty in types_for(k, &a, m) { guarded_case(&mut s, "hnf", |s| hnf_case(s, &mut cx, &mut r, ty, &a, m, n)); }
        } else {
            if m > n { std::mem::swap(&mut m, &mut n); }
            let Some((a, what)) = gen_lll_input(&mut r, m, n, mag, k) else { s.count("gen.lll.rejected-dependent"); continue };
            s.count(&format!("gen.lll.{}", what));
            s.count(&format!("gen.mag.{}", mag_name(mag)));
            for ty in types_for(k, &a, m) { guarded_case(&mut s, "lll", |s| lll_case(s, &mut cx, &mut r, ty, &a, m, n)); }
        }
    }

    // ---- exhaustive small space (thorough): all 2×2 / 2×3 / 3×2 matrices with entries in -2..2 over Z ---------
    if thorough && cx.timeouts < 3 {
        for (m, n) in [(1usize, 2usize), (2, 1), (2, 2)] {
            let cnt = m * n;
            let total = 5u64.pow(cnt as u32);
            for code in 0..total {
                let mut c = code;
                let mut a = vec![vec![Zq::zero(); n]; m];
                for i in 0..m { for j in 0..n { a[i][j] = Zq(zi((c % 5) as i64 - 2), zi(0)); c /= 5; } }
                guarded_case(&mut s, "exhaustive hnf", |s| hnf_case(s, &mut cx, &mut r, Ty::Big, &a, m, n));
                if m <= n && rank(&a, n, Kind::Z) == m { guarded_case(&mut s, "exhaustive lll", |s| lll_case(s, &mut cx, &mut r, Ty::I64, &a, m, n)); }
                s.count("exhaustive.small");
            }
        }
        // Gaussian / Eisenstein 1×2, 2×1 with coordinates in -1..1
        for k in [Kind::G, Kind::E] {
            for (m, n) in [(1usize, 2usize), (2, 1)] {
                for code in 0..81u64 {
                    let mut c = code;
                    let mut v = vec![];
                    for _ in 0..2 { let a = (c % 3) as i64 - 1; c /= 3; let b = (c % 3) as i64 - 1; c /= 3; v.push(Zq(zi(a), zi(b))); }
                    let a: IM = if m == 1 { vec![v] } else { v.into_iter().map(|e| vec![e]).collect() };
                    let ty = if k == Kind::G { Ty::GI64 } else { Ty::EI64 };
                    guarded_case(&mut s, "exhaustive hnf", |s| hnf_case(s, &mut cx, &mut r, ty, &a, m, n));
                    s.count("exhaustive.small");
                }
            }
        }
    }
    if cx.timeouts >= 3 { s.count("aborted-after-3-timeouts"); }
    if std::env::var("C10_PROF").is_ok() { for (n, t) in PROF.lock().unwrap().iter() { eprintln!("{:28} {:>10.3} s", n, *t as f64 / 1e6); } }
    s.finish();
    // leaked timeout threads must not keep the process alive
    std::process::exit(0);
}
