//! C08 — chain reduction (`ChainReducer`, `ChainComplexBase::reduced`) is a homotopy equivalence with correct
//! transfer maps.
//!
//! For every generated complex `C_0 <- C_1 <- … <- C_k` (d_deg = -1) and every configuration (pivot type,
//! pivot condition, shallow/deep, scripted `reduce_at_spec` sequences, tracked vectors, thread pool) the REAL
//! reducer is run and its exported state (`matrix(i)`, `trans(i).forward_mat()/backward_mat()`, `vecs(i)`) is
//!   (a) checked here with naive dense arithmetic:  d'd' = 0,  F d = d' F,  d B = B d',  F B = 1,  v' = F v,
//!       H(reduced) = H(original) (library homology, PID rings only);
//!   (b) sent to the Lean driver: verified checker `C08.check` + independent Lean homology of both complexes
//!       (`red` / `redn` lines; the expected verdict of a genuine line is always `ok`; deliberately corrupted copies
//!       of the data are sent as a self-test of the checker, with the naive oracle's verdict as expected reply).
//! Variations: `d_deg = -1` and the cohomological re-indexing `d_deg = +1`; transfer maps in all / no / some degrees;
//! `reduced()` and `reduced().reduced()`; Khovanov cube complexes of small links; exhaustive small spaces over Z.
//! `schur` lines compare `Schur::from_partial_triangular` exactly with its Lean code model (unique outputs).
use std::sync::Arc;

use yui::poly::{Mono, Poly};
use yui::{Ratio, Ring, RingOps, FF, FF2};
use yui_homology::utils::ChainReducer;
use yui_homology::{ChainComplexTrait, GenericChainComplex, GridTrait, SummandTrait};
use yui_matrix::sparse::pivot::{PivotCondition, PivotType};
use yui_matrix::sparse::schur::Schur;
use yui_matrix::sparse::triang::TriangularType;
use yui_matrix::sparse::{MatTrait, SpMat, SpVec};
use yv::*;
use yv::rings::Txt;

// ---------------------------------------------------------------------------------------------------------
// scalars
// ---------------------------------------------------------------------------------------------------------

type ZH = Poly<'H', i64>;

trait Sc: Ring + Send + Sync + 'static
where for<'x> &'x Self: RingOps<Self> {
    const TAG: &'static str;
    const PID: bool;
    fn t(&self) -> String;
    fn from_i(x: i64) -> Self;
    /// "diagonal" entries of the planted complexes: units, non-units, zero
    fn lambda(r: &mut Rng) -> Self;
    /// multipliers of the elementary operations used for conjugation
    fn mult(r: &mut Rng) -> Self { Self::from_i(r.range(-2, 2)) }
    /// canonical text for exact comparison with the Lean model (normal form of the value, not of the representation)
    fn canon(&self) -> String { self.t() }
    /// a random unit
    fn unit(r: &mut Rng) -> Self { if r.bool() { Self::one() } else { -Self::one() } }
    /// a random non-zero non-unit (if the ring has one)
    fn nonunit(_r: &mut Rng) -> Option<Self> { None }
    /// homology by the library (rank + torsion per degree) — only over PIDs
    fn lib_homology(_c: &Cx<Self>) -> Option<String> { None }
}

fn hom_string<R>(c: &Cx<R>, field: bool) -> Option<String>
where R: Sc + yui::EucRing + Txt, for<'x> &'x R: yui::EucRingOps<R> {
    let g = c.to_lib();
    let h = g.homology();
    let mut parts = vec![];
    for i in 0..=c.k {
        let s = &h[i as isize];
        let mut tors: Vec<String> = s.tors().iter().map(|t| t.normalized().txt()).collect();
        if field || tors.is_empty() {
            if !tors.is_empty() { return Some(format!("torsion-over-field@{}", i)); }
            parts.push(format!("{}", s.rank()));
        } else {
            // integers: ascending (they form a divisibility chain)
            let mut v: Vec<i128> = tors.iter().map(|t| t.parse::<i128>().unwrap().abs()).collect();
            v.sort();
            tors = v.iter().map(|t| t.to_string()).collect();
            parts.push(format!("{}:{}", s.rank(), tors.join(":")));
        }
    }
    Some(parts.join(","))
}

impl Sc for i64 {
    const TAG: &'static str = "Z";
    const PID: bool = true;
    fn t(&self) -> String { self.to_string() }
    fn from_i(x: i64) -> Self { x }
    fn lambda(r: &mut Rng) -> Self { *r.pick(&[1, 1, 1, -1, -1, 2, 3, -2, 4, 6, 0]) }
    fn nonunit(r: &mut Rng) -> Option<Self> { Some(*r.pick(&[2, -2, 3, 5])) }
    fn lib_homology(c: &Cx<Self>) -> Option<String> { hom_string(c, false) }
}
impl Sc for Ratio<i64> {
    const TAG: &'static str = "Q";
    const PID: bool = true;
    fn t(&self) -> String { self.txt() }
    fn from_i(x: i64) -> Self { Ratio::from(x) }
    fn lambda(r: &mut Rng) -> Self {
        match r.below(6) { 0 => Ratio::from(0), 1 => Ratio::from(1), 2 => Ratio::from(-1), 3 => Ratio::new(1, 2), 4 => Ratio::new(-3, 2), _ => Ratio::from(2) }
    }
    fn mult(r: &mut Rng) -> Self { if r.chance(1, 4) { Ratio::new(r.range(-3, 3), *r.pick(&[2, 3])) } else { Ratio::from(r.range(-2, 2)) } }
    fn canon(&self) -> String {
        let (n, d) = (*self.numer() as i128, *self.denom() as i128);
        fn gcd(a: i128, b: i128) -> i128 { if b == 0 { a.abs() } else { gcd(b, a % b) } }
        let g = gcd(n, d).max(1);
        let sg = if d < 0 { -1 } else { 1 };
        format!("{}/{}", sg * n / g, sg * d / g)
    }
    fn unit(r: &mut Rng) -> Self { match r.below(4) { 0 => Ratio::from(1), 1 => Ratio::from(-1), 2 => Ratio::new(1, 2), _ => Ratio::from(-3) } }
    fn lib_homology(c: &Cx<Self>) -> Option<String> { hom_string(c, true) }
}
impl Sc for FF2 {
    const TAG: &'static str = "F2";
    const PID: bool = true;
    fn t(&self) -> String { self.txt() }
    fn from_i(x: i64) -> Self { FF2::from(x.rem_euclid(2) as i32) }
    fn lambda(r: &mut Rng) -> Self { Self::from_i(if r.chance(1, 5) { 0 } else { 1 }) }
    fn unit(_r: &mut Rng) -> Self { Self::one() }
    fn lib_homology(c: &Cx<Self>) -> Option<String> { hom_string(c, true) }
}
impl Sc for FF<3> {
    const TAG: &'static str = "F3";
    const PID: bool = true;
    fn t(&self) -> String { self.txt() }
    fn from_i(x: i64) -> Self { FF::<3>::new(x.rem_euclid(3) as i32) }
    fn lambda(r: &mut Rng) -> Self { Self::from_i(*r.pick(&[1, 1, 2, 2, 0])) }
    fn canon(&self) -> String { (*self.rep() as i64).rem_euclid(3).to_string() }
    fn unit(r: &mut Rng) -> Self { Self::from_i(1 + r.below(2) as i64) }
    fn lib_homology(c: &Cx<Self>) -> Option<String> { hom_string(c, true) }
}
impl Sc for ZH {
    const TAG: &'static str = "ZH";
    const PID: bool = false;
    fn t(&self) -> String {
        if self.is_zero() { return "0".into(); }
        let deg = self.iter().map(|(x, _)| x.deg()).max().unwrap_or(0);
        let mut cs = vec![0i64; deg + 1];
        for (x, a) in self.iter() { cs[x.deg()] = *a; }
        cs.iter().map(|c| c.to_string()).collect::<Vec<_>>().join(",")
    }
    fn from_i(x: i64) -> Self { ZH::from_const(x) }
    fn nonunit(r: &mut Rng) -> Option<Self> { Some(match r.below(3) { 0 => ZH::variable(), 1 => ZH::from_const(2), _ => ZH::variable() + ZH::from_const(1) }) }
    fn lambda(r: &mut Rng) -> Self {
        let h = || ZH::variable();
        match r.below(10) {
            0 | 1 | 2 | 3 => ZH::from_const(1),
            4 | 5 => ZH::from_const(-1),
            6 => h(),
            7 => h() + ZH::from_const(1),
            8 => ZH::from_const(2),
            _ => ZH::from_const(0),
        }
    }
    fn mult(r: &mut Rng) -> Self {
        match r.below(5) { 0 => ZH::variable(), 1 => -ZH::variable(), _ => ZH::from_const(r.range(-2, 2)) }
    }
}
use num_traits::{One, Zero};

// ---------------------------------------------------------------------------------------------------------
// dense matrices (naive arithmetic of the oracle)
// ---------------------------------------------------------------------------------------------------------

#[derive(Clone, PartialEq, Debug)]
struct D<R> { r: usize, c: usize, a: Vec<R> }

impl<R> D<R>
where R: Sc, for<'x> &'x R: RingOps<R> {
    fn zero(r: usize, c: usize) -> Self { D { r, c, a: vec![R::zero(); r * c] } }
    fn id(n: usize) -> Self { let mut m = Self::zero(n, n); for i in 0..n { m.a[i * n + i] = R::one(); } m }
    fn at(&self, i: usize, j: usize) -> &R { &self.a[i * self.c + j] }
    fn set(&mut self, i: usize, j: usize, x: R) { let c = self.c; self.a[i * c + j] = x; }
    fn mul(&self, o: &D<R>) -> D<R> {
        assert_eq!(self.c, o.r, "shape mismatch in oracle product");
        let mut m = D::zero(self.r, o.c);
        for i in 0..self.r { for k in 0..self.c {
            let x = self.at(i, k);
            if x.is_zero() { continue; }
            for j in 0..o.c {
                let y = o.at(k, j);
                if y.is_zero() { continue; }
                let idx = i * o.c + j;
                m.a[idx] = &m.a[idx] + &(x * y);
            }
        } }
        m
    }
    fn is_zero(&self) -> bool { self.a.iter().all(|x| x.is_zero()) }
    fn is_id(&self) -> bool { self.r == self.c && *self == D::id(self.r) }
    fn from_sp(s: &SpMat<R>) -> Self {
        let (r, c) = s.shape();
        let mut m = D::zero(r, c);
        for (i, j, x) in s.iter() { m.set(i, j, x.clone()); }
        m
    }
    fn to_sp(&self) -> SpMat<R> { SpMat::from_dense_data((self.r, self.c), self.a.iter().cloned()) }
    fn push_txt(&self, out: &mut String) { for x in &self.a { out.push(' '); out.push_str(&x.t()); } }
    fn col(&self, j: usize) -> Vec<R> { (0..self.r).map(|i| self.at(i, j).clone()).collect() }
    fn from_cols(r: usize, cols: &[Vec<R>]) -> Self {
        let mut m = D::zero(r, cols.len());
        for (j, v) in cols.iter().enumerate() { assert_eq!(v.len(), r); for i in 0..r { m.set(i, j, v[i].clone()); } }
        m
    }
    fn has_unit(&self) -> bool { self.a.iter().any(|x| x.is_unit()) }
}

/// `C_0 <- C_1 <- … <- C_k`; `d[i] : n[i-1] × n[i]` for `i = 1..k`; `d[0]` is the `0 × n[0]` matrix
#[derive(Clone)]
struct Cx<R> { k: usize, n: Vec<usize>, d: Vec<D<R>> }

impl<R> Cx<R>
where R: Sc, for<'x> &'x R: RingOps<R> {
    fn to_lib(&self) -> GenericChainComplex<R> {
        let d: Vec<SpMat<R>> = self.d.iter().map(|m| m.to_sp()).collect();
        GenericChainComplex::generate(0..=(self.k as isize), -1, move |i| d[i as usize].clone())
    }
    /// the same complex with cohomological indexing: library degree `p` = our degree `k - p`, `d_deg = +1`
    fn to_lib_coh(&self) -> GenericChainComplex<R> {
        let k = self.k;
        let d: Vec<SpMat<R>> = self.d.iter().map(|m| m.to_sp()).collect();
        GenericChainComplex::generate(0..=(k as isize), 1, move |p| d[k - p as usize].clone())
    }
    fn from_lib(c: &GenericChainComplex<R>) -> Option<Self> {
        let sup: Vec<isize> = c.support().collect();
        if sup.is_empty() || sup[0] != 0 || c.d_deg() != -1 { return None; }
        let k = sup.len() - 1;
        let d: Vec<D<R>> = (0..=k).map(|i| D::from_sp(&c.d_matrix(i as isize))).collect();
        let n = d.iter().map(|m| m.c).collect();
        Some(Cx { k, n, d })
    }
    fn is_complex(&self) -> bool { (1..self.k).all(|i| self.d[i].mul(&self.d[i + 1]).is_zero()) }
    fn dims_txt(&self) -> String { self.n.iter().map(|x| x.to_string()).collect::<Vec<_>>().join(" ") }
    fn has_unit(&self) -> bool { self.d.iter().any(|m| m.has_unit()) }
    fn summary(&self) -> String { format!("{} k={} n=[{}]", R::TAG, self.k, self.dims_txt()) }
    fn full_txt(&self) -> String {
        let mut s = format!("{} {} {}", R::TAG, self.k, self.dims_txt());
        for i in 1..=self.k { self.d[i].push_txt(&mut s); }
        s
    }
}

// ---------------------------------------------------------------------------------------------------------
// generators
// ---------------------------------------------------------------------------------------------------------

/// random invertible matrix with its inverse (product of elementary operations)
fn rand_inv<R>(r: &mut Rng, n: usize, ops: usize) -> (D<R>, D<R>)
where R: Sc, for<'x> &'x R: RingOps<R> {
    let mut p = D::<R>::id(n);
    let mut q = D::<R>::id(n);
    if n < 2 {
        if n == 1 && r.bool() { p.set(0, 0, -R::one()); q.set(0, 0, -R::one()); }
        return (p, q);
    }
    for _ in 0..ops {
        let i = r.below(n as u64) as usize;
        let mut j = r.below(n as u64 - 1) as usize;
        if j >= i { j += 1; }
        match r.below(4) {
            0 => { // swap rows i,j of p ; swap columns i,j of q
                for c in 0..n { let (x, y) = (p.at(i, c).clone(), p.at(j, c).clone()); p.set(i, c, y); p.set(j, c, x); }
                for c in 0..n { let (x, y) = (q.at(c, i).clone(), q.at(c, j).clone()); q.set(c, i, y); q.set(c, j, x); }
            }
            1 => { // negate row i ; negate column i
                for c in 0..n { let x = -p.at(i, c).clone(); p.set(i, c, x); }
                for c in 0..n { let x = -q.at(c, i).clone(); q.set(c, i, x); }
            }
            _ => { // row_i += m row_j  (E = 1 + m e_ij);  q <- q E^-1 : col_j -= m col_i
                let m = R::mult(r);
                for c in 0..n { let x = p.at(i, c) + &(&m * p.at(j, c)); p.set(i, c, x); }
                for c in 0..n { let x = q.at(c, j) - &(q.at(c, i) * &m); q.set(c, j, x); }
            }
        }
    }
    (p, q)
}

/// conjugate of a direct sum of elementary complexes `R --λ--> R` and free summands
fn gen_planted<R>(r: &mut Rng, k: usize, maxpairs: usize, maxfree: usize, dense: bool) -> Cx<R>
where R: Sc, for<'x> &'x R: RingOps<R> {
    // a[i] = number of pairs C_i -> C_{i-1}  (a[0] = 0, a[k+1] = 0)
    let mut a = vec![0usize; k + 2];
    for i in 1..=k { a[i] = r.below(maxpairs as u64 + 1) as usize; }
    let h: Vec<usize> = (0..=k).map(|_| if r.chance(1, 3) { 0 } else { r.below(maxfree as u64 + 1) as usize }).collect();
    let n: Vec<usize> = (0..=k).map(|i| a[i] + a[i + 1] + h[i]).collect();
    let mut d = vec![D::<R>::zero(0, n[0])];
    for i in 1..=k {
        let mut m = D::<R>::zero(n[i - 1], n[i]);
        for j in 0..a[i] { m.set(a[i - 1] + j, j, R::lambda(r)); }
        d.push(m);
    }
    let conj: Vec<(D<R>, D<R>)> = (0..=k).map(|i| {
        let ops = if dense { 3 * n[i] } else { r.below(n[i] as u64 + 1) as usize };
        rand_inv::<R>(r, n[i], ops)
    }).collect();
    for i in 1..=k { d[i] = conj[i - 1].0.mul(&d[i]).mul(&conj[i].1); }
    Cx { k, n, d }
}

/// simplicial complex generated by random facets on `v` vertices, truncated/padded to length `k`
fn gen_simplicial<R>(r: &mut Rng, v: usize, k: usize, facets: usize) -> Cx<R>
where R: Sc, for<'x> &'x R: RingOps<R> {
    use std::collections::BTreeSet;
    let mut simp: Vec<BTreeSet<Vec<usize>>> = vec![BTreeSet::new(); k + 1];
    for _ in 0..facets {
        let size = 1 + r.below((k as u64 + 1).min(v as u64)) as usize;
        let mut vs: Vec<usize> = (0..v).collect();
        r.shuffle(&mut vs);
        let mut f: Vec<usize> = vs[..size].to_vec();
        f.sort();
        // all non-empty faces
        for mask in 1u32..(1 << size) {
            let g: Vec<usize> = (0..size).filter(|b| mask >> b & 1 == 1).map(|b| f[b]).collect();
            simp[g.len() - 1].insert(g);
        }
    }
    let lists: Vec<Vec<Vec<usize>>> = simp.into_iter().map(|s| s.into_iter().collect()).collect();
    let n: Vec<usize> = lists.iter().map(|l| l.len()).collect();
    let mut d = vec![D::<R>::zero(0, n[0])];
    for i in 1..=k {
        let mut m = D::<R>::zero(n[i - 1], n[i]);
        for (j, s) in lists[i].iter().enumerate() {
            for t in 0..s.len() {
                let mut f = s.clone();
                f.remove(t);
                let row = lists[i - 1].binary_search(&f).unwrap();
                m.set(row, j, if t % 2 == 0 { R::one() } else { -R::one() });
            }
        }
        d.push(m);
    }
    Cx { k, n, d }
}

fn builtin<R>(which: usize) -> (String, Option<Cx<R>>)
where R: Sc, for<'x> &'x R: RingOps<R> {
    type G<R> = GenericChainComplex<R>;
    let (name, c) = match which {
        0 => ("one", G::<R>::one()),
        1 => ("one_one(1)", G::<R>::one_one(R::one())),
        2 => ("one_one(2)", G::<R>::one_one(R::from_i(2))),
        3 => ("two_one(1,-1)", G::<R>::two_one(R::one(), -R::one())),
        4 => ("one_two(1,-1)", G::<R>::one_two(R::one(), -R::one())),
        5 => ("two_one(2,3)", G::<R>::two_one(R::from_i(2), R::from_i(3))),
        6 => ("d3", G::<R>::d3()),
        7 => ("s2", G::<R>::s2()),
        8 => ("rp2", G::<R>::rp2()),
        _ => ("t2", G::<R>::t2()),
    };
    (name.to_string(), Cx::from_lib(&c))
}

// ---------------------------------------------------------------------------------------------------------
// running the real reducer
// ---------------------------------------------------------------------------------------------------------

#[derive(Clone, Debug)]
enum Step { Spec(usize, PivotType, PivotCondition), At(usize, bool), All(bool) }

#[derive(Clone, Debug)]
enum Mode {
    /// `ChainReducer::reduce(&c, with_trans)`
    Reduce,
    /// `from` + tracked vectors + scripted steps
    Script(Vec<Step>),
    /// `ChainComplexBase::reduced()`
    ReducedApi,
    /// `reduced().reduced()` — the second call starts from summands that already carry transfer maps
    ReducedTwice,
}

#[derive(Clone)]
struct Run<R> {
    mode: Mode,
    with_trans: bool,
    /// `Some(mask)`: build the reducer with `new` + `set_matrix(i, d, mask[i])` (transfer maps only in some degrees;
    /// `mask[k+1]` = whether the extra boundary matrix (degree `-1` resp. `k+1`) is registered at all)
    mixed: Option<Vec<bool>>,
    /// run on the cohomological re-indexing of the same complex (`d_deg = +1`, library degree `p` = our `k - p`)
    coh: bool,
    threads: usize,
    vecs: Vec<Vec<Vec<R>>>,
    /// the tracked vectors of degree i-1 end with the images d_i v of the tracked vectors of degree i
    chained: bool,
}

struct Out<R> {
    m: Vec<usize>,
    d: Vec<D<R>>,                 // reduced differentials, d[0] = 0 × m[0]
    f: Vec<Option<D<R>>>,
    b: Vec<Option<D<R>>>,
    vecs: Vec<Vec<Vec<R>>>,
    /// `Trans::forward(v)` / `backward(w)` agree with `forward_mat() * v` / `backward_mat() * w` on probe vectors
    trans_apply: Option<String>,
}

fn pt_txt(t: PivotType) -> &'static str { match t { PivotType::Rows => "R", PivotType::Cols => "C" } }
fn pc_txt(c: PivotCondition) -> String { match c { PivotCondition::One => "one".into(), PivotCondition::AnyUnit => "unit".into(), PivotCondition::Weight(w) => format!("w{}", w) } }

impl<R: Clone> Run<R> {
    fn plain(mode: Mode, with_trans: bool, threads: usize, k: usize) -> Self {
        Run { mode, with_trans, mixed: None, coh: false, threads, vecs: vec![vec![]; k + 1], chained: false }
    }
    fn txt(&self) -> String {
        let m = match &self.mode {
            Mode::Reduce => "reduce".to_string(),
            Mode::ReducedApi => "reduced()".to_string(),
            Mode::ReducedTwice => "reduced().reduced()".to_string(),
            Mode::Script(s) => s.iter().map(|st| match st {
                Step::Spec(i, t, c) => format!("spec({},{},{})", i, pt_txt(*t), pc_txt(*c)),
                Step::At(i, deep) => format!("at({},{})", i, if *deep { "deep" } else { "shallow" }),
                Step::All(deep) => format!("all({})", if *deep { "deep" } else { "shallow" }),
            }).collect::<Vec<_>>().join(";"),
        };
        format!("{} trans={} mixed={:?} d_deg={} threads={} vecs=[{}]", m, self.with_trans, self.mixed, if self.coh { "+1" } else { "-1" }, self.threads,
            self.vecs.iter().map(|v| v.len().to_string()).collect::<Vec<_>>().join(","))
    }
}

fn probe<R>(n: usize, salt: usize) -> Vec<R>
where R: Sc, for<'x> &'x R: RingOps<R> {
    (0..n).map(|j| R::from_i(((j * 7 + salt * 3 + 1) % 5) as i64 - 2)).collect()
}

fn spvec<R>(v: &[R]) -> SpVec<R>
where R: Sc, for<'x> &'x R: RingOps<R> {
    SpVec::from_entries(v.len(), v.iter().cloned().enumerate().filter(|(_, x)| !x.is_zero()))
}

fn execute<R>(c: &Cx<R>, run: &Run<R>) -> Out<R>
where R: Sc, for<'x> &'x R: RingOps<R> {
    let k = c.k;
    // library degree of our degree j
    let li = |j: usize| -> isize { if run.coh { (k - j) as isize } else { j as isize } };
    let d_deg: isize = if run.coh { 1 } else { -1 };
    let lib = if run.coh { c.to_lib_coh() } else { c.to_lib() };
    if matches!(run.mode, Mode::ReducedApi | Mode::ReducedTwice) {
        let red = if matches!(run.mode, Mode::ReducedTwice) { lib.reduced().reduced() } else { lib.reduced() };
        let d: Vec<D<R>> = (0..=k).map(|i| D::from_sp(&red.d_matrix(li(i)))).collect();
        let m: Vec<usize> = (0..=k).map(|i| red[li(i)].rank()).collect();
        let f = (0..=k).map(|i| Some(D::from_sp(&red[li(i)].trans().forward_mat()))).collect();
        let b = (0..=k).map(|i| Some(D::from_sp(&red[li(i)].trans().backward_mat()))).collect();
        return Out { m, d, f, b, vecs: vec![vec![]; k + 1], trans_apply: None };
    }
    let script = |red: &mut ChainReducer<isize, R>, steps: &Vec<Step>| {
        for (i, vs) in run.vecs.iter().enumerate() {
            for v in vs { red.add_vec(li(i), spvec(v)); }
        }
        for st in steps {
            match st {
                Step::Spec(i, t, cond) => { red.reduce_at_spec(li(*i), *t, *cond); }
                Step::At(i, deep) => red.reduce_at(li(*i), *deep),
                Step::All(deep) => red.reduce_all(*deep),
            }
        }
    };
    let red = match (&run.mode, &run.mixed) {
        (Mode::Reduce, _) => ChainReducer::reduce(&lib, run.with_trans),
        (Mode::Script(steps), None) => {
            let mut red = ChainReducer::from(&lib, run.with_trans);
            script(&mut red, steps);
            red
        }
        (Mode::Script(steps), Some(mask)) => {
            let mut red = ChainReducer::new(lib.support(), d_deg);
            for j in 0..=k { red.set_matrix(li(j), lib.d_matrix(li(j)), mask[j]); }
            if mask[k + 1] {
                // the matrix one step beyond the support (0 x 0 resp. n_k x 0)
                let e = if run.coh { -1 } else { -1 };
                let extra: isize = if run.coh { k as isize + 1 } else { e };
                red.set_matrix(extra, lib.d_matrix(extra), mask[0]);
            }
            script(&mut red, steps);
            red
        }
        (Mode::ReducedApi, _) | (Mode::ReducedTwice, _) => unreachable!(),
    };
    let d: Vec<D<R>> = (0..=k).map(|i| D::from_sp(red.matrix(li(i)).unwrap())).collect();
    let m: Vec<usize> = d.iter().map(|x| x.c).collect();
    let f: Vec<Option<D<R>>> = (0..=k).map(|i| red.trans(li(i)).map(|t| D::from_sp(&t.forward_mat()))).collect();
    let b: Vec<Option<D<R>>> = (0..=k).map(|i| red.trans(li(i)).map(|t| D::from_sp(&t.backward_mat()))).collect();
    let vecs = (0..=k).map(|i| red.vecs(li(i)).map(|vs| vs.iter().map(|v| v.to_dense()).collect()).unwrap_or_default()).collect();
    // vector application of the transfer maps vs. their matrices
    let mut trans_apply = None;
    for i in 0..=k {
        if let (Some(t), Some(fm), Some(bm)) = (red.trans(li(i)), &f[i], &b[i]) {
            if t.src_dim() != c.n[i] || t.tgt_dim() != m[i] { trans_apply = Some(format!("dims of trans({}) are {}->{}", i, t.src_dim(), t.tgt_dim())); continue; }
            if (fm.r, fm.c) != (m[i], c.n[i]) || (bm.r, bm.c) != (c.n[i], m[i]) { continue; } // reported by the shape oracle
            let v = probe::<R>(c.n[i], i);
            let w = probe::<R>(m[i], i + 1);
            let fv = t.forward(&spvec(&v)).to_dense();
            let bw = t.backward(&spvec(&w)).to_dense();
            if fv != fm.mul(&D::from_cols(c.n[i], &[v])).col(0) { trans_apply = Some(format!("forward(v) != forward_mat*v in degree {}", i)); }
            if bw != bm.mul(&D::from_cols(m[i], &[w])).col(0) { trans_apply = Some(format!("backward(w) != backward_mat*w in degree {}", i)); }
        }
    }
    Out { m, d, f, b, vecs, trans_apply: Some(trans_apply.unwrap_or_default()) }
}

// ---------------------------------------------------------------------------------------------------------
// oracle (naive) — same clause order as the Lean checker's `firstFail`
// ---------------------------------------------------------------------------------------------------------

struct Data<R> { c: Cx<R>, m: Vec<usize>, d: Vec<D<R>>, f: Vec<D<R>>, b: Vec<D<R>>, v: Vec<D<R>>, vr: Vec<D<R>> }

fn shapes_ok<R>(x: &Data<R>) -> Option<String>
where R: Sc, for<'x> &'x R: RingOps<R> {
    let k = x.c.k;
    for i in 0..=k {
        if i >= 1 && (x.d[i].r, x.d[i].c) != (x.m[i - 1], x.m[i]) { return Some(format!("shape d'@{}: {}x{} vs m=({},{})", i, x.d[i].r, x.d[i].c, x.m[i - 1], x.m[i])); }
        if (x.f[i].r, x.f[i].c) != (x.m[i], x.c.n[i]) { return Some(format!("shape F@{}: {}x{} expected {}x{}", i, x.f[i].r, x.f[i].c, x.m[i], x.c.n[i])); }
        if (x.b[i].r, x.b[i].c) != (x.c.n[i], x.m[i]) { return Some(format!("shape B@{}: {}x{} expected {}x{}", i, x.b[i].r, x.b[i].c, x.c.n[i], x.m[i])); }
        if x.vr[i].r != x.m[i] || x.vr[i].c != x.v[i].c { return Some(format!("shape V'@{}", i)); }
    }
    None
}

/// all failing clauses (name@degree) in checker order
fn failing<R>(x: &Data<R>) -> Vec<String>
where R: Sc, for<'x> &'x R: RingOps<R> {
    let k = x.c.k;
    let mut bad = vec![];
    for i in 1..k { if !x.c.d[i].mul(&x.c.d[i + 1]).is_zero() { bad.push(format!("in@{}", i)); } }
    for i in 1..k { if !x.d[i].mul(&x.d[i + 1]).is_zero() { bad.push(format!("dd@{}", i)); } }
    for i in 1..=k { if x.f[i - 1].mul(&x.c.d[i]) != x.d[i].mul(&x.f[i]) { bad.push(format!("Fd@{}", i)); } }
    for i in 1..=k { if x.c.d[i].mul(&x.b[i]) != x.b[i - 1].mul(&x.d[i]) { bad.push(format!("dB@{}", i)); } }
    for i in 0..=k { if !x.f[i].mul(&x.b[i]).is_id() { bad.push(format!("FB@{}", i)); } }
    for i in 0..=k { if x.f[i].mul(&x.v[i]) != x.vr[i] { bad.push(format!("Fv@{}", i)); } }
    bad
}

fn red_line<R>(x: &Data<R>) -> String
where R: Sc, for<'x> &'x R: RingOps<R> {
    let k = x.c.k;
    let mut s = format!("red {} {} {}", R::TAG, k, x.c.dims_txt());
    for v in &x.m { s.push(' '); s.push_str(&v.to_string()); }
    for v in &x.v { s.push(' '); s.push_str(&v.c.to_string()); }
    for i in 1..=k { x.c.d[i].push_txt(&mut s); }
    for i in 1..=k { x.d[i].push_txt(&mut s); }
    for i in 0..=k { x.f[i].push_txt(&mut s); }
    for i in 0..=k { x.b[i].push_txt(&mut s); }
    for i in 0..=k { x.v[i].push_txt(&mut s); }
    for i in 0..=k { x.vr[i].push_txt(&mut s); }
    s
}

// ---------------------------------------------------------------------------------------------------------
// one case
// ---------------------------------------------------------------------------------------------------------

struct Pools { p: Vec<(usize, Arc<rayon::ThreadPool>)> }
impl Pools {
    fn new() -> Self {
        Pools { p: [1usize, 2, 4, 16].iter().map(|&t| (t, Arc::new(rayon::ThreadPoolBuilder::new().num_threads(t).build().unwrap()))).collect() }
    }
    fn get(&self, t: usize) -> Arc<rayon::ThreadPool> { self.p.iter().find(|x| x.0 == t).unwrap().1.clone() }
}

fn rand_cond(r: &mut Rng) -> PivotCondition {
    match r.below(6) {
        0 | 1 => PivotCondition::One,
        2 | 3 => PivotCondition::AnyUnit,
        _ => PivotCondition::Weight(*r.pick(&[0.5, 1.0, 2.0, 3.0, 100.0])),
    }
}
fn rand_type(r: &mut Rng) -> PivotType { if r.bool() { PivotType::Rows } else { PivotType::Cols } }

fn rand_script(r: &mut Rng, k: usize) -> Vec<Step> {
    let mut s = vec![];
    match r.below(5) {
        0 => { // single step of one strategy
            s.push(Step::Spec(r.below(k as u64 + 1) as usize, rand_type(r), rand_cond(r)));
        }
        1 => { // one strategy in every degree, random order
            let (t, c) = (rand_type(r), rand_cond(r));
            let mut degs: Vec<usize> = (0..=k).collect();
            r.shuffle(&mut degs);
            for i in degs { s.push(Step::Spec(i, t, c)); }
        }
        2 => { // shallow / deep passes
            s.push(Step::All(false));
            if r.bool() { s.push(Step::All(true)); }
        }
        3 => { s.push(Step::All(true)); }
        _ => { // mixed random walk
            let len = 1 + r.below(2 * k as u64 + 3) as usize;
            for _ in 0..len {
                let i = r.below(k as u64 + 1) as usize;
                match r.below(4) {
                    0 => s.push(Step::At(i, r.bool())),
                    _ => s.push(Step::Spec(i, rand_type(r), rand_cond(r))),
                }
            }
        }
    }
    s
}

fn rand_vecs<R>(r: &mut Rng, c: &Cx<R>, chain: bool) -> Vec<Vec<Vec<R>>>
where R: Sc, for<'x> &'x R: RingOps<R> {
    let k = c.k;
    let mut vs: Vec<Vec<Vec<R>>> = vec![vec![]; k + 1];
    for i in 0..=k {
        if c.n[i] == 0 || r.chance(1, 3) { continue; }
        let cnt = 1 + r.below(2) as usize;
        for _ in 0..cnt {
            let v: Vec<R> = (0..c.n[i]).map(|_| if r.chance(1, 2) { R::zero() } else { R::mult(r) }).collect();
            vs[i].push(v);
        }
    }
    if chain {
        // also track d v in the degree below, right after the copies of v: (d v)' must be d' v'
        for i in (1..=k).rev() {
            let dv: Vec<Vec<R>> = vs[i].iter().map(|v| c.d[i].mul(&D::from_cols(c.n[i], &[v.clone()])).col(0)).collect();
            vs[i - 1].extend(dv);
        }
    }
    vs
}

struct Ctx<'a> { s: &'a mut Sink, pools: &'a Pools, thorough: bool }

fn run_case<R>(ctx: &mut Ctx, r: &mut Rng, family: &str, c: &Cx<R>, run: &Run<R>)
where R: Sc, for<'x> &'x R: RingOps<R> {
    let desc = format!("[{}] {} | {} | complex: {}", family, c.summary(), run.txt(), trunc(&c.full_txt(), 1500));
    let s = &mut *ctx.s;
    s.count(&format!("ring.{}", R::TAG));
    s.count(&format!("family.{}", family));
    s.count(&format!("len.{}", c.k));
    s.count(&format!("threads.{}", run.threads));
    s.count(&format!("trans.{}", run.with_trans));
    match &run.mode {
        Mode::Reduce => s.count("mode.reduce"),
        Mode::ReducedApi => s.count("mode.reduced_api"),
        Mode::ReducedTwice => s.count("mode.reduced_twice"),
        Mode::Script(st) => {
            s.count("mode.script");
            for x in st { match x {
                Step::Spec(_, t, c) => { s.count(&format!("spec.{}.{}", pt_txt(*t), match c { PivotCondition::One => "one", PivotCondition::AnyUnit => "unit", PivotCondition::Weight(_) => "weight" })); }
                Step::At(_, deep) => s.count(if *deep { "at.deep" } else { "at.shallow" }),
                Step::All(deep) => s.count(if *deep { "all.deep" } else { "all.shallow" }),
            } }
        }
    }
    let pool = ctx.pools.get(run.threads);
    let out = match guard(|| pool.install(|| execute(c, run))) {
        Some(o) => o,
        None => {
            s.oracle(false, "the reducer panicked on a valid chain complex", &desc, "panic");
            s.eval_only(&desc, true);
            return;
        }
    };
    let k = c.k;
    let reduced_any = (0..=k).any(|i| out.m[i] < c.n[i]);
    if reduced_any { s.count("outcome.reduced"); } else { s.count("outcome.unchanged"); }
    let nontrivial = reduced_any;
    let n_tracked: usize = run.vecs.iter().map(|v| v.len()).sum();
    if n_tracked > 0 { s.count("with_vecs"); }

    // ranks never grow, shapes of the reduced differentials fit
    let ranks_ok = (0..=k).all(|i| out.m[i] <= c.n[i]) && (1..=k).all(|i| (out.d[i].r, out.d[i].c) == (out.m[i - 1], out.m[i]));
    s.oracle(ranks_ok, "reduced differentials have consistent shapes", &desc, &format!("m={:?}", out.m));
    if !ranks_ok { s.eval_only(&desc, true); return; }

    let red_cx = Cx { k, n: out.m.clone(), d: out.d.clone() };
    let dd_ok = red_cx.is_complex();
    s.oracle(dd_ok, "the reduced differentials square to zero", &desc, "d'd' != 0");

    // tracked vectors: count preserved
    let vec_cnt_ok = (0..=k).all(|i| out.vecs[i].len() == run.vecs[i].len() && out.vecs[i].iter().all(|v| v.len() == out.m[i]));
    if !matches!(run.mode, Mode::ReducedApi | Mode::ReducedTwice) {
        s.oracle(vec_cnt_ok, "tracked vectors keep their number and live in the reduced module", &desc, "");
    }

    // homology (library) over PIDs.  The library's own Smith normal form may overflow i64 on the UNREDUCED complex
    // (that is not this property): then the comparison is left to the Lean reference (`redn` line).
    let (h0, h1) = if R::PID && dd_ok {
        let h0 = guard(|| R::lib_homology(c)).flatten();
        let h1 = guard(|| R::lib_homology(&red_cx)).flatten();
        if h0.is_some() && h1.is_some() {
            s.oracle(h0 == h1, "homology of the reduced complex equals homology of the original (library homology)", &desc,
                &format!("original {:?} reduced {:?}", h0, h1));
        } else { s.count("libhom.unavailable"); }
        (h0, h1)
    } else { (None, None) };
    let lib_h = h0.is_some() && h1.is_some();
    let hs = |h: &Option<String>| h.clone().unwrap_or_else(|| "?".into());

    if let Some(e) = &out.trans_apply {
        s.oracle(e.is_empty(), "Trans::forward / backward on vectors agree with forward_mat / backward_mat", &desc, e);
    }
    let full: Option<(Vec<D<R>>, Vec<D<R>>)> = if out.f.iter().all(|x| x.is_some()) && out.b.iter().all(|x| x.is_some()) {
        Some((out.f.iter().map(|x| x.clone().unwrap()).collect(), out.b.iter().map(|x| x.clone().unwrap()).collect()))
    } else { None };
    let any_trans = out.f.iter().any(|x| x.is_some());
    if run.with_trans && run.mixed.is_none() {
        s.oracle(full.is_some(), "transfer maps are reported in every degree when requested", &desc, "");
    }
    if let Some(mask) = &run.mixed {
        let ok = (0..=k).all(|i| out.f[i].is_some() == mask[i]);
        s.oracle(ok, "transfer maps are reported exactly in the degrees where they were requested", &desc, "");
    }
    match &full {
        Some((f, b)) => {
            let v: Vec<D<R>> = (0..=k).map(|i| D::from_cols(c.n[i], &run.vecs[i])).collect();
            let vr: Vec<D<R>> = (0..=k).map(|i| if vec_cnt_ok { D::from_cols(out.m[i], &out.vecs[i]) } else { D::zero(out.m[i], run.vecs[i].len()) }).collect();
            let data = Data { c: c.clone(), m: out.m.clone(), d: out.d.clone(), f: f.clone(), b: b.clone(), v, vr };
            if let Some(e) = shapes_ok(&data) {
                s.oracle(false, "transfer maps have the shapes reduced x original / original x reduced", &desc, &e);
                s.eval_only(&desc, true);
                return;
            }
            let bad = failing(&data);
            let has = |p: &str| bad.iter().any(|b| b.starts_with(p));
            s.oracle(!has("Fd@"), "forward maps commute with the differentials (F d = d' F)", &desc, &bad.join(" "));
            s.oracle(!has("dB@"), "backward maps commute with the differentials (d B = B d')", &desc, &bad.join(" "));
            s.oracle(!has("FB@"), "forward after backward is the identity of the reduced complex (F B = 1)", &desc, &bad.join(" "));
            s.oracle(!has("Fv@"), "tracked vectors are transported by the forward map (v' = F v)", &desc, &bad.join(" "));
            // Lean: verified checker + independent homology
            let mut line = red_line(&data);
            let hpart = if !R::PID { "H=-".to_string() } else if lib_h { format!("H={}|{}", hs(&h0), hs(&h1)) } else { "heq".to_string() };
            if R::PID && !lib_h { line = format!("redn{}", &line[3..]); }
            // the implementation's claim is that its exported state IS a reduction: the expected verdict is always `ok`
            s.case(&line, &format!("ok {}", hpart), nontrivial);
            // checker self-test: corrupt one entry of F / B / V' (the verdict of the naive oracle is the expected reply)
            if bad.is_empty() && r.chance(if ctx.thorough { 1 } else { 1 }, 3) {
                let mut mdata = Data { c: data.c.clone(), m: data.m.clone(), d: data.d.clone(), f: data.f.clone(), b: data.b.clone(), v: data.v.clone(), vr: data.vr.clone() };
                let i = r.below(k as u64 + 1) as usize;
                let which = r.below(3);
                let tgt = match which { 0 => &mut mdata.f[i], 1 => &mut mdata.b[i], _ => &mut mdata.vr[i] };
                if !tgt.a.is_empty() {
                    let p = r.below(tgt.a.len() as u64) as usize;
                    tgt.a[p] = &tgt.a[p] + &R::one();
                    let mbad = failing(&mdata);
                    let verdict = match mbad.first() { None => "ok".to_string(), Some(b) => format!("fail:{}", b) };
                    s.count(if mbad.is_empty() { "selftest.undetectable" } else { "selftest.detected" });
                    let mut mline = red_line(&mdata);
                    if R::PID && !lib_h { mline = format!("redn{}", &mline[3..]); }
                    s.case(&mline, &format!("{} {}", verdict, hpart), true);
                }
            }
        }
        None => {
            if any_trans {
                // transfer maps in some degrees only: every identity whose maps are all available
                s.count("mode.mixed_trans");
                let mut bad = vec![];
                for i in 0..=k {
                    let (Some(fi), Some(bi)) = (&out.f[i], &out.b[i]) else { continue };
                    if (fi.r, fi.c) != (out.m[i], c.n[i]) || (bi.r, bi.c) != (c.n[i], out.m[i]) { bad.push(format!("shape@{}", i)); continue; }
                    if !fi.mul(bi).is_id() { bad.push(format!("FB@{}", i)); }
                    if vec_cnt_ok && fi.mul(&D::from_cols(c.n[i], &run.vecs[i])) != D::from_cols(out.m[i], &out.vecs[i]) { bad.push(format!("Fv@{}", i)); }
                    if i >= 1 {
                        if let (Some(fp), Some(bp)) = (&out.f[i - 1], &out.b[i - 1]) {
                            if (fp.r, fp.c) != (out.m[i - 1], c.n[i - 1]) || (bp.r, bp.c) != (c.n[i - 1], out.m[i - 1]) { continue; }
                            if fp.mul(&c.d[i]) != out.d[i].mul(fi) { bad.push(format!("Fd@{}", i)); }
                            if c.d[i].mul(bi) != bp.mul(&out.d[i]) { bad.push(format!("dB@{}", i)); }
                        }
                    }
                }
                s.oracle(bad.is_empty(), "with transfer maps in some degrees only, every available identity (F B = 1, F d = d' F, d B = B d', v' = F v) holds", &desc, &bad.join(" "));
            }
            // no transfer maps: vectors come in pairs (v, d v); F is a chain map, so (d v)' = d' v'
            if run.chained && vec_cnt_ok && n_tracked > 0 {
                let mut ok = true;
                let mut detail = String::new();
                for i in 1..=k {
                    let cnt_i = run.vecs[i].len();
                    let off = run.vecs[i - 1].len() - cnt_i;
                    for j in 0..cnt_i {
                        let lhs = out.d[i].mul(&D::from_cols(out.m[i], &[out.vecs[i][j].clone()])).col(0);
                        if lhs != out.vecs[i - 1][off + j] { ok = false; detail = format!("degree {} vector {}", i, j); }
                    }
                }
                s.oracle(ok, "tracked vectors are transported by a chain map ((d v)' = d' v')", &desc, &detail);
            }
            if R::PID && dd_ok && h1.is_some() {
                let line = format!("hom {}", c.full_txt());
                s.case(&line, &hs(&h1), nontrivial);
            } else {
                s.eval_only(&desc, nontrivial);
            }
        }
    }
}

fn rand_run<R>(r: &mut Rng, c: &Cx<R>) -> Run<R>
where R: Sc, for<'x> &'x R: RingOps<R> {
    let threads = *r.pick(&[1usize, 2, 4, 16]);
    let coh = r.chance(1, 3);
    let k = c.k;
    let mut run = match r.below(12) {
        0 => Run::plain(Mode::Reduce, true, threads, k),
        1 => Run::plain(if r.bool() { Mode::ReducedApi } else { Mode::ReducedTwice }, true, threads, k),
        2 => Run::plain(Mode::Reduce, false, threads, k),
        3 | 4 => { // scripted, no transfer maps, chained vectors
            let vecs = rand_vecs(r, c, true);
            Run { vecs, chained: true, ..Run::plain(Mode::Script(rand_script(r, k)), false, threads, k) }
        }
        5 => { // transfer maps only in some degrees
            let mask: Vec<bool> = (0..=k + 1).map(|_| r.bool()).collect();
            let vecs = rand_vecs(r, c, false);
            Run { vecs, mixed: Some(mask), ..Run::plain(Mode::Script(rand_script(r, k)), true, threads, k) }
        }
        _ => {
            let vecs = if r.chance(1, 3) { vec![vec![]; k + 1] } else { rand_vecs(r, c, false) };
            Run { vecs, ..Run::plain(Mode::Script(rand_script(r, k)), true, threads, k) }
        }
    };
    run.coh = coh;
    run
}

fn all_threads_case<R>(ctx: &mut Ctx, r: &mut Rng, family: &str, c: &Cx<R>)
where R: Sc, for<'x> &'x R: RingOps<R> {
    // the same scripted run under every pool: each result must satisfy the identities
    let script = rand_script(r, c.k);
    let vecs = rand_vecs(r, c, false);
    let coh = r.chance(1, 3);
    for t in [1usize, 2, 4, 16] {
        let run = Run { vecs: vecs.clone(), coh, ..Run::plain(Mode::Script(script.clone()), true, t, c.k) };
        run_case(ctx, r, family, c, &run);
    }
}

// ---------------------------------------------------------------------------------------------------------
// Khovanov complexes of small links (cube complexes after delooping, no eliminations: many unit entries)
// ---------------------------------------------------------------------------------------------------------

fn kh_complex<R>(l: &yui_link::Link, h: &R, t: &R, elim: bool) -> Option<Cx<R>>
where R: Sc, for<'x> &'x R: RingOps<R> {
    use yui_kh::kh::internal::v2::builder::TngComplexBuilder;
    let mut b = TngComplexBuilder::new(l, h, t, None);
    b.auto_elim = elim;
    b.process_all();
    b.finalize();
    let kc = b.into_kh_complex();
    let sup: Vec<isize> = kc.support().collect();
    if sup.is_empty() { return None; }
    let (lo, hi) = (sup[0], sup[sup.len() - 1]);
    let k = (hi - lo) as usize;
    // our degree j = hi - h
    let mut d = vec![D::<R>::zero(0, kc.rank(hi))];
    for j in 1..=k { d.push(D::from_sp(&kc.d_matrix(hi - j as isize))); }
    let n: Vec<usize> = (0..=k).map(|j| kc.rank(hi - j as isize)).collect();
    for j in 1..=k { if (d[j].r, d[j].c) != (n[j - 1], n[j]) { return None; } }
    Some(Cx { k, n, d })
}

fn kh_stream<R>(ctx: &mut Ctx, r: &mut Rng, hts: &[(R, R)])
where R: Sc, for<'x> &'x R: RingOps<R> {
    use yui_link::Link;
    let mut links: Vec<(&str, Link)> = vec![("unknot", Link::unknot()), ("hopf", Link::hopf_link()), ("trefoil", Link::trefoil()), ("trefoil-mirror", Link::trefoil().mirror())];
    if ctx.thorough { links.push(("figure8", Link::figure8())); }
    for (name, l) in &links {
        for (h, t) in hts {
            for elim in [false, true] {
                let got = guard(|| kh_complex::<R>(l, h, t, elim));
                let Some(Some(c)) = got else { ctx.s.count("kh.unavailable"); continue };
                if c.k == 0 || c.k > 6 || !c.is_complex() { ctx.s.count("kh.skipped"); continue; }
                ctx.s.count(&format!("kh.{}", name));
                let fam = if elim { "khovanov-eliminated" } else { "khovanov-cube" };
                let n_runs = if elim { 1 } else { 3 };
                for _ in 0..n_runs {
                    let run = rand_run(r, &c);
                    run_case(ctx, r, fam, &c, &run);
                }
            }
        }
    }
}

// ---------------------------------------------------------------------------------------------------------
// `Schur::from_partial_triangular` against its Lean code model (outputs are unique: exact comparison)
// ---------------------------------------------------------------------------------------------------------

fn canon_mat<R>(m: &SpMat<R>) -> String
where R: Sc, for<'x> &'x R: RingOps<R> {
    let d = D::from_sp(m);
    let mut s = format!("{} {}", d.r, d.c);
    for x in &d.a { s.push(' '); s.push_str(&x.canon()); }
    s
}

fn schur_stream<R>(ctx: &mut Ctx, r: &mut Rng, cases: usize)
where R: Sc, for<'x> &'x R: RingOps<R> {
    let maxd = if ctx.thorough { 9 } else { 6 };
    for _ in 0..cases {
        let m = r.below(maxd + 1) as usize;
        let n = r.below(maxd + 1) as usize;
        let upper = r.bool();
        let kind = r.below(12);
        let rr = match kind {
            0 => m.min(n) + 1 + r.below(2) as usize,          // violates the assertions
            1 => m.min(n),
            2 => 0,
            _ => r.below(m.min(n) as u64 + 1) as usize,
        };
        let mut a = D::<R>::zero(m, n);
        for i in 0..m { for j in 0..n {
            let in_a = i < rr && j < rr;
            let x = if in_a {
                if i == j { if kind == 3 && r.chance(1, 3) { R::nonunit(r).unwrap_or_else(|| R::unit(r)) } else { R::unit(r) } }
                else if (upper && i < j) || (!upper && i > j) { if r.chance(1, 2) { R::zero() } else { R::mult(r) } }
                else { R::zero() }
            } else if r.chance(2, 5) { R::zero() } else { R::mult(r) };
            a.set(i, j, x);
        } }
        let sp = a.to_sp();
        let t = if upper { TriangularType::Upper } else { TriangularType::Lower };
        let got = guard(|| {
            let sch = Schur::from_partial_triangular(t, &sp, rr, true);
            let ts = sch.trans_src().unwrap();
            let tt = sch.trans_tgt().unwrap();
            (sch.complement().clone(), ts.forward_mat(), ts.backward_mat(), tt.forward_mat(), tt.backward_mat())
        });
        let mut req = format!("schur {} {} {} {} {}", R::TAG, if upper { "U" } else { "L" }, m, n, rr);
        a.push_txt(&mut req);
        let reply = match &got {
            None => "panic".to_string(),
            Some((s, fs, bs, ft, bt)) => [s, fs, bs, ft, bt].iter().map(|x| canon_mat(x)).collect::<Vec<_>>().join(" | "),
        };
        ctx.s.count(&format!("schur.{}", R::TAG));
        ctx.s.count(if got.is_some() { "schur.ok" } else { "schur.panic" });
        // oracle on the implementation alone: F_tgt * M * B_src = S, F B = 1 on both sides, S = d - c a^-1 b via a*(a^-1 b) = b
        if let Some((s, fs, bs, ft, bt)) = &got {
            let (s, fs, bs, ft, bt) = (D::from_sp(s), D::from_sp(fs), D::from_sp(bs), D::from_sp(ft), D::from_sp(bt));
            let shapes = (s.r, s.c) == (m - rr, n - rr) && (fs.r, fs.c) == (n - rr, n) && (bs.r, bs.c) == (n, n - rr) && (ft.r, ft.c) == (m - rr, m) && (bt.r, bt.c) == (m, m - rr);
            let ok = shapes && ft.mul(&a).mul(&bs) == s && fs.mul(&bs).is_id() && ft.mul(&bt).is_id()
                && ft.mul(&a) == s.mul(&fs) && a.mul(&bs) == bt.mul(&s);
            ctx.s.oracle(ok, "Schur step: F_tgt M B_src = S, F B = 1 on both sides, F_tgt M = S F_src, M B_src = B_tgt S", &req, &reply);
        } else {
            let expected = rr > m || rr > n || kind == 3;
            ctx.s.oracle(expected, "Schur::from_partial_triangular does not panic on a partially triangular matrix with unit diagonal", &req, "panic");
        }
        ctx.s.case(&req, &reply, rr > 0 && got.is_some());
    }
}

fn ring_stream<R>(ctx: &mut Ctx, r: &mut Rng, cases: usize)
where R: Sc, for<'x> &'x R: RingOps<R> {
    let thorough = ctx.thorough;
    // built-in samples under the default strategy and one scripted run each
    for w in 0..10 {
        let (name, c) = builtin::<R>(w);
        let Some(c) = c else { continue };
        if !thorough && w == 9 && R::TAG == "Q" { continue; } // t2 over Q is slowish in the Lean rational checker
        let fam = format!("builtin:{}", name);
        ctx.s.count("builtin");
        for mode in [Mode::Reduce, Mode::ReducedApi, Mode::ReducedTwice] {
            let run = Run::plain(mode, true, *r.pick(&[1usize, 2, 4, 16]), c.k);
            run_case(ctx, r, "builtin", &c, &run);
        }
        let run = rand_run(r, &c);
        run_case(ctx, r, "builtin", &c, &run);
        let _ = fam;
    }
    for it in 0..cases {
        let k = 1 + r.below(6) as usize;
        let (family, c) = match r.below(10) {
            0 | 1 | 2 => {
                let v = 3 + r.below(if thorough { 6 } else { 4 }) as usize;
                let kk = k.min(v - 1).min(if thorough { 6 } else { 4 });
                { let nf = 1 + r.below(4) as usize; ("simplicial", gen_simplicial::<R>(r, v, kk, nf)) }
            }
            3 => ("planted-dense", gen_planted::<R>(r, k, if thorough { 3 } else { 2 }, 2, true)),
            _ => { let mp = if thorough { 1 + r.below(6) as usize } else { 3 }; ("planted", gen_planted::<R>(r, k, mp, if thorough { 3 } else { 2 }, false)) }
        };
        if c.d.iter().any(|m| m.a.iter().any(|x| x.t().len() > 6)) { ctx.s.count("input.skipped_large_entries"); continue; }
        if !c.is_complex() {
            ctx.s.oracle(false, "HARNESS BUG: generated differentials do not square to zero", &c.full_txt(), "");
            continue;
        }
        if c.has_unit() { ctx.s.count("input.has_unit"); } else { ctx.s.count("input.no_unit"); }
        let total: usize = c.n.iter().sum();
        ctx.s.count(&format!("size.{}", match total { 0..=5 => "0-5", 6..=15 => "6-15", 16..=40 => "16-40", _ => "41+" }));
        if it % 8 == 0 {
            all_threads_case(ctx, r, family, &c);
        } else {
            let run = rand_run(r, &c);
            run_case(ctx, r, family, &c, &run);
        }
    }
}

/// exhaustive small spaces over Z: every 2x2 differential with entries in {-1,0,1,2} (k = 1) and every
/// complex Z <- Z^2 <- Z with entries in {-2..2} (k = 2), under every pivot type x {One, AnyUnit} (single step, then deep)
fn exhaustive(ctx: &mut Ctx, r: &mut Rng) {
    let strategies: Vec<(PivotType, PivotCondition)> = vec![
        (PivotType::Rows, PivotCondition::One), (PivotType::Cols, PivotCondition::One),
        (PivotType::Rows, PivotCondition::AnyUnit), (PivotType::Cols, PivotCondition::AnyUnit)];
    let vals = [-1i64, 0, 1, 2];
    let mut idx = 0usize;
    for code in 0..256usize {
        let e: Vec<i64> = (0..4).map(|t| vals[(code >> (2 * t)) & 3]).collect();
        let c = Cx { k: 1, n: vec![2, 2], d: vec![D::zero(0, 2), D { r: 2, c: 2, a: e }] };
        for (si, (t, cond)) in strategies.iter().enumerate() {
            if !ctx.thorough && (code + si) % 4 != 0 { continue; }
            idx += 1;
            let vecs = vec![vec![vec![1, -1]], vec![vec![2, 1]]];
            let run = Run { vecs, coh: idx % 2 == 0, ..Run::plain(Mode::Script(vec![Step::Spec(1, *t, *cond), Step::All(true)]), true, [1, 2, 4, 16][idx % 4], 1) };
            run_case(ctx, r, "exhaustive-2x2", &c, &run);
        }
    }
    let rng5 = [-2i64, -1, 0, 1, 2];
    for code in 0..625usize {
        let e: Vec<i64> = (0..4).map(|t| rng5[(code / 5usize.pow(t as u32)) % 5]).collect();
        if e[0] * e[2] + e[1] * e[3] != 0 { continue; }
        let c = Cx { k: 2, n: vec![1, 2, 1], d: vec![D::zero(0, 1), D { r: 1, c: 2, a: vec![e[0], e[1]] }, D { r: 2, c: 1, a: vec![e[2], e[3]] }] };
        for (si, (t, cond)) in strategies.iter().enumerate() {
            if !ctx.thorough && (code + si) % 4 != 0 { continue; }
            idx += 1;
            let deg = 1 + (idx % 2);
            let run = Run { coh: idx % 3 == 0, ..Run::plain(Mode::Script(vec![Step::Spec(deg, *t, *cond), Step::Spec(3 - deg, *t, *cond), Step::All(true)]), true, [1, 2, 4, 16][idx % 4], 2) };
            run_case(ctx, r, "exhaustive-121", &c, &run);
        }
    }
}

fn boundary(ctx: &mut Ctx) {
    // the zero complex (empty support) and complexes with 0-dimensional modules
    let ok = guard(|| {
        let c = GenericChainComplex::<i64>::zero();
        let r = ChainReducer::reduce(&c, true);
        r.is_done()
    });
    ctx.s.oracle(ok == Some(true), "reducing the zero complex succeeds and is done", "GenericChainComplex::<i64>::zero()", &format!("{:?}", ok));
    ctx.s.eval_only("zero complex", false);
    let mut r = Rng::new(0xC08);
    for (n, lam) in [(vec![0usize, 0], vec![]), (vec![1, 0], vec![]), (vec![0, 1], vec![]), (vec![1, 1], vec![1i64]), (vec![1, 1], vec![0]), (vec![1, 1], vec![2]), (vec![2, 2, 2], vec![1, -1, 1, 1])] {
        let k = n.len() - 1;
        let mut d = vec![D::<i64>::zero(0, n[0])];
        for i in 1..=k { d.push(D::zero(n[i - 1], n[i])); }
        if n == vec![1, 1] { d[1].set(0, 0, lam[0]); }
        if n == vec![2, 2, 2] { // d1 = [[1,-1],[1,-1]] d2 = [[1,1],[1,1]] : d1 d2 = 0
            d[1] = D { r: 2, c: 2, a: vec![1, -1, 1, -1] };
            d[2] = D { r: 2, c: 2, a: vec![1, 1, 1, 1] };
        }
        let c = Cx { k, n: n.clone(), d };
        for mode in [Mode::Reduce, Mode::ReducedApi, Mode::ReducedTwice, Mode::Script(vec![Step::Spec(1, PivotType::Rows, PivotCondition::One)]), Mode::Script(vec![Step::Spec(0, PivotType::Cols, PivotCondition::AnyUnit), Step::All(true)])] {
            for coh in [false, true] {
                let run = Run { coh, ..Run::plain(mode.clone(), true, 1, k) };
                run_case(ctx, &mut r, "boundary", &c, &run);
            }
        }
    }
}

// ---------------------------------------------------------------------------------------------------------
// contended pivot search: many rows compete for mutually exclusive pivots in the PARALLEL phase of the pivot finder
// (non-unit entries keep every competing row out of the two sequential phases); the reduction of C_1 --A--> C_0 must
// terminate and satisfy the transfer identities on every thread count and on repeated runs in the same pool.
// Checked with sparse arithmetic (the matrices are too large for the dense oracle); oracle-only stream.
// ---------------------------------------------------------------------------------------------------------

fn contended(ctx: &mut Ctx, r: &mut Rng, idx: usize) {
    let groups = *r.pick(&[16usize, 32, 64, 128]);
    let members = *r.pick(&[2usize, 4, 8, 16]);
    let n = groups * members;
    let nu = |r: &mut Rng| -> i64 { *r.pick(&[2i64, -2, 3, 2]) };
    let mut e: Vec<(usize, usize, i64)> = vec![(0, 1, 1)];
    for q in 0..n { e.push((0, 2 + q, nu(r))); }
    for q in 0..n {
        let g = q % groups;
        e.push((1 + q, 0, nu(r)));
        for k in 0..members {
            let s = k * groups + g;
            e.push((1 + q, 2 + s, if s == q { if r.bool() { 1 } else { -1 } } else { nu(r) }));
        }
    }
    let a: SpMat<i64> = SpMat::from_entries((n + 1, n + 2), e).transpose();
    let desc = format!("contended Z #{} groups={} members={} (A = B^T, B {}x{}: cover row + pairwise 2-cycles of non-units)", idx, groups, members, n + 1, n + 2);
    let (m, nn) = a.shape();
    let mut removed: Vec<Option<usize>> = vec![];
    for &t in &[1usize, 2, 4, 16] {
        let pool = ctx.pools.get(t);
        for rep in 0..(if t == 1 { 1 } else if ctx.thorough { 6 } else { 3 }) {
            let a2 = a.clone();
            let res = guard(|| pool.install(|| {
                let a3 = a2.clone();
                let c = GenericChainComplex::generate(0..=1, -1, move |i| match i { 0 => SpMat::zero((0, m)), 1 => a3.clone(), _ => SpMat::zero((0, 0)) });
                let red = ChainReducer::reduce(&c, true);
                let s = red.matrix(1).unwrap().clone();
                let (t0, t1) = (red.trans(0).unwrap().clone(), red.trans(1).unwrap().clone());
                let (m1, n1) = s.shape();
                let (f0, b0, f1, b1) = (t0.forward_mat(), t0.backward_mat(), t1.forward_mat(), t1.backward_mat());
                let mut bad: Vec<&'static str> = vec![];
                if f0.shape() != (m1, m) || f1.shape() != (n1, nn) || b0.shape() != (m, m1) || b1.shape() != (nn, n1) { bad.push("shapes"); }
                else {
                    if m - m1 != nn - n1 { bad.push("euler"); }
                    if !(&f0 * &a2 - &s * &f1).is_zero() { bad.push("F d = d' F"); }
                    if !(&a2 * &b1 - &b0 * &s).is_zero() { bad.push("d B = B d'"); }
                    if !(&f0 * &b0 - SpMat::id(m1)).is_zero() || !(&f1 * &b1 - SpMat::id(n1)).is_zero() { bad.push("F B = 1"); }
                    if s.iter().any(|(_, _, x)| *x == 1 || *x == -1) { bad.push("units left after deep reduction"); }
                }
                (m - m1, bad)
            }));
            let input = format!("{} threads={} rep={}", desc, t, rep);
            match &res {
                None => ctx.s.oracle(false, "ChainReducer::reduce terminates normally on every thread schedule", &input, "panic"),
                Some((_, bad)) => ctx.s.oracle(bad.is_empty(), "reduced complex + transfer maps satisfy F d = d' F, d B = B d', F B = 1, Euler characteristic kept, no unit left — on every thread schedule", &input, &format!("{:?}", bad)),
            }
            removed.push(res.map(|x| x.0));
        }
    }
    ctx.s.eval_only(&desc, removed.iter().any(|x| x.map_or(false, |k| k > 0)));
    ctx.s.count("contended");
}

fn main() {
    let args = Args::parse();
    if std::env::var("C08_LOUD").is_err() { quiet_panics(); }
    let mut sink = Sink::new(&args, "nontrivial = the reducer removed at least one generator in some degree");
    let pools = Pools::new();
    let mut rng = Rng::new(args.seed);
    let thorough = args.thorough();
    let mut ctx = Ctx { s: &mut sink, pools: &pools, thorough };
    boundary(&mut ctx);
    let mut r = rng.fork(); exhaustive(&mut ctx, &mut r);
    let base = if thorough { 12000 } else { 400 };
    let mut r = rng.fork(); ring_stream::<i64>(&mut ctx, &mut r, base * 2);
    let mut r = rng.fork(); ring_stream::<Ratio<i64>>(&mut ctx, &mut r, base / 2);
    let mut r = rng.fork(); ring_stream::<FF2>(&mut ctx, &mut r, base);
    let mut r = rng.fork(); ring_stream::<FF<3>>(&mut ctx, &mut r, base);
    let mut r = rng.fork(); ring_stream::<ZH>(&mut ctx, &mut r, base);
    // Khovanov complexes
    let mut r = rng.fork(); kh_stream::<i64>(&mut ctx, &mut r, &[(0, 0), (0, 1), (1, 0)]);
    let mut r = rng.fork(); kh_stream::<FF2>(&mut ctx, &mut r, &[(FF2::from_i(0), FF2::from_i(0)), (FF2::from_i(1), FF2::from_i(0))]);
    let mut r = rng.fork(); kh_stream::<FF<3>>(&mut ctx, &mut r, &[(FF::<3>::from_i(0), FF::<3>::from_i(0)), (FF::<3>::from_i(0), FF::<3>::from_i(1))]);
    let mut r = rng.fork(); kh_stream::<Ratio<i64>>(&mut ctx, &mut r, &[(Ratio::from(0), Ratio::from(0))]);
    let mut r = rng.fork(); kh_stream::<ZH>(&mut ctx, &mut r, &[(ZH::variable(), ZH::from_const(0)), (ZH::from_const(0), ZH::from_const(0))]);
    let mut r = rng.fork(); for i in 0..(if thorough { 24 } else { 4 }) { contended(&mut ctx, &mut r, i); }
    // the Schur step against its code model
    let sc = if thorough { 10000 } else { 300 };
    let mut r = rng.fork(); schur_stream::<i64>(&mut ctx, &mut r, sc);
    let mut r = rng.fork(); schur_stream::<Ratio<i64>>(&mut ctx, &mut r, sc / 2);
    let mut r = rng.fork(); schur_stream::<FF2>(&mut ctx, &mut r, sc / 2);
    let mut r = rng.fork(); schur_stream::<FF<3>>(&mut ctx, &mut r, sc / 2);
    let mut r = rng.fork(); schur_stream::<ZH>(&mut ctx, &mut r, sc / 2);
    sink.finish();
}
