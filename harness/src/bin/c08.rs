//! C08 — chain reduction (`ChainReducer`, `ChainComplexBase::reduced`) is a homotopy equivalence with correct
//! transfer maps.
//!
//! For every generated complex `C_0 <- C_1 <- … <- C_k` (d_deg = -1) and every configuration (pivot type,
//! pivot condition, shallow/deep, scripted `reduce_at_spec` sequences, tracked vectors, thread pool) the REAL
//! reducer is run and its exported state (`matrix(i)`, `trans(i).forward_mat()/backward_mat()`, `vecs(i)`) is
//!   (a) checked here with naive dense arithmetic:  d'd' = 0,  F d = d' F,  d B = B d',  F B = 1,  v' = F v,
//!       H(reduced) = H(original) (library homology, PID rings only);
//!   (b) sent to the Lean driver: verified checker `C08.check` + independent Lean homology of both complexes.
use std::sync::Arc;

use yui::poly::{Mono, Poly};
use yui::{Ratio, Ring, RingOps, FF, FF2};
use yui_homology::utils::ChainReducer;
use yui_homology::{ChainComplexTrait, GenericChainComplex, GridTrait, SummandTrait};
use yui_matrix::sparse::pivot::{PivotCondition, PivotType};
use yui_matrix::sparse::schur::Schur;
use yui_matrix::sparse::triang::TriangularType;
use yui_matrix::sparse::{MatTrait, SpMat, SpVec};
use yv::*;
use yv::rings::Txt;

// ---------------------------------------------------------------------------------------------------------
// scalars
// ---------------------------------------------------------------------------------------------------------

type ZH = Poly<'H', i64>;

trait Sc: Ring + Send + Sync + 'static
where for<'x> &'x Self: RingOps<Self> {
    const TAG: &'static str;
    const PID: bool;
    fn t(&self) -> String;
    fn from_i(x: i64) -> Self;
    /// "diagonal" entries of the planted complexes: units, non-units, zero
    fn lambda(r: &mut Rng) -> Self;
    /// multipliers of the elementary operations used for conjugation
    fn mult(r: &mut Rng) -> Self { Self::from_i(r.range(-2, 2)) }
    /// canonical text for exact comparison with the Lean model (normal form of the value, not of the representation)
    fn canon(&self) -> String { self.t() }
    /// a random unit
    fn unit(r: &mut Rng) -> Self { if r.bool() { Self::one() } else { -Self::one() } }
    /// a random non-zero non-unit (if the ring has one)
    fn nonunit(_r: &mut Rng) -> Option<Self> { None }
    /// homology by the library (rank + torsion per degree) — only over PIDs
    fn lib_homology(_c: &Cx<Self>) -> Option<String> { None }
}

fn hom_string<R>(c: &Cx<R>, field: bool) -> Option<String>
where R: Sc + yui::EucRing + Txt, for<'x> &'x R: yui::EucRingOps<R> {
    let g = c.to_lib();
    let h = g.homology();
    let mut parts = vec![];
    for i in 0..=c.k {
        let s = &h[i as isize];
        let mut tors: Vec<String> = s.tors().iter().map(|t| t.normalized().txt()).collect();
        if field || tors.is_empty() {
            if !tors.is_empty() { return Some(format!("torsion-over-field@{}", i)); }
            parts.push(format!("{}", s.rank()));
        } else {
            // integers: ascending (they form a divisibility chain)
            let mut v: Vec<i128> = tors.iter().map(|t| t.parse::<i128>().unwrap().abs()).collect();
            v.sort();
            tors = v.iter().map(|t| t.to_string()).collect();
            parts.push(format!("{}:{}", s.rank(), tors.join(":")));
        }
    }
    Some(parts.join(","))
}

impl Sc for i64 {
    const TAG: &'static str = "Z";
    const PID: bool = true;
    fn t(&self) -> String { self.to_string() }
    fn from_i(x: i64) -> Self { x }
    fn lambda(r: &mut Rng) -> Self { *r.pick(&[1, 1, 1, -1, -1, 2, 3, -2, 4, 6, 0]) }
    fn nonunit(r: &mut Rng) -> Option<Self> { Some(*r.pick(&[2, -2, 3, 5])) }
    fn lib_homology(c: &Cx<Self>) -> Option<String> { hom_string(c, false) }
}
impl Sc for Ratio<i64> {
    const TAG: &'static str = "Q";
    const PID: bool = true;
    fn t(&self) -> String { self.txt() }
    fn from_i(x: i64) -> Self { Ratio::from(x) }
    fn lambda(r: &mut Rng) -> Self {
        match r.below(6) { 0 => Ratio::from(0), 1 => Ratio::from(1), 2 => Ratio::from(-1), 3 => Ratio::new(1, 2), 4 => Ratio::new(-3, 2), _ => Ratio::from(2) }
    }
    fn mult(r: &mut Rng) -> Self { if r.chance(1, 4) { Ratio::new(r.range(-3, 3), *r.pick(&[2, 3])) } else { Ratio::from(r.range(-2, 2)) } }
    fn canon(&self) -> String {
        let (n, d) = (*self.numer() as i128, *self.denom() as i128);
        fn gcd(a: i128, b: i128) -> i128 { if b == 0 { a.abs() } else { gcd(b, a % b) } }
        let g = gcd(n, d).max(1);
        let sg = if d < 0 { -1 } else { 1 };
        format!("{}/{}", sg * n / g, sg * d / g)
    }
    fn unit(r: &mut Rng) -> Self { match r.below(4) { 0 => Ratio::from(1), 1 => Ratio::from(-1), 2 => Ratio::new(1, 2), _ => Ratio::from(-3) } }
    fn lib_homology(c: &Cx<Self>) -> Option<String> { hom_string(c, true) }
}
impl Sc for FF2 {
    const TAG: &'static str = "F2";
    const PID: bool = true;
    fn t(&self) -> String { self.txt() }
    fn from_i(x: i64) -> Self { FF2::from(x.rem_euclid(2) as i32) }
    fn lambda(r: &mut Rng) -> Self { Self::from_i(if r.chance(1, 5) { 0 } else { 1 }) }
    fn unit(_r: &mut Rng) -> Self { Self::one() }
    fn lib_homology(c: &Cx<Self>) -> Option<String> { hom_string(c, true) }
}
impl Sc for FF<3> {
    const TAG: &'static str = "F3";
    const PID: bool = true;
    fn t(&self) -> String { self.txt() }
    fn from_i(x: i64) -> Self { FF::<3>::new(x.rem_euclid(3) as i32) }
    fn lambda(r: &mut Rng) -> Self { Self::from_i(*r.pick(&[1, 1, 2, 2, 0])) }
    fn canon(&self) -> String { (*self.rep() as i64).rem_euclid(3).to_string() }
    fn unit(r: &mut Rng) -> Self { Self::from_i(1 + r.below(2) as i64) }
    fn lib_homology(c: &Cx<Self>) -> Option<String> { hom_string(c, true) }
}
impl Sc for ZH {
    const TAG: &'static str = "ZH";
    const PID: bool = false;
    fn t(&self) -> String {
        if self.is_zero() { return "0".into(); }
        let deg = self.iter().map(|(x, _)| x.deg()).max().unwrap_or(0);
        let mut cs = vec![0i64; deg + 1];
        for (x, a) in self.iter() { cs[x.deg()] = *a; }
        cs.iter().map(|c| c.to_string()).collect::<Vec<_>>().join(",")
    }
    fn from_i(x: i64) -> Self { ZH::from_const(x) }
    fn nonunit(r: &mut Rng) -> Option<Self> { Some(match r.below(3) { 0 => ZH::variable(), 1 => ZH::from_const(2), _ => ZH::variable() + ZH::from_const(1) }) }
    fn lambda(r: &mut Rng) -> Self {
        let h = || ZH::variable();
        match r.below(10) {
            0 | 1 | 2 | 3 => ZH::from_const(1),
            4 | 5 => ZH::from_const(-1),
            6 => h(),
            7 => h() + ZH::from_const(1),
            8 => ZH::from_const(2),
            _ => ZH::from_const(0),
        }
    }
    fn mult(r: &mut Rng) -> Self {
        match r.below(5) { 0 => ZH::variable(), 1 => -ZH::variable(), _ => ZH::from_const(r.range(-2, 2)) }
    }
}
use num_traits::Zero;

// ---------------------------------------------------------------------------------------------------------
// dense matrices (naive arithmetic of the oracle)
// ---------------------------------------------------------------------------------------------------------

#[derive(Clone, PartialEq, Debug)]
struct D<R> { r: usize, c: usize, a: Vec<R> }

impl<R> D<R>
where R: Sc, for<'x> &'x R: RingOps<R> {
    fn zero(r: usize, c: usize) -> Self { D { r, c, a: vec![R::zero(); r * c] } }
    fn id(n: usize) -> Self { let mut m = Self::zero(n, n); for i in 0..n { m.a[i * n + i] = R::one(); } m }
    fn at(&self, i: usize, j: usize) -> &R { &self.a[i * self.c + j] }
    fn set(&mut self, i: usize, j: usize, x: R) { let c = self.c; self.a[i * c + j] = x; }
    fn mul(&self, o: &D<R>) -> D<R> {
        assert_eq!(self.c, o.r, "shape mismatch in oracle product");
        let mut m = D::zero(self.r, o.c);
        for i in 0..self.r { for k in 0..self.c {
            let x = self.at(i, k);
            if x.is_zero() { continue; }
            for j in 0..o.c {
                let y = o.at(k, j);
                if y.is_zero() { continue; }
                let idx = i * o.c + j;
                m.a[idx] = &m.a[idx] + &(x * y);
            }
        } }
        m
    }
    fn is_zero(&self) -> bool { self.a.iter().all(|x| x.is_zero()) }
    fn is_id(&self) -> bool { self.r == self.c && *self == D::id(self.r) }
    fn from_sp(s: &SpMat<R>) -> Self {
        let (r, c) = s.shape();
        let mut m = D::zero(r, c);
        for (i, j, x) in s.iter() { m.set(i, j, x.clone()); }
        m
    }
    fn to_sp(&self) -> SpMat<R> { SpMat::from_dense_data((self.r, self.c), self.a.iter().cloned()) }
    fn push_txt(&self, out: &mut String) { for x in &self.a { out.push(' '); out.push_str(&x.t()); } }
    fn col(&self, j: usize) -> Vec<R> { (0..self.r).map(|i| self.at(i, j).clone()).collect() }
    fn from_cols(r: usize, cols: &[Vec<R>]) -> Self {
        let mut m = D::zero(r, cols.len());
        for (j, v) in cols.iter().enumerate() { assert_eq!(v.len(), r); for i in 0..r { m.set(i, j, v[i].clone()); } }
        m
    }
    fn has_unit(&self) -> bool { self.a.iter().any(|x| x.is_unit()) }
}

/// `C_0 <- C_1 <- … <- C_k`; `d[i] : n[i-1] × n[i]` for `i = 1..k`; `d[0]` is the `0 × n[0]` matrix
#[derive(Clone)]
struct Cx<R> { k: usize, n: Vec<usize>, d: Vec<D<R>> }

impl<R> Cx<R>
where R: Sc, for<'x> &'x R: RingOps<R> {
    fn to_lib(&self) -> GenericChainComplex<R> {
        let d: Vec<SpMat<R>> = self.d.iter().map(|m| m.to_sp()).collect();
        GenericChainComplex::generate(0..=(self.k as isize), -1, move |i| d[i as usize].clone())
    }
    fn from_lib(c: &GenericChainComplex<R>) -> Option<Self> {
        let sup: Vec<isize> = c.support().collect();
        if sup.is_empty() || sup[0] != 0 || c.d_deg() != -1 { return None; }
        let k = sup.len() - 1;
        let d: Vec<D<R>> = (0..=k).map(|i| D::from_sp(&c.d_matrix(i as isize))).collect();
        let n = d.iter().map(|m| m.c).collect();
        Some(Cx { k, n, d })
    }
    fn is_complex(&self) -> bool { (1..self.k).all(|i| self.d[i].mul(&self.d[i + 1]).is_zero()) }
    fn dims_txt(&self) -> String { self.n.iter().map(|x| x.to_string()).collect::<Vec<_>>().join(" ") }
    fn has_unit(&self) -> bool { self.d.iter().any(|m| m.has_unit()) }
    fn summary(&self) -> String { format!("{} k={} n=[{}]", R::TAG, self.k, self.dims_txt()) }
    fn full_txt(&self) -> String {
        let mut s = format!("{} {} {}", R::TAG, self.k, self.dims_txt());
        for i in 1..=self.k { self.d[i].push_txt(&mut s); }
        s
    }
}

// ---------------------------------------------------------------------------------------------------------
// generators
// ---------------------------------------------------------------------------------------------------------

/// random invertible matrix with its inverse (product of elementary operations)
fn rand_inv<R>(r: &mut Rng, n: usize, ops: usize) -> (D<R>, D<R>)
where R: Sc, for<'x> &'x R: RingOps<R> {
    let mut p = D::<R>::id(n);
    let mut q = D::<R>::id(n);
    if n < 2 {
        if n == 1 && r.bool() { p.set(0, 0, -R::one()); q.set(0, 0, -R::one()); }
        return (p, q);
    }
    for _ in 0..ops {
        let i = r.below(n as u64) as usize;
        let mut j = r.below(n as u64 - 1) as usize;
        if j >= i { j += 1; }
        match r.below(4) {
            0 => { // swap rows i,j of p ; swap columns i,j of q
                for c in 0..n { let (x, y) = (p.at(i, c).clone(), p.at(j, c).clone()); p.set(i, c, y); p.set(j, c, x); }
                for c in 0..n { let (x, y) = (q.at(c, i).clone(), q.at(c, j).clone()); q.set(c, i, y); q.set(c, j, x); }
            }
            1 => { // negate row i ; negate column i
                for c in 0..n { let x = -p.at(i, c).clone(); p.set(i, c, x); }
                for c in 0..n { let x = -q.at(c, i).clone(); q.set(c, i, x); }
            }
            _ => { // row_i += m row_j  (E = 1 + m e_ij);  q <- q E^-1 : col_j -= m col_i
                let m = R::mult(r);
                for c in 0..n { let x = p.at(i, c) + &(&m * p.at(j, c)); p.set(i, c, x); }
                for c in 0..n { let x = q.at(c, j) - &(q.at(c, i) * &m); q.set(c, j, x); }
            }
        }
    }
    (p, q)
}

/// conjugate of a direct sum of elementary complexes `R --λ--> R` and free summands
fn gen_planted<R>(r: &mut Rng, k: usize, maxpairs: usize, maxfree: usize, dense: bool) -> Cx<R>
where R: Sc, for<'x> &'x R: RingOps<R> {
    // a[i] = number of pairs C_i -> C_{i-1}  (a[0] = 0, a[k+1] = 0)
    let mut a = vec![0usize; k + 2];
    for i in 1..=k { a[i] = r.below(maxpairs as u64 + 1) as usize; }
    let h: Vec<usize> = (0..=k).map(|_| if r.chance(1, 3) { 0 } else { r.below(maxfree as u64 + 1) as usize }).collect();
    let n: Vec<usize> = (0..=k).map(|i| a[i] + a[i + 1] + h[i]).collect();
    let mut d = vec![D::<R>::zero(0, n[0])];
    for i in 1..=k {
        let mut m = D::<R>::zero(n[i - 1], n[i]);
        for j in 0..a[i] { m.set(a[i - 1] + j, j, R::lambda(r)); }
        d.push(m);
    }
    let conj: Vec<(D<R>, D<R>)> = (0..=k).map(|i| {
        let ops = if dense { 3 * n[i] } else { r.below(n[i] as u64 + 1) as usize };
        rand_inv::<R>(r, n[i], ops)
    }).collect();
    for i in 1..=k { d[i] = conj[i - 1].0.mul(&d[i]).mul(&conj[i].1); }
    Cx { k, n, d }
}

/// simplicial complex generated by random facets on `v` vertices, truncated/padded to length `k`
fn gen_simplicial<R>(r: &mut Rng, v: usize, k: usize, facets: usize) -> Cx<R>
where R: Sc, for<'x> &'x R: RingOps<R> {
    use std::collections::BTreeSet;
    let mut simp: Vec<BTreeSet<Vec<usize>>> = vec![BTreeSet::new(); k + 1];
    for _ in 0..facets {
        let size = 1 + r.below((k as u64 + 1).min(v as u64)) as usize;
        let mut vs: Vec<usize> = (0..v).collect();
        r.shuffle(&mut vs);
        let mut f: Vec<usize> = vs[..size].to_vec();
        f.sort();
        // all non-empty faces
        for mask in 1u32..(1 << size) {
            let g: Vec<usize> = (0..size).filter(|b| mask >> b & 1 == 1).map(|b| f[b]).collect();
            simp[g.len() - 1].insert(g);
        }
    }
    let lists: Vec<Vec<Vec<usize>>> = simp.into_iter().map(|s| s.into_iter().collect()).collect();
    let n: Vec<usize> = lists.iter().map(|l| l.len()).collect();
    let mut d = vec![D::<R>::zero(0, n[0])];
    for i in 1..=k {
        let mut m = D::<R>::zero(n[i - 1], n[i]);
        for (j, s) in lists[i].iter().enumerate() {
            for t in 0..s.len() {
                let mut f = s.clone();
                f.remove(t);
                let row = lists[i - 1].binary_search(&f).unwrap();
                m.set(row, j, if t % 2 == 0 { R::one() } else { -R::one() });
            }
        }
        d.push(m);
    }
    Cx { k, n, d }
}

fn builtin<R>(which: usize) -> (String, Option<Cx<R>>)
where R: Sc, for<'x> &'x R: RingOps<R> {
    type G<R> = GenericChainComplex<R>;
    let (name, c) = match which {
        0 => ("one", G::<R>::one()),
        1 => ("one_one(1)", G::<R>::one_one(R::one())),
        2 => ("one_one(2)", G::<R>::one_one(R::from_i(2))),
        3 => ("two_one(1,-1)", G::<R>::two_one(R::one(), -R::one())),
        4 => ("one_two(1,-1)", G::<R>::one_two(R::one(), -R::one())),
        5 => ("two_one(2,3)", G::<R>::two_one(R::from_i(2), R::from_i(3))),
        6 => ("d3", G::<R>::d3()),
        7 => ("s2", G::<R>::s2()),
        8 => ("rp2", G::<R>::rp2()),
        _ => ("t2", G::<R>::t2()),
    };
    (name.to_string(), Cx::from_lib(&c))
}

// ---------------------------------------------------------------------------------------------------------
// running the real reducer
// ---------------------------------------------------------------------------------------------------------

#[derive(Clone, Debug)]
enum Step { Spec(usize, PivotType, PivotCondition), At(usize, bool), All(bool) }

#[derive(Clone, Debug)]
enum Mode {
    /// `ChainReducer::reduce(&c, with_trans)`
    Reduce,
    /// `from` + tracked vectors + scripted steps
    Script(Vec<Step>),
    /// `ChainComplexBase::reduced()`
    ReducedApi,
}

#[derive(Clone)]
struct Run<R> { mode: Mode, with_trans: bool, threads: usize, vecs: Vec<Vec<Vec<R>>> }

struct Out<R> {
    m: Vec<usize>,
    d: Vec<D<R>>,                 // reduced differentials, d[0] = 0 × m[0]
    f: Option<Vec<D<R>>>,
    b: Option<Vec<D<R>>>,
    vecs: Vec<Vec<Vec<R>>>,
}

fn pt_txt(t: PivotType) -> &'static str { match t { PivotType::Rows => "R", PivotType::Cols => "C" } }
fn pc_txt(c: PivotCondition) -> String { match c { PivotCondition::One => "one".into(), PivotCondition::AnyUnit => "unit".into(), PivotCondition::Weight(w) => format!("w{}", w) } }

impl<R> Run<R> {
    fn txt(&self) -> String {
        let m = match &self.mode {
            Mode::Reduce => "reduce".to_string(),
            Mode::ReducedApi => "reduced()".to_string(),
            Mode::Script(s) => s.iter().map(|st| match st {
                Step::Spec(i, t, c) => format!("spec({},{},{})", i, pt_txt(*t), pc_txt(*c)),
                Step::At(i, deep) => format!("at({},{})", i, if *deep { "deep" } else { "shallow" }),
                Step::All(deep) => format!("all({})", if *deep { "deep" } else { "shallow" }),
            }).collect::<Vec<_>>().join(";"),
        };
        format!("{} trans={} threads={} vecs=[{}]", m, self.with_trans, self.threads,
            self.vecs.iter().map(|v| v.len().to_string()).collect::<Vec<_>>().join(","))
    }
}

fn execute<R>(c: &Cx<R>, run: &Run<R>) -> Out<R>
where R: Sc, for<'x> &'x R: RingOps<R> {
    let k = c.k;
    let lib = c.to_lib();
    if let Mode::ReducedApi = run.mode {
        let red = lib.reduced();
        let d: Vec<D<R>> = (0..=k).map(|i| D::from_sp(&red.d_matrix(i as isize))).collect();
        let m: Vec<usize> = (0..=k).map(|i| red[i as isize].rank()).collect();
        let f = (0..=k).map(|i| D::from_sp(&red[i as isize].trans().forward_mat())).collect();
        let b = (0..=k).map(|i| D::from_sp(&red[i as isize].trans().backward_mat())).collect();
        return Out { m, d, f: Some(f), b: Some(b), vecs: vec![vec![]; k + 1] };
    }
    let red = match &run.mode {
        Mode::Reduce => ChainReducer::reduce(&lib, run.with_trans),
        Mode::Script(steps) => {
            let mut red = ChainReducer::from(&lib, run.with_trans);
            for (i, vs) in run.vecs.iter().enumerate() {
                for v in vs {
                    let sv = SpVec::from_entries(c.n[i], v.iter().cloned().enumerate().filter(|(_, x)| !x.is_zero()));
                    red.add_vec(i as isize, sv);
                }
            }
            for st in steps {
                match st {
                    Step::Spec(i, t, cond) => { red.reduce_at_spec(*i as isize, *t, *cond); }
                    Step::At(i, deep) => red.reduce_at(*i as isize, *deep),
                    Step::All(deep) => red.reduce_all(*deep),
                }
            }
            red
        }
        Mode::ReducedApi => unreachable!(),
    };
    let d: Vec<D<R>> = (0..=k).map(|i| D::from_sp(red.matrix(i as isize).unwrap())).collect();
    let m: Vec<usize> = d.iter().map(|x| x.c).collect();
    let (f, b) = if run.with_trans {
        (Some((0..=k).map(|i| D::from_sp(&red.trans(i as isize).unwrap().forward_mat())).collect()),
         Some((0..=k).map(|i| D::from_sp(&red.trans(i as isize).unwrap().backward_mat())).collect()))
    } else { (None, None) };
    let vecs = (0..=k).map(|i| red.vecs(i as isize).map(|vs| vs.iter().map(|v| v.to_dense()).collect()).unwrap_or_default()).collect();
    Out { m, d, f, b, vecs }
}

// ---------------------------------------------------------------------------------------------------------
// oracle (naive) — same clause order as the Lean checker's `firstFail`
// ---------------------------------------------------------------------------------------------------------

struct Data<R> { c: Cx<R>, m: Vec<usize>, d: Vec<D<R>>, f: Vec<D<R>>, b: Vec<D<R>>, v: Vec<D<R>>, vr: Vec<D<R>> }

fn shapes_ok<R>(x: &Data<R>) -> Option<String>
where R: Sc, for<'x> &'x R: RingOps<R> {
    let k = x.c.k;
    for i in 0..=k {
        if i >= 1 && (x.d[i].r, x.d[i].c) != (x.m[i - 1], x.m[i]) { return Some(format!("shape d'@{}: {}x{} vs m=({},{})", i, x.d[i].r, x.d[i].c, x.m[i - 1], x.m[i])); }
        if (x.f[i].r, x.f[i].c) != (x.m[i], x.c.n[i]) { return Some(format!("shape F@{}: {}x{} expected {}x{}", i, x.f[i].r, x.f[i].c, x.m[i], x.c.n[i])); }
        if (x.b[i].r, x.b[i].c) != (x.c.n[i], x.m[i]) { return Some(format!("shape B@{}: {}x{} expected {}x{}", i, x.b[i].r, x.b[i].c, x.c.n[i], x.m[i])); }
        if x.vr[i].r != x.m[i] || x.vr[i].c != x.v[i].c { return Some(format!("shape V'@{}", i)); }
    }
    None
}

/// all failing clauses (name@degree) in checker order
fn failing<R>(x: &Data<R>) -> Vec<String>
where R: Sc, for<'x> &'x R: RingOps<R> {
    let k = x.c.k;
    let mut bad = vec![];
    for i in 1..k { if !x.c.d[i].mul(&x.c.d[i + 1]).is_zero() { bad.push(format!("in@{}", i)); } }
    for i in 1..k { if !x.d[i].mul(&x.d[i + 1]).is_zero() { bad.push(format!("dd@{}", i)); } }
    for i in 1..=k { if x.f[i - 1].mul(&x.c.d[i]) != x.d[i].mul(&x.f[i]) { bad.push(format!("Fd@{}", i)); } }
    for i in 1..=k { if x.c.d[i].mul(&x.b[i]) != x.b[i - 1].mul(&x.d[i]) { bad.push(format!("dB@{}", i)); } }
    for i in 0..=k { if !x.f[i].mul(&x.b[i]).is_id() { bad.push(format!("FB@{}", i)); } }
    for i in 0..=k { if x.f[i].mul(&x.v[i]) != x.vr[i] { bad.push(format!("Fv@{}", i)); } }
    bad
}

fn red_line<R>(x: &Data<R>) -> String
where R: Sc, for<'x> &'x R: RingOps<R> {
    let k = x.c.k;
    let mut s = format!("red {} {} {}", R::TAG, k, x.c.dims_txt());
    for v in &x.m { s.push(' '); s.push_str(&v.to_string()); }
    for v in &x.v { s.push(' '); s.push_str(&v.c.to_string()); }
    for i in 1..=k { x.c.d[i].push_txt(&mut s); }
    for i in 1..=k { x.d[i].push_txt(&mut s); }
    for i in 0..=k { x.f[i].push_txt(&mut s); }
    for i in 0..=k { x.b[i].push_txt(&mut s); }
    for i in 0..=k { x.v[i].push_txt(&mut s); }
    for i in 0..=k { x.vr[i].push_txt(&mut s); }
    s
}

// ---------------------------------------------------------------------------------------------------------
// one case
// ---------------------------------------------------------------------------------------------------------

struct Pools { p: Vec<(usize, Arc<rayon::ThreadPool>)> }
impl Pools {
    fn new() -> Self {
        Pools { p: [1usize, 2, 4, 16].iter().map(|&t| (t, Arc::new(rayon::ThreadPoolBuilder::new().num_threads(t).build().unwrap()))).collect() }
    }
    fn get(&self, t: usize) -> Arc<rayon::ThreadPool> { self.p.iter().find(|x| x.0 == t).unwrap().1.clone() }
}

fn rand_cond(r: &mut Rng) -> PivotCondition {
    match r.below(6) {
        0 | 1 => PivotCondition::One,
        2 | 3 => PivotCondition::AnyUnit,
        _ => PivotCondition::Weight(*r.pick(&[0.5, 1.0, 2.0, 3.0, 100.0])),
    }
}
fn rand_type(r: &mut Rng) -> PivotType { if r.bool() { PivotType::Rows } else { PivotType::Cols } }

fn rand_script(r: &mut Rng, k: usize) -> Vec<Step> {
    let mut s = vec![];
    match r.below(5) {
        0 => { // single step of one strategy
            s.push(Step::Spec(r.below(k as u64 + 1) as usize, rand_type(r), rand_cond(r)));
        }
        1 => { // one strategy in every degree, random order
            let (t, c) = (rand_type(r), rand_cond(r));
            let mut degs: Vec<usize> = (0..=k).collect();
            r.shuffle(&mut degs);
            for i in degs { s.push(Step::Spec(i, t, c)); }
        }
        2 => { // shallow / deep passes
            s.push(Step::All(false));
            if r.bool() { s.push(Step::All(true)); }
        }
        3 => { s.push(Step::All(true)); }
        _ => { // mixed random walk
            let len = 1 + r.below(2 * k as u64 + 3) as usize;
            for _ in 0..len {
                let i = r.below(k as u64 + 1) as usize;
                match r.below(4) {
                    0 => s.push(Step::At(i, r.bool())),
                    _ => s.push(Step::Spec(i, rand_type(r), rand_cond(r))),
                }
            }
        }
    }
    s
}

fn rand_vecs<R>(r: &mut Rng, c: &Cx<R>, chain: bool) -> Vec<Vec<Vec<R>>>
where R: Sc, for<'x> &'x R: RingOps<R> {
    let k = c.k;
    let mut vs: Vec<Vec<Vec<R>>> = vec![vec![]; k + 1];
    for i in 0..=k {
        if c.n[i] == 0 || r.chance(1, 3) { continue; }
        let cnt = 1 + r.below(2) as usize;
        for _ in 0..cnt {
            let v: Vec<R> = (0..c.n[i]).map(|_| if r.chance(1, 2) { R::zero() } else { R::mult(r) }).collect();
            vs[i].push(v);
        }
    }
    if chain {
        // also track d v in the degree below, right after the copies of v: (d v)' must be d' v'
        for i in (1..=k).rev() {
            let dv: Vec<Vec<R>> = vs[i].iter().map(|v| c.d[i].mul(&D::from_cols(c.n[i], &[v.clone()])).col(0)).collect();
            vs[i - 1].extend(dv);
        }
    }
    vs
}

struct Ctx<'a> { s: &'a mut Sink, pools: &'a Pools, thorough: bool }

fn run_case<R>(ctx: &mut Ctx, r: &mut Rng, family: &str, c: &Cx<R>, run: &Run<R>)
where R: Sc, for<'x> &'x R: RingOps<R> {
    let desc = format!("[{}] {} | {} | complex: {}", family, c.summary(), run.txt(), trunc(&c.full_txt(), 1500));
    let s = &mut *ctx.s;
    s.count(&format!("ring.{}", R::TAG));
    s.count(&format!("family.{}", family));
    s.count(&format!("len.{}", c.k));
    s.count(&format!("threads.{}", run.threads));
    s.count(&format!("trans.{}", run.with_trans));
    match &run.mode {
        Mode::Reduce => s.count("mode.reduce"),
        Mode::ReducedApi => s.count("mode.reduced_api"),
        Mode::Script(st) => {
            s.count("mode.script");
            for x in st { match x {
                Step::Spec(_, t, c) => { s.count(&format!("spec.{}.{}", pt_txt(*t), match c { PivotCondition::One => "one", PivotCondition::AnyUnit => "unit", PivotCondition::Weight(_) => "weight" })); }
                Step::At(_, deep) => s.count(if *deep { "at.deep" } else { "at.shallow" }),
                Step::All(deep) => s.count(if *deep { "all.deep" } else { "all.shallow" }),
            } }
        }
    }
    let pool = ctx.pools.get(run.threads);
    let out = match guard(|| pool.install(|| execute(c, run))) {
        Some(o) => o,
        None => {
            s.oracle(false, "the reducer panicked on a valid chain complex", &desc, "panic");
            s.eval_only(&desc, true);
            return;
        }
    };
    let k = c.k;
    let reduced_any = (0..=k).any(|i| out.m[i] < c.n[i]);
    if reduced_any { s.count("outcome.reduced"); } else { s.count("outcome.unchanged"); }
    let nontrivial = reduced_any;
    let n_tracked: usize = run.vecs.iter().map(|v| v.len()).sum();
    if n_tracked > 0 { s.count("with_vecs"); }

    // ranks never grow, shapes of the reduced differentials fit
    let ranks_ok = (0..=k).all(|i| out.m[i] <= c.n[i]) && (1..=k).all(|i| (out.d[i].r, out.d[i].c) == (out.m[i - 1], out.m[i]));
    s.oracle(ranks_ok, "reduced differentials have consistent shapes", &desc, &format!("m={:?}", out.m));
    if !ranks_ok { s.eval_only(&desc, true); return; }

    let red_cx = Cx { k, n: out.m.clone(), d: out.d.clone() };
    let dd_ok = red_cx.is_complex();
    s.oracle(dd_ok, "the reduced differentials square to zero", &desc, "d'd' != 0");

    // tracked vectors: count preserved
    let vec_cnt_ok = (0..=k).all(|i| out.vecs[i].len() == run.vecs[i].len() && out.vecs[i].iter().all(|v| v.len() == out.m[i]));
    if !matches!(run.mode, Mode::ReducedApi) {
        s.oracle(vec_cnt_ok, "tracked vectors keep their number and live in the reduced module", &desc, "");
    }

    // homology (library) over PIDs
    let (h0, h1) = if R::PID && dd_ok {
        let h0 = guard(|| R::lib_homology(c)).flatten();
        let h1 = guard(|| R::lib_homology(&red_cx)).flatten();
        let ok = h0.is_some() && h0 == h1;
        s.oracle(ok, "homology of the reduced complex equals homology of the original (library homology)", &desc,
            &format!("original {:?} reduced {:?}", h0, h1));
        (h0, h1)
    } else { (None, None) };
    let hs = |h: &Option<String>| h.clone().unwrap_or_else(|| "?".into());

    match (&out.f, &out.b) {
        (Some(f), Some(b)) => {
            let v: Vec<D<R>> = (0..=k).map(|i| D::from_cols(c.n[i], &run.vecs[i])).collect();
            let vr: Vec<D<R>> = (0..=k).map(|i| if vec_cnt_ok { D::from_cols(out.m[i], &out.vecs[i]) } else { D::zero(out.m[i], run.vecs[i].len()) }).collect();
            let data = Data { c: c.clone(), m: out.m.clone(), d: out.d.clone(), f: f.clone(), b: b.clone(), v, vr };
            if let Some(e) = shapes_ok(&data) {
                s.oracle(false, "transfer maps have the shapes reduced x original / original x reduced", &desc, &e);
                s.eval_only(&desc, true);
                return;
            }
            let bad = failing(&data);
            let has = |p: &str| bad.iter().any(|b| b.starts_with(p));
            s.oracle(!has("Fd@"), "forward maps commute with the differentials (F d = d' F)", &desc, &bad.join(" "));
            s.oracle(!has("dB@"), "backward maps commute with the differentials (d B = B d')", &desc, &bad.join(" "));
            s.oracle(!has("FB@"), "forward after backward is the identity of the reduced complex (F B = 1)", &desc, &bad.join(" "));
            s.oracle(!has("Fv@"), "tracked vectors are transported by the forward map (v' = F v)", &desc, &bad.join(" "));
            // Lean: verified checker + independent homology
            let line = red_line(&data);
            let hpart = if R::PID { format!("H={}|{}", hs(&h0), hs(&h1)) } else { "H=-".to_string() };
            let verdict = match bad.first() { None => "ok".to_string(), Some(b) => format!("fail:{}", b) };
            s.case(&line, &format!("{} {}", verdict, hpart), nontrivial);
            // checker self-test: corrupt one entry of F / B / V' (the verdict of the naive oracle is the expected reply)
            if bad.is_empty() && r.chance(if ctx.thorough { 1 } else { 1 }, 3) {
                let mut mdata = Data { c: data.c.clone(), m: data.m.clone(), d: data.d.clone(), f: data.f.clone(), b: data.b.clone(), v: data.v.clone(), vr: data.vr.clone() };
                let i = r.below(k as u64 + 1) as usize;
                let which = r.below(3);
                let tgt = match which { 0 => &mut mdata.f[i], 1 => &mut mdata.b[i], _ => &mut mdata.vr[i] };
                if !tgt.a.is_empty() {
                    let p = r.below(tgt.a.len() as u64) as usize;
                    tgt.a[p] = &tgt.a[p] + &R::one();
                    let mbad = failing(&mdata);
                    let verdict = match mbad.first() { None => "ok".to_string(), Some(b) => format!("fail:{}", b) };
                    s.count(if mbad.is_empty() { "selftest.undetectable" } else { "selftest.detected" });
                    s.case(&red_line(&mdata), &format!("{} {}", verdict, hpart), true);
                }
            }
        }
        _ => {
            // no transfer maps: vectors come in pairs (v, d v); F is a chain map, so (d v)' = d' v'
            if vec_cnt_ok && n_tracked > 0 {
                let mut ok = true;
                let mut detail = String::new();
                for i in 1..=k {
                    let cnt_i = run.vecs[i].len();
                    let off = run.vecs[i - 1].len() - cnt_i;
                    for j in 0..cnt_i {
                        let lhs = out.d[i].mul(&D::from_cols(out.m[i], &[out.vecs[i][j].clone()])).col(0);
                        if lhs != out.vecs[i - 1][off + j] { ok = false; detail = format!("degree {} vector {}", i, j); }
                    }
                }
                s.oracle(ok, "tracked vectors are transported by a chain map ((d v)' = d' v')", &desc, &detail);
            }
            if R::PID && dd_ok {
                let line = format!("hom {}", c.full_txt());
                s.case(&line, &hs(&h1), nontrivial);
            } else {
                s.eval_only(&desc, nontrivial);
            }
        }
    }
}

fn rand_run<R>(r: &mut Rng, c: &Cx<R>) -> Run<R>
where R: Sc, for<'x> &'x R: RingOps<R> {
    let threads = *r.pick(&[1usize, 2, 4, 16]);
    match r.below(10) {
        0 => Run { mode: Mode::Reduce, with_trans: true, threads, vecs: vec![vec![]; c.k + 1] },
        1 => Run { mode: Mode::ReducedApi, with_trans: true, threads, vecs: vec![vec![]; c.k + 1] },
        2 => Run { mode: Mode::Reduce, with_trans: false, threads, vecs: vec![vec![]; c.k + 1] },
        3 | 4 => { // scripted, no transfer maps, chained vectors
            let vecs = rand_vecs(r, c, true);
            Run { mode: Mode::Script(rand_script(r, c.k)), with_trans: false, threads, vecs }
        }
        _ => {
            let vecs = if r.chance(1, 3) { vec![vec![]; c.k + 1] } else { rand_vecs(r, c, false) };
            Run { mode: Mode::Script(rand_script(r, c.k)), with_trans: true, threads, vecs }
        }
    }
}

fn all_threads_case<R>(ctx: &mut Ctx, r: &mut Rng, family: &str, c: &Cx<R>)
where R: Sc, for<'x> &'x R: RingOps<R> {
    // the same scripted run under every pool: each result must satisfy the identities
    let script = rand_script(r, c.k);
    let vecs = rand_vecs(r, c, false);
    for t in [1usize, 2, 4, 16] {
        let run = Run { mode: Mode::Script(script.clone()), with_trans: true, threads: t, vecs: vecs.clone() };
        run_case(ctx, r, family, c, &run);
    }
}

fn ring_stream<R>(ctx: &mut Ctx, r: &mut Rng, cases: usize)
where R: Sc, for<'x> &'x R: RingOps<R> {
    let thorough = ctx.thorough;
    // built-in samples under the default strategy and one scripted run each
    for w in 0..10 {
        let (name, c) = builtin::<R>(w);
        let Some(c) = c else { continue };
        if !thorough && w == 9 && R::TAG == "Q" { continue; } // t2 over Q is slowish in the Lean rational checker
        let fam = format!("builtin:{}", name);
        ctx.s.count("builtin");
        for mode in [Mode::Reduce, Mode::ReducedApi] {
            let run = Run { mode, with_trans: true, threads: *r.pick(&[1usize, 2, 4, 16]), vecs: vec![vec![]; c.k + 1] };
            run_case(ctx, r, "builtin", &c, &run);
        }
        let run = rand_run(r, &c);
        run_case(ctx, r, "builtin", &c, &run);
        let _ = fam;
    }
    for it in 0..cases {
        let k = 1 + r.below(6) as usize;
        let (family, c) = match r.below(10) {
            0 | 1 | 2 => {
                let v = 3 + r.below(if thorough { 5 } else { 4 }) as usize;
                let kk = k.min(v - 1).min(if thorough { 6 } else { 4 });
                { let nf = 1 + r.below(4) as usize; ("simplicial", gen_simplicial::<R>(r, v, kk, nf)) }
            }
            3 => ("planted-dense", gen_planted::<R>(r, k, if thorough { 3 } else { 2 }, 2, true)),
            _ => ("planted", gen_planted::<R>(r, k, if thorough { 5 } else { 3 }, if thorough { 3 } else { 2 }, false)),
        };
        if !c.is_complex() {
            ctx.s.oracle(false, "HARNESS BUG: generated differentials do not square to zero", &c.full_txt(), "");
            continue;
        }
        if c.has_unit() { ctx.s.count("input.has_unit"); } else { ctx.s.count("input.no_unit"); }
        let total: usize = c.n.iter().sum();
        ctx.s.count(&format!("size.{}", match total { 0..=5 => "0-5", 6..=15 => "6-15", 16..=40 => "16-40", _ => "41+" }));
        if it % 8 == 0 {
            all_threads_case(ctx, r, family, &c);
        } else {
            let run = rand_run(r, &c);
            run_case(ctx, r, family, &c, &run);
        }
    }
}

fn boundary(ctx: &mut Ctx) {
    // the zero complex (empty support) and complexes with 0-dimensional modules
    let ok = guard(|| {
        let c = GenericChainComplex::<i64>::zero();
        let r = ChainReducer::reduce(&c, true);
        r.is_done()
    });
    ctx.s.oracle(ok == Some(true), "reducing the zero complex succeeds and is done", "GenericChainComplex::<i64>::zero()", &format!("{:?}", ok));
    ctx.s.eval_only("zero complex", false);
    let mut r = Rng::new(0xC08);
    for (n, lam) in [(vec![0usize, 0], vec![]), (vec![1, 0], vec![]), (vec![0, 1], vec![]), (vec![1, 1], vec![1i64]), (vec![1, 1], vec![0]), (vec![1, 1], vec![2]), (vec![2, 2, 2], vec![1, -1, 1, 1])] {
        let k = n.len() - 1;
        let mut d = vec![D::<i64>::zero(0, n[0])];
        for i in 1..=k { d.push(D::zero(n[i - 1], n[i])); }
        if n == vec![1, 1] { d[1].set(0, 0, lam[0]); }
        if n == vec![2, 2, 2] { // d1 = [[1,-1],[1,-1]] d2 = [[1,1],[1,1]] : d1 d2 = 0
            d[1] = D { r: 2, c: 2, a: vec![1, -1, 1, -1] };
            d[2] = D { r: 2, c: 2, a: vec![1, 1, 1, 1] };
        }
        let c = Cx { k, n: n.clone(), d };
        for mode in [Mode::Reduce, Mode::ReducedApi, Mode::Script(vec![Step::Spec(1, PivotType::Rows, PivotCondition::One)]), Mode::Script(vec![Step::Spec(0, PivotType::Cols, PivotCondition::AnyUnit), Step::All(true)])] {
            let run = Run { mode, with_trans: true, threads: 1, vecs: vec![vec![]; k + 1] };
            run_case(ctx, &mut r, "boundary", &c, &run);
        }
    }
}

fn main() {
    let args = Args::parse();
    quiet_panics();
    let mut sink = Sink::new(&args, "nontrivial = the reducer removed at least one generator in some degree");
    let pools = Pools::new();
    let mut rng = Rng::new(args.seed);
    let thorough = args.thorough();
    let mut ctx = Ctx { s: &mut sink, pools: &pools, thorough };
    boundary(&mut ctx);
    let base = if thorough { 1500 } else { 150 };
    let mut r = rng.fork(); ring_stream::<i64>(&mut ctx, &mut r, base * 2);
    let mut r = rng.fork(); ring_stream::<Ratio<i64>>(&mut ctx, &mut r, base / 2);
    let mut r = rng.fork(); ring_stream::<FF2>(&mut ctx, &mut r, base);
    let mut r = rng.fork(); ring_stream::<FF<3>>(&mut ctx, &mut r, base);
    let mut r = rng.fork(); ring_stream::<ZH>(&mut ctx, &mut r, base);
    sink.finish();
}
