//! C13 — sparse / dense matrix containers and `Trans` vs. naive dense arithmetic (oracle) vs. the Lean
//! code model (through request lines).
//!
//! A request is `<ring> <program>`; the program is a postfix stack program (see `lean/Yuiv/Drv/C13.lean`).
//! Three interpreters run it: the real library (`istep`), a naive `Vec<Vec<R>>` evaluator that only knows
//! the mathematical definitions (`nstep`, the property's oracle) and the Lean model (via `Sink::case`).
use yui::{Ratio, Ring, RingOps, FF};
use yui_matrix::dense::{Mat, MatTrait};
use yui_matrix::sparse::pivot::perms_by_pivots;
use yui_matrix::sparse::{SpMat, SpVec, Trans};
use yv::rings::Txt;
use yv::*;

// ---------------------------------------------------------------------------------------------------
// scalars

trait Sc: Ring + Txt + Clone
where for<'x> &'x Self: RingOps<Self> {
    const TAG: &'static str;
    fn gen(r: &mut Rng) -> Self;
    fn small(r: &mut Rng) -> Self; // for transform factors: 0, ±1, 2, (1/2)
    fn lit(&self) -> String;
    fn parse(s: &str) -> Self;
    fn mag_ok(&self) -> bool;
}

impl Sc for i64 {
    const TAG: &'static str = "Z";
    fn gen(r: &mut Rng) -> Self { if r.chance(1, 8) { 0 } else { let x = r.range(1, 4); if r.bool() { x } else { -x } } }
    fn small(r: &mut Rng) -> Self { *r.pick(&[1, 1, -1, 2, 1, -1]) }
    fn lit(&self) -> String { self.to_string() }
    fn parse(s: &str) -> Self { s.parse().unwrap() }
    fn mag_ok(&self) -> bool { self.abs() <= 1 << 20 }
}

impl Sc for Ratio<i64> {
    const TAG: &'static str = "Q";
    fn gen(r: &mut Rng) -> Self {
        if r.chance(1, 8) { return Ratio::new(0, 1); }
        let n = r.range(1, 4); let n = if r.bool() { n } else { -n };
        Ratio::new(n, *r.pick(&[1, 1, 2, 4]))
    }
    fn small(r: &mut Rng) -> Self { let (n, d) = *r.pick(&[(1, 1), (1, 1), (-1, 1), (2, 1), (1, 2), (-1, 2)]); Ratio::new(n, d) }
    // literals are written unreduced / with negative denominators now and then: `Ratio::new` must normalise
    fn lit(&self) -> String { format!("{}/{}", self.numer(), self.denom()) }
    fn parse(s: &str) -> Self { let (n, d) = s.split_once('/').unwrap(); Ratio::new(n.parse().unwrap(), d.parse().unwrap()) }
    fn mag_ok(&self) -> bool { self.numer().abs() <= 1 << 10 && *self.denom() <= 1 << 7 && *self.denom() > 0 }
}

impl Sc for FF<3> {
    const TAG: &'static str = "F3";
    fn gen(r: &mut Rng) -> Self { if r.chance(1, 8) { FF::new(0) } else { FF::new(r.range(1, 2) as i32) } }
    fn small(r: &mut Rng) -> Self { FF::new(r.range(1, 2) as i32) }
    fn lit(&self) -> String { self.rep().to_string() }
    fn parse(s: &str) -> Self { FF::new(s.parse().unwrap()) }
    fn mag_ok(&self) -> bool { true }
}

// ---------------------------------------------------------------------------------------------------
// token cursor

struct Cur<'a> { t: &'a [String], i: usize }
impl<'a> Cur<'a> {
    fn next(&mut self) -> &'a str { let s = &self.t[self.i]; self.i += 1; s }
    fn nat(&mut self) -> usize { self.next().parse().unwrap() }
    fn nats(&mut self, k: usize) -> Vec<usize> { (0..k).map(|_| self.nat()).collect() }
    fn sc<R: Sc>(&mut self) -> R where for<'x> &'x R: RingOps<R> { R::parse(self.next()) }
    fn scs<R: Sc>(&mut self, k: usize) -> Vec<R> where for<'x> &'x R: RingOps<R> { (0..k).map(|_| self.sc()).collect() }
    fn done(&self) -> bool { self.i >= self.t.len() }
}

// ---------------------------------------------------------------------------------------------------
// permutations: kept as data on the stack (so values can be cloned / rendered), turned into a
// `sprs::PermOwned` at the use site (`FinitePerm` storage for `P`/`PF` results, `Identity` storage for `PI`).

#[derive(Clone, Debug, PartialEq)]
struct PS { dim: usize, map: Option<Vec<usize>> }
impl PS {
    fn at(&self, i: usize) -> usize { match &self.map { Some(v) => v[i], None => i } }
    fn images(&self) -> Vec<usize> { (0..self.dim).map(|i| self.at(i)).collect() }
}
/// all ownership forms of a binary operator (val∘val, val∘ref, ref∘val, ref∘ref, assign by ref, assign by value), cycled by a
/// global counter so that every form is exercised in every run ("every operation … in every by-value/by-reference form")
static FORM: std::sync::atomic::AtomicUsize = std::sync::atomic::AtomicUsize::new(0);
macro_rules! forms6 {
    ($a:expr, $b:expr, $op:tt, $opa:tt) => {{
        let (a, b) = ($a, $b);
        match FORM.fetch_add(1, std::sync::atomic::Ordering::Relaxed) % 6 {
            0 => a $op b,
            1 => a $op &b,
            2 => &a $op b,
            3 => &a $op &b,
            4 => { let mut x = a; x $opa &b; x }
            _ => { let mut x = a; x $opa b; x }
        }
    }};
}

fn owned_perm(ps: &PS) -> sprs::PermOwned {
    match &ps.map { Some(v) => sprs::PermOwned::new(v.clone()), None => sprs::PermOwned::identity(ps.dim) }
}

// ---------------------------------------------------------------------------------------------------
// values of the real library

enum IV<R: Sc> where for<'x> &'x R: RingOps<R> {
    S(SpMat<R>), V(SpVec<R>), D(Mat<R>), P(PS), T(Trans<R>), B(bool), L(Vec<R>),
}
impl<R: Sc> Clone for IV<R> where for<'x> &'x R: RingOps<R> {
    fn clone(&self) -> Self {
        match self { IV::S(a) => IV::S(a.clone()), IV::V(a) => IV::V(a.clone()), IV::D(a) => IV::D(a.clone()), IV::P(a) => IV::P(a.clone()),
            IV::T(a) => IV::T(a.clone()), IV::B(a) => IV::B(*a), IV::L(a) => IV::L(a.clone()) }
    }
}

fn mat_txt_r<R: Sc>(m: &Mat<R>) -> String where for<'x> &'x R: RingOps<R> { yv::rings::mat_txt(m) }
fn sp_txt<R: Sc>(m: &SpMat<R>) -> String where for<'x> &'x R: RingOps<R> { yv::rings::spmat_txt(m) }

fn irender<R: Sc>(v: &IV<R>) -> String where for<'x> &'x R: RingOps<R> {
    match v {
        IV::S(a) => format!("S {}", sp_txt(a)),
        IV::V(a) => {
            let d = a.clone().into_mat().into_dense();
            let mut s = format!("V {}", a.dim());
            for i in 0..a.dim() { s.push(' '); s.push_str(&d[(i, 0)].txt()); }
            s
        }
        IV::D(a) => format!("D {}", mat_txt_r(a)),
        IV::P(p) => { let mut s = format!("P {}", p.dim); for x in p.images() { s.push_str(&format!(" {}", x)); } s }
        IV::T(t) => format!("T {} {} F {} B {}", t.src_dim(), t.tgt_dim(), sp_txt(&t.forward_mat()), sp_txt(&t.backward_mat())),
        IV::B(b) => format!("B {}", b),
        IV::L(l) => { let mut s = format!("L {}", l.len()); for x in l { s.push(' '); s.push_str(&x.txt()); } s }
    }
}

macro_rules! pop {
    ($st:expr, $var:ident) => { match $st.pop() { Some(IV::$var(x)) => x, _ => panic!("harness: stack type") } };
}

fn perm_of_owned_images(dim: usize, at: impl Fn(usize) -> usize) -> PS { PS { dim, map: Some((0..dim).map(at).collect()) } }

/// one instruction on the real library; panics of the library propagate to the caller's `guard`
fn istep<R: Sc>(op: &str, c: &mut Cur, st: &mut Vec<IV<R>>) where for<'x> &'x R: RingOps<R> {
    match op {
        "dup" => { let x = st.last().unwrap().clone(); st.push(x); }
        "swap" => { let n = st.len(); st.swap(n - 1, n - 2); }
        "over" => { let x = st[st.len() - 2].clone(); st.push(x); }
        "pop" => { st.pop(); }
        "E" => { let (m, n, k) = (c.nat(), c.nat(), c.nat());
            let es: Vec<(usize, usize, R)> = (0..k).map(|_| (c.nat(), c.nat(), c.sc())).collect();
            st.push(IV::S(SpMat::from_entries((m, n), es))); }
        "DD" => { let (m, n) = (c.nat(), c.nat()); let d: Vec<R> = c.scs(m * n); st.push(IV::S(SpMat::from_dense_data((m, n), d))); }
        "Z" => { let (m, n) = (c.nat(), c.nat()); st.push(IV::S(SpMat::zero((m, n)))); }
        "I" => { let n = c.nat(); st.push(IV::S(SpMat::id(n))); }
        "VE" => { let (d, k) = (c.nat(), c.nat()); let es: Vec<(usize, R)> = (0..k).map(|_| (c.nat(), c.sc())).collect(); st.push(IV::V(SpVec::from_entries(d, es))); }
        "VS" => { let (d, k) = (c.nat(), c.nat()); let es: Vec<(usize, R)> = (0..k).map(|_| (c.nat(), c.sc())).collect(); st.push(IV::V(SpVec::from_sorted_entries(d, es))); }
        "VD" => { let d = c.nat(); let es: Vec<R> = c.scs(d); st.push(IV::V(SpVec::from(es))); }
        "VZ" => { let d = c.nat(); st.push(IV::V(SpVec::zero(d))); }
        "VU" => { let (n, i) = (c.nat(), c.nat()); st.push(IV::V(SpVec::unit(n, i))); }
        "M" => { let (m, n) = (c.nat(), c.nat()); let d: Vec<R> = c.scs(m * n); st.push(IV::D(Mat::from_data((m, n), d))); }
        "MZ" => { let (m, n) = (c.nat(), c.nat()); st.push(IV::D(Mat::zero((m, n)))); }
        "MI" => { let n = c.nat(); st.push(IV::D(Mat::id(n))); }
        "MG" => { let (m, n, k) = (c.nat(), c.nat(), c.nat()); let d: Vec<R> = c.scs(k); st.push(IV::D(Mat::diag((m, n), d))); }
        "P" => { let n = c.nat(); let l = c.nats(n); let p = sprs::PermOwned::new(l); st.push(IV::P(perm_of_owned_images(p.dim(), |i| p.at(i)))); }
        "PI" => { let n = c.nat(); st.push(IV::P(PS { dim: n, map: None })); }
        "PF" => { let (m, n, k) = (c.nat(), c.nat(), c.nat()); let ps: Vec<(usize, usize)> = (0..k).map(|_| (c.nat(), c.nat())).collect();
            let (p, q) = perms_by_pivots(&SpMat::<R>::zero((m, n)), &ps);
            st.push(IV::P(perm_of_owned_images(p.dim(), |i| p.at(i)))); st.push(IV::P(perm_of_owned_images(q.dim(), |i| q.at(i)))); }
        "add" => { let b = pop!(st, S); let a = pop!(st, S); st.push(IV::S(forms6!(a, b, +, +=))); }
        "sub" => { let b = pop!(st, S); let a = pop!(st, S); st.push(IV::S(forms6!(a, b, -, -=))); }
        "mul" => { let b = pop!(st, S); let a = pop!(st, S); st.push(IV::S(&a * &b)); }
        "neg" => { let a = pop!(st, S); st.push(IV::S(-&a)); }
        "tr" => { let a = pop!(st, S); st.push(IV::S(a.transpose())); }
        "perm" => { let q = pop!(st, P); let p = pop!(st, P); let a = pop!(st, S); let (po, qo) = (owned_perm(&p), owned_perm(&q)); st.push(IV::S(a.permute(po.view(), qo.view()))); }
        "permr" => { let p = pop!(st, P); let a = pop!(st, S); let po = owned_perm(&p); st.push(IV::S(a.permute_rows(po.view()))); }
        "permc" => { let q = pop!(st, P); let a = pop!(st, S); let qo = owned_perm(&q); st.push(IV::S(a.permute_cols(qo.view()))); }
        "sm" => { let x = c.nats(4); let a = pop!(st, S); st.push(IV::S(a.submat(x[0]..x[1], x[2]..x[3]))); }
        "smr" => { let x = c.nats(2); let a = pop!(st, S); st.push(IV::S(a.submat_rows(x[0]..x[1]))); }
        "smc" => { let x = c.nats(2); let a = pop!(st, S); st.push(IV::S(a.submat_cols(x[0]..x[1]))); }
        "div4" => { let (k, l) = (c.nat(), c.nat()); let a = pop!(st, S); for x in a.divide4((k, l)) { st.push(IV::S(x)); } }
        "comb" => { let d = pop!(st, S); let cc = pop!(st, S); let b = pop!(st, S); let a = pop!(st, S); st.push(IV::S(SpMat::combine_blocks([&a, &b, &cc, &d]))); }
        "cat" => { let b = pop!(st, S); let a = pop!(st, S); st.push(IV::S(a.concat(&b))); }
        "stk" => { let b = pop!(st, S); let a = pop!(st, S); st.push(IV::S(a.stack(&b))); }
        "ext" => { let b = pop!(st, S); let mut a = pop!(st, S); a.extend_cols(b); st.push(IV::S(a)); }
        "rperm" => { let p = pop!(st, P); let po = owned_perm(&p); st.push(IV::S(SpMat::from_row_perm(po.view()))); }
        "cperm" => { let p = pop!(st, P); let po = owned_perm(&p); st.push(IV::S(SpMat::from_col_perm(po.view()))); }
        "colv" => { let j = c.nat(); let a = pop!(st, S); st.push(IV::V(a.col_vec(j))); }
        "fcv" => { let (m, k) = (c.nat(), c.nat()); let mut vs = vec![]; for _ in 0..k { vs.push(pop!(st, V)); } vs.reverse(); st.push(IV::S(SpMat::from_col_vecs(m, vs))); }
        "x0" => { let a = pop!(st, S); let (m, n) = a.shape(); st.push(IV::S(a.extract((n, m), |i, j| Some((j, i))))); }
        "x1" => { let (m1, n1) = (c.nat(), c.nat()); let a = pop!(st, S); st.push(IV::S(a.extract((m1, n1), |i, j| Some((i % m1, j % n1))))); }
        "x2" => { let a = pop!(st, S); let (m, n) = a.shape(); st.push(IV::S(a.extract(((m + 1) / 2, n), |i, j| (i % 2 == 0).then(|| (i / 2, j))))); }
        "dense" => { let a = pop!(st, S); st.push(IV::D(a.into_dense())); }
        "sparse" => { let a = pop!(st, D); st.push(IV::S(a.into_sparse())); }
        "isz" => { let a = pop!(st, S); st.push(IV::B(a.is_zero())); }
        "vadd" => { let b = pop!(st, V); let a = pop!(st, V); st.push(IV::V(forms6!(a, b, +, +=))); }
        "vsub" => { let b = pop!(st, V); let a = pop!(st, V); st.push(IV::V(forms6!(a, b, -, -=))); }
        "vneg" => { let a = pop!(st, V); st.push(IV::V(-&a)); }
        "vperm" => { let p = pop!(st, P); let a = pop!(st, V); let po = owned_perm(&p); st.push(IV::V(a.permute(po.view()))); }
        "vsv" => { let x = c.nats(2); let a = pop!(st, V); st.push(IV::V(a.subvec(x[0]..x[1]))); }
        "vstk" => { let b = pop!(st, V); let a = pop!(st, V); st.push(IV::V(a.stack(&b))); }
        "vspl" => { let k = c.nat(); let a = pop!(st, V); let (x, y) = a.split(k); st.push(IV::V(x)); st.push(IV::V(y)); }
        "vsvs" => { let k = c.nat(); let mut vs = vec![]; for _ in 0..k { vs.push(pop!(st, V)); } vs.reverse(); st.push(IV::V(SpVec::stack_vecs(vs))); }
        "vmat" => { let a = pop!(st, V); st.push(IV::S(a.into_mat())); }
        "mv" => { let v = pop!(st, V); let a = pop!(st, S); st.push(IV::V(&a * &v)); }
        "vx1" => { let d1 = c.nat(); let a = pop!(st, V); st.push(IV::V(a.extract(d1, |i| Some(i % d1)))); }
        "vx2" => { let a = pop!(st, V); let d = a.dim(); st.push(IV::V(a.extract((d + 1) / 2, |i| (i % 2 == 0).then(|| i / 2)))); }
        "vden" => { let a = pop!(st, V); let l1 = a.to_dense(); let l2 = a.into_vec(); if l1 != l2 { panic!("harness: to_dense != into_vec"); } st.push(IV::L(l1)); }
        "visz" => { let a = pop!(st, V); st.push(IV::B(a.is_zero())); }
        "dadd" => { let b = pop!(st, D); let a = pop!(st, D); st.push(IV::D(forms6!(a, b, +, +=))); }
        "dsub" => { let b = pop!(st, D); let a = pop!(st, D); st.push(IV::D(forms6!(a, b, -, -=))); }
        "dmul" => { let b = pop!(st, D); let a = pop!(st, D); st.push(IV::D(&a * &b)); }
        "dneg" => { let a = pop!(st, D); st.push(IV::D(-&a)); }
        "swr" => { let x = c.nats(2); let mut a = pop!(st, D); a.swap_rows(x[0], x[1]); st.push(IV::D(a)); }
        "swc" => { let x = c.nats(2); let mut a = pop!(st, D); a.swap_cols(x[0], x[1]); st.push(IV::D(a)); }
        "mulr" => { let i = c.nat(); let r: R = c.sc(); let mut a = pop!(st, D); a.mul_row(i, &r); st.push(IV::D(a)); }
        "mulc" => { let i = c.nat(); let r: R = c.sc(); let mut a = pop!(st, D); a.mul_col(i, &r); st.push(IV::D(a)); }
        "addr" => { let x = c.nats(2); let r: R = c.sc(); let mut a = pop!(st, D); a.add_row_to(x[0], x[1], &r); st.push(IV::D(a)); }
        "addc" => { let x = c.nats(2); let r: R = c.sc(); let mut a = pop!(st, D); a.add_col_to(x[0], x[1], &r); st.push(IV::D(a)); }
        "lel" => { let r: Vec<R> = c.scs(4); let x = c.nats(2); let mut a = pop!(st, D); a.left_elementary([&r[0], &r[1], &r[2], &r[3]], x[0], x[1]); st.push(IV::D(a)); }
        "rel" => { let r: Vec<R> = c.scs(4); let x = c.nats(2); let mut a = pop!(st, D); a.right_elementary([&r[0], &r[1], &r[2], &r[3]], x[0], x[1]); st.push(IV::D(a)); }
        "dsm" => { let x = c.nats(4); let a = pop!(st, D); st.push(IV::D(a.submat(x[0]..x[1], x[2]..x[3]))); }
        "dsmr" => { let x = c.nats(2); let a = pop!(st, D); st.push(IV::D(a.submat_rows(x[0]..x[1]))); }
        "dsmc" => { let x = c.nats(2); let a = pop!(st, D); st.push(IV::D(a.submat_cols(x[0]..x[1]))); }
        "disz" => { let a = pop!(st, D); st.push(IV::B(a.is_zero())); }
        "disid" => { let a = pop!(st, D); st.push(IV::B(a.is_id())); }
        "disdg" => { let a = pop!(st, D); st.push(IV::B(a.is_diag())); }
        "TI" => { let n = c.nat(); st.push(IV::T(Trans::id(n))); }
        "tnew" => { let b = pop!(st, S); let f = pop!(st, S); st.push(IV::T(Trans::new(f, b))); }
        "tapp" => { let b = pop!(st, S); let f = pop!(st, S); let mut t = pop!(st, T); t.append(f, b); st.push(IV::T(t)); }
        "tperm" => { let p = pop!(st, P); let mut t = pop!(st, T); let po = owned_perm(&p); t.append_perm(po.view()); st.push(IV::T(t)); }
        "tmerge" => { let o = pop!(st, T); let mut t = pop!(st, T);
            // `merge` and `merged` must agree
            let t2 = t.merged(&o); t.merge(o);
            if irender(&IV::T(t2)) != irender(&IV::T(t.clone())) { panic!("harness: merge != merged"); }
            st.push(IV::T(t)); }
        "tsub" => { let k = c.nat(); let idx = c.nats(k); let t = pop!(st, T); st.push(IV::T(t.sub(&idx))); }
        "tred" => { let mut t = pop!(st, T); t.reduce(); st.push(IV::T(t)); }
        "tfwd" => { let v = pop!(st, V); let t = pop!(st, T); let w = t.forward(&v); st.push(IV::T(t)); st.push(IV::V(w)); }
        "tbwd" => { let v = pop!(st, V); let t = pop!(st, T); let w = t.backward(&v); st.push(IV::T(t)); st.push(IV::V(w)); }
        "tfm" => { let t = pop!(st, T); let a = t.forward_mat(); st.push(IV::T(t)); st.push(IV::S(a)); }
        "tbm" => { let t = pop!(st, T); let a = t.backward_mat(); st.push(IV::T(t)); st.push(IV::S(a)); }
        _ => panic!("harness: unknown op {}", op),
    }
}

fn irun<R: Sc>(toks: &[String]) -> Option<String> where for<'x> &'x R: RingOps<R> {
    guard(|| {
        let mut c = Cur { t: toks, i: 0 };
        let mut st: Vec<IV<R>> = vec![];
        while !c.done() { let op = c.next(); istep(op, &mut c, &mut st); }
        st.iter().map(irender).collect::<Vec<_>>().join(";")
    })
}

// ---------------------------------------------------------------------------------------------------
// the oracle: naive dense evaluation by the mathematical definitions (independent of the library kernels)

#[derive(Clone, PartialEq, Debug)]
struct Dn<R> { m: usize, n: usize, a: Vec<Vec<R>> }

fn zero<R: Sc>() -> R where for<'x> &'x R: RingOps<R> { R::zero() }
fn one<R: Sc>() -> R where for<'x> &'x R: RingOps<R> { R::one() }

impl<R: Sc> Dn<R> where for<'x> &'x R: RingOps<R> {
    fn of(m: usize, n: usize, f: impl Fn(usize, usize) -> R) -> Self { Dn { m, n, a: (0..m).map(|i| (0..n).map(|j| f(i, j)).collect()).collect() } }
    fn zeros(m: usize, n: usize) -> Self { Self::of(m, n, |_, _| zero()) }
    fn id(n: usize) -> Self { Self::of(n, n, |i, j| if i == j { one() } else { zero() }) }
    fn add(&self, o: &Self) -> Option<Self> { (self.m == o.m && self.n == o.n).then(|| Self::of(self.m, self.n, |i, j| &self.a[i][j] + &o.a[i][j])) }
    fn sub(&self, o: &Self) -> Option<Self> { (self.m == o.m && self.n == o.n).then(|| Self::of(self.m, self.n, |i, j| &self.a[i][j] - &o.a[i][j])) }
    fn neg(&self) -> Self { Self::of(self.m, self.n, |i, j| -&self.a[i][j]) }
    fn tr(&self) -> Self { Self::of(self.n, self.m, |i, j| self.a[j][i].clone()) }
    fn mul(&self, o: &Self) -> Option<Self> {
        (self.n == o.m).then(|| Self::of(self.m, o.n, |i, j| { let mut s = zero::<R>(); for k in 0..self.n { s = s + &self.a[i][k] * &o.a[k][j]; } s }))
    }
    fn sub_block(&self, i0: usize, i1: usize, j0: usize, j1: usize) -> Option<Self> {
        (i0 <= i1 && i1 <= self.m && j0 <= j1 && j1 <= self.n).then(|| Self::of(i1 - i0, j1 - j0, |i, j| self.a[i0 + i][j0 + j].clone()))
    }
    fn txt(&self) -> String { let mut s = format!("{} {}", self.m, self.n); for r in &self.a { for x in r { s.push(' '); s.push_str(&x.txt()); } } s }
    fn mag_ok(&self) -> bool { self.a.iter().all(|r| r.iter().all(|x| x.mag_ok())) }
    fn col(v: &[R]) -> Self { Self::of(v.len(), 1, |i, _| v[i].clone()) }
    fn is_zero(&self) -> bool { self.a.iter().all(|r| r.iter().all(|x| x.is_zero())) }
}

#[derive(Clone)]
enum NV<R: Sc> where for<'x> &'x R: RingOps<R> {
    S(Dn<R>), V(Vec<R>), D(Dn<R>), P(Vec<usize>),
    /// composite maps kept as plain products of every factor ever appended (never collapsed)
    T { src: usize, tgt: usize, nf: usize, f: Dn<R>, b: Dn<R> },
    B(bool), L(Vec<R>),
}

fn nrender<R: Sc>(v: &NV<R>) -> String where for<'x> &'x R: RingOps<R> {
    match v {
        NV::S(a) => format!("S {}", a.txt()),
        NV::V(a) => { let mut s = format!("V {}", a.len()); for x in a { s.push(' '); s.push_str(&x.txt()); } s }
        NV::D(a) => format!("D {}", a.txt()),
        NV::P(p) => { let mut s = format!("P {}", p.len()); for x in p { s.push_str(&format!(" {}", x)); } s }
        NV::T { src, tgt, f, b, .. } => format!("T {} {} F {} B {}", src, tgt, f.txt(), b.txt()),
        NV::B(b) => format!("B {}", b),
        NV::L(a) => { let mut s = format!("L {}", a.len()); for x in a { s.push(' '); s.push_str(&x.txt()); } s }
    }
}

fn nmag_ok<R: Sc>(v: &NV<R>) -> bool where for<'x> &'x R: RingOps<R> {
    match v {
        NV::S(a) | NV::D(a) => a.mag_ok(),
        NV::V(a) | NV::L(a) => a.iter().all(|x| x.mag_ok()),
        NV::T { f, b, .. } => f.mag_ok() && b.mag_ok(),
        _ => true,
    }
}

fn is_perm(l: &[usize]) -> bool { let n = l.len(); let mut seen = vec![false; n]; for &x in l { if x >= n || seen[x] { return false; } seen[x] = true; } true }

/// permutation placing the listed (distinct, in range) indices first, in order, the others after, ascending
fn perm_for(n: usize, idx: &[usize]) -> Option<Vec<usize>> {
    let mut seen = vec![false; n];
    for &i in idx { if i >= n || seen[i] { return None; } seen[i] = true; }
    let mut order: Vec<usize> = idx.to_vec();
    for i in 0..n { if !seen[i] { order.push(i); } }
    let mut p = vec![0; n];
    for (pos, &i) in order.iter().enumerate() { p[i] = pos; }
    Some(p)
}

macro_rules! npop {
    ($st:expr, $var:ident) => { match $st.pop() { Some(NV::$var(x)) => x, _ => panic!("harness: naive stack type") } };
}

/// one instruction by the definitions; `None` = the operation is not defined for these arguments
fn nstep<R: Sc>(op: &str, c: &mut Cur, st: &mut Vec<NV<R>>) -> Option<()> where for<'x> &'x R: RingOps<R> {
    match op {
        "dup" => { let x = st.last()?.clone(); st.push(x); }
        "swap" => { let n = st.len(); if n < 2 { return None; } st.swap(n - 1, n - 2); }
        "over" => { if st.len() < 2 { return None; } let x = st[st.len() - 2].clone(); st.push(x); }
        "pop" => { st.pop()?; }
        "E" => { let (m, n, k) = (c.nat(), c.nat(), c.nat());
            let mut a = Dn::<R>::zeros(m, n);
            let mut ok = true;
            for _ in 0..k { let (i, j, x): (usize, usize, R) = (c.nat(), c.nat(), c.sc()); if i < m && j < n { a.a[i][j] = &a.a[i][j] + &x; } else { ok = false; } }
            if !ok { return None; }
            st.push(NV::S(a)); }
        "DD" | "M" => { let (m, n) = (c.nat(), c.nat()); let d: Vec<R> = c.scs(m * n); let a = Dn::of(m, n, |i, j| d[i * n + j].clone()); st.push(if op == "DD" { NV::S(a) } else { NV::D(a) }); }
        "Z" => { let (m, n) = (c.nat(), c.nat()); st.push(NV::S(Dn::zeros(m, n))); }
        "MZ" => { let (m, n) = (c.nat(), c.nat()); st.push(NV::D(Dn::zeros(m, n))); }
        "I" => { let n = c.nat(); st.push(NV::S(Dn::id(n))); }
        "MI" => { let n = c.nat(); st.push(NV::D(Dn::id(n))); }
        "VE" | "VS" => { let (d, k) = (c.nat(), c.nat());
            let mut v = vec![zero::<R>(); d]; let mut ok = true; let mut prev: Option<usize> = None;
            for _ in 0..k { let (i, x): (usize, R) = (c.nat(), c.sc());
                if i < d { v[i] = &v[i] + &x; } else { ok = false; }
                if op == "VS" { if let Some(p) = prev { if p >= i { ok = false; } } prev = Some(i); } }
            if !ok { return None; }
            st.push(NV::V(v)); }
        "VD" => { let d = c.nat(); let v: Vec<R> = c.scs(d); st.push(NV::V(v)); }
        "VZ" => { let d = c.nat(); st.push(NV::V(vec![zero(); d])); }
        "VU" => { let (n, i) = (c.nat(), c.nat()); if i >= n { return None; } let mut v = vec![zero::<R>(); n]; v[i] = one(); st.push(NV::V(v)); }
        "MG" => { let (m, n, k) = (c.nat(), c.nat(), c.nat()); let d: Vec<R> = c.scs(k); if k > m || k > n { return None; }
            st.push(NV::D(Dn::of(m, n, |i, j| if i == j && i < k { d[i].clone() } else { zero() }))); }
        "P" => { let n = c.nat(); let l = c.nats(n); if !is_perm(&l) { return None; } st.push(NV::P(l)); }
        "PI" => { let n = c.nat(); st.push(NV::P((0..n).collect())); }
        "PF" => { let (m, n, k) = (c.nat(), c.nat(), c.nat()); let ps: Vec<(usize, usize)> = (0..k).map(|_| (c.nat(), c.nat())).collect();
            let p = perm_for(m, &ps.iter().map(|x| x.0).collect::<Vec<_>>())?;
            let q = perm_for(n, &ps.iter().map(|x| x.1).collect::<Vec<_>>())?;
            st.push(NV::P(p)); st.push(NV::P(q)); }
        "add" => { let b = npop!(st, S); let a = npop!(st, S); st.push(NV::S(a.add(&b)?)); }
        "sub" => { let b = npop!(st, S); let a = npop!(st, S); st.push(NV::S(a.sub(&b)?)); }
        "mul" => { let b = npop!(st, S); let a = npop!(st, S); st.push(NV::S(a.mul(&b)?)); }
        "neg" => { let a = npop!(st, S); st.push(NV::S(a.neg())); }
        "tr" | "x0" => { let a = npop!(st, S); st.push(NV::S(a.tr())); }
        "perm" | "permr" | "permc" => {
            let q = if op != "permr" { Some(npop!(st, P)) } else { None };
            let p = if op != "permc" { Some(npop!(st, P)) } else { None };
            let a = npop!(st, S);
            let p = p.unwrap_or((0..a.m).collect()); let q = q.unwrap_or((0..a.n).collect());
            if p.len() != a.m || q.len() != a.n { return None; }
            // B[p(i)][q(j)] = A[i][j]
            let mut b = Dn::<R>::zeros(a.m, a.n);
            for i in 0..a.m { for j in 0..a.n { b.a[p[i]][q[j]] = a.a[i][j].clone(); } }
            st.push(NV::S(b)); }
        "sm" => { let x = c.nats(4); let a = npop!(st, S); st.push(NV::S(a.sub_block(x[0], x[1], x[2], x[3])?)); }
        "smr" => { let x = c.nats(2); let a = npop!(st, S); let n = a.n; st.push(NV::S(a.sub_block(x[0], x[1], 0, n)?)); }
        "smc" => { let x = c.nats(2); let a = npop!(st, S); let m = a.m; st.push(NV::S(a.sub_block(0, m, x[0], x[1])?)); }
        "dsm" => { let x = c.nats(4); let a = npop!(st, D); st.push(NV::D(a.sub_block(x[0], x[1], x[2], x[3])?)); }
        "dsmr" => { let x = c.nats(2); let a = npop!(st, D); let n = a.n; st.push(NV::D(a.sub_block(x[0], x[1], 0, n)?)); }
        "dsmc" => { let x = c.nats(2); let a = npop!(st, D); let m = a.m; st.push(NV::D(a.sub_block(0, m, x[0], x[1])?)); }
        "div4" => { let (k, l) = (c.nat(), c.nat()); let a = npop!(st, S); if k > a.m || l > a.n { return None; }
            st.push(NV::S(a.sub_block(0, k, 0, l)?)); st.push(NV::S(a.sub_block(0, k, l, a.n)?));
            st.push(NV::S(a.sub_block(k, a.m, 0, l)?)); st.push(NV::S(a.sub_block(k, a.m, l, a.n)?)); }
        "comb" => { let d = npop!(st, S); let cc = npop!(st, S); let b = npop!(st, S); let a = npop!(st, S);
            if a.m != b.m || cc.m != d.m || a.n != cc.n || b.n != d.n { return None; }
            st.push(NV::S(Dn::of(a.m + cc.m, a.n + b.n, |i, j| match (i < a.m, j < a.n) {
                (true, true) => a.a[i][j].clone(), (true, false) => b.a[i][j - a.n].clone(),
                (false, true) => cc.a[i - a.m][j].clone(), (false, false) => d.a[i - a.m][j - a.n].clone() }))); }
        "cat" | "ext" => { let b = npop!(st, S); let a = npop!(st, S); if a.m != b.m { return None; }
            st.push(NV::S(Dn::of(a.m, a.n + b.n, |i, j| if j < a.n { a.a[i][j].clone() } else { b.a[i][j - a.n].clone() }))); }
        "stk" => { let b = npop!(st, S); let a = npop!(st, S); if a.n != b.n { return None; }
            st.push(NV::S(Dn::of(a.m + b.m, a.n, |i, j| if i < a.m { a.a[i][j].clone() } else { b.a[i - a.m][j].clone() }))); }
        // row_perm(p) * a == a.permute_rows(p):  entry (p(i), i) = 1
        "rperm" => { let p = npop!(st, P); let n = p.len(); st.push(NV::S(Dn::of(n, n, |i, j| if p[j] == i { one() } else { zero() }))); }
        // a * col_perm(p) == a.permute_cols(p):  entry (i, p(i)) = 1
        "cperm" => { let p = npop!(st, P); let n = p.len(); st.push(NV::S(Dn::of(n, n, |i, j| if p[i] == j { one() } else { zero() }))); }
        "colv" => { let j = c.nat(); let a = npop!(st, S); if j >= a.n { return None; } st.push(NV::V((0..a.m).map(|i| a.a[i][j].clone()).collect())); }
        "fcv" => { let (m, k) = (c.nat(), c.nat()); let mut vs = vec![]; for _ in 0..k { vs.push(npop!(st, V)); } vs.reverse();
            if vs.iter().any(|v| v.len() != m) { return None; }
            st.push(NV::S(Dn::of(m, k, |i, j| vs[j][i].clone()))); }
        "x1" => { let (m1, n1) = (c.nat(), c.nat()); let a = npop!(st, S); if m1 == 0 || n1 == 0 { return None; }
            let mut b = Dn::<R>::zeros(m1, n1);
            for i in 0..a.m { for j in 0..a.n { b.a[i % m1][j % n1] = &b.a[i % m1][j % n1] + &a.a[i][j]; } }
            st.push(NV::S(b)); }
        "x2" => { let a = npop!(st, S); st.push(NV::S(Dn::of((a.m + 1) / 2, a.n, |i, j| a.a[2 * i][j].clone()))); }
        "dense" => { let a = npop!(st, S); st.push(NV::D(a)); }
        "sparse" => { let a = npop!(st, D); st.push(NV::S(a)); }
        "isz" => { let a = npop!(st, S); st.push(NV::B(a.is_zero())); }
        "disz" => { let a = npop!(st, D); st.push(NV::B(a.is_zero())); }
        "disid" => { let a = npop!(st, D); st.push(NV::B(a == Dn::id(a.m))); }
        "disdg" => { let a = npop!(st, D); st.push(NV::B((0..a.m).all(|i| (0..a.n).all(|j| i == j || a.a[i][j].is_zero())))); }
        "vadd" => { let b = npop!(st, V); let a = npop!(st, V); if a.len() != b.len() { return None; } st.push(NV::V((0..a.len()).map(|i| &a[i] + &b[i]).collect())); }
        "vsub" => { let b = npop!(st, V); let a = npop!(st, V); if a.len() != b.len() { return None; } st.push(NV::V((0..a.len()).map(|i| &a[i] - &b[i]).collect())); }
        "vneg" => { let a = npop!(st, V); st.push(NV::V(a.iter().map(|x| -x).collect())); }
        "vperm" => { let p = npop!(st, P); let a = npop!(st, V); if p.len() != a.len() { return None; }
            let mut w = vec![zero::<R>(); a.len()]; for i in 0..a.len() { w[p[i]] = a[i].clone(); } st.push(NV::V(w)); }
        "vsv" => { let x = c.nats(2); let a = npop!(st, V); if !(x[0] <= x[1] && x[1] <= a.len()) { return None; } st.push(NV::V(a[x[0]..x[1]].to_vec())); }
        "vstk" => { let b = npop!(st, V); let mut a = npop!(st, V); a.extend(b); st.push(NV::V(a)); }
        "vspl" => { let k = c.nat(); let a = npop!(st, V); if k > a.len() { return None; } st.push(NV::V(a[..k].to_vec())); st.push(NV::V(a[k..].to_vec())); }
        "vsvs" => { let k = c.nat(); let mut vs = vec![]; for _ in 0..k { vs.push(npop!(st, V)); } vs.reverse(); st.push(NV::V(vs.concat())); }
        "vmat" => { let a = npop!(st, V); st.push(NV::S(Dn::col(&a))); }
        "mv" => { let v = npop!(st, V); let a = npop!(st, S); let w = a.mul(&Dn::col(&v))?; st.push(NV::V((0..w.m).map(|i| w.a[i][0].clone()).collect())); }
        "vx1" => { let d1 = c.nat(); let a = npop!(st, V); if d1 == 0 { return None; } let mut w = vec![zero::<R>(); d1]; for i in 0..a.len() { w[i % d1] = &w[i % d1] + &a[i]; } st.push(NV::V(w)); }
        "vx2" => { let a = npop!(st, V); st.push(NV::V((0..(a.len() + 1) / 2).map(|i| a[2 * i].clone()).collect())); }
        "vden" => { let a = npop!(st, V); st.push(NV::L(a)); }
        "visz" => { let a = npop!(st, V); st.push(NV::B(a.iter().all(|x| x.is_zero()))); }
        "dadd" => { let b = npop!(st, D); let a = npop!(st, D); st.push(NV::D(a.add(&b)?)); }
        "dsub" => { let b = npop!(st, D); let a = npop!(st, D); st.push(NV::D(a.sub(&b)?)); }
        "dmul" => { let b = npop!(st, D); let a = npop!(st, D); st.push(NV::D(a.mul(&b)?)); }
        "dneg" => { let a = npop!(st, D); st.push(NV::D(a.neg())); }
        "swr" => { let x = c.nats(2); let mut a = npop!(st, D); if x[0] >= a.m || x[1] >= a.m { return None; } a.a.swap(x[0], x[1]); st.push(NV::D(a)); }
        "swc" => { let x = c.nats(2); let mut a = npop!(st, D); if x[0] >= a.n || x[1] >= a.n { return None; } for r in a.a.iter_mut() { r.swap(x[0], x[1]); } st.push(NV::D(a)); }
        "mulr" => { let i = c.nat(); let r: R = c.sc(); let mut a = npop!(st, D); if i >= a.m { return None; } for j in 0..a.n { a.a[i][j] = &a.a[i][j] * &r; } st.push(NV::D(a)); }
        "mulc" => { let j = c.nat(); let r: R = c.sc(); let mut a = npop!(st, D); if j >= a.n { return None; } for i in 0..a.m { a.a[i][j] = &a.a[i][j] * &r; } st.push(NV::D(a)); }
        "addr" => { let x = c.nats(2); let r: R = c.sc(); let a = npop!(st, D); if x[0] >= a.m || x[1] >= a.m { return None; }
            // row x1 += r * row x0  (for x0 = x1: the row is multiplied by 1 + r)
            st.push(NV::D(Dn::of(a.m, a.n, |i, j| if i == x[1] { &a.a[i][j] + &(&a.a[x[0]][j] * &r) } else { a.a[i][j].clone() }))); }
        "addc" => { let x = c.nats(2); let r: R = c.sc(); let a = npop!(st, D); if x[0] >= a.n || x[1] >= a.n { return None; }
            st.push(NV::D(Dn::of(a.m, a.n, |i, j| if j == x[1] { &a.a[i][j] + &(&a.a[i][x[0]] * &r) } else { a.a[i][j].clone() }))); }
        "lel" => { let r: Vec<R> = c.scs(4); let x = c.nats(2); let a = npop!(st, D); let (p, q) = (x[0], x[1]); if p >= a.m || q >= a.m || p == q { return None; }
            // multiply by the matrix that is the identity except for [a b; c d] in rows/cols (p, q), from the left
            let mut e = Dn::<R>::id(a.m); e.a[p][p] = r[0].clone(); e.a[p][q] = r[1].clone(); e.a[q][p] = r[2].clone(); e.a[q][q] = r[3].clone();
            st.push(NV::D(e.mul(&a)?)); }
        "rel" => { let r: Vec<R> = c.scs(4); let x = c.nats(2); let a = npop!(st, D); let (p, q) = (x[0], x[1]); if p >= a.n || q >= a.n || p == q { return None; }
            // multiply by [a c; b d] from the right
            let mut e = Dn::<R>::id(a.n); e.a[p][p] = r[0].clone(); e.a[q][p] = r[1].clone(); e.a[p][q] = r[2].clone(); e.a[q][q] = r[3].clone();
            st.push(NV::D(a.mul(&e)?)); }
        "TI" => { let n = c.nat(); st.push(NV::T { src: n, tgt: n, nf: 0, f: Dn::id(n), b: Dn::id(n) }); }
        "tnew" => { let b = npop!(st, S); let f = npop!(st, S); if f.n != b.m || f.m != b.n { return None; }
            st.push(NV::T { src: f.n, tgt: f.m, nf: 1, f, b }); }
        "tapp" => { let b = npop!(st, S); let f = npop!(st, S); let t = st.pop()?;
            if let NV::T { src, tgt, nf, f: tf, b: tb } = t { if f.n != b.m || f.m != b.n || f.n != tgt { return None; }
                st.push(NV::T { src, tgt: f.m, nf: nf + 1, f: f.mul(&tf)?, b: tb.mul(&b)? }); } else { panic!("harness: naive stack type") } }
        "tperm" => { let p = npop!(st, P); let t = st.pop()?;
            if let NV::T { src, tgt, nf, f: tf, b: tb } = t { if p.len() != tgt { return None; }
                let n = p.len();
                let f = Dn::<R>::of(n, n, |i, j| if p[j] == i { one() } else { zero() });
                let b = f.tr();      // the inverse of a permutation matrix
                st.push(NV::T { src, tgt, nf: nf + 1, f: f.mul(&tf)?, b: tb.mul(&b)? }); } else { panic!("harness: naive stack type") } }
        "tmerge" => { let o = st.pop()?; let t = st.pop()?;
            if let (NV::T { src, tgt, nf, f, b }, NV::T { src: s2, tgt: t2, nf: n2, f: f2, b: b2 }) = (t, o) { if tgt != s2 { return None; }
                st.push(NV::T { src, tgt: t2, nf: nf + n2, f: f2.mul(&f)?, b: b.mul(&b2)? }); } else { panic!("harness: naive stack type") } }
        "tsub" => { let k = c.nat(); let idx = c.nats(k); let t = st.pop()?;
            if let NV::T { src, tgt, nf, f: tf, b: tb } = t { if idx.iter().any(|&j| j >= tgt) { return None; }
                // selection of the listed coordinates and the inclusion back
                let f = Dn::<R>::of(k, tgt, |i, j| if idx[i] == j { one() } else { zero() });
                let b = f.tr();
                st.push(NV::T { src, tgt: k, nf: nf + 1, f: f.mul(&tf)?, b: tb.mul(&b)? }); } else { panic!("harness: naive stack type") } }
        "tred" => { if !matches!(st.last()?, NV::T { .. }) { panic!("harness: naive stack type") } }
        "tfwd" | "tbwd" => { let v = npop!(st, V); let t = st.pop()?;
            if let NV::T { src, tgt, f, b, .. } = &t { let (m, d) = if op == "tfwd" { (f, *src) } else { (b, *tgt) }; if v.len() != d { return None; }
                let w = m.mul(&Dn::col(&v))?; let w: Vec<R> = (0..w.m).map(|i| w.a[i][0].clone()).collect();
                st.push(t.clone()); st.push(NV::V(w)); } else { panic!("harness: naive stack type") } }
        "tfm" | "tbm" => { let t = st.pop()?;
            if let NV::T { f, b, .. } = &t { let m = if op == "tfm" { f.clone() } else { b.clone() }; st.push(t.clone()); st.push(NV::S(m)); } else { panic!("harness: naive stack type") } }
        _ => panic!("harness: unknown op {}", op),
    }
    Some(())
}

fn nrun<R: Sc>(toks: &[String]) -> Option<String> where for<'x> &'x R: RingOps<R> {
    guard(|| {
        let mut c = Cur { t: toks, i: 0 };
        let mut st: Vec<NV<R>> = vec![];
        while !c.done() { let op = c.next(); nstep(op, &mut c, &mut st)?; }
        Some(st.iter().map(nrender).collect::<Vec<_>>().join(";"))
    }).flatten()
}

// ---------------------------------------------------------------------------------------------------
// generator

const CTORS: &[&str] = &["E", "DD", "Z", "I", "VE", "VS", "VD", "VZ", "VU", "M", "MZ", "MI", "MG", "P", "PI", "PF", "TI", "dup", "swap", "over", "pop"];

struct Gen<'a, R: Sc> where for<'x> &'x R: RingOps<R> {
    r: &'a mut Rng,
    max: usize,
    toks: Vec<String>,
    nst: Vec<NV<R>>,
    bad: bool,     // the next argument helper produces an out-of-guard value
    ended: bool,   // an undefined instruction was emitted: the program stops there
    small: bool,   // transform factors: small entries
}

fn tk(s: &str) -> Vec<String> { s.split_whitespace().map(|x| x.to_string()).collect() }

impl<'a, R: Sc> Gen<'a, R> where for<'x> &'x R: RingOps<R> {
    fn new(r: &'a mut Rng, max: usize) -> Self { Gen { r, max, toks: vec![], nst: vec![], bad: false, ended: false, small: false } }

    fn dim(&mut self) -> usize { match self.r.below(10) { 0 => 0, 1 => 1, _ => self.r.below(self.max as u64 + 1) as usize } }
    /// a dimension that should equal `d` (off by one when the `bad` flag is pending)
    fn same(&mut self, d: usize) -> usize { if self.bad { self.bad = false; if d > 0 && self.r.bool() { d - 1 } else { d + 1 } } else { d } }
    /// an index that should be `< n` (`None` when there is no valid one)
    fn idx(&mut self, n: usize) -> Option<usize> {
        if self.bad { self.bad = false; return Some(n + self.r.below(2) as usize); }
        if n == 0 { None } else { Some(self.r.below(n as u64) as usize) }
    }
    /// a range `a..b` with `a <= b <= n`
    fn range(&mut self, n: usize) -> (usize, usize) {
        if self.bad { self.bad = false; return if self.r.bool() { (self.r.below(n as u64 + 1) as usize, n + 1) } else { (n.min(2), n.min(2).saturating_sub(1).min(n)) } }
        let a = self.r.below(n as u64 + 1) as usize; let b = self.r.below(n as u64 + 1) as usize;
        match self.r.below(6) { 0 => (0, n), 1 => (a, a), _ => (a.min(b), a.max(b)) }
    }
    fn sc(&mut self) -> R { if self.small { if self.r.chance(1, 6) { R::zero() } else { R::small(self.r) } } else { R::gen(self.r) } }
    fn lit(&mut self) -> String {
        let x = self.sc();
        // rationals are now and then written unreduced or with a negative denominator
        if R::TAG == "Q" && self.r.chance(1, 6) { let s = x.lit(); let (n, d) = s.split_once('/').unwrap(); let (n, d): (i64, i64) = (n.parse().unwrap(), d.parse().unwrap()); let k = *self.r.pick(&[-1i64, 2, -2]); return format!("{}/{}", n * k, d * k); }
        x.lit()
    }

    // ---- fresh operands (token sequences) ----
    fn entries_s(&mut self, m: usize, n: usize) -> Vec<String> {
        let mut t = vec![];
        let mut es: Vec<(usize, usize, String)> = vec![];
        if m > 0 && n > 0 {
            let dens = self.r.below(if self.small { 3 } else { 5 }) + 1;
            let k = (self.r.below((m * n) as u64 + 1) * dens / 5) as usize;
            for _ in 0..k {
                let (i, j) = (self.r.below(m as u64) as usize, self.r.below(n as u64) as usize);
                match self.r.below(8) {
                    0 => es.push((i, j, R::zero().lit())),                                  // explicit zero (skipped by from_entries)
                    1 => { let x = self.sc(); es.push((i, j, x.lit())); es.push((i, j, (-&x).lit())); }   // duplicates cancelling: a stored zero
                    2 => { let x = self.lit(); es.push((i, j, x)); let y = self.lit(); es.push((i, j, y)); } // duplicates summed
                    _ => { let x = self.lit(); es.push((i, j, x)); }
                }
            }
            self.r.shuffle(&mut es);
        }
        if self.bad && (m > 0 || n > 0 || self.r.bool()) { self.bad = false; let z = loop { let x = self.sc(); if !x.is_zero() { break x.lit(); } };
            if self.r.bool() { es.push((m, 0, z)); } else { es.push((0, n, z)); } }
        t.extend(tk(&format!("E {} {} {}", m, n, es.len())));
        for (i, j, a) in es { t.push(i.to_string()); t.push(j.to_string()); t.push(a); }
        t
    }
    fn dense_lits(&mut self, k: usize) -> Vec<String> {
        let zero_bias = self.r.below(4);
        (0..k).map(|_| if self.r.below(4) < zero_bias { R::zero().lit() } else { self.lit() }).collect()
    }
    fn fresh_s(&mut self, m: usize, n: usize) -> Vec<String> {
        match self.r.below(10) {
            0 => { let mut t = tk(&format!("DD {} {}", m, n)); t.extend(self.dense_lits(m * n)); t }
            1 => tk(&format!("Z {} {}", m, n)),
            2 if m == n => tk(&format!("I {}", n)),
            3 => { let mut t = self.entries_s(m, n); t.extend(tk("dup sub")); t.extend(self.entries_s(m, n)); t.push("add".into()); t }   // stored zeros from A − A
            4 => { let mut t = self.entries_s(m, n); t.extend(self.entries_s(m, n)); t.extend(tk("over add swap sub")); t }              // (X + Y) − Y
            5 => { let mut t = tk(&format!("M {} {}", m, n)); t.extend(self.dense_lits(m * n)); t.push("sparse".into()); t }
            _ => self.entries_s(m, n),
        }
    }
    fn fresh_v(&mut self, d: usize) -> Vec<String> {
        match self.r.below(8) {
            0 => { let mut t = tk(&format!("VD {}", d)); t.extend(self.dense_lits(d)); t }
            1 => tk(&format!("VZ {}", d)),
            2 if d > 0 => { let i = self.r.below(d as u64); tk(&format!("VU {} {}", d, i)) }
            3 => { // sorted entries, zeros are stored as given
                let mut idx: Vec<usize> = (0..d).filter(|_| self.r.bool()).collect();
                if self.bad && idx.len() >= 2 { self.bad = false; if self.r.bool() { idx.swap(0, 1); } else { idx[1] = idx[0]; } }
                else if self.bad { self.bad = false; idx.push(d); }
                let mut t = tk(&format!("VS {} {}", d, idx.len()));
                for i in idx { t.push(i.to_string()); let x = if self.r.chance(1, 4) { R::zero().lit() } else { self.lit() }; t.push(x); }
                t }
            4 => { let mut t = tk(&format!("VD {}", d)); t.extend(self.dense_lits(d)); t.extend(tk("dup vsub")); t.extend(self.ve(d)); t.push("vadd".into()); t }
            _ => self.ve(d),
        }
    }
    fn ve(&mut self, d: usize) -> Vec<String> {
        let mut es: Vec<(usize, String)> = vec![];
        if d > 0 { let k = self.r.below(d as u64 + 2) as usize;
            for _ in 0..k { let i = self.r.below(d as u64) as usize;
                match self.r.below(6) { 0 => es.push((i, R::zero().lit())), 1 => { let x = self.sc(); es.push((i, x.lit())); es.push((i, (-&x).lit())); } _ => { let x = self.lit(); es.push((i, x)); } } }
            self.r.shuffle(&mut es); }
        if self.bad { self.bad = false; let x = loop { let x = self.sc(); if !x.is_zero() { break x.lit(); } }; es.push((d, x)); }
        let mut t = tk(&format!("VE {} {}", d, es.len()));
        for (i, a) in es { t.push(i.to_string()); t.push(a); }
        t
    }
    fn fresh_d(&mut self, m: usize, n: usize) -> Vec<String> {
        match self.r.below(8) {
            0 => tk(&format!("MZ {} {}", m, n)),
            1 if m == n => tk(&format!("MI {}", n)),
            2 => { let k = self.r.below(m.min(n) as u64 + 1) as usize; let k = if self.bad { self.bad = false; m.min(n) + 1 } else { k };
                let mut t = tk(&format!("MG {} {} {}", m, n, k)); t.extend(self.dense_lits(k)); t }
            _ => { let mut t = tk(&format!("M {} {}", m, n)); t.extend(self.dense_lits(m * n)); t }
        }
    }
    fn rand_perm(&mut self, n: usize) -> Vec<usize> { let mut p: Vec<usize> = (0..n).collect(); self.r.shuffle(&mut p); p }
    fn fresh_p(&mut self, n: usize) -> Vec<String> {
        match self.r.below(6) {
            0 => tk(&format!("PI {}", n)),
            1 | 2 => { // through `perm_for_indices`
                let p = self.rand_perm(n); let k = self.r.below(n as u64 + 1) as usize;
                let mut t = tk(&format!("PF {} {} {}", n, n, k)); for &i in &p[..k] { t.push(i.to_string()); t.push(i.to_string()); } t.push("pop".into()); t }
            _ => { let mut p = self.rand_perm(n);
                if self.bad && n >= 2 { self.bad = false; if self.r.bool() { p[0] = p[1]; } else { p[0] = n; } }
                let mut t = tk(&format!("P {}", n)); for i in p { t.push(i.to_string()); } t }
        }
    }

    // ---- emitting ----
    /// run the naive evaluator on the instruction sequence; commit it if it is defined (or, once, if not)
    fn emit(&mut self, t: Vec<String>) -> bool {
        let mut st = self.nst.clone();
        let res = guard(|| { let mut c = Cur { t: &t, i: 0 }; while !c.done() { let op = c.next(); if nstep(op, &mut c, &mut st).is_none() { return None; } } Some(st) });
        match res {
            Some(Some(st)) => { if !st.iter().all(nmag_ok) { return false; } self.nst = st; self.toks.extend(t); true }
            Some(None) => { self.toks.extend(t); self.ended = true; true }
            None => false,   // arithmetic overflow in the naive evaluation: not a usable case
        }
    }

    fn top_kind(&self) -> char { match self.nst.last() { Some(NV::S(_)) => 'S', Some(NV::V(_)) => 'V', Some(NV::D(_)) => 'D', Some(NV::P(_)) => 'P', Some(NV::T { .. }) => 'T', Some(_) => 'X', None => 'N' } }

    fn push_fresh(&mut self, kind: char) -> Vec<String> {
        let (m, n) = (self.dim(), self.dim());
        match kind { 'S' => self.fresh_s(m, n), 'V' => self.fresh_v(m), 'D' => self.fresh_d(m, n), 'P' => self.fresh_p(m),
            _ => { let mut t = tk(&format!("TI {}", m)); if self.r.bool() { let k = self.dim(); self.small = true; t.extend(self.fresh_s(k, m)); t.extend(self.fresh_s(m, k)); t.push("tapp".into()); } t } }
    }

    fn op_s(&mut self, m: usize, n: usize) -> Vec<String> {
        let mut t = vec![];
        match self.r.below(32) {
            30 => { let m2 = self.same(m); t = self.fresh_p(m2); t.extend(tk("rperm swap mul")); }
            31 => { let n2 = self.same(n); t = self.fresh_p(n2); t.extend(tk("cperm mul")); }
            0 | 1 => { let (m2, n2) = (self.same(m), self.same(n)); t = self.fresh_s(m2, n2); t.push((*self.r.pick(&["add", "sub"])).into()); }
            2 | 3 => { let k = self.dim(); let n2 = self.same(n); t = self.fresh_s(n2, k); t.push("mul".into()); }
            4 => { let k = self.dim(); let m2 = self.same(m); t = self.fresh_s(k, m2); t.extend(tk("swap mul")); }
            5 => t = tk("neg"),
            6 => t = tk("tr"),
            7 => t = tk("x0"),
            8 => t = tk("x2"),
            9 => { let (a, b) = (1 + self.r.below(self.max as u64 + 1), 1 + self.r.below(self.max as u64 + 1)); t = tk(&format!("x1 {} {}", a, b)); }
            10 | 11 => { t = self.fresh_p(m); t.extend(self.fresh_p(n)); t.push("perm".into()); }
            12 => { t = self.fresh_p(m); t.push("permr".into()); }
            13 => { t = self.fresh_p(n); t.push("permc".into()); }
            14 | 15 => { let (a, b) = self.range(m); let (c, d) = self.range(n); t = tk(&format!("sm {} {} {} {}", a, b, c, d)); }
            16 => { let (a, b) = self.range(m); t = tk(&format!("smr {} {}", a, b)); }
            17 => { let (a, b) = self.range(n); t = tk(&format!("smc {} {}", a, b)); }
            18 | 19 => { let (_, k) = self.range(m); let (_, l) = self.range(n); t = tk(&format!("div4 {} {}", k, l)); if self.r.chance(2, 3) { t.push("comb".into()); } }
            20 => { let (m2, n2) = (self.dim(), self.dim()); let ma = self.same(m); let na = self.same(n);
                t = self.fresh_s(ma, n2); t.extend(self.fresh_s(m2, na)); t.extend(self.fresh_s(m2, n2)); t.push("comb".into()); }
            21 => { let n2 = self.dim(); let m2 = self.same(m); t = self.fresh_s(m2, n2); t.push("cat".into()); }
            22 => { let m2 = self.dim(); let n2 = self.same(n); t = self.fresh_s(m2, n2); t.push("stk".into()); }
            23 | 24 => { let n2 = if self.r.chance(1, 5) { 0 } else { self.dim() }; let m2 = self.same(m); t = self.fresh_s(m2, n2); t.push("ext".into()); }
            25 => t = tk("dense sparse"),
            26 => t = tk("dup isz swap"),
            27 => { if let Some(j) = self.idx(n) { t = tk(&format!("dup colv {} swap", j)); } }
            28 => { let n2 = self.same(n); t = self.fresh_v(n2); t.push("mv".into()); }
            _ => { let k = self.dim(); self.small = self.r.bool(); let (n2, m2) = (self.same(n), self.same(m)); t = self.fresh_s(n2, m2); let _ = k; t.push("tnew".into()); }
        }
        t
    }
    fn op_v(&mut self, d: usize) -> Vec<String> {
        let mut t = vec![];
        match self.r.below(16) {
            0 | 1 => { let d2 = self.same(d); t = self.fresh_v(d2); t.push((*self.r.pick(&["vadd", "vsub"])).into()); }
            2 => t = tk("vneg"),
            3 | 4 => { t = self.fresh_p(d); t.push("vperm".into()); }
            5 | 6 => { let (a, b) = self.range(d); t = tk(&format!("vsv {} {}", a, b)); }
            7 => { let d2 = self.dim(); t = self.fresh_v(d2); t.push("vstk".into()); }
            8 => { let (_, k) = self.range(d); t = tk(&format!("vspl {}", k)); if self.r.bool() { t.push("vstk".into()); } }
            9 => { let k = 1 + self.r.below(3) as usize; for _ in 1..k { let d2 = self.dim(); t.extend(self.fresh_v(d2)); } t.extend(tk(&format!("vsvs {}", k))); }
            10 => { let k = 1 + self.r.below(3) as usize; for _ in 1..k { let d2 = self.same(d); t.extend(self.fresh_v(d2)); } let d3 = self.same(d); t.extend(tk(&format!("fcv {} {}", d3, k))); }
            11 => t = tk("vmat"),
            12 => { let k = self.dim(); let d2 = self.same(d); t = self.fresh_s(k, d2); t.extend(tk("swap mv")); }
            13 => { let a = 1 + self.r.below(self.max as u64 + 1); t = tk(&format!("vx1 {}", a)); }
            14 => t = tk("vx2"),
            _ => t = tk(*self.r.pick(&["dup vden swap", "dup visz swap"])),
        }
        t
    }
    fn op_d(&mut self, m: usize, n: usize) -> Vec<String> {
        let mut t = vec![];
        match self.r.below(20) {
            0 | 1 => { let (m2, n2) = (self.same(m), self.same(n)); t = self.fresh_d(m2, n2); t.push((*self.r.pick(&["dadd", "dsub"])).into()); }
            2 => { let k = self.dim(); let n2 = self.same(n); t = self.fresh_d(n2, k); t.push("dmul".into()); }
            3 => t = tk("dneg"),
            4 => { if let (Some(i), Some(j)) = (self.idx(m), self.idx(m)) { t = tk(&format!("swr {} {}", i, j)); } }
            5 => { if let (Some(i), Some(j)) = (self.idx(n), self.idx(n)) { t = tk(&format!("swc {} {}", i, j)); } }
            6 => { if let Some(i) = self.idx(m) { t = tk(&format!("mulr {} {}", i, self.lit())); } }
            7 => { if let Some(i) = self.idx(n) { t = tk(&format!("mulc {} {}", i, self.lit())); } }
            8 | 9 => { if let (Some(i), Some(j)) = (self.idx(m), self.idx(m)) { t = tk(&format!("addr {} {} {}", i, j, self.lit())); } }
            10 => { if let (Some(i), Some(j)) = (self.idx(n), self.idx(n)) { t = tk(&format!("addc {} {} {}", i, j, self.lit())); } }
            11 | 12 => { if let (Some(i), Some(j)) = (self.idx(m), self.idx(m)) { if i != j { t = tk(&format!("lel {} {} {} {} {} {}", self.lit(), self.lit(), self.lit(), self.lit(), i, j)); } } }
            13 | 14 => { if let (Some(i), Some(j)) = (self.idx(n), self.idx(n)) { if i != j { t = tk(&format!("rel {} {} {} {} {} {}", self.lit(), self.lit(), self.lit(), self.lit(), i, j)); } } }
            15 => { let (a, b) = self.range(m); let (c, d) = self.range(n); t = tk(&format!("dsm {} {} {} {}", a, b, c, d)); }
            16 => { let (a, b) = self.range(m); t = tk(&format!("dsmr {} {}", a, b)); }
            17 => { let (a, b) = self.range(n); t = tk(&format!("dsmc {} {}", a, b)); }
            18 => t = tk(*self.r.pick(&["dup disz swap", "dup disid swap", "dup disdg swap"])),
            _ => t = tk("sparse dense"),
        }
        t
    }
    fn op_t(&mut self, src: usize, tgt: usize) -> Vec<String> {
        let mut t = vec![];
        self.small = true;
        match self.r.below(16) {
            0 | 1 | 2 => { let k = self.dim(); let t1 = self.same(tgt); t = self.fresh_s(k, t1); let t2 = self.same(tgt); t.extend(self.fresh_s(t2, k)); t.push("tapp".into()); }
            3 | 4 => { let t1 = self.same(tgt); t = self.fresh_p(t1); t.push("tperm".into()); }
            5 | 6 => { // sub: mostly distinct indices, sometimes repeated
                let mut idx = self.rand_perm(tgt); let k = self.r.below(tgt as u64 + 1) as usize; idx.truncate(k);
                if k >= 1 && self.r.chance(1, 6) { idx.push(idx[0]); }
                if self.bad { self.bad = false; idx.push(tgt); }
                t = tk(&format!("tsub {}", idx.len())); for i in idx { t.push(i.to_string()); } }
            7 | 8 => t = tk("tred"),
            9 => { // merge with a short second transform starting at `tgt`
                let t1 = self.same(tgt); t = tk(&format!("TI {}", t1));
                for _ in 0..self.r.below(3) { if self.r.bool() { t.extend(self.fresh_p(t1)); t.push("tperm".into()); } else { t.extend(tk("tred")); } }
                if self.r.bool() { let k = self.dim(); t.extend(self.fresh_s(k, t1)); t.extend(self.fresh_s(t1, k)); t.push("tapp".into()); }
                t.push("tmerge".into()); }
            10 | 11 => { let s2 = self.same(src); t = self.fresh_v(s2); t.extend(tk("tfwd swap")); }
            12 | 13 => { let t2 = self.same(tgt); t = self.fresh_v(t2); t.extend(tk("tbwd swap")); }
            14 => t = tk("tfm swap"),
            _ => t = tk("tbm swap"),
        }
        t
    }

    /// one more step of the program, chosen by the kind of value on top of the stack
    fn step(&mut self, force: Option<char>) {
        for _ in 0..6 {
            self.small = false;
            let kind = self.top_kind();
            let want = force.unwrap_or(kind);
            let t = if kind != want || !"SVDT".contains(kind) {
                let k = if "SVDT".contains(want) { want } else { *self.r.pick(&['S', 'S', 'V', 'D', 'T']) };
                self.push_fresh(k)
            } else {
                match self.nst.last().unwrap().clone() {
                    NV::S(a) => self.op_s(a.m, a.n),
                    NV::V(v) => self.op_v(v.len()),
                    NV::D(a) => self.op_d(a.m, a.n),
                    NV::T { src, tgt, .. } => self.op_t(src, tgt),
                    _ => unreachable!(),
                }
            };
            if t.is_empty() { continue; }
            if self.emit(t) { return; }
        }
    }
}

// ---------------------------------------------------------------------------------------------------
// cases

fn run_case<R: Sc>(s: &mut Sink, toks: &[String], naive: Option<String>, malformed: bool) where for<'x> &'x R: RingOps<R> {
    let req = format!("{} {}", R::TAG, toks.join(" "));
    let got = irun::<R>(toks);
    let reply = got.clone().unwrap_or_else(|| "panic".to_string());
    let has_trans = toks.iter().any(|t| matches!(t.as_str(), "tnew" | "tapp" | "tperm" | "tmerge" | "tsub" | "tred" | "tfwd" | "tbwd" | "tfm" | "tbm" | "TI"));
    if let Some(exp) = &naive {
        let clause = if has_trans { "a composed transform applies the product of its factors (before and after reduce); every operation yields the entries of its mathematical definition" }
            else { "every operation yields the entries of its mathematical definition (naive dense evaluation)" };
        s.oracle(&reply == exp, clause, &req, &format!("impl {} expected {}", reply, exp));
    }
    let mut nops = 0;
    let mut it = toks.iter();
    while let Some(t) = it.next() {
        if t.chars().next().map_or(false, |c| c.is_ascii_alphabetic()) {
            s.count(&format!("op.{}", t));
            if !CTORS.contains(&t.as_str()) { nops += 1; }
        }
    }
    s.count(&format!("ring.{}", R::TAG));
    s.count(&format!("ops_per_case.{}", nops.min(12)));
    if got.is_none() { s.count("outcome.panic"); }
    if malformed { s.count("stream.malformed"); }
    if naive.is_none() { s.count("oracle.undefined"); }
    s.case(&req, &reply, nops >= 1);
}

fn corpus_case<R: Sc>(s: &mut Sink, prog: &str) where for<'x> &'x R: RingOps<R> {
    let toks = tk(prog);
    let naive = nrun::<R>(&toks);
    run_case::<R>(s, &toks, naive, false);
}

fn gen_case<R: Sc>(s: &mut Sink, r: &mut Rng, max: usize, mode: u64) where for<'x> &'x R: RingOps<R> {
    let mut g = Gen::<R>::new(r, max);
    let malformed = g.r.chance(1, 8);
    let (n, force) = match mode {
        0 => (1 + g.r.below(6) as usize, None),                // mixed
        1 => (1 + g.r.below(12) as usize, Some('T')),          // transform history
        2 => (1 + g.r.below(8) as usize, Some('D')),           // dense history
        3 => (1 + g.r.below(6) as usize, Some('V')),
        _ => (1 + g.r.below(6) as usize, Some('S')),
    };
    let bad_at = if malformed { g.r.below(n as u64 + 1) as usize } else { usize::MAX };
    g.step(force);   // first operand
    for k in 0..n {
        if g.ended { break; }
        if k == bad_at { g.bad = true; }
        g.step(force);
    }
    let naive = if g.ended { None } else { Some(g.nst.iter().map(nrender).collect::<Vec<_>>().join(";")) };
    for v in &g.nst { match v { NV::S(a) | NV::D(a) => s.count(&format!("dim.{}", a.m.max(a.n).min(12))), NV::V(v) => s.count(&format!("dim.{}", v.len().min(12))), NV::T { nf, .. } => s.count(&format!("trans_factors.{}", nf)), _ => {} } }
    let toks = g.toks.clone();
    run_case::<R>(s, &toks, naive, malformed);
}

fn exhaustive<R: Sc>(s: &mut Sink, lim: usize) where for<'x> &'x R: RingOps<R> {
    // a pattern matrix with distinct entries and one stored zero, every shape up to lim x lim
    let mut n_cases = 0u64;
    for m in 0..=lim { for n in 0..=lim {
        let mut e = format!("E {} {} {}", m, n, m * n + if m * n > 0 { 2 } else { 0 });
        for i in 0..m { for j in 0..n { e.push_str(&format!(" {} {} {}", i, j, R::parse(&if R::TAG == "Q" { format!("{}/1", (i * n + j) % 5 + 1) } else { format!("{}", (i * n + j) % 5 + 1) }).lit())); } }
        if m * n > 0 { let one = R::one().lit(); let mone = (-R::one()).lit(); e.push_str(&format!(" 0 0 {} 0 0 {}", one, mone)); }
        for k in 0..=m + 1 { for l in 0..=n + 1 {
            corpus_case::<R>(s, &format!("{} div4 {} {}", e, k, l));
            corpus_case::<R>(s, &format!("{} div4 {} {} comb", e, k, l));
            n_cases += 2;
            for k0 in 0..=k { for l0 in 0..=l { corpus_case::<R>(s, &format!("{} sm {} {} {} {}", e, k0, k, l0, l)); n_cases += 1; } }
        } }
        corpus_case::<R>(s, &format!("{} tr", e));
        corpus_case::<R>(s, &format!("{} dup cat", e));
        corpus_case::<R>(s, &format!("{} dup stk", e));
        corpus_case::<R>(s, &format!("{} dup ext", e));
        corpus_case::<R>(s, &format!("{} dense sparse", e));
        corpus_case::<R>(s, &format!("{} dup sub dup isz", e));
        n_cases += 6;
    } }
    // every permutation / every index list of size <= 4
    for n in 0..=lim.min(4) {
        let mut perms: Vec<Vec<usize>> = vec![vec![]];
        for _ in 0..n { perms = perms.into_iter().flat_map(|p| (0..n).filter(|x| !p.contains(x)).map(|x| { let mut q = p.clone(); q.push(x); q }).collect::<Vec<_>>()).collect(); }
        let mut e = format!("DD {} {}", n, n); for k in 0..n * n { e.push_str(&format!(" {}", R::parse(&if R::TAG == "Q" { format!("{}/1", k % 3 + 1) } else { format!("{}", k % 3 + 1) }).lit())); }
        for p in &perms {
            let ps = p.iter().map(|x| x.to_string()).collect::<Vec<_>>().join(" ");
            corpus_case::<R>(s, &format!("{} P {} {} permr", e, n, ps));
            corpus_case::<R>(s, &format!("{} P {} {} permc", e, n, ps));
            corpus_case::<R>(s, &format!("P {} {} rperm {} mul", n, ps, e));
            corpus_case::<R>(s, &format!("{} P {} {} cperm mul", e, n, ps));
            corpus_case::<R>(s, &format!("TI {} P {} {} tperm tfm swap tbm", n, n, ps));
            n_cases += 5;
            for k in 0..=n { let idx = p[..k].iter().map(|x| format!("{} {}", x, x)).collect::<Vec<_>>().join(" ");
                corpus_case::<R>(s, &format!("PF {} {} {} {}", n, n, k, idx));
                corpus_case::<R>(s, &format!("TI {} tsub {} {} tfm swap tbm", n, k, p[..k].iter().map(|x| x.to_string()).collect::<Vec<_>>().join(" ")));
                n_cases += 2; }
        }
    }
    s.count_n("exhaustive.cases", n_cases);
}

fn main() {
    let args = Args::parse();
    quiet_panics();
    let mut s = Sink::new(&args, "cases: stack programs over Z / Q / F_3 built from every public operation of SpMat, SpVec, Mat and Trans \
        (operands with duplicate / cancelling / zero entries, A-A patterns, zero dimensions; one out-of-guard argument in 1/8 of the programs); \
        the final stack is rendered densely; non-trivial = at least one operation beyond operand construction; distinct = distinct request lines");
    let mut r = Rng::new(args.seed);

    // hand-written boundary corpus
    for p in [
        "Z 0 0", "Z 0 3 tr", "Z 3 0 Z 0 2 mul", "Z 0 3 Z 0 3 stk", "Z 2 0 Z 2 0 cat", "Z 2 0 Z 2 3 ext", "Z 2 3 Z 2 0 ext", "Z 0 0 div4 0 0 comb",
        "E 2 2 2 0 0 1 0 0 -1 dup isz", "E 2 2 2 0 0 1 0 0 -1 dup tr swap dense", "E 2 2 1 0 0 0", "E 2 2 1 2 0 1",
        "E 2 3 3 0 0 1 1 2 -1 0 1 2 dup sub dup div4 1 1 comb add",
        "E 2 3 3 0 0 1 1 2 -1 0 1 2 dup sub E 2 3 1 1 1 2 add P 2 1 0 P 3 1 2 0 perm",
        "E 2 3 3 0 0 1 1 2 -1 0 1 2 P 2 1 0 PI 3 perm", "Z 2 3 P 2 1 0 PI 3 perm",
        "I 3 sm 0 3 0 3", "I 3 sm 1 1 0 3", "I 3 sm 2 1 0 3", "I 3 sm 0 4 0 3", "I 3 smr 1 3 I 3 smc 0 1 swap tnew VD 3 1 2 0 tfwd",
        "VS 4 2 1 2 3 0", "VS 4 2 3 1 1 1", "VS 4 2 1 1 1 1", "VS 4 1 4 1", "VS 0 0", "VU 3 2", "VU 3 3", "VD 3 1 0 2 vsv 1 1", "VD 3 1 0 2 vsv 2 1", "VD 3 1 0 2 vsv 1 5",
        "VD 3 1 0 2 dup vsub VD 2 0 1 vsvs 2 vden", "VZ 0 VZ 0 vstk", "VD 2 1 2 vspl 0 vstk", "VD 2 1 2 vspl 2", "VD 2 1 2 vspl 3", "fcv 3 0", "VD 2 1 2 VD 3 1 2 0 fcv 2 2",
        "PF 3 3 0", "PF 3 3 2 1 1 1 1", "PF 3 3 1 3 0", "PF 0 0 0", "P 0", "P 2 0 0", "P 2 0 2",
        "M 2 2 1 2 3 4 lel 1 1 0 1 0 1", "M 2 2 1 2 3 4 rel 1 1 0 1 1 0", "M 2 2 1 2 3 4 swr 0 2", "M 0 0 disid", "M 2 3 1 0 0 0 1 0 disid", "MG 2 3 2 1 1 disid", "MG 2 2 3 1 1 1",
        "MG 7 6 6 1 2 3 4 5 6 dup disdg", "MG 6 6 6 1 1 1 1 1 1 disid", "I 7 dense disid", "VD 7 1 2 3 4 5 6 7 vspl 5 vstk vden", "I 7 P 7 6 5 4 3 2 1 0 permr dup tr mul dense disid",
        "TI 0 tfm", "TI 3 tred tfm swap tbm", "TI 3 TI 3 tmerge tred", "TI 3 TI 2 tmerge", "TI 3 tsub 2 2 0 tsub 1 1 tred VD 3 1 2 3 tfwd swap VD 1 1 tbwd",
        "TI 3 tsub 2 2 2", "TI 3 tsub 1 3", "TI 2 P 2 1 0 tperm P 2 1 0 tperm tred tfm", "I 2 I 2 tnew I 2 I 2 tapp tred I 2 I 2 tapp tfm",
    ] {
        corpus_case::<i64>(&mut s, p);
    }
    corpus_case::<Ratio<i64>>(&mut s, "E 2 2 3 0 0 1/2 0 0 -2/4 1 1 3/-6 dup dup mul add");
    corpus_case::<Ratio<i64>>(&mut s, "M 2 2 1/2 1/1 0/1 2/1 mulr 0 2/1 addr 0 1 -1/2");
    corpus_case::<FF<3>>(&mut s, "E 2 2 3 0 0 1 0 0 2 1 1 2 dup dup mul add dup isz");
    corpus_case::<FF<3>>(&mut s, "DD 2 2 1 2 2 1 dup add dup add");

    let thorough = args.thorough();
    exhaustive::<i64>(&mut s, if thorough { 5 } else { 2 });
    if thorough { exhaustive::<Ratio<i64>>(&mut s, 3); exhaustive::<FF<3>>(&mut s, 3); }

    let n = if thorough { 1_200_000 } else { 24_000 };
    for k in 0..n {
        let max = if thorough { if k % 10 == 0 { 9 } else { 6 } } else if k % 12 == 0 { 8 } else { 5 };
        let mode = r.below(8).min(4);   // mixed 1/8, trans 1/8, dense 1/8, vec 1/8, sparse 1/2
        let mode = match mode { 4 => if r.chance(1, 3) { 1 } else { 4 }, m => m };
        let mut rr = r.fork();
        match k % 3 {
            0 => guarded_case(&mut s, "generated case over Z", |s| gen_case::<i64>(s, &mut rr, max, mode)),
            1 => guarded_case(&mut s, "generated case over Q", |s| gen_case::<Ratio<i64>>(s, &mut rr, max, mode)),
            _ => guarded_case(&mut s, "generated case over F3", |s| gen_case::<FF<3>>(s, &mut rr, max, mode)),
        }
    }
    s.finish();
}
