//! C06 — canonical (Lee) classes and the s-type invariant: oracles on the library (cycles, non-torsion, Lee/BN
//! ranks, diagram independence, reduced = unreduced, mirror, crossing change), Lean side: valuation loop, ss
//! arithmetic, Lee / Bar-Natan ranks of the cube reference; construction of the canonical cycles: `ori_pres_state`,
//! `seifert_circles` and the cycles of the engine run WITHOUT elimination (`auto_deloop = auto_elim = false`), compared
//! exactly with the Lean construction model (Model/C06Canon: walk, BFS colouring, expansion into cube generators).
use num_bigint::BigInt;
use num_traits::Zero;
use yui::poly::Poly;
use yui::{EucRing, EucRingOps, Ratio, FF, FF2};
use yui_homology::{ChainComplexTrait, GridTrait, SummandTrait};
use yui_kh::kh::internal::v2::builder::TngComplexBuilder;
use yui_kh::kh::{ss_invariant, KhChainExt, KhComplex, KhGen, KhHomology};
use yui_kh::misc::div_vec;
use yui_link::{Crossing, CrossingType, Link};
use yui_matrix::sparse::SpVec;
use std::collections::HashMap;
use yv::links::*;
use yv::*;

fn ss_all(l: &Link, red: bool) -> Option<Vec<(String, i32)>> {
    let l = l.clone();
    guard_timeout(180, move || {
        let mut v = vec![];
        v.push(("Z,c=2".to_string(), ss_invariant::<i64>(&l, &2, red)));
        v.push(("Z,c=3".to_string(), ss_invariant::<i64>(&l, &3, red)));
        v.push(("BigInt,c=2".to_string(), ss_invariant::<BigInt>(&l, &BigInt::from(2), red)));
        type P2 = Poly<'H', FF2>; type P3 = Poly<'H', FF<3>>; type PQ = Poly<'H', Ratio<i64>>;
        v.push(("F2[H],c=H".to_string(), ss_invariant::<P2>(&l, &P2::variable(), red)));
        v.push(("F3[H],c=H".to_string(), ss_invariant::<P3>(&l, &P3::variable(), red)));
        v.push(("Q[H],c=H".to_string(), ss_invariant::<PQ>(&l, &PQ::variable(), red)));
        v
    }).flatten()
}

fn canon_checks<R>(s: &mut Sink, desc: &str, l: &Link, h: &R, red: bool)
where R: EucRing, for<'x> &'x R: EucRingOps<R> {
    let c = KhComplex::<R>::new(l, h, &R::zero(), red);
    let zs = c.canon_cycles().clone();
    let want = if red { 1 } else { 2 };
    s.oracle(zs.len() == want, "a knot with t=0 has 2 (unreduced) / 1 (reduced) canonical cycles", desc, &format!("{}", zs.len()));
    let kh = KhHomology::from(&c);
    for (k, z) in zs.iter().enumerate() {
        s.oracle(z.h_deg() == 0 && z.gens().all(|x| x.h_deg() == 0), "canonical cycles are chains of homological degree 0", &format!("{} cycle#{}", desc, k), &format!("h_deg {}", z.h_deg()));
        let dz = c.d(0, z);
        s.oracle(dz.is_zero(), "canonical cycles are cycles: d z = 0", &format!("{} cycle#{}", desc, k), &format!("d z has {} terms", dz.nterms()));
        if !h.is_zero() {
            let v = kh[0].vectorize_euc(z);
            let r = kh[0].rank();
            let free_nonzero = v.subvec(0..r).iter().any(|(_, a)| !a.is_zero());
            s.oracle(free_nonzero, "for h != 0 the canonical classes are non-torsion (non-zero free coordinates)", &format!("{} cycle#{}", desc, k), "");
        }
    }
}

fn lee_ranks(s: &mut Sink, name: &str, l: &Link, with_model: bool) {
    let comps = l.components().len() as u32;
    let want = 1usize << comps;
    let desc = format!("{} [{}]", link_txt(l), name);
    // (h,t) = (1,0) over Z: free of total rank 2^components
    let kh = KhHomology::<i64>::new(l, &1, &0, false);
    let (mut rank, mut tors) = (0, 0);
    let mut cells = vec![];
    for i in kh.support() { let g = kh.get(i); rank += g.rank(); tors += g.tors().len(); cells.push(((i, None), group_txt(g.rank(), g.tors().iter().map(|x| BigInt::from(*x)).collect()))); }
    s.oracle(rank == want && tors == 0, "homology with (h,t)=(1,0) over Z is free of total rank 2^components", &desc, &format!("rank {} torsion summands {}", rank, tors));
    if with_model { s.case(&format!("kh Z 1 0 0 0 {}", link_txt(l)), &format!("signs={} {}", signs_txt(l), table_txt(cells)), l.crossing_num() >= 2); }
    // (h,t) = (0,1) over Q
    let kh = KhHomology::<Ratio<i64>>::new(l, &Ratio::from(0), &Ratio::from(1), false);
    let mut rank = 0; let mut cells = vec![];
    for i in kh.support() { let g = kh.get(i); rank += g.rank(); cells.push(((i, None), group_txt(g.rank(), vec![]))); }
    s.oracle(rank == want, "homology with (h,t)=(0,1) over Q has total rank 2^components", &desc, &format!("rank {}", rank));
    if with_model { s.case(&format!("kh Q 0 1 0 0 {}", link_txt(l)), &format!("signs={} {}", signs_txt(l), table_txt(cells)), l.crossing_num() >= 2); }
}

// ---------------------------------------------------------------------------------------------------------
// construction of the canonical cycles (Lean: Model/C06Canon): with `auto_deloop = auto_elim = false` the engine
// performs no elimination, so `canon_cycles()` are chains of honest cube generators (state, labelling).

fn bits_txt(bits: &[bool]) -> String { if bits.is_empty() { "_".into() } else { bits.iter().map(|b| if *b { '1' } else { '0' }).collect() } }

/// `seifert <link>`: `ori_pres_state` and `seifert_circles` (order and edge order as returned)
fn seifert_case(s: &mut Sink, l: &Link) {
    let l2 = l.clone();
    let reply = guard(move || {
        let st: Vec<bool> = l2.ori_pres_state().iter().map(|b| b.is_one()).collect();
        let cs = l2.seifert_circles();
        let body = cs.iter().map(|c| format!("{}{}", if c.is_circle() { "o" } else { "a" }, c.edges().iter().map(|e| e.to_string()).collect::<Vec<_>>().join("-"))).collect::<Vec<_>>().join("|");
        format!("s={} circles={}", bits_txt(&st), body)
    }).unwrap_or_else(|| "panic".into());
    s.case(&format!("seifert {}", link_txt(l)), &reply, l.crossing_num() >= 2);
    s.count("canon.seifert");
}

/// `canon <h> <base|-1> <link>`: the cycles of the un-eliminated complex, rendered through least edge labels
fn canon_construct(s: &mut Sink, name: &str, l: &Link, h: i64, base: Option<usize>) {
    let desc = format!("{} [{}] h={} base={:?} (no elimination)", link_txt(l), name, h, base);
    let mut b = TngComplexBuilder::<i64>::new(l, &h, &0, base);
    b.auto_deloop = false;
    b.auto_elim = false;
    b.process_all();
    // snapshot before delooping: position of every crossing in the state word, circles of every vertex
    let xs: Vec<_> = b.complex().crossings().to_vec();
    let data: Vec<_> = l.data().iter().filter(|x| !x.is_resolved()).cloned().collect();
    let pos: Vec<usize> = data.iter().map(|x| xs.iter().position(|y| y == x).expect("crossing of the link is in the complex")).collect();
    let state_bits = |st: &yui_link::State| -> Vec<bool> { pos.iter().map(|&p| st[p].is_one()).collect() };
    let mut snap: HashMap<yui_link::State, Vec<(usize, bool)>> = HashMap::new();
    for (k, v) in b.complex().iter_verts() {
        snap.insert(k.state, v.tng().comps().map(|c| (c.min_edge(), base.map(|e| c.contains(e)).unwrap_or(false))).collect());
    }
    b.finalize();
    let c = b.into_kh_complex();
    let zs = c.canon_cycles().clone();
    let knot = l.is_knot();
    let want = if !knot { 0 } else if base.is_some() { 1 } else { 2 };
    s.oracle(zs.len() == want, "a knot with t=0 has 2 (unreduced) / 1 (reduced) canonical cycles", &desc, &format!("{}", zs.len()));
    // a generator -> (state bits in the order of l.data(), mask over the circles sorted by least edge; bit set <=> X)
    let render = |x: &KhGen| -> (String, u64) {
        let comps = &snap[&x.state];
        assert_eq!(comps.len(), x.label.len(), "one label per circle");
        // delooping order: circles not through the base point in the order of the tangle, then the based one
        let mut order: Vec<usize> = (0..comps.len()).filter(|&i| !comps[i].1).collect();
        order.extend((0..comps.len()).filter(|&i| comps[i].1));
        let mut mask = 0u64;
        for (p, &ci) in order.iter().enumerate() {
            let rank = comps.iter().filter(|c| c.0 < comps[ci].0).count();
            if x.label[p].is_X() { mask |= 1 << rank; }
        }
        (bits_txt(&state_bits(&x.state)), mask)
    };
    let (w, r) = (l.writhe() as isize, l.seifert_circles().len() as isize);
    let mut ztxt = vec![];
    for (k, z) in zs.iter().enumerate() {
        let d = format!("{} cycle#{}", desc, k);
        s.oracle(z.gens().all(|x| x.h_deg() == 0), "canonical cycles are chains of homological degree 0", &d, &format!("h_deg {}", z.h_deg()));
        let dz = c.d(0, z);
        s.oracle(dz.is_zero(), "canonical cycles are cycles: d z = 0", &d, &format!("d z has {} terms", dz.nterms()));
        let q = z.iter().filter(|(_, a)| !a.is_zero()).map(|(x, _)| x.q_deg()).min();
        s.oracle(q == Some(w - r + if base.is_some() { 1 } else { 0 }), "the lowest q-degree of a canonical cycle is w - r (+1 reduced), the degree entering ss = 2d + w - r + 1", &d, &format!("{:?} w={} r={}", q, w, r));
        let mut ts: Vec<(String, u64, i64)> = z.iter().filter(|(_, a)| !a.is_zero()).map(|(x, a)| { let (bs, m) = render(x); (bs, m, *a) }).collect();
        ts.sort();
        ztxt.push(if ts.is_empty() { "0".to_string() } else { ts.iter().map(|(bs, m, a)| format!("{}/{}:{}", bs, m, a)).collect::<Vec<_>>().join(",") });
    }
    let s0: Vec<bool> = l.ori_pres_state().iter().map(|b| b.is_one()).collect();
    let mut circ: Vec<usize> = snap.iter().find(|(k, _)| state_bits(k) == s0).map(|(_, v)| v.iter().map(|c| c.0).collect()).unwrap_or_default();
    circ.sort();
    let reply = format!("s={} circ={} z={} chk=ok", bits_txt(&s0), circ.iter().map(|e| e.to_string()).collect::<Vec<_>>().join(","),
        if ztxt.is_empty() { "none".to_string() } else { ztxt.join(";") });
    s.case(&format!("canon {} {} {}", h, base.map(|e| e as i64).unwrap_or(-1), link_txt(l)), &reply, knot && l.crossing_num() >= 2);
    s.count(if base.is_some() { "canon.reduced" } else { "canon.unreduced" });
    s.count(&format!("canon.h.{}", h));
}

/// boundary: a base edge that is not an edge of the diagram. For a knot `colored_seifert_circles` finds no circle
/// through it (`unwrap` on `None`: panic, modelled as `Res.panic`); a link that is not a knot gets no cycles at all.
fn canon_boundary(s: &mut Sink, l: &Link, h: i64) {
    let base = l.edges().into_iter().max().unwrap_or(0) + 1 + (h.unsigned_abs() as usize);
    let req = format!("canon {} {} {}", h, base, link_txt(l));
    let l2 = l.clone();
    let built = guard(move || { let b = TngComplexBuilder::<i64>::new(&l2, &h, &0, Some(base)); b.elements().count() });
    let reply = match built {
        None => "panic".to_string(),
        Some(k) => {
            let s0: Vec<bool> = l.ori_pres_state().iter().map(|b| b.is_one()).collect();
            let mut circ: Vec<usize> = l.seifert_circles().iter().map(|c| c.min_edge()).collect();
            circ.sort();
            format!("s={} circ={} z={} chk=ok", bits_txt(&s0), circ.iter().map(|e| e.to_string()).collect::<Vec<_>>().join(","), if k == 0 { "none".to_string() } else { format!("{} cycles", k) })
        }
    };
    s.case(&req, &reply, true);
    s.count(if built.is_none() { "canon.boundary.panic" } else { "canon.boundary.nocycles" });
}

/// the construction stream for one diagram: every h in {0,1,2,3,-1}; `mode` 0: unreduced + reduced at every edge,
/// 1: unreduced + reduced at `first_edge` + reduced at a random edge, 2: one of these three per h (rotating)
fn canon_stream(s: &mut Sink, r: &mut Rng, name: &str, l: &Link, mode: u8) {
    guarded_case(s, name, |s| seifert_case(s, l));
    if l.is_empty() { return }
    let mut edges: Vec<usize> = l.edges().into_iter().collect();
    edges.sort();
    let first = l.first_edge();
    let rot = r.below(3) as usize;
    for (hi, h) in [0i64, 1, 2, 3, -1].into_iter().enumerate() {
        let mut bases: Vec<Option<usize>> = vec![None, first];
        if mode == 0 { bases.extend(edges.iter().filter(|e| Some(**e) != first).map(|e| Some(*e))); }
        else { bases.push(Some(*r.pick(&edges))); }
        if mode == 2 { bases = vec![bases[(hi + rot) % 3]]; }
        for base in bases {
            guarded_case(s, &format!("{} [{}] h={} base={:?}", link_txt(l), name, h, base), |s| canon_construct(s, name, l, h, base));
        }
    }
}

/// switch crossing `i` of a plain PD diagram (X -> Xm with the same edges)
fn switch_crossing(l: &Link, i: usize) -> Link {
    let data: Vec<Crossing> = l.data().iter().enumerate().map(|(k, c)| if k == i { c.mirror() } else { c.clone() }).collect();
    Link::new(data)
}

/// every single crossing change of a knot diagram (mostly non-alternating diagrams, the ones whose simplification closes dotted
/// positive-genus components): reduced = unreduced and the mirror rule, over (Z, 2) and (F3[H], H)
fn switched_case(s: &mut Sink, name: &str, l: &Link) {
    if !is_plain_pd(l) { return }
    type P3 = Poly<'H', FF<3>>;
    for i in 0..l.crossing_num() {
        let km = switch_crossing(l, i);
        if !km.is_knot() { continue }
        let desc = format!("{} [{} with crossing#{} switched]", link_txt(&km), name, i);
        let (k1, k2, k3) = (km.clone(), km.clone(), km.mirror());
        let got = guard_timeout(180, move || (ss_invariant::<i64>(&k1, &2, false), ss_invariant::<i64>(&k2, &2, true), ss_invariant::<i64>(&k3, &2, false),
            ss_invariant::<P3>(&k1, &P3::variable(), false), ss_invariant::<P3>(&k2, &P3::variable(), true))).flatten();
        match got {
            Some((u, rd, m, u3, rd3)) => {
                s.oracle(u == rd && u3 == rd3 && u == u3, "ss is the same for the reduced and unreduced theories (and for every admissible (R, c))", &desc, &format!("Z,2: {} vs {}; F3[H],H: {} vs {}", u, rd, u3, rd3));
                s.oracle(m == -u, "ss changes sign under mirroring", &desc, &format!("{} vs mirror {}", u, m));
            }
            None => s.oracle(false, "ss_invariant terminates without panic on a knot diagram", &desc, "panic/timeout"),
        }
        s.count("switched-diagram");
    }
    s.eval_only(&format!("switched diagrams of {}", name), true);
}

fn knot_case(s: &mut Sink, r: &mut Rng, name: &str, l: &Link, full: bool) {
    let desc = format!("{} [{}]", link_txt(l), name);
    let Some(u) = ss_all(l, false) else { s.oracle(false, "ss_invariant terminates without panic on a knot diagram", &desc, "panic/timeout"); return };
    let Some(rd) = ss_all(l, true) else { s.oracle(false, "ss_invariant terminates without panic on a knot diagram", &desc, "panic/timeout (reduced)"); return };
    s.oracle(u == rd, "ss is the same for the reduced and unreduced theories", &desc, &format!("{:?} vs {:?}", u, rd));
    s.count(&format!("crossings.{}", l.crossing_num()));
    s.count(&format!("ss.{}", u[0].1));
    // arithmetic tie: ss = 2d + w - r + 1  => d recovered must be an integer; send to the model
    let (w, rr) = (l.writhe(), l.seifert_circles().len() as i32);
    let d2 = u[0].1 - w + rr - 1;
    s.oracle(d2 % 2 == 0, "ss - w + r - 1 is even (ss = 2d + w - r + 1)", &desc, &format!("ss {} w {} r {}", u[0].1, w, rr));
    s.case(&format!("ss {} {} {}", d2 / 2, w, rr), &u[0].1.to_string(), true);
    // mirror
    if let Some(m) = ss_all(&l.mirror(), false) {
        let neg: Vec<(String, i32)> = u.iter().map(|(k, v)| (k.clone(), -v)).collect();
        s.oracle(m == neg, "ss changes sign under mirroring", &desc, &format!("{:?} vs mirror {:?}", u, m));
    } else { s.oracle(false, "ss_invariant terminates without panic on a knot diagram", &desc, "panic/timeout (mirror)"); }
    // canonical cycles
    for h in [1i64, 2, 3] { for red in [false, true] {
        guarded_case(s, &desc, |s| canon_checks::<i64>(s, &format!("{} h={} reduced={}", desc, h, red as u8), l, &h, red)); } }
    guarded_case(s, &desc, |s| canon_checks::<i64>(s, &format!("{} h=0 reduced=0", desc), l, &0, false));
    { type P = Poly<'H', FF2>; guarded_case(s, &desc, |s| canon_checks::<P>(s, &format!("{} h=H over F2[H]", desc), l, &P::variable(), false)); }
    if !full { return }
    // diagram independence
    if is_plain_pd(l) {
        let mut pd = pd_of(l);
        let mut tags = vec![];
        for _ in 0..(1 + r.below(3)) {
            match r.below(4) {
                0 => { if pd.len() < 9 { if let Some(q) = add_kink(r, &pd) { pd = q; tags.push("R1-kink"); } } }
                1 => { pd = renumber(r, &pd); tags.push("renumber"); }
                2 => { pd = reorder(r, &pd); tags.push("reorder"); }
                _ => { pd = reverse_all(&pd); tags.push("reverse-all"); }
            }
        }
        let moved = link_of(&pd);
        for t in &tags { s.count(&format!("move.{}", t)); }
        match ss_all(&moved, r.bool()) {
            Some(m) => s.oracle(m == u, "ss is the same for all diagrams of a knot", &format!("{} --[{}]--> {}", link_txt(l), tags.join(","), link_txt(&moved)), &format!("{:?} vs {:?}", u, m)),
            None => s.oracle(false, "ss_invariant terminates without panic on a knot diagram", &link_txt(&moved), "panic/timeout"),
        }
        // crossing change: for every positive crossing K+ -> K-
        let signs = l.crossing_signs();
        for (i, sg) in signs.iter().enumerate() {
            if !sg.is_positive() { continue }
            let km = switch_crossing(l, i);
            if !km.is_knot() { continue }
            match ss_all(&km, false) {
                Some(m) => {
                    let ok = u.iter().zip(m.iter()).all(|((_, p), (_, q))| q <= p && *p <= q + 2);
                    s.oracle(ok, "ss(K-) <= ss(K+) <= ss(K-) + 2 for a positive-to-negative crossing change", &format!("{} crossing#{}", desc, i), &format!("K+ {:?} K- {:?}", u, m));
                    s.count("crossing-change");
                }
                None => s.oracle(false, "ss_invariant terminates without panic on a knot diagram", &link_txt(&km), "panic/timeout"),
            }
        }
    }
}

fn main() {
    let args = Args::parse();
    quiet_panics();
    let thorough = args.thorough();
    let mut s = Sink::new(&args, "cases: knot diagrams (table knots, braid-closure knots, kinked unknots) x {ss over (Z,2),(Z,3),(BigInt,2),(F2[H],H),(F3[H],H),(Q[H],H)} x reduced/unreduced \
        x mirror x random relabelling/kink moves x every positive crossing switched; canonical cycles for h in {0,1,2,3,H}; Lee/Bar-Natan ranks for links; random vectors through div_vec vs the Lean \
        valuation model; construction stream: knots with <= 7 (8) crossings, their mirrors and moved diagrams x h in {0,1,2,3,-1} x {unreduced, reduced at first_edge, reduced at other edges} \
        through TngComplexBuilder without elimination vs the Lean construction of the cycles, Seifert circles of all diagrams, base edges outside the diagram (panic); non-trivial = every knot case and every vector with a non-zero entry; distinct = distinct descriptions");
    let mut r = Rng::new(args.seed);

    // valuation loop differential
    for _ in 0..(if thorough { 20000 } else { 3000 }) {
        let c: i64 = *r.pick(&[2, 3, -2, 5, 4, 6, 10, -3, 7]);
        let n = 1 + r.below(5) as usize;
        let v: Vec<i64> = (0..n).map(|_| match r.below(5) { 0 => 0, 1 => r.range(-50, 50), _ => { let k = r.below(12) as u32; let u = r.range(-9, 9); u.saturating_mul(c.pow(k.min(if c.abs() > 5 { 8 } else { 12 }))) } }).collect();
        let sv = SpVec::from_entries(n, v.iter().cloned().enumerate());
        let got = guard(|| div_vec(&sv, &c));
        let reply = match got { Some(Some(k)) => format!("some {}", k), Some(None) => "none".into(), None => "panic".into() };
        // oracle: exact valuation
        let want = v.iter().filter(|a| **a != 0).map(|a| { let mut a = *a; let mut k = 0; while a % c == 0 { a /= c; k += 1; } k }).min();
        s.oracle(got == Some(want), "div_vec returns the minimal c-adic valuation of the non-zero entries", &format!("c={} v={:?}", c, v), &reply);
        s.case(&format!("divvec {} {}", c, v.iter().map(|x| x.to_string()).collect::<Vec<_>>().join(" ")), &reply, v.iter().any(|a| *a != 0));
    }

    // Lee / BN ranks for links
    let mut names = table_names(if thorough { 8 } else { 6 });
    r.shuffle(&mut names);
    names.truncate(if thorough { 60 } else { 14 });
    let mut links: Vec<(String, Link)> = vec![("empty".into(), Link::empty()), ("unknot".into(), Link::unknot()), ("hopf".into(), Link::hopf_link()), ("trefoil".into(), Link::trefoil())];
    for n in names { if let Some(l) = load(&n) { links.push((n, l)); } }
    for _ in 0..(if thorough { 30 } else { 8 }) {
        let strands = 2 + r.below(3) as usize;
        let len = strands - 1 + r.below(4) as usize;
        let (w, l) = random_braid(&mut r, strands, len);
        if let Some(l) = l { links.push((format!("braid{}{:?}", strands, w), l)); }
    }
    for (name, l) in &links { guarded_case(&mut s, name, |s| lee_ranks(s, name, l, l.crossing_num() <= 8)); }

    // knots
    let kmax = if thorough { 9 } else { 7 };
    let mut knots: Vec<(String, Link)> = vec![("unknot".into(), Link::unknot()), ("kink+".into(), Link::from_pd_code([[0, 0, 1, 1]])), ("kink-".into(), Link::from_pd_code([[0, 1, 1, 0]])),
        ("trefoil".into(), Link::trefoil()), ("figure8".into(), Link::figure8())];
    let mut names: Vec<String> = table_names(kmax).into_iter().filter(|n| !n.starts_with('L')).collect();
    r.shuffle(&mut names);
    names.truncate(if thorough { 40 } else { 6 });
    for n in names { if let Some(l) = load(&n) { knots.push((n, l)); } }
    for _ in 0..(if thorough { 30 } else { 6 }) {
        let strands = 2 + r.below(2) as usize;
        let len = strands - 1 + r.below(5) as usize;
        let (w, l) = random_braid(&mut r, strands, len);
        if let Some(l) = l { if l.is_knot() && l.crossing_num() <= kmax { knots.push((format!("braid{}{:?}", strands, w), l)); } }
    }
    for (name, l) in &knots {
        if !l.is_knot() { continue }
        guarded_case(&mut s, name, |s| knot_case(s, &mut r, name, l, true));
        s.eval_only(&format!("knot {}", name), true);
    }
    // a diagram with more than 32 crossings (resolution states longer than 32 bits): the 2-strand torus knot T(2,33) and a kinked copy;
    // 2-strand torus knots simplify quickly, so this is cheap. Clauses: reduced = unreduced, mirror, diagram independence
    {
        let w: Vec<i32> = vec![1; 33];
        if let Some(l) = braid_closure(2, &w) {
            let desc = "T(2,33) = closure of s1^33";
            let run = |k: Link, red: bool| guard_timeout(240, move || ss_invariant::<i64>(&k, &2, red)).flatten();
            let (u, rd, m) = (run(l.clone(), false), run(l.clone(), true), run(l.mirror(), false));
            let kinked = add_kink(&mut r, &pd_of(&l)).map(|p| link_of(&p));
            let kk = kinked.clone().and_then(|k| run(k, false));
            match (u, rd, m) {
                (Some(u), Some(rd), Some(m)) => {
                    s.oracle(u == rd, "ss is the same for the reduced and unreduced theories", desc, &format!("{} vs {}", u, rd));
                    s.oracle(m == -u, "ss changes sign under mirroring", desc, &format!("{} vs mirror {}", u, m));
                    s.oracle(u.abs() == 32, "ss of the torus knot T(2,n) is ±(n − 1)", desc, &format!("{}", u));
                    if kinked.is_some() { s.oracle(kk == Some(u), "ss is the same for all diagrams of a knot", &format!("{} with one kink", desc), &format!("{:?} vs {}", kk, u)); }
                }
                x => s.oracle(false, "ss_invariant terminates without panic on a knot diagram", desc, &format!("{:?}", x)),
            }
            s.eval_only("T(2,33)", true);
            s.count("large-torus-knot");
        }
    }
    // all single crossing changes of 7- (thorough: 6- to 8-) crossing table knots
    {
        let mut ks: Vec<String> = table_names(if thorough { 8 } else { 7 }).into_iter().filter(|n| !n.starts_with('L') && (n.starts_with("7_") || (thorough && (n.starts_with("6_") || n.starts_with("8_"))))).collect();
        r.shuffle(&mut ks);
        if !thorough { ks.truncate(3); if !ks.iter().any(|x| x == "7_7") { ks.push("7_7".into()); } } else { ks.truncate(24); }
        for n in ks { if let Some(l) = load(&n) { if l.is_knot() { guarded_case(&mut s, &n, |s| switched_case(s, &n, &l)); } } }
    }
    // construction of the canonical cycles without elimination, against the Lean construction model
    {
        let cmax = if thorough { 8 } else { 7 };
        let mut ds: Vec<(String, Link)> = vec![("empty".into(), Link::empty()), ("hopf".into(), Link::hopf_link())];
        for (name, l) in &knots { if l.crossing_num() <= cmax { ds.push((name.clone(), l.clone())); } }
        let n0 = ds.len();
        for i in 2..n0 {
            let (name, l) = ds[i].clone();
            if l.crossing_num() == 0 { continue }
            ds.push((format!("{}-mirror", name), l.mirror()));
            if is_plain_pd(&l) && (thorough || r.chance(1, 2)) {
                let mut pd = pd_of(&l);
                match r.below(4) {
                    0 => { if pd.len() < cmax { if let Some(q) = add_kink(&mut r, &pd) { pd = q; } } }
                    1 => { pd = renumber(&mut r, &pd); }
                    2 => { pd = reorder(&mut r, &pd); }
                    _ => { pd = reverse_all(&pd); }
                }
                let m = link_of(&pd);
                ds.push((format!("{}-moved", name), if r.bool() { m.mirror() } else { m }));
            }
        }
        for (name, l) in &links { if !l.is_knot() && l.crossing_num() <= 6 { guarded_case(&mut s, name, |s| seifert_case(s, l)); } }
        for (i, (_, l)) in ds.iter().enumerate() { if !l.is_empty() && (i < 8 || thorough) { canon_boundary(&mut s, l, (i % 3) as i64); } }
        for (name, l) in &ds {
            let n = l.crossing_num();
            let mode = if n <= (if thorough { 5 } else { 3 }) { 0 } else if thorough || n <= 6 { 1 } else { 2 };
            canon_stream(&mut s, &mut r, name, l, mode);
            s.eval_only(&format!("canonical cycle construction {}", name), l.crossing_num() >= 2);
        }
    }
    // larger non-alternating knots over rings with units that are not self-inverse (Q, Q[H], F3[H]); the engine's
    // elimination order follows randomly seeded hash maps, so every configuration is built several times
    {
        type PQ = Poly<'H', Ratio<i64>>; type P3 = Poly<'H', FF<3>>;
        let mut big: Vec<String> = table_names(11).into_iter().filter(|n| !n.starts_with('L') && (n.starts_with("K11n") || ["8_19", "8_20", "8_21", "9_42", "9_46", "10_124", "10_132", "10_139", "10_145", "10_146", "10_152", "10_161"].contains(&n.as_str()))).collect();
        r.shuffle(&mut big);
        big.truncate(if thorough { 60 } else { 10 });
        for fixed in ["10_146", "K11n65"] { if !big.iter().any(|x| x == fixed) { big.push(fixed.to_string()); } }
        let reps = if thorough { 8 } else { 4 };
        for name in &big {
            let Some(l0) = load(name) else { continue };
            if !l0.is_knot() { continue }
            for l in [l0.clone(), l0.mirror()] {
                for _ in 0..reps {
                    let red = r.chance(1, 4);
                    let desc = format!("{} [{}] reduced={}", link_txt(&l), name, red as u8);
                    match r.below(4) {
                        0 | 1 => guarded_case(&mut s, &desc, |s| canon_checks::<PQ>(s, &format!("{} h=H over Q[H]", desc), &l, &PQ::variable(), red)),
                        2 => { let h = Ratio::from(*r.pick(&[2i64, 3])); guarded_case(&mut s, &desc, |s| canon_checks::<Ratio<i64>>(s, &format!("{} h={} over Q", desc, h), &l, &h, red)) }
                        _ => guarded_case(&mut s, &desc, |s| canon_checks::<P3>(s, &format!("{} h=H over F3[H]", desc), &l, &P3::variable(), red)),
                    }
                    s.eval_only(&format!("big-knot canonical cycles {}", desc), true);
                    s.count("big-knot.canon");
                }
            }
        }
    }
    let _ = CrossingType::X;
    s.finish();
}
