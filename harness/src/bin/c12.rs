//! C12 — sparse kernels (triangular solve, Schur complement, direct-sum splitting, union-find):
//! real code in rayon pools of 1/2/8/16 threads vs. naive dense oracle (harness) vs. Lean code model.
use std::collections::BTreeSet;

use rayon::ThreadPool;
use yui::{GaussInt, Ratio, Ring, RingOps, UnionFind, FF};
use yui_matrix::sparse::decomp::dir_sum_decomp;
use yui_matrix::sparse::schur::Schur;
use yui_matrix::sparse::triang::{inv_triangular, solve_triangular, solve_triangular_left, solve_triangular_vec, TriangularType};
use yui_matrix::sparse::{MatTrait, SpMat, SpVec};
use yv::rings::Txt;
use yv::*;

// ---------------------------------------------------------------------------------------------
// rings
// ---------------------------------------------------------------------------------------------

trait HR: Ring + Txt
where for<'x> &'x Self: RingOps<Self> {
    const TAG: &'static str;
    /// a unit of the ring
    fn unit(r: &mut Rng) -> Self;
    /// a small non-zero element
    fn elem(r: &mut Rng) -> Self;
    /// a non-zero non-unit, if the ring has one
    fn nonunit(r: &mut Rng) -> Option<Self>;
}

impl HR for i64 {
    const TAG: &'static str = "Z";
    fn unit(r: &mut Rng) -> Self { if r.bool() { 1 } else { -1 } }
    fn elem(r: &mut Rng) -> Self { let v = r.range(1, 3); if r.bool() { v } else { -v } }
    fn nonunit(r: &mut Rng) -> Option<Self> { Some(*r.pick(&[2, -2, 3, -5])) }
}
impl HR for Ratio<i64> {
    const TAG: &'static str = "Q";
    fn unit(r: &mut Rng) -> Self {
        let (n, d) = *r.pick(&[(1, 1), (-1, 1), (2, 1), (-2, 1), (1, 2), (-1, 2), (3, 1), (1, 3), (-3, 2), (2, 3)]);
        Ratio::new(n, d)
    }
    fn elem(r: &mut Rng) -> Self {
        let (n, d) = *r.pick(&[(1, 1), (-1, 1), (2, 1), (-2, 1), (1, 2), (-1, 2), (3, 1), (-1, 3), (3, 2), (-2, 3), (1, 4)]);
        Ratio::new(n, d)
    }
    fn nonunit(_: &mut Rng) -> Option<Self> { None }
}
impl HR for FF<5> {
    const TAG: &'static str = "F5";
    fn unit(r: &mut Rng) -> Self { FF::new(r.range(1, 4) as i32) }
    fn elem(r: &mut Rng) -> Self { FF::new(r.range(1, 4) as i32) }
    fn nonunit(_: &mut Rng) -> Option<Self> { None }
}
impl HR for GaussInt<i64> {
    const TAG: &'static str = "G";
    fn unit(r: &mut Rng) -> Self { let (a, b) = *r.pick(&[(1, 0), (-1, 0), (0, 1), (0, -1)]); GaussInt::new(a, b) }
    fn elem(r: &mut Rng) -> Self {
        loop {
            let (a, b) = (r.range(-2, 2), r.range(-2, 2));
            if (a, b) != (0, 0) { return GaussInt::new(a, b) }
        }
    }
    fn nonunit(r: &mut Rng) -> Option<Self> { let (a, b) = *r.pick(&[(1, 1), (2, 0), (0, -2), (1, -2)]); Some(GaussInt::new(a, b)) }
}

// ---------------------------------------------------------------------------------------------
// naive dense arithmetic (the oracle's own; nothing from yui-matrix)
// ---------------------------------------------------------------------------------------------

#[derive(Clone, PartialEq, Debug)]
struct Dn<R> { m: usize, n: usize, e: Vec<R> }

impl<R: HR> Dn<R>
where for<'x> &'x R: RingOps<R> {
    fn zero(m: usize, n: usize) -> Self { Dn { m, n, e: vec![R::zero(); m * n] } }
    fn id(n: usize) -> Self { let mut d = Self::zero(n, n); for i in 0..n { d.e[i * n + i] = R::one(); } d }
    fn at(&self, i: usize, j: usize) -> &R { &self.e[i * self.n + j] }
    fn set(&mut self, i: usize, j: usize, v: R) { let n = self.n; self.e[i * n + j] = v; }
    fn from_sp(a: &SpMat<R>) -> Self {
        let (m, n) = a.shape();
        let mut d = Self::zero(m, n);
        for (i, j, v) in a.iter() { let x = d.at(i, j) + v; d.set(i, j, x); }
        d
    }
    fn mul(&self, o: &Self) -> Self {
        assert_eq!(self.n, o.m);
        let mut d = Self::zero(self.m, o.n);
        for i in 0..self.m { for j in 0..o.n {
            let mut s = R::zero();
            for k in 0..self.n { s = s + self.at(i, k) * o.at(k, j); }
            d.set(i, j, s);
        } }
        d
    }
    fn sub(&self, o: &Self) -> Self {
        assert_eq!((self.m, self.n), (o.m, o.n));
        Dn { m: self.m, n: self.n, e: self.e.iter().zip(o.e.iter()).map(|(a, b)| a - b).collect() }
    }
    fn transpose(&self) -> Self {
        let mut d = Self::zero(self.n, self.m);
        for i in 0..self.m { for j in 0..self.n { d.set(j, i, self.at(i, j).clone()); } }
        d
    }
    fn block(&self, i0: usize, i1: usize, j0: usize, j1: usize) -> Self {
        let mut d = Self::zero(i1 - i0, j1 - j0);
        for i in i0..i1 { for j in j0..j1 { d.set(i - i0, j - j0, self.at(i, j).clone()); } }
        d
    }
    fn txt(&self) -> String {
        let mut s = format!("{} {}", self.m, self.n);
        for x in &self.e { s.push(' '); s.push_str(&x.txt()); }
        s
    }
    fn nonzero_entries(&self) -> Vec<(usize, usize, R)> {
        let mut v = vec![];
        for j in 0..self.n { for i in 0..self.m { if !self.at(i, j).is_zero() { v.push((i, j, self.at(i, j).clone())); } } }
        v
    }
    /// naive substitution for a triangular matrix with unit diagonal; `None` if a diagonal entry has no inverse
    fn tri_solve(&self, upper: bool, y: &Self) -> Option<Self> {
        let n = self.m;
        let mut x = Self::zero(n, y.n);
        for c in 0..y.n {
            let order: Vec<usize> = if upper { (0..n).rev().collect() } else { (0..n).collect() };
            for &i in &order {
                let mut s = y.at(i, c).clone();
                for k in 0..n { if k != i { s = s - self.at(i, k) * x.at(k, c); } }
                let ui = self.at(i, i).inv()?;
                x.set(i, c, s * ui);
            }
        }
        Some(x)
    }
}

// ---------------------------------------------------------------------------------------------
// sparse matrices with a prescribed stored pattern
// ---------------------------------------------------------------------------------------------

#[derive(Clone)]
struct Spec<R> { m: usize, n: usize, ent: Vec<(usize, usize, R)>, zeros: Vec<(usize, usize)>, method: u8 }

fn build<R: HR>(s: &Spec<R>) -> SpMat<R>
where for<'x> &'x R: RingOps<R> {
    let shape = (s.m, s.n);
    if s.zeros.is_empty() || s.method == 0 {
        return SpMat::from_entries(shape, s.ent.iter().cloned());
    }
    if s.method == 1 {
        // duplicate entries v, -v: summed to a stored zero by the COO -> CSC conversion
        let mut e = s.ent.clone();
        for &(i, j) in &s.zeros { let v = R::one() + R::one(); e.push((i, j, v.clone())); e.push((i, j, -v)); }
        SpMat::from_entries(shape, e)
    } else {
        // (A + Z) - Z keeps the union pattern
        let mut e = s.ent.clone();
        for &(i, j) in &s.zeros { e.push((i, j, R::one())); }
        let zs: BTreeSet<(usize, usize)> = s.zeros.iter().cloned().collect();
        let a1 = SpMat::from_entries(shape, e);
        let z = SpMat::from_entries(shape, zs.iter().map(|&(i, j)| (i, j, R::one())));
        // duplicates in `zeros` were added several times to a1: subtract as often
        let mut a = a1;
        let mut cnt = std::collections::BTreeMap::new();
        for &p in &s.zeros { *cnt.entry(p).or_insert(0usize) += 1; }
        let maxc = cnt.values().cloned().max().unwrap_or(0);
        for c in 1..=maxc {
            let zc = if c == 1 { z.clone() } else { SpMat::from_entries(shape, cnt.iter().filter(|(_, &k)| k >= c).map(|(&(i, j), _)| (i, j, R::one()))) };
            a = &a - &zc;
        }
        a
    }
}

fn sp_req<R: HR>(a: &SpMat<R>) -> String
where for<'x> &'x R: RingOps<R> {
    let (m, n) = a.shape();
    let mut s = format!("{} {} {}", m, n, a.nnz());
    for (i, j, v) in a.iter() { s.push_str(&format!(" {} {} {}", i, j, v.txt())); }
    s
}
fn stored_zeros<R: HR>(a: &SpMat<R>) -> usize
where for<'x> &'x R: RingOps<R> { a.iter().filter(|e| e.2.is_zero()).count() }

fn rand_zeros(r: &mut Rng, m: usize, n: usize, zmode: u8) -> Vec<(usize, usize)> {
    if zmode == 0 || m == 0 || n == 0 { return vec![] }
    let k = 1 + r.below(((m * n) as u64 / 4).max(1)) as usize;
    (0..k).map(|_| (r.below(m as u64) as usize, r.below(n as u64) as usize)).collect()
}

fn rand_sparse<R: HR>(r: &mut Rng, m: usize, n: usize, dens: u64, zmode: u8) -> Spec<R>
where for<'x> &'x R: RingOps<R> {
    let mut ent = vec![];
    for i in 0..m { for j in 0..n { if r.chance(dens, 100) { ent.push((i, j, R::elem(r))); } } }
    Spec { m, n, ent, zeros: rand_zeros(r, m, n, zmode), method: zmode }
}

fn spec_of_dense<R: HR>(r: &mut Rng, d: &Dn<R>, zmode: u8) -> Spec<R>
where for<'x> &'x R: RingOps<R> {
    Spec { m: d.m, n: d.n, ent: d.nonzero_entries(), zeros: rand_zeros(r, d.m, d.n, zmode), method: zmode }
}

/// triangular matrix with unit diagonal, stored zeros anywhere (also on the "wrong" side)
fn rand_triang<R: HR>(r: &mut Rng, n: usize, upper: bool, dens: u64, zmode: u8) -> Spec<R>
where for<'x> &'x R: RingOps<R> {
    let mut ent = vec![];
    let pm1 = r.chance(1, 3);
    for j in 0..n { for i in 0..n {
        if i == j { ent.push((i, j, if pm1 { if r.bool() { R::one() } else { -R::one() } } else { R::unit(r) })); }
        else if (upper && i < j || !upper && i > j) && r.chance(dens, 100) { ent.push((i, j, R::elem(r))); }
    } }
    Spec { m: n, n, ent, zeros: rand_zeros(r, n, n, zmode), method: zmode }
}

/// damage a valid triangular spec; returns a tag
fn damage<R: HR>(r: &mut Rng, s: &mut Spec<R>, upper: bool) -> &'static str
where for<'x> &'x R: RingOps<R> {
    let n = s.n;
    match r.below(5) {
        0 if n >= 2 => { // non-zero entry on the wrong side
            let (a, b) = (r.below(n as u64) as usize, r.below(n as u64) as usize);
            if a == b { return "none" }
            let (lo, hi) = (a.min(b), a.max(b));
            let (i, j) = if upper { (hi, lo) } else { (lo, hi) };
            s.ent.push((i, j, R::elem(r)));
            "wrongside"
        }
        1 if n >= 1 => { // non-unit diagonal entry
            if let Some(v) = R::nonunit(r) {
                let j = r.below(n as u64) as usize;
                for e in s.ent.iter_mut() { if e.0 == j && e.1 == j { e.2 = v.clone(); } }
                "nonunit"
            } else { "none" }
        }
        2 if n >= 1 => { // missing diagonal entry
            let j = r.below(n as u64) as usize;
            s.ent.retain(|e| !(e.0 == j && e.1 == j));
            "missingdiag"
        }
        3 if n >= 1 => { // explicitly stored zero on the diagonal
            let j = r.below(n as u64) as usize;
            s.ent.retain(|e| !(e.0 == j && e.1 == j));
            s.zeros.push((j, j));
            if s.method == 0 { s.method = 1 + r.below(2) as u8; }
            "zerodiag"
        }
        4 => { // not square
            if r.bool() { s.m += 1 } else { s.n += 1 }
            "nonsquare"
        }
        _ => "none",
    }
}

// ---------------------------------------------------------------------------------------------
// pools
// ---------------------------------------------------------------------------------------------

struct Pools(Vec<(usize, ThreadPool)>);
impl Pools {
    fn new() -> Self {
        Pools([1usize, 2, 8, 16].iter().map(|&k| (k, rayon::ThreadPoolBuilder::new().num_threads(k).build().unwrap())).collect())
    }
    /// run `f` in every pool (panic => None)
    fn run<T: Send>(&self, f: impl Fn() -> T + Sync) -> Vec<Option<T>> {
        self.0.iter().map(|(_, p)| guard(|| p.install(|| f()))).collect()
    }
}

const SAME: &str = "same value on one thread and on many (pools of 1/2/8/16 threads)";

fn all_same(v: &[Option<String>]) -> bool { v.iter().all(|x| x == &v[0]) }
fn ul(upper: bool) -> &'static str { if upper { "U" } else { "L" } }
fn tt(upper: bool) -> TriangularType { if upper { TriangularType::Upper } else { TriangularType::Lower } }

// ---------------------------------------------------------------------------------------------
// triangular solves
// ---------------------------------------------------------------------------------------------

#[derive(Clone, Copy, PartialEq, Debug)]
enum Kind { Solve, Left, Vec, Inv }

fn solve_case<R: HR>(s: &mut Sink, pools: &Pools, kind: Kind, upper: bool, a: &SpMat<R>, y: &SpMat<R>, valid: bool, tag: &str)
where for<'x> &'x R: RingOps<R> {
    let t = tt(upper);
    let (cmd, req) = match kind {
        Kind::Solve => ("solve", format!("solve {} {} {} {}", R::TAG, ul(upper), sp_req(a), sp_req(y))),
        Kind::Left => ("solvel", format!("solvel {} {} {} {}", R::TAG, ul(upper), sp_req(a), sp_req(y))),
        Kind::Vec => ("solvev", format!("solvev {} {} {} {}", R::TAG, ul(upper), sp_req(a), sp_req(y))),
        Kind::Inv => ("inv", format!("inv {} {} {}", R::TAG, ul(upper), sp_req(a))),
    };
    let yv: Option<SpVec<R>> = if kind == Kind::Vec {
        // the SpVec with exactly the stored pattern of column 0 of y (stored zeros included)
        let (_, rows, vals) = y.data();
        let nzv = SpVec::from_entries(y.nrows(), rows.iter().cloned().zip(vals.iter().cloned()).map(|(i, v)| (i, if v.is_zero() { R::one() } else { v })));
        let zv = SpVec::from_entries(y.nrows(), rows.iter().cloned().zip(vals.iter().cloned()).filter(|(_, v)| v.is_zero()).map(|(i, _)| (i, R::one())));
        Some(&nzv - &zv)
    } else { None };
    let res: Vec<Option<Dn<R>>> = pools.run(|| match kind {
        Kind::Solve => Dn::from_sp(&solve_triangular(t, a, y)),
        Kind::Left => Dn::from_sp(&solve_triangular_left(t, a, y)),
        Kind::Vec => Dn::from_sp(&solve_triangular_vec(t, a, yv.as_ref().unwrap()).into_mat()),
        Kind::Inv => Dn::from_sp(&inv_triangular(t, a)),
    });
    let txts: Vec<Option<String>> = res.iter().map(|x| x.as_ref().map(|d| d.txt())).collect();
    let reply = match &txts[0] { Some(t) => format!("ok {}", t), None => "panic".into() };
    s.count(&format!("{}.{}.{}", cmd, R::TAG, ul(upper)));
    s.count(&format!("size.{}", a.nrows().min(12)));
    if stored_zeros(a) + stored_zeros(y) > 0 { s.count("with_stored_zeros"); }
    if !valid { s.count(&format!("malformed.{}", tag)); if res[0].is_none() { s.count("outcome.panic"); } }
    if valid {
        s.oracle(all_same(&txts), SAME, &req, &format!("{:?}", txts));
        let (ad, yd) = (Dn::from_sp(a), Dn::from_sp(y));
        let ok = match (&res[0], kind) {
            (Some(x), Kind::Solve) | (Some(x), Kind::Vec) => (x.m, x.n) == (ad.n, yd.n) && ad.mul(x) == yd,
            (Some(x), Kind::Left) => (x.m, x.n) == (yd.m, ad.m) && x.mul(&ad) == yd,
            (Some(x), Kind::Inv) => (x.m, x.n) == (ad.m, ad.m) && ad.mul(x) == Dn::id(ad.m),
            (None, _) => false,
        };
        let clause = match kind {
            Kind::Left => "solve_triangular_left returns X with X*A = Y",
            Kind::Inv => "inv_triangular returns Z with A*Z = I",
            Kind::Vec => "solve_triangular_vec returns x with A*x = b",
            Kind::Solve => "solve_triangular returns X with A*X = Y",
        };
        s.oracle(ok, clause, &req, &reply);
    }
    let nontrivial = a.nrows() >= 2 && a.iter().any(|(i, j, v)| i != j && !v.is_zero()) && (kind == Kind::Inv || y.iter().any(|e| !e.2.is_zero()));
    // malformed inputs: only rejections that every implementation of the documented contract performs
    // (assert_eq! on the shapes, debug_assert!(is_triang)) are compared with the model; what happens for a
    // non-unit / missing diagonal is an implementation detail outside the property.
    if valid || matches!(tag, "wrongside" | "nonsquare" | "shape") { s.case(&req, &reply, nontrivial); } else { s.eval_only(&req, false); }
}

fn gen_solve<R: HR>(s: &mut Sink, r: &mut Rng, pools: &Pools, nmax: usize, kmax: usize)
where for<'x> &'x R: RingOps<R> {
    let upper = r.bool();
    let kind = match r.below(10) { 0..=4 => Kind::Solve, 5 | 6 => Kind::Left, 7 | 8 => Kind::Vec, _ => Kind::Inv };
    let small = matches!(R::TAG, "Q");
    let planted = kind != Kind::Inv && r.chance(3, 4);
    // unplanted solves / inverses grow exponentially: keep them small
    let cap = if planted { nmax } else if small { 4 } else { 7.min(nmax) };
    let n = if r.chance(1, 10) { r.below(2) as usize } else { r.below(cap as u64 + 1) as usize };
    let k = match kind { Kind::Vec => 1, Kind::Inv => n, _ => if r.chance(1, 12) { 0 } else { 1 + r.below(kmax as u64) as usize } };
    let zmode = if r.chance(2, 5) { 1 + r.below(2) as u8 } else { 0 };
    let dens = *r.pick(&[10u64, 25, 40, 70, 100]);
    let mut aspec: Spec<R> = rand_triang(r, n, upper, dens, zmode);
    let malformed = r.chance(1, 7);
    let mut tag = "none";
    if malformed { tag = damage(r, &mut aspec, upper); }
    let valid = tag == "none";
    let a = build(&aspec);
    let ad = Dn::from_sp(&a);
    // right-hand side
    let (ym, yn) = match kind { Kind::Left => (k, a.ncols()), _ => (a.nrows(), k) };
    let zy = if r.chance(1, 3) { 1 + r.below(2) as u8 } else { 0 };
    let mut yspec: Spec<R> = if planted && valid {
        // plant a small solution so that every intermediate value stays small
        let xdens = *r.pick(&[20u64, 50, 90]);
        let xs: Spec<R> = rand_sparse(r, ym, yn, xdens, 0);
        let xd = Dn::from_sp(&build(&xs));
        let yd = if kind == Kind::Left { xd.mul(&ad) } else { ad.mul(&xd) };
        spec_of_dense(r, &yd, zy)
    } else {
        let ydens = *r.pick(&[15u64, 40, 80]);
        rand_sparse(r, ym, yn, ydens, zy)
    };
    if kind == Kind::Inv { yspec = Spec { m: 0, n: 0, ent: vec![], zeros: vec![], method: 0 }; }
    if valid && kind != Kind::Inv && r.chance(1, 25) { // shape mismatch: rejected by assert_eq!
        if kind == Kind::Left { yspec.n += 1 } else { yspec.m += 1 }
        let y = build(&yspec);
        solve_case(s, pools, kind, upper, &a, &y, false, "shape");
        return;
    }
    let y = build(&yspec);
    solve_case(s, pools, kind, upper, &a, &y, valid, tag);
}

// ---------------------------------------------------------------------------------------------
// Schur complement
// ---------------------------------------------------------------------------------------------

fn schur_case<R: HR>(s: &mut Sink, pools: &Pools, upper: bool, m: &SpMat<R>, r: usize, wt: bool, valid: bool, tag: &str)
where for<'x> &'x R: RingOps<R> {
    let t = tt(upper);
    let req = format!("schur {} {} {} {} {}", R::TAG, ul(upper), r, wt as u8, sp_req(m));
    type Out<R> = (Dn<R>, Option<(Dn<R>, Dn<R>)>, Option<(Dn<R>, Dn<R>)>);
    let res: Vec<Option<Out<R>>> = pools.run(|| {
        let sch = Schur::from_partial_triangular(t, m, r, wt);
        let sd = Dn::from_sp(sch.complement());
        let src = sch.trans_src().map(|t| (Dn::from_sp(&t.forward_mat()), Dn::from_sp(&t.backward_mat())));
        let tgt = sch.trans_tgt().map(|t| (Dn::from_sp(&t.forward_mat()), Dn::from_sp(&t.backward_mat())));
        (sd, src, tgt)
    });
    let md = Dn::from_sp(m);
    let (mm, nn) = (md.m, md.n);
    let tr_ok = |o: &Out<R>| -> bool {
        match (&o.1, &o.2) {
            (Some((fs, bs)), Some((ft, bt))) => (ft.m, ft.n) == (mm - r, mm) && (bs.m, bs.n) == (nn, nn - r)
                && (fs.m, fs.n) == (nn - r, nn) && (bt.m, bt.n) == (mm, mm - r)
                && ft.mul(&md).mul(bs) == o.0 && fs.mul(bs) == Dn::id(nn - r) && ft.mul(bt) == Dn::id(mm - r),
            _ => false,
        }
    };
    let txts: Vec<Option<String>> = res.iter().map(|x| x.as_ref().map(|o| {
        let f = |p: &Option<(Dn<R>, Dn<R>)>| p.as_ref().map(|(a, b)| format!("{} / {}", a.txt(), b.txt())).unwrap_or("-".into());
        format!("{} | {} | {}", o.0.txt(), f(&o.1), f(&o.2))
    })).collect();
    // flag: when the maps were requested they are present and satisfy the identities (nothing is demanded otherwise)
    let reply = match &res[0] { Some(o) => format!("ok {} {}", o.0.txt(), (!wt || tr_ok(o)) as u8), None => "panic".into() };
    s.count(&format!("schur.{}.{}.wt{}", R::TAG, ul(upper), wt as u8));
    s.count(if r == 0 { "schur.r=0" } else if r == mm.min(nn) { "schur.r=min" } else { "schur.r=mid" });
    if stored_zeros(m) > 0 { s.count("with_stored_zeros"); }
    if !valid { s.count(&format!("malformed.schur.{}", tag)); if res[0].is_none() { s.count("outcome.panic"); } }
    if valid {
        s.oracle(all_same(&txts), SAME, &req, &format!("{:?}", txts));
        match &res[0] {
            None => s.oracle(false, "Schur::from_partial_triangular panicked on a valid input", &req, "panic"),
            Some(o) => {
                let (a, b, c, d) = (md.block(0, r, 0, r), md.block(0, r, r, nn), md.block(r, mm, 0, r), md.block(r, mm, r, nn));
                // A^-1 B by naive substitution, self-checked through A*Z = B
                let z = a.tri_solve(upper, &b);
                match z {
                    Some(z) if a.mul(&z) == b => {
                        let expect = d.sub(&c.mul(&z));
                        s.oracle(o.0 == expect, "S = D - C*A^-1*B", &req, &format!("got {} expected {}", o.0.txt(), expect.txt()));
                    }
                    _ => s.oracle(false, "harness self-check: naive A^-1*B failed", &req, ""),
                }
                if wt {
                    s.oracle(tr_ok(o), "transfer maps: F_tgt*M*B_src = S, F_src*B_src = I, F_tgt*B_tgt = I", &req, &txts[0].clone().unwrap_or_default());
                }
            }
        }
    }
    if valid || matches!(tag, "wrongside" | "r>min") { s.case(&req, &reply, r >= 1 && mm > r && nn > r); } else { s.eval_only(&req, false); }
}

fn gen_schur<R: HR>(s: &mut Sink, rg: &mut Rng, pools: &Pools, nmax: usize)
where for<'x> &'x R: RingOps<R> {
    let upper = rg.bool();
    let wt = rg.bool();
    let small = matches!(R::TAG, "Q");
    let planted = rg.chance(2, 3);
    let cap = if planted { nmax } else if small { 4 } else { 6.min(nmax) };
    let (mm, nn) = (rg.below(cap as u64 + 1) as usize, rg.below(cap as u64 + 1) as usize);
    let lim = mm.min(nn);
    let r = match rg.below(4) { 0 => 0, 1 => lim, _ => rg.below(lim as u64 + 1) as usize };
    let zmode = if rg.chance(2, 5) { 1 + rg.below(2) as u8 } else { 0 };
    let adens = *rg.pick(&[20u64, 50, 100]);
    let mut aspec: Spec<R> = rand_triang(rg, r, upper, adens, 0);
    let mut tag = "none";
    if rg.chance(1, 8) { tag = damage(rg, &mut aspec, upper); if tag == "nonsquare" { aspec.m = r; aspec.n = r; tag = "none"; } }
    let a = Dn::from_sp(&build(&aspec));
    let dens = *rg.pick(&[20u64, 50, 90]);
    let rd = |rg: &mut Rng, m: usize, n: usize| -> Dn<R> { Dn::from_sp(&build(&rand_sparse::<R>(rg, m, n, dens, 0))) };
    let (b, c) = if planted && tag == "none" {
        (a.mul(&rd(rg, r, nn - r)), rd(rg, mm - r, r).mul(&a))
    } else { (rd(rg, r, nn - r), rd(rg, mm - r, r)) };
    let d = rd(rg, mm - r, nn - r);
    let mut ent = vec![];
    for (i, j, v) in a.nonzero_entries() { ent.push((i, j, v)); }
    for (i, j, v) in b.nonzero_entries() { ent.push((i, j + r, v)); }
    for (i, j, v) in c.nonzero_entries() { ent.push((i + r, j, v)); }
    for (i, j, v) in d.nonzero_entries() { ent.push((i + r, j + r, v)); }
    let mut spec = Spec { m: mm, n: nn, ent, zeros: rand_zeros(rg, mm, nn, zmode), method: zmode };
    if tag == "zerodiag" || tag == "missingdiag" { spec.zeros.retain(|&(i, j)| i != j); }
    if tag == "zerodiag" { for &(i, j) in &aspec.zeros { if i == j { spec.zeros.push((i, j)); if spec.method == 0 { spec.method = 1; } } } }
    let m = build(&spec);
    if tag == "none" && rg.chance(1, 30) {
        // r beyond the shape: rejected by assert!
        schur_case(s, pools, upper, &m, lim + 1 + rg.below(2) as usize, wt, false, "r>min");
        return;
    }
    schur_case(s, pools, upper, &m, r, wt, tag == "none", tag);
}

// ---------------------------------------------------------------------------------------------
// direct-sum decomposition
// ---------------------------------------------------------------------------------------------

fn connected_bipartite<R: HR>(d: &Dn<R>) -> bool
where for<'x> &'x R: RingOps<R> {
    let tot = d.m + d.n;
    if tot == 0 { return true }
    let mut seen = vec![false; tot];
    let mut stack = vec![0usize];
    seen[0] = true;
    while let Some(v) = stack.pop() {
        if v < d.m { for j in 0..d.n { if !d.at(v, j).is_zero() && !seen[d.m + j] { seen[d.m + j] = true; stack.push(d.m + j); } } }
        else { let j = v - d.m; for i in 0..d.m { if !d.at(i, j).is_zero() && !seen[i] { seen[i] = true; stack.push(i); } } }
    }
    seen.iter().all(|&b| b)
}

fn nat_list(l: &[usize]) -> String { if l.is_empty() { "-".into() } else { l.iter().map(|x| x.to_string()).collect::<Vec<_>>().join(",") } }

fn decomp_case<R: HR>(s: &mut Sink, pools: &Pools, a: &SpMat<R>, what: &str)
where for<'x> &'x R: RingOps<R> {
    let req = format!("decomp {} {}", R::TAG, sp_req(a));
    let (m, n) = a.shape();
    type Out<R> = (Vec<usize>, Vec<usize>, Vec<Dn<R>>, Vec<String>);
    let res: Vec<Option<Out<R>>> = pools.run(|| {
        let (p, q, bl) = dir_sum_decomp(a.clone());
        ((0..p.dim()).map(|i| p.at(i)).collect(), (0..q.dim()).map(|j| q.at(j)).collect(), bl.iter().map(Dn::from_sp).collect(),
         bl.iter().map(sp_req).collect())
    });
    let txts: Vec<Option<String>> = res.iter().map(|x| x.as_ref().map(|o|
        format!("{:?} {:?} {}", o.0, o.1, o.2.iter().map(|b| b.txt()).collect::<Vec<_>>().join(" ; ")))).collect();
    s.count(&format!("decomp.{}.{}", R::TAG, what));
    let sz = stored_zeros(a);
    if sz > 0 { s.count("decomp.with_stored_zeros"); }
    s.oracle(all_same(&txts), SAME, &req, &format!("{:?}", txts));
    let Some(o) = &res[0] else {
        s.oracle(false, "dir_sum_decomp panicked", &req, "panic");
        if sz == 0 { s.case(&req, "panic", true); }
        return;
    };
    let (p, q, bl, blreq) = o;
    s.count(&format!("decomp.blocks.{}", bl.len().min(6)));
    // permutations
    let is_perm = |v: &Vec<usize>, k: usize| v.len() == k && { let mut w = v.clone(); w.sort(); w == (0..k).collect::<Vec<_>>() };
    let perm_ok = is_perm(p, m) && is_perm(q, n);
    s.oracle(perm_ok, "the returned row/column maps are permutations of the right size", &req, &format!("{:?} {:?}", p, q));
    let (hr, hc): (usize, usize) = (bl.iter().map(|b| b.m).sum(), bl.iter().map(|b| b.n).sum());
    let mut reply = String::from("panic");
    let mut identity_ok = false;
    let mut conn_ok: Option<bool> = None;
    if perm_ok {
        let ad = Dn::from_sp(a);
        let mut pm = Dn::<R>::zero(m, n);
        for i in 0..m { for j in 0..n { pm.set(p[i], q[j], ad.at(i, j).clone()); } }
        let mut bd = Dn::<R>::zero(m, n);
        let fits = hr <= m && hc <= n;
        if fits {
            let (mut ro, mut co) = (0, 0);
            for b in bl { for i in 0..b.m { for j in 0..b.n { bd.set(ro + i, co + j, b.at(i, j).clone()); } } ro += b.m; co += b.n; }
        }
        identity_ok = fits && pm == bd;
        s.oracle(fits && pm == bd, "permuted matrix = block-diagonal sum of the returned blocks + zero rows/columns", &req,
            &format!("permuted {} blocks {}", pm.txt(), txts[0].clone().unwrap_or_default()));
        if sz == 0 {
            let conn = bl.iter().all(connected_bipartite);
            s.oracle(conn, "no returned block splits further (input stores no explicit zero)", &req, &txts[0].clone().unwrap_or_default());
            conn_ok = Some(conn);
        }
        if fits {
            // canonical partition
            let (mut ro, mut co) = (0, 0);
            let mut gs: Vec<(Vec<usize>, Vec<usize>)> = vec![];
            for b in bl {
                gs.push(((0..m).filter(|&i| ro <= p[i] && p[i] < ro + b.m).collect(), (0..n).filter(|&j| co <= q[j] && q[j] < co + b.n).collect()));
                ro += b.m; co += b.n;
            }
            gs.sort_by_key(|g| g.1.first().cloned().unwrap_or(n));
            reply = std::iter::once("ok".to_string()).chain(gs.iter().map(|g| format!("{}|{}", nat_list(&g.0), nat_list(&g.1)))).collect::<Vec<_>>().join(" ");
        }
    }
    if sz == 0 { s.case(&req, &reply, bl.len() >= 2); } else { s.eval_only(&req, bl.len() >= 2); }
    // the real output judged by the Lean-verified checker (`checkDecomp_sound`), stored zeros or not
    let nl = |v: &Vec<usize>| std::iter::once(v.len().to_string()).chain(v.iter().map(|x| x.to_string())).collect::<Vec<_>>().join(" ");
    let chk = format!("chkdecomp {} {} {} {} {}{}", R::TAG, sp_req(a), nl(p), nl(q), blreq.len(),
        blreq.iter().map(|b| format!(" {}", b)).collect::<String>());
    s.case(&chk, if identity_ok { "1" } else { "0" }, bl.len() >= 2);
    // the model's own decomposition judged by the same checker
    s.case(&format!("decompchk {} {}", R::TAG, sp_req(a)), "1", bl.len() >= 2);
    if let Some(c) = conn_ok {
        // connectivity of the real blocks / of the model's blocks by the verified connectivity check
        s.case(&format!("chkconn {} {}{}", R::TAG, blreq.len(), blreq.iter().map(|b| format!(" {}", b)).collect::<String>()),
            if c { "1" } else { "0" }, bl.len() >= 1);
        s.case(&format!("decompconn {} {}", R::TAG, sp_req(a)), "1", bl.len() >= 1);
    }
}

fn gen_decomp<R: HR>(s: &mut Sink, r: &mut Rng, pools: &Pools, big: bool)
where for<'x> &'x R: RingOps<R> {
    let zmode = if r.chance(1, 3) { 1 + r.below(2) as u8 } else { 0 };
    if r.chance(1, 4) {
        // plain random sparse matrix
        let cap = if big { 14 } else { 8 };
        let (m, n) = (r.below(cap + 1) as usize, r.below(cap + 1) as usize);
        let dens = *r.pick(&[5u64, 12, 20, 35]);
        let spec: Spec<R> = rand_sparse(r, m, n, dens, zmode);
        decomp_case(s, pools, &build(&spec), "random");
        return;
    }
    // hidden block structure
    let nb = r.below(if big { 6 } else { 4 }) as usize;
    let mut ent: Vec<(usize, usize, R)> = vec![];
    let (mut ro, mut co) = (0usize, 0usize);
    for _ in 0..nb {
        let (h, w) = (1 + r.below(if big { 5 } else { 3 }) as usize, 1 + r.below(if big { 5 } else { 3 }) as usize);
        // random spanning tree of the bipartite graph, then extra edges
        let mut verts: Vec<usize> = vec![];            // 0..h rows, h..h+w cols
        let mut rest: Vec<usize> = (0..h + w).collect();
        r.shuffle(&mut rest);
        let mut edges: BTreeSet<(usize, usize)> = BTreeSet::new();
        // start with a row and a column joined
        let r0 = *rest.iter().find(|&&v| v < h).unwrap();
        let c0 = *rest.iter().find(|&&v| v >= h).unwrap();
        edges.insert((r0, c0 - h)); verts.push(r0); verts.push(c0);
        rest.retain(|&v| v != r0 && v != c0);
        for v in rest {
            let cands: Vec<usize> = verts.iter().cloned().filter(|&u| (u < h) != (v < h)).collect();
            let u = *r.pick(&cands);
            if v < h { edges.insert((v, u - h)); } else { edges.insert((u, v - h)); }
            verts.push(v);
        }
        let extra = r.below(3) as usize;
        for _ in 0..extra { edges.insert((r.below(h as u64) as usize, r.below(w as u64) as usize)); }
        for (i, j) in edges { ent.push((ro + i, co + j, R::elem(r))); }
        ro += h; co += w;
    }
    let (zr, zc) = (r.below(3) as usize, r.below(3) as usize);
    let (m, n) = (ro + zr, co + zc);
    let mut rp: Vec<usize> = (0..m).collect();
    let mut cp: Vec<usize> = (0..n).collect();
    if r.chance(5, 6) { r.shuffle(&mut rp); r.shuffle(&mut cp); }
    let ent = ent.into_iter().map(|(i, j, v)| (rp[i], cp[j], v)).collect();
    let spec = Spec { m, n, ent, zeros: rand_zeros(r, m, n, zmode), method: zmode };
    decomp_case(s, pools, &build(&spec), "hidden");
}

/// many-column inputs for the mutex-protected grouping loop: forests of columns (each column shares one row with an
/// earlier column of its component) with long filler columns that widen any race window; judged against an independent
/// union-find on "columns share a row", in pools of 1/2/3/4/8 threads, several repetitions on the SAME pool.
fn decomp_stress(s: &mut Sink, r: &mut Rng) {
    let ncomp = 2 + r.below(4) as usize;
    let mut cols: Vec<Vec<usize>> = vec![];     // column -> rows
    let mut truth: Vec<usize> = vec![];         // column -> component
    let mut nrows = 0usize;
    for c in 0..ncomp {
        let w = 12 + r.below(60) as usize;
        let first = cols.len();
        for k in 0..w {
            let mut rows = vec![];
            if k > 0 {
                // share a fresh row with a random earlier column of this component (star or random tree)
                let parent = if r.chance(1, 2) { first } else { first + r.below(k as u64) as usize };
                cols[parent].push(nrows); rows.push(nrows); nrows += 1;
            }
            // filler rows private to this column
            let fill = if k == 0 || r.chance(1, 10) { 200 + r.below(3000) as usize } else { r.below(3) as usize };
            for _ in 0..fill { rows.push(nrows); nrows += 1; }
            if rows.is_empty() { rows.push(nrows); nrows += 1; }
            cols.push(rows); truth.push(c);
        }
    }
    let n = cols.len();
    let mut perm: Vec<usize> = (0..n).collect();
    r.shuffle(&mut perm);                       // hide the structure: new column index perm[j]
    let mut ent: Vec<(usize, usize, i64)> = vec![];
    for (j, rows) in cols.iter().enumerate() { for &i in rows { ent.push((i, perm[j], if r.bool() { 1 } else { -1 })); } }
    let a: SpMat<i64> = SpMat::from_entries((nrows, n), ent);
    let desc = format!("stress decomp: {} components, {} columns, {} rows, seed-derived", ncomp, n, nrows);
    let expected: BTreeSet<Vec<usize>> = (0..ncomp).map(|c| { let mut v: Vec<usize> = (0..n).filter(|&j| truth[j] == c).map(|j| perm[j]).collect(); v.sort(); v }).collect();
    for k in [1usize, 2, 3, 4, 8] {
        let pool = rayon::ThreadPoolBuilder::new().num_threads(k).build().unwrap();
        for rep in 0..(if k == 1 { 1 } else { 4 }) {
            let a2 = a.clone();
            let got = guard(|| pool.install(|| { let (_, q, bl) = dir_sum_decomp(a2); ((0..q.dim()).map(|j| q.at(j)).collect::<Vec<usize>>(), bl.iter().map(|b| b.ncols()).collect::<Vec<usize>>()) }));
            let ok = match &got {
                Some((q, widths)) => {
                    let mut groups: BTreeSet<Vec<usize>> = BTreeSet::new();
                    let mut co = 0;
                    for &w in widths { let mut g: Vec<usize> = (0..n).filter(|&j| co <= q[j] && q[j] < co + w).collect(); g.sort(); groups.insert(g); co += w; }
                    groups == expected
                }
                None => false,
            };
            s.oracle(ok, "dir_sum_decomp splits the columns exactly into the classes of 'share a row' — on every thread count and on repeated calls on the same pool",
                &format!("{} threads={} rep={}", desc, k, rep), &format!("{:?}", got.as_ref().map(|g| g.1.clone())));
        }
    }
    s.eval_only(&desc, true);
    s.count("decomp.stress");
}

// ---------------------------------------------------------------------------------------------
// union-find histories
// ---------------------------------------------------------------------------------------------

fn uf_case(s: &mut Sink, r: &mut Rng, nmax: usize, len: usize) {
    let n = r.below(nmax as u64 + 1) as usize;
    let mut ops: Vec<String> = vec![];
    let mut out: Vec<String> = vec![];
    let mut u = UnionFind::new(n);
    let mut pairs: Vec<(usize, usize)> = vec![];
    let mut ok = true;
    let mut detail = String::new();
    let comp = |pairs: &Vec<(usize, usize)>, n: usize| -> Vec<usize> {
        // naive closure: label propagation
        let mut lab: Vec<usize> = (0..n).collect();
        loop {
            let mut ch = false;
            for &(a, b) in pairs { let m = lab[a].min(lab[b]); if lab[a] != m { lab[a] = m; ch = true } if lab[b] != m { lab[b] = m; ch = true } }
            if !ch { break }
        }
        lab
    };
    let steps = if n == 0 { 1 } else { 1 + r.below(len as u64) as usize };
    for _ in 0..steps {
        let oob = n == 0 || r.chance(1, 60);
        let idx = |r: &mut Rng| if oob && r.bool() { n + r.below(2) as usize } else if n == 0 { 0 } else { r.below(n as u64) as usize };
        match r.below(7) {
            0..=2 => {
                let (i, j) = (idx(r), idx(r));
                ops.push(format!("u:{}:{}", i, j));
                if guard(|| u.union(i, j)).is_none() { out.push("panic".into()); if i < n && j < n { ok = false; detail = "union panicked".into(); } break }
                pairs.push((i, j));
            }
            3..=5 => {
                let (i, j) = (idx(r), idx(r));
                ops.push(format!("s:{}:{}", i, j));
                match guard(|| u.is_same(i, j)) {
                    None => { out.push("panic".into()); if i < n && j < n { ok = false; detail = "is_same panicked".into(); } break }
                    Some(b) => {
                        out.push((b as u8).to_string());
                        let lab = comp(&pairs, n);
                        if b != (lab[i] == lab[j]) { ok = false; detail = format!("is_same({},{}) = {}", i, j, b); }
                    }
                }
            }
            _ => {
                ops.push("g".into());
                match guard(|| u.group()) {
                    None => { out.push("panic".into()); ok = false; detail = "group panicked".into(); break }
                    Some(mut g) => {
                        for c in g.iter_mut() { c.sort(); }
                        g.sort_by_key(|c| c.first().cloned().unwrap_or(usize::MAX));
                        let lab = comp(&pairs, n);
                        let mut exp: Vec<Vec<usize>> = vec![];
                        for l in 0..n { let c: Vec<usize> = (0..n).filter(|&i| lab[i] == l).collect(); if !c.is_empty() { exp.push(c); } }
                        if g != exp { ok = false; detail = format!("group {:?} expected {:?}", g, exp); }
                        out.push(if g.is_empty() { "-".into() } else { g.iter().map(|c| nat_list(c)).collect::<Vec<_>>().join(";") });
                    }
                }
            }
        }
    }
    let req = format!("uf {} {}", n, ops.join(" "));
    let reply = std::iter::once("ok".to_string()).chain(out.into_iter()).collect::<Vec<_>>().join(" ");
    s.oracle(ok, "union-find: is_same/group = equivalence closure of the united pairs", &req, &detail);
    s.count("uf");
    s.case(&req, &reply, pairs.len() >= 2);
}

// ---------------------------------------------------------------------------------------------
// corpus + main
// ---------------------------------------------------------------------------------------------

fn dense_spec<R: HR>(m: usize, n: usize, data: &[R]) -> Spec<R>
where for<'x> &'x R: RingOps<R> {
    let mut ent = vec![];
    for j in 0..n { for i in 0..m { if !data[i * n + j].is_zero() { ent.push((i, j, data[i * n + j].clone())); } } }
    Spec { m, n, ent, zeros: vec![], method: 0 }
}

fn corpus(s: &mut Sink, pools: &Pools) {
    // the repo's own examples
    let u = build(&dense_spec::<i64>(5, 5, &[1, -2, 1, 3, 5, 0, -1, 4, 2, 1, 0, 0, 1, 0, 3, 0, 0, 0, -1, 5, 0, 0, 0, 0, 1]));
    let l = build(&dense_spec::<i64>(5, 5, &[1, 0, 0, 0, 0, -2, -1, 0, 0, 0, 1, 4, 1, 0, 0, 3, 2, 0, -1, 0, 5, 1, 3, 5, 1]));
    let b = build(&dense_spec::<i64>(5, 1, &[37, 23, 18, 21, 5]));
    solve_case(s, pools, Kind::Vec, true, &u, &b, true, "none");
    solve_case(s, pools, Kind::Solve, true, &u, &b, true, "none");
    solve_case(s, pools, Kind::Inv, true, &u, &b, true, "none");
    solve_case(s, pools, Kind::Inv, false, &l, &b, true, "none");
    solve_case(s, pools, Kind::Left, false, &l, &build(&dense_spec::<i64>(2, 5, &[1, 2, 3, 4, 5, 0, 0, 0, 0, 7])), true, "none");
    // empty shapes
    let e0 = build(&Spec::<i64> { m: 0, n: 0, ent: vec![], zeros: vec![], method: 0 });
    solve_case(s, pools, Kind::Solve, true, &e0, &build(&Spec::<i64> { m: 0, n: 3, ent: vec![], zeros: vec![], method: 0 }), true, "none");
    solve_case(s, pools, Kind::Inv, false, &e0, &e0, true, "none");
    solve_case(s, pools, Kind::Solve, false, &u.transpose(), &build(&Spec::<i64> { m: 5, n: 0, ent: vec![], zeros: vec![], method: 0 }), true, "none");
    // stored zeros in A (wrong side too) and in Y, many columns on one buffer
    let mut sp = dense_spec::<i64>(4, 4, &[1, 2, 0, -1, 0, -1, 3, 0, 0, 0, 1, 2, 0, 0, 0, -1]);
    sp.zeros = vec![(3, 0), (0, 2), (2, 1), (1, 3)]; sp.method = 2;
    let az = build(&sp);
    let mut ys = dense_spec::<i64>(4, 6, &[1, 0, 0, 2, 0, 5, 0, 1, 0, 0, 0, 5, 0, 0, 1, 3, 0, 5, 0, 0, 0, 4, 0, 5]);
    ys.zeros = vec![(0, 1), (3, 4), (2, 4)]; ys.method = 1;
    solve_case(s, pools, Kind::Solve, true, &az, &build(&ys), true, "none");
    // other unit diagonals
    let q = |n: i64, d: i64| Ratio::new(n, d);
    let aq = build(&dense_spec(3, 3, &[q(1, 2), q(0, 1), q(0, 1), q(3, 1), q(-2, 3), q(0, 1), q(1, 1), q(1, 4), q(3, 1)]));
    solve_case(s, pools, Kind::Solve, false, &aq, &build(&dense_spec(3, 2, &[q(1, 1), q(0, 1), q(2, 1), q(1, 3), q(0, 1), q(-1, 1)])), true, "none");
    let g = |a: i64, b: i64| GaussInt::new(a, b);
    let ag = build(&dense_spec(3, 3, &[g(0, 1), g(1, 1), g(2, 0), g(0, 0), g(-1, 0), g(0, 3), g(0, 0), g(0, 0), g(0, -1)]));
    solve_case(s, pools, Kind::Solve, true, &ag, &build(&dense_spec(3, 2, &[g(1, 0), g(0, 0), g(2, 1), g(1, 3), g(0, 0), g(-1, 1)])), true, "none");
    solve_case(s, pools, Kind::Inv, true, &ag, &ag, true, "none");
    let f = |a: i32| FF::<5>::new(a);
    let af = build(&dense_spec(3, 3, &[f(2), f(0), f(0), f(3), f(4), f(0), f(1), f(1), f(3)]));
    solve_case(s, pools, Kind::Left, false, &af, &build(&dense_spec(2, 3, &[f(1), f(0), f(2), f(1), f(3), f(0)])), true, "none");
    // Schur: the repo's examples, r = 0, r = min
    let ml = build(&dense_spec::<i64>(6, 5, &[1, 0, 0, 1, 3, 2, -1, 0, 2, 2, 3, 2, 1, 0, 3, 4, 2, 4, -3, 0, 5, 3, 5, 2, 2, 6, 2, -3, 1, 8]));
    for wt in [false, true] {
        schur_case(s, pools, false, &ml, 3, wt, true, "none");
        schur_case(s, pools, true, &ml.transpose(), 3, wt, true, "none");
        schur_case(s, pools, false, &ml, 0, wt, true, "none");
        schur_case(s, pools, true, &ml, 0, wt, true, "none");
        schur_case(s, pools, false, &l, 5, wt, true, "none");
        schur_case(s, pools, true, &u, 5, wt, true, "none");
        schur_case(s, pools, true, &e0, 0, wt, true, "none");
    }
    // decomposition: the repo's examples
    decomp_case(s, pools, &build(&dense_spec::<i64>(5, 7, &[0, 0, 0, 1, 0, 0, 0, 0, 0, 3, 0, 0, 0, 1, 1, 0, 0, 2, 0, 0, 0, 0, 0, 0, 0, 1, 0, 0, 0, 0, 0, 0, 0, 0, 0])), "corpus");
    decomp_case(s, pools, &e0, "corpus");
    decomp_case(s, pools, &build(&Spec::<i64> { m: 3, n: 0, ent: vec![], zeros: vec![], method: 0 }), "corpus");
    decomp_case(s, pools, &build(&Spec::<i64> { m: 2, n: 3, ent: vec![], zeros: vec![], method: 0 }), "corpus");
    decomp_case(s, pools, &u, "corpus");
    let mut dz = dense_spec::<i64>(3, 3, &[1, 0, 0, 0, 2, 0, 0, 0, 3]);
    dz.zeros = vec![(0, 1)]; dz.method = 1;
    decomp_case(s, pools, &build(&dz), "corpus");
}

fn main() {
    let args = Args::parse();
    quiet_panics();
    let mut s = Sink::new(&args, "cases: solve_triangular / _left / _vec / inv_triangular (upper, lower; sizes 0..10, thorough ..40; diagonals +-1 and other units \
        over Z, Q, F5, Z[i]; stored zeros made by duplicate entries and by (A+Z)-Z; multi-column right-hand sides; ~1/7 malformed: wrong side, non-unit, \
        missing/zero diagonal, non-square, shape mismatch), Schur::from_partial_triangular (r = 0..min(m,n), with/without transfer maps), dir_sum_decomp \
        (hidden block structure under random permutations, random sparse), UnionFind histories; every call runs in rayon pools of 1/2/8/16 threads that are \
        reused for the whole run; non-trivial = size >= 2 with an off-diagonal entry and a non-zero right-hand side / 0 < r < min / >= 2 blocks / >= 2 unions");
    let mut r = Rng::new(args.seed);
    let pools = Pools::new();

    guarded_case(&mut s, "corpus", |s| corpus(s, &pools));

    let th = args.thorough();
    let (n_solve, n_schur, n_decomp, n_uf) = if th { (120000, 48000, 60000, 240000) } else { (5000, 2000, 2400, 8000) };
    for i in 0..n_solve {
        let (nmax, kmax) = if th && i % 3 == 0 { (40, 40) } else if th { (14, 12) } else { (10, 8) };
        match i % 4 {
            0 => guarded_case(&mut s, "solve Z", |s| gen_solve::<i64>(s, &mut r, &pools, nmax, kmax)),
            1 => guarded_case(&mut s, "solve Q", |s| gen_solve::<Ratio<i64>>(s, &mut r, &pools, nmax.min(12), kmax.min(12))),
            2 => guarded_case(&mut s, "solve F5", |s| gen_solve::<FF<5>>(s, &mut r, &pools, nmax, kmax)),
            _ => guarded_case(&mut s, "solve G", |s| gen_solve::<GaussInt<i64>>(s, &mut r, &pools, nmax, kmax)),
        }
    }
    for i in 0..n_schur {
        let nmax = if th && i % 3 == 0 { 24 } else { 10 };
        match i % 4 {
            0 => guarded_case(&mut s, "schur Z", |s| gen_schur::<i64>(s, &mut r, &pools, nmax)),
            1 => guarded_case(&mut s, "schur Q", |s| gen_schur::<Ratio<i64>>(s, &mut r, &pools, nmax.min(10))),
            2 => guarded_case(&mut s, "schur F5", |s| gen_schur::<FF<5>>(s, &mut r, &pools, nmax)),
            _ => guarded_case(&mut s, "schur G", |s| gen_schur::<GaussInt<i64>>(s, &mut r, &pools, nmax)),
        }
    }
    for i in 0..n_decomp {
        match i % 3 {
            0 => guarded_case(&mut s, "decomp Z", |s| gen_decomp::<i64>(s, &mut r, &pools, th)),
            1 => guarded_case(&mut s, "decomp F5", |s| gen_decomp::<FF<5>>(s, &mut r, &pools, th)),
            _ => guarded_case(&mut s, "decomp Q", |s| gen_decomp::<Ratio<i64>>(s, &mut r, &pools, th)),
        }
    }
    for i in 0..(if th { 40 } else { 8 }) { guarded_case(&mut s, &format!("decomp stress #{}", i), |s| decomp_stress(s, &mut r)); }
    for _ in 0..n_uf { guarded_case(&mut s, "uf", |s| uf_case(s, &mut r, if th { 16 } else { 10 }, if th { 40 } else { 16 })); }
    s.finish();
}
