//! C17 — BitSeq vs. Vec<bool> (oracle) vs. Lean code model (through request lines).
use yui::bitseq::{Bit, BitSeq};
use yv::*;

fn bits_str(v: &[bool]) -> String {
    if v.is_empty() { "e".into() } else { v.iter().map(|&b| if b { '1' } else { '0' }).collect() }
}
fn show(b: &BitSeq) -> String {
    let s = b.to_string();
    format!("{}/{}/{}", if s.is_empty() { "e".to_string() } else { s }, b.as_u64(), b.len())
}
fn to_vec(b: &BitSeq) -> Vec<bool> { b.iter().map(|x| x.is_one()).collect() }
fn mk(v: &[bool]) -> BitSeq { BitSeq::from_iter(v.iter().map(|&b| Bit::from(b))) }
fn bit(b: bool) -> Bit { Bit::from(b) }

const EDGE_LENS: &[usize] = &[0, 1, 2, 3, 5, 8, 16, 31, 32, 33, 48, 61, 62, 63, 64];

fn rand_len(r: &mut Rng, max: usize) -> usize {
    if r.chance(3, 5) { let l = *r.pick(EDGE_LENS); l.min(max) } else { r.below(max as u64 + 1) as usize }
}
fn rand_bits(r: &mut Rng, len: usize) -> Vec<bool> {
    match r.below(6) {
        0 => vec![true; len],
        1 => vec![false; len],
        2 => (0..len).map(|i| i % 2 == 0).collect(),
        _ => (0..len).map(|_| r.bool()).collect(),
    }
}
fn val_of(v: &[bool]) -> u128 { v.iter().enumerate().map(|(i, &b)| if b { 1u128 << i } else { 0 }).sum() }

/// checks an actual BitSeq against the oracle list (value, length, no garbage beyond len)
fn same(b: &BitSeq, l: &[bool]) -> bool {
    b.len() == l.len() && to_vec(b) == l && (b.as_u64() as u128) == val_of(l)
}

fn ctor_case(s: &mut Sink, req: String, got: Option<BitSeq>, expect: Option<Vec<bool>>, nontrivial: bool) {
    let reply = match &got { Some(b) => show(b), None => "panic".into() };
    let ok = match (&got, &expect) {
        (Some(b), Some(l)) => same(b, l),
        (None, None) => true,
        _ => false,
    };
    s.oracle(ok, "constructor = list constructor / rejected outside guard", &req,
        &format!("got {} expected {:?}", reply, expect.as_ref().map(|l| bits_str(l))));
    s.count(req.split(' ').next().unwrap());
    if got.is_none() { s.count("outcome.panic"); }
    s.case(&req, &reply, nontrivial);
}

fn gen_ctor(s: &mut Sink, r: &mut Rng) {
    match r.below(8) {
        0 | 1 => { // new
            let len = if r.chance(1, 8) { 65 + r.below(6) as usize } else { rand_len(r, 64) };
            let lim: u128 = if len >= 64 { 1u128 << 64 } else { 1u128 << len };
            let val: u64 = match r.below(6) {
                0 => (lim - 1) as u64,
                1 => if lim <= u64::MAX as u128 { lim as u64 } else { u64::MAX },
                2 => 0,
                3 => r.next(),
                _ => (r.next() as u128 % lim) as u64,
            };
            let expect = if len <= 64 && (val as u128) < lim { Some((0..len).map(|i| (val >> i) & 1 == 1).collect()) } else { None };
            let got = guard(|| BitSeq::new(val, len));
            ctor_case(s, format!("new {} {}", val, len), got, expect, len > 0);
        }
        2 | 3 => { // new_rev
            let len = if r.chance(1, 8) { 65 + r.below(6) as usize } else { rand_len(r, 64) };
            let val: u64 = match r.below(4) { 0 => u64::MAX, 1 => 0, 2 => r.next() >> r.below(64), _ => r.next() };
            let expect = if len <= 64 { Some((0..len).map(|i| (val >> (len - 1 - i)) & 1 == 1).collect()) } else { None };
            let got = guard(|| BitSeq::new_rev(val, len));
            ctor_case(s, format!("newrev {} {}", val, len), got, expect, len > 0);
        }
        4 => {
            let len = r.below(68) as usize;
            let len = if r.bool() { rand_len(r, 64) } else { len };
            let expect = if len <= 64 { Some(vec![false; len]) } else { None };
            ctor_case(s, format!("zeros {}", len), guard(|| BitSeq::zeros(len)), expect, len > 0);
            let expect = if len <= 64 { Some(vec![true; len]) } else { None };
            ctor_case(s, format!("ones {}", len), guard(|| BitSeq::ones(len)), expect, len > 0);
        }
        5 => {
            let len = if r.chance(1, 6) { 65 + r.below(6) as usize } else { rand_len(r, 64) };
            let l = rand_bits(r, len);
            let expect = if len <= 64 { Some(l.clone()) } else { None };
            let l2 = l.clone();
            let got = guard(move || mk(&l2));
            ctor_case(s, format!("fromiter {}", bits_str(&l)), got, expect, len > 0);
        }
        6 => { // parse
            let len = if r.chance(1, 6) { 65 + r.below(6) as usize } else { rand_len(r, 64) };
            let l = rand_bits(r, len);
            let mut txt: Vec<char> = l.iter().map(|&b| if b { '1' } else { '0' }).collect();
            let mut valid = true;
            if r.chance(1, 4) && !txt.is_empty() {
                let i = r.below(txt.len() as u64) as usize;
                txt[i] = *r.pick(&['x', '2', '-', 'O', '+', '_', 'b']);
                valid = false;
            } else if r.chance(1, 5) {
                // a foreign character added in front, at the end or inside (sign, radix prefix, separator): still not a spelling of a list
                let c = *r.pick(&['+', '-', '_', 'b', '0', '1']);
                if c != '0' && c != '1' {
                    match r.below(3) { 0 => txt.insert(0, c), 1 => txt.push(c), _ => { let i = r.below(txt.len() as u64 + 1) as usize; txt.insert(i, c) } }
                    valid = false;
                }
            }
            let txt: String = txt.into_iter().collect();
            let t2 = txt.clone();
            let got: Option<Result<BitSeq, String>> = guard(move || t2.parse::<BitSeq>());
            let reply = match &got { Some(Ok(b)) => show(b), Some(Err(_)) => "err".into(), None => "panic".into() };
            let ok = match &got {
                Some(Ok(b)) => valid && len <= 64 && same(b, &l),
                _ => !(valid && len <= 64),
            };
            let req = format!("parse {}", if txt.is_empty() { "e".to_string() } else { txt });
            s.oracle(ok, "parse = list spelled / rejected", &req, &reply);
            s.count("parse");
            s.case(&req, &reply, len > 0);
        }
        _ => { // generate (the iterator is walked, so positions stay below 2^16)
            let len = rand_len(r, 64);
            let lim: u128 = 1u128 << len;
            let cap: u128 = lim.min(1 << 16);
            let k: u64 = match r.below(5) { 0 => 0, 1 => (cap - 1) as u64, 2 => if lim <= (1 << 16) { lim as u64 } else { 1 << 16 }, _ => (r.next() as u128 % cap) as u64 };
            let got = guard(|| BitSeq::generate(len).nth(k as usize));
            let reply = match &got { Some(Some(b)) => show(b), Some(None) => "err".into(), None => "panic".into() };
            let ok = match &got {
                Some(Some(b)) => (k as u128) < lim && b.len() == len && b.as_u64() == k,
                Some(None) => (k as u128) >= lim,
                None => false,
            };
            let req = format!("gen {} {}", len, k);
            s.oracle(ok, "generate yields the sequence with value k at position k", &req, &reply);
            s.count("gen");
            s.case(&req, &reply, len > 0);
            if len <= 12 {
                let got = guard(|| BitSeq::generate(len).count());
                let reply = match got { Some(c) => c.to_string(), None => "panic".into() };
                let req = format!("gencount {}", len);
                s.oracle(got == Some(1usize << len), "generate yields 2^len items", &req, &reply);
                s.case(&req, &reply, len > 0);
                let got = guard(|| BitSeq::generate(len).last());
                let reply = match &got { Some(Some(b)) => show(b), Some(None) => "err".into(), None => "panic".into() };
                let ok = matches!(&got, Some(Some(b)) if same(b, &vec![true; len]));
                let req = format!("genlast {}", len);
                s.oracle(ok, "last generated sequence is all ones", &req, &reply);
                s.case(&req, &reply, len > 0);
            }
        }
    }
}

#[derive(Clone, Debug)]
enum Op { Push(bool), App(Vec<bool>), Ins(usize, bool), Rem(usize), Set(usize, bool), Sub(usize), IsSub(Vec<bool>), SubOf(Vec<bool>), W, Len, Idx(usize), Iter, Str, Cmp(Vec<bool>) }

impl Op {
    fn text(&self) -> String {
        match self {
            Op::Push(b) => format!("push:{}", *b as u8),
            Op::App(v) => format!("app:{}", bits_str(v)),
            Op::Ins(i, b) => format!("ins:{}:{}", i, *b as u8),
            Op::Rem(i) => format!("rem:{}", i),
            Op::Set(i, b) => format!("set:{}:{}", i, *b as u8),
            Op::Sub(l) => format!("sub:{}", l),
            Op::IsSub(v) => format!("issub:{}", bits_str(v)),
            Op::SubOf(v) => format!("subof:{}", bits_str(v)),
            Op::W => "w".into(), Op::Len => "len".into(),
            Op::Idx(i) => format!("idx:{}", i),
            Op::Iter => "iter".into(), Op::Str => "str".into(),
            Op::Cmp(v) => format!("cmp:{}", bits_str(v)),
        }
    }
}

/// index argument at, just below and just beyond the guard
fn idx_arg(r: &mut Rng, len: usize) -> usize {
    match r.below(8) { 0 => len, 1 => len + 1, 2 => 0, 3 => len.saturating_sub(1), 4 => 64, 5 => 63, _ => if len == 0 { 0 } else { r.below(len as u64) as usize } }
}

fn rand_op(r: &mut Rng, cur: &[bool]) -> Op {
    let len = cur.len();
    match r.below(16) {
        0 | 1 => Op::Push(r.bool()),
        2 => { let room = 64usize.saturating_sub(len); let l = if r.chance(1, 5) { room + 1 } else if r.chance(1, 3) { room } else { r.below(room as u64 + 1) as usize }; Op::App(rand_bits(r, l.min(64))) }
        3 | 4 => Op::Ins(idx_arg(r, len), r.bool()),
        5 | 6 => Op::Rem(idx_arg(r, len)),
        7 => Op::Set(idx_arg(r, len), r.bool()),
        8 => Op::Sub(idx_arg(r, len)),
        9 => { // related operand: extension or mutation of cur
            let mut v = cur.to_vec();
            if r.bool() { let extra = r.below((64 - len) as u64 + 1) as usize; v.extend(rand_bits(r, extra)); }
            if r.chance(1, 3) && !v.is_empty() { let i = r.below(v.len() as u64) as usize; v[i] = !v[i]; }
            Op::IsSub(v)
        }
        10 => { let l = if len == 0 { 0 } else { r.below(len as u64 + 1) as usize }; let mut v = cur[..l].to_vec(); if r.chance(1, 3) && !v.is_empty() { let i = r.below(v.len() as u64) as usize; v[i] = !v[i]; } Op::SubOf(v) }
        11 => Op::W,
        12 => Op::Idx(idx_arg(r, len)),
        13 => if r.bool() { Op::Iter } else { Op::Str },
        14 => { // comparison operand: same length mostly, permuted bits (same weight) often
            let mut v = cur.to_vec();
            match r.below(4) { 0 => r.shuffle(&mut v), 1 => { if !v.is_empty() { let i = r.below(v.len() as u64) as usize; v[i] = !v[i]; } } 2 => { let n = rand_len(r, 64); v = rand_bits(r, n); } _ => {} }
            Op::Cmp(v)
        }
        _ => Op::Len,
    }
}

/// oracle on the plain list; `None` = must be rejected
fn apply_list(l: &[bool], op: &Op) -> Option<(Vec<bool>, String)> {
    let mut v = l.to_vec();
    let show_l = |v: &Vec<bool>| format!("{}/{}/{}", bits_str(v), val_of(v), v.len());
    match op {
        Op::Push(b) => { if v.len() >= 64 { return None; } v.push(*b); let s = show_l(&v); Some((v, s)) }
        Op::App(w) => { if v.len() + w.len() > 64 { return None; } v.extend(w); let s = show_l(&v); Some((v, s)) }
        Op::Ins(i, b) => { if *i > v.len() || v.len() >= 64 { return None; } v.insert(*i, *b); let s = show_l(&v); Some((v, s)) }
        Op::Rem(i) => { if *i >= v.len() { return None; } v.remove(*i); let s = show_l(&v); Some((v, s)) }
        Op::Set(i, b) => { if *i >= v.len() { return None; } v[*i] = *b; let s = show_l(&v); Some((v, s)) }
        Op::Sub(k) => { if *k > v.len() { return None; } let p = v[..*k].to_vec(); Some((v, show_l(&p))) }
        Op::IsSub(w) => { let r = w.starts_with(&v); Some((v, r.to_string())) }
        Op::SubOf(w) => { let r = v.starts_with(w); Some((v, r.to_string())) }
        Op::W => { let c = v.iter().filter(|&&b| b).count(); Some((v, c.to_string())) }
        Op::Len => { let c = v.len(); Some((v, c.to_string())) }
        Op::Idx(i) => { if *i >= v.len() { return None; } let b = v[*i]; Some((v, (b as u8).to_string())) }
        Op::Iter | Op::Str => { let s = bits_str(&v); Some((v, s)) }
        Op::Cmp(w) => {
            let key = |x: &Vec<bool>| (x.len(), x.iter().filter(|&&b| b).count(), val_of(x));
            let o = key(&v).cmp(&key(w));
            Some((v, match o { std::cmp::Ordering::Less => "lt", std::cmp::Ordering::Equal => "eq", _ => "gt" }.to_string()))
        }
    }
}

/// the real code
fn apply_impl(b: &mut BitSeq, op: &Op) -> Option<String> {
    let mut c = *b;
    let op2 = op.clone();
    let r = guard(move || {
        let s = match &op2 {
            Op::Push(x) => { c.push(bit(*x)); show(&c) }
            Op::App(w) => { c.append(mk(w)); show(&c) }
            Op::Ins(i, x) => { c.insert(*i, bit(*x)); show(&c) }
            Op::Rem(i) => { c.remove(*i); show(&c) }
            Op::Set(i, x) => { c.set(*i, bit(*x)); show(&c) }
            Op::Sub(l) => show(&c.sub(*l)),
            Op::IsSub(w) => c.is_sub(&mk(w)).to_string(),
            Op::SubOf(w) => mk(w).is_sub(&c).to_string(),
            Op::W => c.weight().to_string(),
            Op::Len => c.len().to_string(),
            Op::Idx(i) => (c[*i].is_one() as u8).to_string(),
            Op::Iter => bits_str(&to_vec(&c)),
            Op::Str => { let s = c.to_string(); if s.is_empty() { "e".into() } else { s } }
            Op::Cmp(w) => match c.cmp(&mk(w)) { std::cmp::Ordering::Less => "lt", std::cmp::Ordering::Equal => "eq", _ => "gt" }.to_string(),
        };
        (c, s)
    });
    match r { Some((c2, s)) => { *b = c2; Some(s) } None => None }
}

fn run_hist(s: &mut Sink, init: &[bool], ops: &[Op]) {
    let desc = format!("hist {} {}", bits_str(init), ops.iter().map(|o| o.text()).collect::<Vec<_>>().join(" "));
    guarded_case(s, &desc, |s| run_hist0(s, init, ops));
}

fn run_hist0(s: &mut Sink, init: &[bool], ops: &[Op]) {
    let mut b = mk(init);
    let mut l = init.to_vec();
    let mut replies = vec![];
    let req = format!("hist {} {}", bits_str(init), ops.iter().map(|o| o.text()).collect::<Vec<_>>().join(" "));
    for (k, op) in ops.iter().enumerate() {
        let got = apply_impl(&mut b, op);
        let exp = apply_list(&l, op);
        let ok = match (&got, &exp) { (Some(g), Some((_, e))) => g == e, (None, None) => true, _ => false };
        s.oracle(ok, "operation = list operation / rejected outside guard", &format!("{} @op{}", req, k),
            &format!("impl {:?} list {:?}", got, exp.as_ref().map(|e| &e.1)));
        s.count(&format!("op.{}", op.text().split(':').next().unwrap()));
        match (got, exp) {
            (Some(g), Some((nl, _))) => { replies.push(g); l = nl; s.count(&format!("len.{}", l.len() / 8 * 8)); }
            (Some(g), None) => { replies.push(g); break; }   // oracle failure already recorded; stop
            (None, _) => { replies.push("panic".into()); s.count("outcome.panic"); break; }   // a rejected call ends the history
        }
    }
    s.case(&req, &replies.join(";"), ops.len() >= 2);
}

fn main() {
    let args = Args::parse();
    quiet_panics();
    let mut s = Sink::new(&args, "cases: constructor calls (new/new_rev/zeros/ones/from_iter/parse/generate) and operation histories \
        (1..14 ops) on BitSeq with lengths biased to {0,1,31..33,61..64} and arguments at/below/beyond every guard; \
        non-trivial = constructor with len>0 or history with >=2 ops; distinct = distinct request lines");
    let mut r = Rng::new(args.seed);

    // corpus first: the boundary cases that failed before fix F1
    for line in ["new 0 64", "ones 64", "newrev 0 0", "zeros 64", "newrev 18446744073709551615 64", "new 18446744073709551615 64"] {
        let t: Vec<&str> = line.split(' ').collect();
        let (got, expect): (Option<BitSeq>, Option<Vec<bool>>) = match t[0] {
            "new" => { let v: u64 = t[1].parse().unwrap(); let n: usize = t[2].parse().unwrap(); (guard(|| BitSeq::new(v, n)), Some((0..n).map(|i| (v >> i) & 1 == 1).collect())) }
            "ones" => { let n: usize = t[1].parse().unwrap(); (guard(|| BitSeq::ones(n)), Some(vec![true; n])) }
            "zeros" => { let n: usize = t[1].parse().unwrap(); (guard(|| BitSeq::zeros(n)), Some(vec![false; n])) }
            _ => { let v: u64 = t[1].parse().unwrap(); let n: usize = t[2].parse().unwrap(); (guard(|| BitSeq::new_rev(v, n)), Some((0..n).map(|i| (v >> (n - 1 - i)) & 1 == 1).collect())) }
        };
        ctor_case(&mut s, line.to_string(), got, expect, true);
    }
    let full = vec![true; 64];
    run_hist(&mut s, &full, &[Op::Rem(63), Op::Push(false), Op::Push(false)]);
    run_hist(&mut s, &full, &[Op::App(vec![]), Op::Sub(64), Op::IsSub(full.clone()), Op::Rem(0), Op::Ins(63, true), Op::Idx(63)]);
    run_hist(&mut s, &vec![false; 64], &[Op::Push(false)]);
    run_hist(&mut s, &vec![true; 63], &[Op::Push(true), Op::Push(false), Op::W]);

    let (n_ctor, n_hist) = if args.thorough() { (60_000, 120_000) } else { (4_000, 8_000) };
    for _ in 0..n_ctor { guarded_case(&mut s, "constructor case", |s| gen_ctor(s, &mut r)); }
    for _ in 0..n_hist {
        let len = rand_len(&mut r, 64);
        let init = rand_bits(&mut r, len);
        let n = 1 + r.below(14) as usize;
        let mut cur = init.clone();
        let mut ops = vec![];
        for _ in 0..n {
            let op = rand_op(&mut r, &cur);
            if let Some((nl, _)) = apply_list(&cur, &op) { cur = nl; }
            ops.push(op);
        }
        run_hist(&mut s, &init, &ops);
    }

    if args.thorough() {
        // exhaustive: every sequence of length <= 5 x every single op x every argument
        let mut n = 0u64;
        for len in 0..=5usize {
            for v in 0..(1u32 << len) {
                let init: Vec<bool> = (0..len).map(|i| (v >> i) & 1 == 1).collect();
                let mut ops = vec![Op::W, Op::Len, Op::Iter, Op::Str, Op::Push(false), Op::Push(true)];
                for i in 0..=len + 1 { for b in [false, true] { ops.push(Op::Ins(i, b)); ops.push(Op::Set(i, b)); } ops.push(Op::Rem(i)); ops.push(Op::Sub(i)); ops.push(Op::Idx(i)); }
                for l2 in 0..=3usize { for w in 0..(1u32 << l2) { let o: Vec<bool> = (0..l2).map(|i| (w >> i) & 1 == 1).collect(); ops.push(Op::App(o.clone())); ops.push(Op::IsSub(o.clone())); ops.push(Op::SubOf(o.clone())); ops.push(Op::Cmp(o)); } }
                for op in ops { run_hist(&mut s, &init, &[op]); n += 1; }
            }
        }
        // every single op on all-ones / all-zeros / alternating patterns of every length 0..64
        for len in 0..=64usize {
            for pat in 0..3 {
                let init: Vec<bool> = (0..len).map(|i| match pat { 0 => true, 1 => false, _ => i % 2 == 0 }).collect();
                let mut ops = vec![Op::W, Op::Len, Op::Iter, Op::Str, Op::Push(false), Op::Push(true), Op::App(vec![]), Op::App(vec![true]), Op::App(vec![true; 64 - len]), Op::App(vec![false; (65 - len).min(64)]), Op::Cmp(init.clone()), Op::IsSub(init.clone()), Op::SubOf(init.clone())];
                for i in [0, 1, len / 2, len.saturating_sub(1), len, len + 1, 63, 64, 65] { for b in [false, true] { ops.push(Op::Ins(i, b)); ops.push(Op::Set(i, b)); } ops.push(Op::Rem(i)); ops.push(Op::Sub(i)); ops.push(Op::Idx(i)); }
                for op in ops { run_hist(&mut s, &init, &[op]); n += 1; }
            }
        }
        s.count_n("exhaustive.single_op_cases", n);
    }
    s.finish();
}
