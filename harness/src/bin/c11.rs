//! C11 — parallel pivot search: scheduled runs of the real code, oracle on the returned pivots,
//! and replay of every recorded protocol trace through the Lean transition-system model.
//!
//! The hook of `yui_matrix::verif` records the protocol events and blocks workers at `TaskStart` /
//! `Candidate` (no lock held there) so that a controller thread can impose a seeded release policy.
//! Scheduling is best effort (rayon hands rows to threads dynamically, so nobody ever waits for
//! "all workers"; arrivals are collected with short quiet periods and every wait has a deadline) —
//! what is sent to the model is the trace that really happened.
//!
//! Policies: Free (no blocking), Random / Fifo / Lifo (block at TaskStart and Candidate, release one at a
//! time), StaleMax / StaleRandom (let everybody finish the search on the same snapshot, then release into the
//! lock one by one: maximal staleness), Burst (hold everybody at Candidate, then release ALL at the same
//! instant so that the critical sections are entered back to back — this is what exposes a validation that
//! is not atomic with the commit).
//! Pivot choices are heuristics (`cmp_rows`/`cmp_cols`): the model accepts any candidate the code picks as
//! long as it is still marked Candidate in the model; retry/commit decisions, snapshot lengths and commit
//! indices are compared exactly.

use std::collections::{BTreeMap, BTreeSet};
use std::sync::{Arc, Condvar, Mutex};
use std::time::{Duration, Instant};

use yui::poly::Poly;
use yui::{Ratio, Ring, RingOps, FF};
use yui_matrix::sparse::pivot::{find_pivots, perms_by_pivots, PivotCondition, PivotType};
use yui_matrix::sparse::SpMat;
use yui_matrix::verif::{set_hook, PivotEvent};
use yv::*;

// ---------------------------------------------------------------------------------------------
// scalars: every generated entry has a kind known to the generator, so the pivot condition is
// evaluated by the harness without asking the library (`is_unit`/`is_pm_one` are not trusted).

#[derive(Clone, Copy, PartialEq, Eq, Debug)]
enum Kind { One, MinusOne, OtherUnit, NonUnit }

trait Scal: Ring + Clone + Send + Sync + 'static
where for<'x> &'x Self: RingOps<Self> {
    const NAME: &'static str;
    /// materialise an entry of (about) the requested kind; returns the value and its true kind
    fn make(kind: Kind, r: &mut Rng) -> (Self, Kind);
}

impl Scal for i64 {
    const NAME: &'static str = "i64";
    fn make(kind: Kind, r: &mut Rng) -> (Self, Kind) {
        match kind {
            Kind::One => (1, Kind::One),
            Kind::MinusOne => (-1, Kind::MinusOne),
            _ => { let v = r.range(2, 5) * if r.bool() { 1 } else { -1 }; (v, Kind::NonUnit) }
        }
    }
}
impl Scal for Ratio<i64> {
    const NAME: &'static str = "ratio";
    fn make(kind: Kind, r: &mut Rng) -> (Self, Kind) {
        match kind {
            Kind::One => (Ratio::new(1, 1), Kind::One),
            Kind::MinusOne => (Ratio::new(-1, 1), Kind::MinusOne),
            _ => {
                const V: &[(i64, i64)] = &[(2, 1), (1, 2), (-3, 2), (3, 1), (-1, 3), (2, 3), (5, 1), (-4, 1), (1, 4), (-5, 3)];
                let &(p, q) = r.pick(V);
                (Ratio::new(p, q), Kind::OtherUnit)
            }
        }
    }
}
impl Scal for FF<3> {
    const NAME: &'static str = "ff3";
    fn make(kind: Kind, _r: &mut Rng) -> (Self, Kind) {
        match kind {
            Kind::One | Kind::OtherUnit => (FF::new(1), Kind::One),
            _ => (FF::new(2), Kind::MinusOne),
        }
    }
}
impl Scal for FF<5> {
    const NAME: &'static str = "ff5";
    fn make(kind: Kind, r: &mut Rng) -> (Self, Kind) {
        match kind {
            Kind::One => (FF::new(1), Kind::One),
            Kind::MinusOne => (FF::new(4), Kind::MinusOne),
            _ => (FF::new(if r.bool() { 2 } else { 3 }), Kind::OtherUnit),
        }
    }
}
type PH = Poly<'H', i64>;
impl Scal for PH {
    const NAME: &'static str = "polyH";
    fn make(kind: Kind, r: &mut Rng) -> (Self, Kind) {
        match kind {
            Kind::One => (PH::from_const(1), Kind::One),
            Kind::MinusOne => (PH::from_const(-1), Kind::MinusOne),
            _ => {
                let h = PH::variable();
                let v = match r.below(5) {
                    0 => h,
                    1 => PH::from_const(1) + h,
                    2 => PH::from_const(2),
                    3 => -h,
                    _ => h.clone() * h - PH::from_const(1),
                };
                (v, Kind::NonUnit)
            }
        }
    }
}

#[derive(Clone, Copy, Debug)]
enum Cond { One, AnyUnit, Weight(u32) } // Weight(w2) = PivotCondition::Weight(w2 / 2)

impl Cond {
    fn lib(&self) -> PivotCondition {
        match *self { Cond::One => PivotCondition::One, Cond::AnyUnit => PivotCondition::AnyUnit, Cond::Weight(w2) => PivotCondition::Weight(w2 as f64 / 2.0) }
    }
    fn name(&self) -> String {
        match *self { Cond::One => "one".into(), Cond::AnyUnit => "unit".into(), Cond::Weight(w2) => format!("weight{}", w2 as f64 / 2.0) }
    }
    /// the condition the property demands of a pivot entry (kind known to the generator, weight = c_weight)
    fn holds(&self, k: Kind, weight: u64) -> bool {
        match *self {
            Cond::One => matches!(k, Kind::One | Kind::MinusOne),
            Cond::AnyUnit => k != Kind::NonUnit,
            Cond::Weight(w2) => k != Kind::NonUnit && 2 * weight <= w2 as u64,
        }
    }
}

// ---------------------------------------------------------------------------------------------
// scheduler

#[derive(Clone, Copy, PartialEq, Eq, Debug)]
enum Policy { Free, Random, Fifo, Lifo, StaleMax, StaleRandom, Burst }

struct Ticket { id: u64, released: bool }

struct Inner {
    trace: Vec<PivotEvent>,
    waiting: Vec<Ticket>,
    last_arrival: Instant,
    last_release: Instant,
    next_id: u64,
    done: bool,
    rng: Rng,
    self_released: u64,
    max_waiting: usize,
}

struct Sched {
    policy: Policy,
    quiet: Duration,
    /// Burst: number of workers released together / number of them that have woken up
    burst_size: std::sync::atomic::AtomicUsize,
    burst_awake: std::sync::atomic::AtomicUsize,
    m: Mutex<Inner>,
    cv_workers: Condvar,
    cv_ctrl: Condvar,
}

impl Sched {
    fn new(policy: Policy, quiet: Duration, rng: Rng) -> Sched {
        let now = Instant::now();
        Sched {
            policy, quiet,
            m: Mutex::new(Inner { trace: vec![], waiting: vec![], last_arrival: now, last_release: now, next_id: 0,
                done: false, rng, self_released: 0, max_waiting: 0 }),
            cv_workers: Condvar::new(), cv_ctrl: Condvar::new(),
            burst_size: std::sync::atomic::AtomicUsize::new(0), burst_awake: std::sync::atomic::AtomicUsize::new(0),
        }
    }

    fn blocks(&self, e: &PivotEvent) -> bool {
        match (self.policy, e) {
            (Policy::Free, _) => false,
            (Policy::StaleMax | Policy::StaleRandom | Policy::Burst, PivotEvent::Candidate { col: Some(_), .. }) => true,
            (Policy::StaleMax | Policy::StaleRandom | Policy::Burst, _) => false,
            (_, PivotEvent::TaskStart { .. }) => true,
            (_, PivotEvent::Candidate { col: Some(_), .. }) => true,
            _ => false,
        }
    }

    /// called on the worker thread; Retry/Commit arrive under the write lock and never block here
    fn on_event(&self, e: &PivotEvent) {
        let mut g = self.m.lock().unwrap();
        g.trace.push(e.clone());
        if !self.blocks(e) || g.done { return }
        let id = g.next_id;
        g.next_id += 1;
        g.waiting.push(Ticket { id, released: false });
        g.max_waiting = g.max_waiting.max(g.waiting.len());
        g.last_arrival = Instant::now();
        self.cv_ctrl.notify_all();
        let deadline = Instant::now() + Duration::from_secs(2);
        loop {
            let pos = g.waiting.iter().position(|t| t.id == id).unwrap();
            if g.waiting[pos].released || g.done {
                g.waiting.remove(pos);
                drop(g);
                if self.policy == Policy::Burst {
                    // all workers released together rush to the lock at the same instant (bounded spin)
                    use std::sync::atomic::Ordering::SeqCst;
                    self.burst_awake.fetch_add(1, SeqCst);
                    let t0 = Instant::now();
                    while self.burst_awake.load(SeqCst) < self.burst_size.load(SeqCst) && t0.elapsed() < Duration::from_micros(300) {
                        std::hint::spin_loop();
                    }
                }
                return
            }
            let now = Instant::now();
            if now >= deadline { g.waiting.remove(pos); g.self_released += 1; return }
            g = self.cv_workers.wait_timeout(g, deadline - now).unwrap().0;
        }
    }

    fn controller(&self) {
        let mut g = self.m.lock().unwrap();
        loop {
            if g.done { break }
            let now = Instant::now();
            let pending: Vec<usize> = (0..g.waiting.len()).filter(|&i| !g.waiting[i].released).collect();
            if pending.is_empty() {
                g = self.cv_ctrl.wait_timeout(g, Duration::from_millis(2)).unwrap().0;
                continue;
            }
            let ready_at = std::cmp::max(g.last_arrival, g.last_release) + self.quiet;
            if now < ready_at {
                g = self.cv_ctrl.wait_timeout(g, ready_at - now).unwrap().0;
                continue;
            }
            if self.policy == Policy::Burst {
                use std::sync::atomic::Ordering::SeqCst;
                self.burst_awake.store(0, SeqCst);
                self.burst_size.store(pending.len(), SeqCst);
                for &i in &pending { g.waiting[i].released = true; }
                g.last_release = Instant::now();
                self.cv_workers.notify_all();
                continue;
            }
            let pick = match self.policy {
                Policy::Random | Policy::StaleRandom => pending[g.rng.below(pending.len() as u64) as usize],
                Policy::Lifo => *pending.last().unwrap(),
                _ => pending[0],
            };
            g.waiting[pick].released = true;
            g.last_release = Instant::now();
            self.cv_workers.notify_all();
        }
        self.cv_workers.notify_all();
    }

    fn finish(&self) {
        let mut g = self.m.lock().unwrap();
        g.done = true;
        self.cv_ctrl.notify_all();
        self.cv_workers.notify_all();
    }
}

struct Pools { pools: Vec<Option<Arc<rayon::ThreadPool>>> }
impl Pools {
    fn new() -> Pools { Pools { pools: (0..=16).map(|_| None).collect() } }
    fn get(&mut self, k: usize) -> Arc<rayon::ThreadPool> {
        if self.pools[k].is_none() {
            self.pools[k] = Some(Arc::new(rayon::ThreadPoolBuilder::new().num_threads(k).build().unwrap()));
        }
        self.pools[k].clone().unwrap()
    }
    fn poison(&mut self, k: usize) { self.pools[k] = None }
}

struct RunOut { result: Option<Option<Vec<(usize, usize)>>>, trace: Vec<PivotEvent>, self_released: u64, max_waiting: usize }

fn scheduled_run<R: Scal>(a: &SpMat<R>, t: PivotType, c: PivotCondition, pool: Arc<rayon::ThreadPool>,
    policy: Policy, quiet: Duration, rng: Rng) -> RunOut
where for<'x> &'x R: RingOps<R> {
    let sched = Arc::new(Sched::new(policy, quiet, rng));
    let s2 = sched.clone();
    set_hook(Some(Arc::new(move |e: &PivotEvent| s2.on_event(e))));
    let s3 = sched.clone();
    let ctrl = std::thread::spawn(move || s3.controller());
    let a2 = a.clone();
    let result = guard_timeout(60, move || pool.install(|| find_pivots(&a2, t, c)));
    sched.finish();
    set_hook(None);
    let _ = ctrl.join();
    let g = sched.m.lock().unwrap();
    RunOut { result, trace: g.trace.clone(), self_released: g.self_released, max_waiting: g.max_waiting }
}

// ---------------------------------------------------------------------------------------------
// one case

struct MatDesc<R> { m: usize, n: usize, ents: Vec<(usize, usize, R, Kind)> }

fn pairs_str(v: &[(usize, usize)]) -> String {
    v.iter().map(|(i, j)| format!("{},{}", i, j)).collect::<Vec<_>>().join(";")
}

fn describe<R: Scal>(d: &MatDesc<R>, t: PivotType, c: Cond, threads: usize, policy: Policy) -> String
where for<'x> &'x R: RingOps<R> {
    let es: Vec<String> = d.ents.iter().map(|(i, j, r, _)| format!("({},{},{})", i, j, r)).collect();
    format!("ring={} shape={}x{} type={:?} cond={} threads={} policy={:?} entries=[{}]",
        R::NAME, d.m, d.n, t, c.name(), threads, policy, es.join(" "))
}

fn run_case<R: Scal>(s: &mut Sink, pools: &mut Pools, r: &mut Rng, d: &MatDesc<R>, t: PivotType, c: Cond,
    threads: usize, policy: Policy, quiet_us: u64)
where for<'x> &'x R: RingOps<R> {
    let (m, n) = (d.m, d.n);
    let a = SpMat::<R>::from_entries((m, n), d.ents.iter().map(|(i, j, x, _)| (*i, *j, x.clone())));
    let desc = describe(d, t, c, threads, policy);
    let mut kind = vec![None; m * n];
    for (i, j, _, k) in d.ents.iter() { kind[i * n + j] = Some(*k); }

    s.count(&format!("ring.{}", R::NAME));
    s.count(&format!("type.{:?}", t));
    s.count(&format!("cond.{}", match c { Cond::One => "one", Cond::AnyUnit => "unit", Cond::Weight(_) => "weight" }));
    s.count(&format!("threads.{:02}", threads));
    s.count(&format!("policy.{:?}", policy));
    s.count(&format!("size.{}", if m.max(n) <= 6 { "<=6" } else if m.max(n) <= 14 { "<=14" } else if m.max(n) <= 30 { "<=30" } else { ">30" }));

    let out = scheduled_run(&a, t, c.lib(), pools.get(threads), policy, Duration::from_micros(quiet_us), r.fork());
    if out.self_released > 0 { s.count_n("sched.self_released", out.self_released); }
    s.count(&format!("sched.max_waiting.{:02}", out.max_waiting.min(16)));

    let pivs = match out.result {
        None => {
            pools.poison(threads);
            s.oracle(false, "the call never deadlocks: find_pivots did not return within 60 s under the imposed schedule", &desc,
                &format!("trace so far: {:?}", out.trace));
            s.eval_only(&desc, true);
            return;
        }
        Some(None) => {
            s.oracle(false, "the call never panics", &desc, &format!("trace: {:?}", out.trace));
            s.eval_only(&desc, true);
            return;
        }
        Some(Some(p)) => p,
    };
    s.oracle(true, "the call never deadlocks or panics", &desc, "");

    // ---- oracle on the implementation alone -------------------------------------------------
    let rr = pivs.len();
    let in_range = pivs.iter().all(|&(i, j)| i < m && j < n);
    s.oracle(in_range, "pivot positions lie inside the matrix", &desc, &format!("pivots {:?}", pivs));
    if !in_range { s.eval_only(&desc, true); return }
    let mut rows: Vec<usize> = pivs.iter().map(|p| p.0).collect();
    let mut cols: Vec<usize> = pivs.iter().map(|p| p.1).collect();
    rows.sort(); cols.sort();
    let drows = rows.windows(2).all(|w| w[0] != w[1]);
    let dcols = cols.windows(2).all(|w| w[0] != w[1]);
    s.oracle(drows, "the returned pivot list has pairwise distinct rows", &desc, &format!("pivots {:?}", pivs));
    s.oracle(dcols, "the returned pivot list has pairwise distinct columns", &desc, &format!("pivots {:?}", pivs));
    let dense = a.clone().into_dense();
    let cond_ok = pivs.iter().all(|&(i, j)| match kind[i * n + j] {
        Some(k) => c.holds(k, dense[(i, j)].c_weight() as u64),
        None => false,
    });
    s.oracle(cond_ok, "every pivot entry satisfies the pivot condition (±1 / unit / unit of bounded weight)", &desc,
        &format!("pivots {:?}", pivs));
    if drows && dcols {
        let perm = guard(|| {
            let (p, q) = perms_by_pivots(&a, &pivs);
            a.permute(p.view(), q.view()).into_dense()
        });
        match perm {
            None => s.oracle(false, "perms_by_pivots + permute do not panic", &desc, &format!("pivots {:?}", pivs)),
            Some(b) => {
                let diag = (0..rr).all(|k| b[(k, k)] == dense[pivs[k]]);
                s.oracle(diag, "after the permutations the pivots are on the diagonal of the leading block", &desc,
                    &format!("pivots {:?}", pivs));
                let tri = match t {
                    PivotType::Rows => (0..rr).all(|j| (j + 1..rr).all(|i| b[(i, j)].is_zero())), // upper
                    PivotType::Cols => (0..rr).all(|i| (i + 1..rr).all(|j| b[(i, j)].is_zero())), // lower
                };
                s.oracle(tri, "after the permutations the leading r×r block is triangular (upper for Rows, lower for Cols)", &desc,
                    &format!("pivots {:?}", pivs));
            }
        }
    }

    // ---- trace → Lean model -----------------------------------------------------------------
    // internal orientation of the PivotFinder: transposed for Cols
    let tr = |i: usize, j: usize| if t == PivotType::Rows { (i, j) } else { (j, i) };
    let (mi, ni) = if t == PivotType::Rows { (m, n) } else { (n, m) };
    let mut req = format!("trace {} {}", mi, ni);
    let mut ents = vec![];
    let mut integral = true;
    for (i, j, x) in a.iter() {
        if x.is_zero() { continue }
        let w = x.c_weight();
        if !(w >= 0.0 && w.fract() == 0.0 && w < 1e9) { integral = false; }
        let k = kind[i * n + j].unwrap();
        let (ii, jj) = tr(i, j);
        ents.push(format!("{} {} {} {}", ii, jj, w as u64, c.holds(k, w as u64) as u8));
    }
    if !integral {
        s.count("skipped.nonintegral-weight");
        s.eval_only(&desc, true);
        return;
    }
    req.push_str(&format!(" {}", ents.len()));
    for e in &ents { req.push(' '); req.push_str(e); }

    newstr_case(s, &a, (m, n), t, c, &kind);

    let mut seq: Vec<(usize, usize)> = vec![];
    let mut evs: Vec<String> = vec![];
    let (mut ncommit, mut nretry, mut nstale, mut ngiveup) = (0u64, 0u64, 0u64, 0u64);
    for e in &out.trace {
        match e {
            PivotEvent::SeqDone { pivots } => seq = pivots.clone(),
            PivotEvent::TaskStart { row, snapshot } => evs.push(format!("0 {} {} 0 0", row, snapshot)),
            PivotEvent::Candidate { row, col, snapshot } => {
                if col.is_none() { ngiveup += 1; }
                evs.push(format!("1 {} {} {} 0", row, col.map(|c| c + 1).unwrap_or(0), snapshot))
            }
            PivotEvent::Retry { row, snapshot, current } => { nretry += 1; evs.push(format!("2 {} {} {} 0", row, snapshot, current)) }
            PivotEvent::Commit { row, col, snapshot, index } => {
                ncommit += 1;
                if snapshot < index { nstale += 1; }
                evs.push(format!("3 {} {} {} {}", row, col, snapshot, index))
            }
        }
    }
    s.count_n("trace.events", evs.len() as u64);
    s.count_n("trace.commits", ncommit);
    s.count_n("trace.retries", nretry);
    s.count_n("trace.commits_on_stale_snapshot", nstale);
    s.count_n("trace.giveups", ngiveup);
    if nretry > 0 { s.count("runs.with_retry"); }
    if nstale > 0 { s.count("runs.with_stale_commit"); }
    if ncommit > 0 { s.count("runs.with_parallel_commit"); }
    s.count("traces_validated_against_impl");

    req.push_str(&format!(" {}", seq.len()));
    for (i, j) in &seq { req.push_str(&format!(" {} {}", i, j)); }
    req.push_str(&format!(" {}", evs.len()));
    for e in &evs { req.push(' '); req.push_str(e); }
    req.push_str(&format!(" {}", pivs.len()));
    let internal: Vec<(usize, usize)> = pivs.iter().map(|&(i, j)| tr(i, j)).collect();
    for (i, j) in &internal { req.push_str(&format!(" {} {}", i, j)); }

    let mut sorted = internal.clone();
    sorted.sort_by_key(|p| (p.1, p.0));
    let reply = format!("piv:{} chk:ok", pairs_str(&sorted));
    s.case(&req, &reply, !evs.is_empty());
}

/// `MatrixStr::new` is private and has no observation hook, so its fields cannot be read.  What is compared instead:
/// the Lean code model `matrixStrNew` (the subject of Props/C11New.lean) is run on the RAW CSC storage of `a` as the
/// real library reports it (`a.iter()` order, `is_zero` / `is_pm_one` / `is_unit` / `c_weight` of every stored value),
/// and must reproduce the structure derived here independently of the storage: a row-major scan of the dense matrix,
/// candidates decided by the generator's knowledge of every entry's kind.  The same structure (built by the same
/// `Str.build`) is the one the `trace` request replays the real run on.
fn newstr_case<R: Scal>(s: &mut Sink, a: &SpMat<R>, (m, n): (usize, usize), t: PivotType, c: Cond, kind: &[Option<Kind>])
where for<'x> &'x R: RingOps<R> {
    let mut cols: Vec<Vec<String>> = vec![vec![]; n];
    let mut stored_zero = false;
    for (i, j, x) in a.iter() {
        let w = x.c_weight();
        if !(w >= 0.0 && w.fract() == 0.0 && w < 1e9) { return }
        if x.is_zero() { stored_zero = true; }
        cols[j].push(format!("{} {} {} {} {}", i, x.is_zero() as u8, x.is_pm_one() as u8, x.is_unit() as u8, w as u64));
    }
    let (ck, w2) = match c { Cond::One => (0, 0), Cond::AnyUnit => (1, 0), Cond::Weight(w2) => (2, w2) };
    let mut req = format!("newstr {} {} {} {} {}", if t == PivotType::Rows { 0 } else { 1 }, ck, w2, m, n);
    for col in &cols {
        req.push_str(&format!(" {}", col.len()));
        for e in col { req.push(' '); req.push_str(e); }
    }
    let dense = a.clone().into_dense();
    let (mi, ni) = if t == PivotType::Rows { (m, n) } else { (n, m) };
    let (mut ent, mut cnd) = (vec![vec![]; mi], vec![vec![]; mi]);
    let (mut rw, mut cw) = (vec![0u64; mi], vec![0u64; ni]);
    for ii in 0..mi {
        for jj in 0..ni {
            let (i, j) = if t == PivotType::Rows { (ii, jj) } else { (jj, ii) };
            let x = &dense[(i, j)];
            let Some(k) = kind[i * n + j] else { continue };
            if x.is_zero() { continue }
            let w = x.c_weight() as u64;
            ent[ii].push(jj.to_string());
            rw[ii] += w;
            cw[jj] += w;
            if c.holds(k, w) { cnd[ii].push(jj.to_string()); }
        }
    }
    let rows = |v: &Vec<Vec<String>>| v.iter().map(|r| r.join(",")).collect::<Vec<_>>().join(";");
    let nums = |v: &Vec<u64>| v.iter().map(|x| x.to_string()).collect::<Vec<_>>().join(",");
    let reply = format!("str {}x{} ent={} cnd={} rw={} cw={}", mi, ni, rows(&ent), rows(&cnd), nums(&rw), nums(&cw));
    s.count("newstr.cases");
    if stored_zero { s.count("newstr.with_stored_zero"); }
    s.case(&req, &reply, ent.iter().any(|r| r.len() > 1));
}

// ---------------------------------------------------------------------------------------------
// generators

fn rand_mat<R: Scal>(r: &mut Rng, m: usize, n: usize, dens_pct: u64, unit_pct: u64) -> MatDesc<R>
where for<'x> &'x R: RingOps<R> {
    let mut ents = vec![];
    for i in 0..m {
        for j in 0..n {
            if r.below(100) < dens_pct {
                let want = if r.below(100) < unit_pct {
                    if r.bool() { Kind::One } else { Kind::MinusOne }
                } else if r.bool() { Kind::OtherUnit } else { Kind::NonUnit };
                let (x, k) = R::make(want, r);
                ents.push((i, j, x, k));
            }
        }
    }
    MatDesc { m, n, ents }
}

/// matrices built to leave many rows for the parallel phase: a staircase that the two sequential
/// phases consume, plus rows whose entries all lie in occupied columns, sharing columns with each other
fn conflict_mat<R: Scal>(r: &mut Rng, k: usize, extra: usize, n_free: usize) -> MatDesc<R>
where for<'x> &'x R: RingOps<R> {
    let (m, n) = (k + extra, k + n_free);
    let mut ents = vec![];
    let one = |r: &mut Rng| R::make(if r.bool() { Kind::One } else { Kind::MinusOne }, r);
    for i in 0..k {
        let (x, kd) = one(r);
        ents.push((i, i, x, kd));
        for j in i + 1..n {
            if r.below(100) < 25 { let (x, kd) = one(r); ents.push((i, j, x, kd)); }
        }
    }
    for i in k..m {
        let mut any = false;
        for j in 0..n {
            let p = if j < k { 30 } else { 45 };
            if r.below(100) < p { let (x, kd) = one(r); ents.push((i, j, x, kd)); any = true; }
        }
        if !any { let (x, kd) = one(r); ents.push((i, n - 1, x, kd)); }
    }
    MatDesc { m, n, ents }
}

/// many rows racing for the same few columns in the parallel phase: row 0 = {0}, row 1 = {1, c_1..c_f} (both
/// become pivots in phase 1, so c_1..c_f are occupied for phase 2), racing rows = {0} ∪ a non-empty subset of
/// the c's — their traversal (through row 0 only) leaves those c's as candidates, so all of them head for the
/// lightest c at once
fn race_mat<R: Scal>(r: &mut Rng, nrace: usize, nfree: usize) -> MatDesc<R>
where for<'x> &'x R: RingOps<R> {
    let (m, n) = (2 + nrace, 2 + nfree);
    let mut ents = vec![];
    let one = |r: &mut Rng| R::make(if r.bool() { Kind::One } else { Kind::MinusOne }, r);
    let (x, kd) = one(r); ents.push((0, 0, x, kd));
    let (x, kd) = one(r); ents.push((1, 1, x, kd));
    for j in 2..n { let (x, kd) = one(r); ents.push((1, j, x, kd)); }
    for i in 2..m {
        let (x, kd) = one(r); ents.push((i, 0, x, kd));
        let forced = 2 + r.below(nfree as u64) as usize;
        for j in 2..n {
            if j == forced || r.below(100) < 40 { let (x, kd) = one(r); ents.push((i, j, x, kd)); }
        }
    }
    MatDesc { m, n, ents }
}

fn race_cases<R: Scal>(s: &mut Sink, pools: &mut Pools, r: &mut Rng, count: usize)
where for<'x> &'x R: RingOps<R> {
    for _ in 0..count {
        let (nrace, nfree) = (r.range(2, 14) as usize, r.range(1, 4) as usize);
        let d: MatDesc<R> = race_mat(r, nrace, nfree);
        s.count("gen.race");
        let t = if r.chance(3, 4) { PivotType::Rows } else { PivotType::Cols };
        for _ in 0..3 {
            let p = *r.pick(&[Policy::Burst, Policy::Burst, Policy::Free, Policy::StaleRandom]);
            let q = *r.pick(&[200u64, 400, 800]);
            let th = *r.pick(&[2usize, 4, 8, 8, 16, 16]);
            run_case(s, pools, r, &d, t, Cond::One, th, p, q);
        }
    }
}

fn from_dense<R: Scal>(m: usize, n: usize, data: &[i64]) -> MatDesc<R>
where for<'x> &'x R: RingOps<R> {
    let mut r = Rng::new(7);
    let mut ents = vec![];
    for i in 0..m { for j in 0..n {
        let v = data[i * n + j];
        if v == 0 { continue }
        let want = match v { 1 => Kind::One, -1 => Kind::MinusOne, 2 => Kind::OtherUnit, _ => Kind::NonUnit };
        let (x, k) = R::make(want, &mut r);
        ents.push((i, j, x, k));
    } }
    MatDesc { m, n, ents }
}

const POLICIES: &[Policy] = &[Policy::Free, Policy::Random, Policy::Fifo, Policy::Lifo, Policy::StaleMax, Policy::StaleRandom, Policy::Burst, Policy::Burst];
const CONDS: &[Cond] = &[Cond::One, Cond::One, Cond::AnyUnit, Cond::AnyUnit, Cond::Weight(2), Cond::Weight(4), Cond::Weight(5), Cond::Weight(6)];

fn pick_threads(r: &mut Rng) -> usize {
    match r.below(10) { 0 => 1, 1 | 2 => 2, 3 => 3, 4 | 5 => 4, 6 => 8, 7 => 16, _ => 1 + r.below(16) as usize }
}

fn pick_sched(r: &mut Rng) -> (Policy, u64) {
    let p = *r.pick(POLICIES);
    let q = match p {
        Policy::Free => 0,
        Policy::StaleMax | Policy::StaleRandom | Policy::Burst => *r.pick(&[300u64, 600, 1200]),
        _ => *r.pick(&[40u64, 120, 300]),
    };
    (p, q)
}

fn corpus<R: Scal>(s: &mut Sink, pools: &mut Pools, r: &mut Rng)
where for<'x> &'x R: RingOps<R> {
    let test69: &[i64] = &[
        1, 0, 0, 0, 0, 1, 0, 0, 1,
        0, 1, 1, 1, 0, 1, 0, 1, 0,
        0, 0, 1, 1, 0, 0, 0, 1, 1,
        0, 1, 0, 0, 1, 0, 0, 0, 0,
        0, 0, 1, 0, 0, 0, 0, 0, 0,
        0, 1, 0, 0, 0, 1, 0, 1, 0];
    let init69: &[i64] = &[
        1, 0, 1, 0, 0, 1, 1, 0, 1,
        0, 1, 1, 1, 0, 1, 0, 2, 0,
        0, 0, 1, 1, 0, 0, 0, 1, 1,
        0, 1, 1, 0, 3, 0, 0, 0, 0,
        0, 1, 0, 1, 0, 0, 1, 0, 1,
        1, 0, 1, 0, 1, 1, 0, 1, 1];
    let mats: Vec<MatDesc<R>> = vec![
        from_dense(1, 1, &[0]),
        from_dense(1, 1, &[1]),
        from_dense(1, 1, &[3]),
        from_dense(2, 2, &[1, 0, 0, 1]),
        from_dense(2, 2, &[1, 1, 1, 1]),
        from_dense(2, 2, &[0, 1, 1, 0]),
        from_dense(3, 3, &[1, 1, 0, 0, 1, 1, 1, 0, 1]),          // a 3-cycle pattern
        from_dense(3, 3, &[-1, 1, 1, 1, -1, 1, 1, 1, -1]),       // full
        from_dense(3, 1, &[1, 1, 1]),
        from_dense(1, 4, &[3, 1, -1, 2]),
        from_dense(4, 4, &[1, 0, 1, 0, 0, 1, 1, 1, 0, 0, 0, 0, 0, 0, 1, 1]),
        from_dense(4, 4, &[3, 3, 0, 3, 3, 0, 3, 3, 0, 3, 3, 0, 3, 3, 3, 3]),  // no ±1 at all
        from_dense(4, 5, &[2, 1, 0, 1, 0, 1, 2, 1, 0, 0, 0, 1, 2, 0, 1, 1, 0, 1, 2, 1]),
        from_dense(4, 3, &[1, 0, 0, 0, 1, 1, 1, 0, 1, 1, 0, 1]),          // two rows racing for one column (exStr in Props/C11.lean)
        from_dense(6, 9, test69),
        from_dense(6, 9, init69),
        from_dense(5, 5, &[1, 1, 1, 1, 1, 1, 1, 1, 1, 1, 1, 1, 1, 1, 1, 1, 1, 1, 1, 1, 1, 1, 1, 1, 1]),
        from_dense(5, 5, &[1, 1, 0, 0, 0, 0, 1, 1, 0, 0, 0, 0, 1, 1, 0, 0, 0, 0, 1, 1, 1, 0, 0, 0, 1]), // 5-cycle
    ];
    for d in &mats {
        for &t in &[PivotType::Rows, PivotType::Cols] {
            for &c in &[Cond::One, Cond::AnyUnit, Cond::Weight(4)] {
                let (p, q) = pick_sched(r);
                let th = pick_threads(r);
                run_case(s, pools, r, d, t, c, th, p, q);
            }
        }
    }
}

fn gen_cases<R: Scal>(s: &mut Sink, pools: &mut Pools, r: &mut Rng, count: usize, thorough: bool)
where for<'x> &'x R: RingOps<R> {
    for it in 0..count {
        let big = thorough && it % 8 == 0;
        let d: MatDesc<R> = if r.chance(2, 5) {
            let (k, extra, nf) = if big { (r.range(8, 30) as usize, r.range(6, 30) as usize, r.range(0, 10) as usize) }
                                 else { (r.range(2, 7) as usize, r.range(2, 7) as usize, r.range(0, 4) as usize) };
            s.count("gen.conflict");
            conflict_mat(r, k, extra, nf)
        } else {
            let (m, n) = if big { (r.range(12, 60) as usize, r.range(12, 60) as usize) } else { (r.range(3, 12) as usize, r.range(3, 14) as usize) };
            let dens = if big { r.range(8, 30) as u64 } else { r.range(15, 50) as u64 };
            let unit = *r.pick(&[95u64, 85, 70, 50]);
            s.count("gen.random");
            rand_mat(r, m, n, dens, unit)
        };
        let t = if r.bool() { PivotType::Rows } else { PivotType::Cols };
        let c = *r.pick(CONDS);
        // the same matrix under several schedules
        let reps = if big { 2 } else { 3 };
        for _ in 0..reps {
            let (p, q) = pick_sched(r);
            let th = pick_threads(r);
            run_case(s, pools, r, &d, t, c, th, p, q);
        }
    }
}

/// exhaustive exploration of ALL interleavings of the model on tiny structures (a test of the model and of the
/// theorem statement, not of the implementation): request `enum`, expected reply `enum ok`
fn enum_cases(s: &mut Sink, r: &mut Rng, count: usize) {
    for _ in 0..count {
        let (x1, x2, x3) = (r.range(1, 3) as usize, r.range(2, 3) as usize, r.range(0, 2) as usize);
        let (y1, y2, y3) = (r.range(2, 5) as usize, r.range(2, 5) as usize, r.range(30, 70) as u64);
        let d: MatDesc<i64> = if r.bool() { conflict_mat(r, x1, x2, x3) } else { rand_mat(r, y1, y2, y3, 90) };
        let mut ents = vec![];
        // a.iter() order of the CSC matrix: by column, then row
        let mut es: Vec<_> = d.ents.iter().collect();
        es.sort_by_key(|e| (e.1, e.0));
        for (i, j, x, k) in es {
            ents.push(format!("{} {} {} {}", i, j, x.abs(), Cond::One.holds(*k, x.abs() as u64) as u8));
        }
        let req = format!("enum {} {} {} {} 60000", d.m, d.n, ents.len(), ents.join(" "));
        s.count("model.enum_all_interleavings");
        s.case(req.trim_end().replace("  ", " ").as_str(), "enum ok", true);
    }
}

/// sustained contention on ONE row: a light row C holds a unit in every column z_k and conflicts pairwise (2-cycle [[2,1],[1,2]]) with
/// each of M rows R_k that other workers keep committing, so C has to re-validate again and again; whatever the schedule, the
/// returned set must be an acyclic set of ±1 entries in distinct rows / columns and the call must not panic. Oracle-only (the
/// traces are too long for the replay); real threads, no imposed schedule.
fn retry_chain_case(s: &mut Sink, m: usize, threads: usize, round: usize) {
    let (ncols, nrows) = (2 * m + 2, m + 2);
    let (c, z) = (|k: usize| 2 + k, |k: usize| 2 + m + k);
    let (row_c, row_p) = (0usize, m + 1);
    let first_preferred = (m + 1) / 2 + 8;
    let w_big = (4 * m) as i64;
    let mut e: Vec<(usize, usize, i64)> = vec![(row_p, 0, 1), (row_p, 1, 2), (row_c, 1, 2)];
    for k in 0..m {
        e.push((row_p, c(k), 2)); e.push((row_p, z(k), if k >= first_preferred { 2 } else { 3 }));
        e.push((row_c, c(k), 2)); e.push((row_c, z(k), 1));
        e.push((1 + k, 1, w_big)); e.push((1 + k, c(k), 1)); e.push((1 + k, z(k), 2));
    }
    let a: SpMat<i64> = SpMat::from_entries((nrows, ncols), e.clone());
    let desc = format!("retry chain: M={} ({}x{} over Z: cover row P, light row C with a unit in every z_k, rows R_k = [W at h, 1 at c_k, 2 at z_k]) Rows/One threads={} round={}", m, nrows, ncols, threads, round);
    let pool = rayon::ThreadPoolBuilder::new().num_threads(threads).build().unwrap();
    let a2 = a.clone();
    let res = guard_timeout(120, move || pool.install(|| yui_matrix::sparse::pivot::find_pivots(&a2, PivotType::Rows, PivotCondition::One)));
    match res {
        None => s.oracle(false, "the call never deadlocks", &desc, "timeout"),
        Some(None) => s.oracle(false, "find_pivots never panics (the pivot set it assembled must be acyclic)", &desc, "panic"),
        Some(Some(pivs)) => {
            let rows: BTreeSet<usize> = pivs.iter().map(|p| p.0).collect();
            let cols: BTreeSet<usize> = pivs.iter().map(|p| p.1).collect();
            let val: BTreeMap<(usize, usize), i64> = e.iter().map(|&(i, j, x)| ((i, j), x)).collect();
            let units = pivs.iter().all(|p| matches!(val.get(p), Some(1) | Some(-1)));
            // acyclic: order the pivots so that the block is upper triangular = no pivot row has an entry in the pivot column of a LATER pivot … check by Kahn on the dependency graph
            let idx: BTreeMap<usize, usize> = pivs.iter().enumerate().map(|(k, p)| (p.1, k)).collect();   // pivot column -> pivot number
            let mut indeg = vec![0usize; pivs.len()];
            let mut out: Vec<Vec<usize>> = vec![vec![]; pivs.len()];
            let mut by_row: Vec<Vec<(usize, i64)>> = vec![vec![]; nrows];
            for &(i, j, x) in e.iter() { by_row[i].push((j, x)); }
            for (k, p) in pivs.iter().enumerate() {
                for &(j, x) in by_row[p.0].iter() { if x != 0 && j != p.1 { if let Some(&l) = idx.get(&j) { out[k].push(l); indeg[l] += 1; } } }
            }
            let mut stack: Vec<usize> = (0..pivs.len()).filter(|&k| indeg[k] == 0).collect();
            let mut seen = 0;
            while let Some(k) = stack.pop() { seen += 1; for &l in &out[k] { indeg[l] -= 1; if indeg[l] == 0 { stack.push(l); } } }
            let ok = rows.len() == pivs.len() && cols.len() == pivs.len() && units && seen == pivs.len();
            s.oracle(ok, "the returned pivots lie in distinct rows and columns, are ±1 entries, and their dependency graph is acyclic (a triangular leading block exists)", &desc,
                &format!("pivots={} distinct_rows={} distinct_cols={} units={} topologically_sorted={}", pivs.len(), rows.len(), cols.len(), units, seen));
        }
    }
    s.eval_only(&desc, true);
    s.count("retry-chain");
}

fn main() {
    let args = Args::parse();
    quiet_panics();
    let mut s = Sink::new(&args, "a case is non-trivial when the parallel phase produced at least one protocol event (task start / candidate / retry / commit)");
    let mut r = Rng::new(args.seed);
    let mut pools = Pools::new();
    let thorough = args.thorough();

    corpus::<i64>(&mut s, &mut pools, &mut r);
    corpus::<Ratio<i64>>(&mut s, &mut pools, &mut r);
    if thorough {
        corpus::<FF<3>>(&mut s, &mut pools, &mut r);
        corpus::<FF<5>>(&mut s, &mut pools, &mut r);
        corpus::<PH>(&mut s, &mut pools, &mut r);
    }

    let base = if thorough { 4000 } else { 60 };
    gen_cases::<i64>(&mut s, &mut pools, &mut r, base * 2, thorough);
    gen_cases::<Ratio<i64>>(&mut s, &mut pools, &mut r, base, thorough);
    gen_cases::<FF<3>>(&mut s, &mut pools, &mut r, base / 2, thorough);
    gen_cases::<FF<5>>(&mut s, &mut pools, &mut r, base / 2, thorough);
    gen_cases::<PH>(&mut s, &mut pools, &mut r, base, thorough);

    race_cases::<i64>(&mut s, &mut pools, &mut r, if thorough { 6000 } else { 150 });
    race_cases::<FF<3>>(&mut s, &mut pools, &mut r, if thorough { 2000 } else { 50 });

    enum_cases(&mut s, &mut r, if thorough { 1500 } else { 40 });
    for round in 0..(if thorough { 3 } else { 1 }) { for (m, t) in [(3000usize, 2usize), (4000, 3), (6000, 4), (10000, 8), (16000, 16)] { retry_chain_case(&mut s, m, t, round); } }

    s.finish();
}
