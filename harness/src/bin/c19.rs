//! C19 — involutive Khovanov complex: D∘D = 0, homology vs. the Lean cone-of-(1+τ) reference, the symmetric builder
//! without the involutive part vs. ordinary Kh, and the pair of involutive s-type invariants.
use num_bigint::BigInt;
use num_traits::Zero;
use yui::poly::Poly;
use yui::FF2;
use yui_homology::{ChainComplexTrait, GridTrait, SummandTrait};
use yui_kh::kh::KhHomology;
use yui_kh::khi::internal::v2::builder::SymTngBuilder;
use yui_kh::khi::{ssi_invariants, KhIChain, KhIComplex, KhIHomology};
use yui_link::{InvLink, Link};
use yv::links::*;
use yv::*;

const NAMES: &[&str] = &["3_1", "4_1", "5_1", "5_2a", "5_2b", "6_1a", "6_1b", "6_2a", "6_2b", "6_3", "7_1", "7_2a", "7_2b", "7_3a", "7_3b", "7_4a", "7_4b", "7_5a", "7_5b", "7_6a", "7_6b", "7_7a", "7_7b"];

fn emap_txt(l: &InvLink) -> String {
    let mut es: Vec<usize> = l.link().edges().into_iter().collect();
    es.sort();
    es.iter().map(|&e| format!("{}:{}", e, l.inv_e(e))).collect::<Vec<_>>().join(" ")
}

/// rebuild an involutive link with its crossings listed in another order
fn reordered(r: &mut Rng, l: &InvLink) -> InvLink {
    let pd = reorder(r, &pd_of(l.link()));
    let n = l.link().edges().len();
    let _ = n;
    InvLink::sinv_knot_from_code(pd)
}

fn khi_case(s: &mut Sink, name: &str, l: &InvLink, h: u8, t: u8, red: bool, bigr: bool, with_model: bool) {
    let desc = format!("{} h={} t={} reduced={} [{}]", link_txt(l.link()), h, t, red as u8, name);
    let (hh, tt) = (FF2::from(h as i64), FF2::from(t as i64));
    let c = KhIComplex::<FF2>::new(l, &hh, &tt, red);
    // D∘D = 0 on every generator
    let mut ok = true;
    for i in c.support() {
        for x in c[i].raw_gens().iter() {
            let z = KhIChain::<FF2>::from(*x);
            let dz = c.d(i, &z);
            let ddz = c.d(i + 1, &dz);
            if !ddz.is_zero() { ok = false; }
            if dz.gens().any(|y| y.h_deg() != x.h_deg() + 1) { ok = false; }
        }
    }
    s.oracle(ok, "the involutive complex is a chain complex (D∘D = 0, D raises the homological degree by one)", &desc, "");
    let kh = KhIHomology::<FF2>::from(&c);
    let cells: Vec<((isize, Option<isize>), String)> = if bigr {
        let g = kh.clone().into_bigraded();
        g.iter().map(|(idx, sm)| ((idx.0, Some(idx.1)), sm.rank().to_string())).filter(|(_, d)| d != "0").collect()
    } else {
        kh.support().map(|i| ((i, None), kh.get(i).rank().to_string())).filter(|(_, d)| d != "0").collect()
    };
    let mut cs = cells; cs.sort_by_key(|(k, _)| (k.0, k.1.unwrap_or(0)));
    let tbl = if cs.is_empty() { "empty".to_string() } else { cs.iter().map(|((i, j), d)| match j { Some(j) => format!("{},{}:{}", i, j, d), None => format!("{}:{}", i, d) }).collect::<Vec<_>>().join(" ") };
    s.count(&format!("crossings.{}", l.link().crossing_num()));
    if with_model {
        let base = l.base_pt().map(|b| b.to_string()).unwrap_or("_".into());
        let req = format!("khi {} {} {} {} {} {} {}", h, t, red as u8, bigr as u8, base, link_txt(l.link()), emap_txt(l));
        s.case(&req, &format!("signs={} {}", signs_txt(l.link()), tbl), true);
    } else { s.eval_only(&desc, true); }
}

/// the same complex through the builder's public switches (deferred delooping / deferred elimination / no preprocessing):
/// whatever the route, the homology must be that of the default route (and of the Lean cone reference)
fn builder_routes(s: &mut Sink, r: &mut Rng, name: &str, l: &InvLink, h: u8, red: bool) {
    let (hh, tt) = (FF2::from(h as i64), FF2::zero());
    let table = |c: &KhIComplex<FF2>| -> Vec<(isize, usize)> { let kh = KhIHomology::<FF2>::from(c); kh.support().map(|i| (i, kh.get(i).rank())).filter(|x| x.1 > 0).collect() };
    let l0 = l.clone();
    let Some(Some(base)) = guard_timeout(120, move || table(&KhIComplex::<FF2>::new(&l0, &hh, &tt, red))) else { return };
    for _ in 0..2 {
        let (ad, ae, pre) = match r.below(4) { 0 => (false, true, true), 1 => (true, false, true), 2 => (false, false, true), _ => (true, true, false) };
        let desc = format!("{} h={} reduced={} [{}] auto_deloop={} auto_elim={} preprocess={}", link_txt(l.link()), h, red as u8, name, ad, ae, pre);
        let l1 = l.clone();
        let got = guard_timeout(120, move || {
            let mut b = SymTngBuilder::<FF2>::new(&l1, &hh, &tt, red);
            b.auto_deloop = ad; b.auto_elim = ae;
            if pre { b.preprocess(); }
            b.process_all();
            b.finalize();
            let c = b.into_khi_complex();
            let mut ok = true;
            for i in c.support() { for x in c[i].raw_gens().iter() { let z = KhIChain::<FF2>::from(*x); if !c.d(i + 1, &c.d(i, &z)).is_zero() { ok = false; } } }
            (ok, table(&c))
        });
        match got {
            Some(Some((dd, t))) => {
                s.oracle(dd, "the involutive complex built through the builder's public switches is a chain complex (D∘D = 0)", &desc, "");
                s.oracle(t == base, "the involutive homology does not depend on the builder route (deferred delooping / elimination / preprocessing)", &desc, &format!("{:?} vs default {:?}", t, base));
            }
            _ => s.oracle(false, "the symmetric builder's public route terminates without panic on a loadable diagram", &desc, "panic/timeout"),
        }
        s.eval_only(&desc, true);
        s.count("builder-route");
    }
}

fn kh_without_tau(s: &mut Sink, name: &str, l: &InvLink, h: u8, red: bool, with_model: bool) {
    let desc = format!("{} h={} reduced={} [{}]", link_txt(l.link()), h, red as u8, name);
    let (hh, tt) = (FF2::from(h as i64), FF2::zero());
    let c = SymTngBuilder::<FF2>::build_kh_complex(l, &hh, &tt, red);
    let a = KhHomology::from(&c);
    let b = KhHomology::<FF2>::new(l.link(), &hh, &tt, red);
    let ta: Vec<(isize, usize)> = a.support().map(|i| (i, a.get(i).rank())).filter(|x| x.1 > 0).collect();
    let tb: Vec<(isize, usize)> = b.support().map(|i| (i, b.get(i).rank())).filter(|x| x.1 > 0).collect();
    s.oracle(ta == tb, "the symmetric construction without the involutive part returns the ordinary Khovanov homology", &desc, &format!("{:?} vs {:?}", ta, tb));
    if with_model {
        let cells = ta.iter().map(|(i, r)| ((*i, None), group_txt(*r, Vec::<BigInt>::new()))).collect();
        s.case(&format!("kh F2 {} 0 {} 0 {}", h, red as u8, link_txt(l.link())), &format!("signs={} {}", signs_txt(l.link()), table_txt(cells)), true);
    }
}

fn ssi_all(l: &InvLink, red: bool) -> Option<(i32, i32)> {
    let l = l.clone();
    type P = Poly<'H', FF2>;
    guard_timeout(240, move || ssi_invariants::<P>(&l, &P::variable(), red)).flatten()
}

// ---------------------------------------------------------------------------------------------
// involution data of InvLink (inv_e / inv_x) against the code model Model/C19Inv.lean

type EM = std::collections::BTreeMap<usize, usize>;

fn sorted_edges(l: &Link) -> Vec<usize> { let mut es: Vec<usize> = l.edges().into_iter().collect(); es.sort(); es }

fn pairs_txt(l: &Link, f: &EM) -> String {
    sorted_edges(l).iter().map(|&e| format!("{}:{}", e, f.get(&e).copied().unwrap_or(e))).collect::<Vec<_>>().join(" ")
}

/// `E e:inv_e(e) … X i:index of inv_x(crossing i) …`; None = some lookup panicked
fn inv_data_txt(il: &InvLink) -> Option<String> {
    guard(|| {
        let l = il.link();
        let e = sorted_edges(l).iter().map(|&e| format!(" {}:{}", e, il.inv_e(e))).collect::<String>();
        let x = l.data().iter().enumerate().map(|(i, x)| { let y = il.inv_x(x); let j = l.data().iter().position(|z| z == y).unwrap(); format!(" {}:{}", i, j) }).collect::<String>();
        format!("E{} X{}", e, x)
    })
}

/// the decidable hypotheses of the Lean theorem `inv_x_involutive_of_checks`, re-evaluated independently on the diagram
fn hyp_of(l: &Link, f: &EM) -> bool {
    let ap = |e: usize| f.get(&e).copied().unwrap_or(e);
    let sets: Vec<std::collections::BTreeSet<usize>> = l.data().iter().map(|x| x.edges().iter().cloned().collect()).collect();
    let invol = l.data().iter().flat_map(|x| x.edges().iter()).all(|&e| ap(ap(e)) == e);
    let same_card = sets.iter().all(|a| a.len() == sets[0].len());
    let distinct = (0..sets.len()).all(|i| (0..sets.len()).all(|j| sets[i] != sets[j] || l.data()[i] == l.data()[j]));
    invol && same_card && distinct
}

/// is inv_x, for every crossing, the FIRST crossing containing the images of its labels (what the cone reference uses)?
fn ref_of(il: &InvLink) -> bool {
    guard(|| {
        let d = il.link().data();
        d.iter().all(|x| {
            let img: Vec<usize> = x.edges().iter().map(|&e| il.inv_e(e)).collect();
            let first = d.iter().position(|y| img.iter().all(|e| y.edges().contains(e)));
            first == d.iter().position(|z| z == il.inv_x(x))
        })
    }).unwrap_or(false)
}

fn base_txt(b: Option<usize>) -> String { b.map(|b| b.to_string()).unwrap_or("_".into()) }

/// `InvLink::new` (and `mirror` of the result) on an arbitrary link / label map / base point
fn new_case(s: &mut Sink, kind: &str, l: &Link, f: &EM, base: Option<usize>) -> Option<InvLink> {
    let got = { let (l1, f1) = (l.clone(), f.clone()); guard(move || InvLink::new(l1, move |e| f1.get(&e).copied().unwrap_or(e), base)) };
    let hyp = hyp_of(l, f) as u8;
    for mirror in [false, true] {
        let req = format!("{} {} {} {}", if mirror { "invmirror" } else { "invnew" }, base_txt(base), link_txt(l), pairs_txt(l, f));
        let il = got.as_ref().and_then(|il| if mirror { guard(|| il.mirror()) } else { Some(il.clone()) });
        let reply = match il.as_ref().and_then(|il| inv_data_txt(il).map(|t| (t, ref_of(il) as u8))) {
            Some((t, rf)) => format!("ok {} hyp={} ref={}", t, hyp, rf),
            None => "panic".to_string(),
        };
        s.count(&format!("inv.{}.{}", kind, if reply == "panic" { "panic" } else { "ok" }));
        s.case(&req, &reply, true);
        if got.is_none() { break }
    }
    got
}

fn sinv_case(s: &mut Sink, kind: &str, pd: &Pd) -> Option<InvLink> {
    let got = { let p = pd.clone(); guard(move || InvLink::sinv_knot_from_code(p)) };
    let req = format!("sinv {} {}", pd.len(), pd.iter().flat_map(|c| c.iter()).map(|e| e.to_string()).collect::<Vec<_>>().join(" "));
    let reply = match got.as_ref().and_then(|il| inv_data_txt(il).map(|t| (il.link().edges().len(), t))) {
        Some((n, t)) => format!("ok n={} {}", n, t),
        None => "panic".to_string(),
    };
    s.count(&format!("sinv.{}.{}", kind, if reply == "panic" { "panic" } else { "ok" }));
    s.case(&req, &reply, true);
    got
}

/// what the property needs from the involution data of a loadable diagram: τ is induced by an involution of the diagram
fn inv_oracles(s: &mut Sink, name: &str, il: &InvLink) {
    let ok = guard(|| {
        let l = il.link();
        let es = sorted_edges(l);
        let e_inv = es.iter().all(|&e| es.contains(&il.inv_e(e)) && il.inv_e(il.inv_e(e)) == e);
        let base = il.base_pt().map(|p| il.inv_e(p) == p).unwrap_or(true);
        let x_inv = l.data().iter().all(|x| {
            let y = il.inv_x(x);
            let img: std::collections::BTreeSet<usize> = x.edges().iter().map(|&e| il.inv_e(e)).collect();
            let ys: std::collections::BTreeSet<usize> = y.edges().iter().cloned().collect();
            l.data().contains(y) && il.inv_x(y) == x && img == ys && y.ctype() == x.ctype()
        });
        (e_inv, base, x_inv)
    });
    let d = link_txt(il.link());
    match ok {
        Some((a, b, c)) => {
            s.oracle(a, "the edge map of a loadable involutive diagram is an involution of its edge labels", &format!("{} [{}]", d, name), "");
            s.oracle(b, "the base point of a loadable involutive diagram lies on the axis (is fixed by the edge map)", &format!("{} [{}]", d, name), "");
            s.oracle(c, "the crossing map of a loadable involutive diagram is an involution sending each crossing to the crossing of the same type carrying exactly the image labels", &format!("{} [{}]", d, name), "");
        }
        None => s.oracle(false, "inv_e / inv_x are defined on every edge / crossing of a loadable involutive diagram", &format!("{} [{}]", d, name), "panic"),
    }
}

fn emap_of(il: &InvLink) -> EM { sorted_edges(il.link()).into_iter().map(|e| (e, il.inv_e(e))).collect() }

fn relabel(pd: &Pd, f: impl Fn(usize) -> usize) -> Pd { pd.iter().map(|c| c.map(|e| f(e))).collect() }

/// one malformed / boundary variant of a symmetric PD code
fn mutate(r: &mut Rng, pd: &Pd) -> (&'static str, Pd) {
    let n = pd.iter().flat_map(|c| c.iter()).cloned().max().unwrap_or(1);
    let any = |r: &mut Rng| 1 + r.below(n as u64) as usize;
    match r.below(12) {
        0 => { let a = any(r); let b = if a == n { 1 } else { a + 1 }; ("merge-two-labels(odd)", relabel(pd, |e| if e == a { b } else { e })) }
        1 => ("shift+1", relabel(pd, |e| e + 1)),
        2 => ("zero-based", relabel(pd, |e| e.saturating_sub(1))),
        3 => ("gap-at-top", relabel(pd, |e| if e == n { n + 1 } else { e })),
        4 => { let a = any(r); ("gap-inside", relabel(pd, |e| if e == a { n + 2 } else { e })) }
        5 | 6 => { let (a, b) = (any(r), any(r)); ("swap-two-labels", relabel(pd, |e| if e == a { b } else if e == b { a } else { e })) }
        7 => { let mut p = pd.clone(); let i = r.below(p.len() as u64) as usize; let (j, k) = (r.below(4) as usize, r.below(4) as usize); p[i].swap(j, k); ("swap-slots-in-one-crossing", p) }
        8 => { let mut p = pd.clone(); let i = r.below(p.len() as u64) as usize; p.push(p[i]); ("duplicate-crossing", p) }
        9 => { let mut p = pd.clone(); let i = r.below(p.len() as u64) as usize; p[i].rotate_left(1 + r.below(3) as usize); ("rotate-one-crossing", p) }
        10 => { let mut p = pd.clone(); let i = r.below(p.len() as u64) as usize; let j = r.below(4) as usize; p[i][j] = any(r); ("overwrite-one-slot", p) }
        _ => { let mut p = pd.clone(); let i = r.below(p.len() as u64) as usize; p.remove(i); ("drop-crossing", p) }
    }
}

fn inv_stream(s: &mut Sink, r: &mut Rng, thorough: bool, cone_max: usize) {
    // hand-written boundary cases of InvLink::new
    let tre: Pd = vec![[1, 5, 2, 4], [3, 1, 4, 6], [5, 3, 6, 2]];
    let sinv6: EM = (1..=6).map(|e| (e, (7 - e) % 6 + 1)).collect();
    let ident: EM = EM::new();
    new_case(s, "hand", &link_of(&tre), &sinv6, None);
    new_case(s, "hand", &link_of(&tre), &sinv6, Some(1));
    new_case(s, "hand", &link_of(&tre), &sinv6, Some(4));
    new_case(s, "hand", &link_of(&tre), &sinv6, Some(2));                       // off-axis base point
    new_case(s, "hand", &link_of(&tre), &sinv6, Some(9));                       // base point is no edge
    new_case(s, "hand", &link_of(&tre), &ident, Some(3));                       // identity map
    new_case(s, "hand", &link_of(&tre), &(1..=6).map(|e| (e, (e + 1) % 6 + 1)).collect(), None);   // rotation of order 3: accepted, not an involution
    new_case(s, "hand", &link_of(&tre), &(1..=6).map(|e| (e, e % 6 + 1)).collect(), None);         // shift by one: no match
    new_case(s, "hand", &link_of(&tre), &(1..=6).map(|e| (e, e + 6)).collect(), None);             // images are no edges
    new_case(s, "hand", &link_of(&vec![]), &ident, None);
    new_case(s, "hand", &link_of(&vec![]), &ident, Some(0));
    new_case(s, "hand", &link_of(&vec![[0, 0, 1, 1]]), &ident, Some(0));
    new_case(s, "hand", &link_of(&vec![[0, 1, 1, 0]]), &[(0, 1), (1, 0)].into_iter().collect(), None);
    let hopf: Pd = vec![[1, 3, 2, 4], [3, 1, 4, 2]];
    new_case(s, "hand", &link_of(&hopf), &ident, None);                         // both crossings carry the same labels
    new_case(s, "hand", &link_of(&hopf), &[(1, 2), (2, 1), (3, 4), (4, 3)].into_iter().collect(), Some(1));
    let two_hopf: Pd = vec![[1, 3, 2, 4], [3, 1, 4, 2], [5, 7, 6, 8], [7, 5, 8, 6]];
    new_case(s, "hand", &link_of(&two_hopf), &(1..=8).map(|e| (e, if e <= 4 { e + 4 } else { e - 4 })).collect(), None);   // overwritten entries: inv_x not an involution
    new_case(s, "hand", &link_of(&vec![[1, 3, 2, 4], [1, 3, 2, 4]]), &ident, None);   // equal crossings: one key
    new_case(s, "hand", &Link::new(vec![yui_link::Crossing::new(yui_link::CrossingType::X, [1, 3, 2, 4]), yui_link::Crossing::new(yui_link::CrossingType::Xm, [1, 3, 2, 4])]), &ident, None);
    new_case(s, "hand", &Link::new(vec![yui_link::Crossing::new(yui_link::CrossingType::V, [1, 5, 2, 4]), yui_link::Crossing::new(yui_link::CrossingType::X, [3, 1, 4, 6]), yui_link::Crossing::new(yui_link::CrossingType::Xm, [5, 3, 6, 2])]), &sinv6, Some(1));
    sinv_case(s, "hand", &vec![]);
    sinv_case(s, "hand", &tre);
    sinv_case(s, "hand", &vec![[1, 1, 2, 2]]);
    sinv_case(s, "hand", &vec![[1, 2, 2, 1]]);
    sinv_case(s, "hand", &vec![[0, 0, 1, 1]]);
    sinv_case(s, "hand", &vec![[1, 2, 3, 4], [1, 2, 3, 4]]);
    sinv_case(s, "hand", &vec![[1, 3, 2, 4], [3, 1, 4, 2]]);
    sinv_case(s, "hand", &vec![[1, 1, 2, 2], [3, 3, 4, 4]]);

    // every table entry, its mirror, reordered copies
    for name in NAMES {
        let Ok(l) = InvLink::load(name) else { continue };
        let pd = pd_of(l.link());
        let mut variants: Vec<(String, InvLink)> = vec![(name.to_string(), l.clone()), (format!("{}-mirror", name), l.mirror())];
        for _ in 0..(if thorough { 4 } else { 1 }) {
            let p = reorder(r, &pd);
            match sinv_case(s, "reordered", &p) {
                Some(x) => variants.push((format!("{}-reordered", name), x)),
                None => s.oracle(false, "a table code with its crossings listed in another order is accepted by sinv_knot_from_code", &format!("{:?} [{}]", p, name), "panic"),
            }
        }
        if sinv_case(s, "table", &pd).is_none() { s.oracle(false, "a table code is accepted by sinv_knot_from_code", name, "panic"); }
        for (vn, il) in &variants {
            inv_oracles(s, vn, il);
            // the same involution through `new` (covers mirror(): the data of a mirrored link goes through the model's mirror)
            let f = emap_of(il);
            let base = il.base_pt();
            if vn.ends_with("-mirror") {
                // the mirrored InvLink itself must carry the data of `new` on the mirrored diagram
                let direct = inv_data_txt(il);
                let via_new = { let (l1, f1) = (il.link().clone(), f.clone()); guard(move || InvLink::new(l1, move |e| f1[&e], base)).and_then(|x| inv_data_txt(&x)) };
                s.oracle(direct.is_some() && direct == via_new, "mirror() of an involutive link carries the involution data of the mirrored diagram", vn, &format!("{:?} vs {:?}", direct, via_new));
            }
            new_case(s, "table", il.link(), &f, base);
            if il.link().crossing_num() <= cone_max {
                for red in [0u8, 1] {
                    s.case(&format!("icube {} {} {} {}", red, base_txt(base), link_txt(il.link()), emap_txt(il)), "wf=1", true);
                    s.count("icube.wf");
                }
            }
        }
        // malformed / boundary codes derived from the table code
        for _ in 0..(if thorough { 60 } else { 8 }) {
            let (kind, mut p) = mutate(r, &pd);
            if r.chance(1, 4) { let (_, q) = mutate(r, &p); p = q; }
            if p.iter().flat_map(|c| c.iter()).any(|&e| e > 1000) { continue }
            sinv_case(s, kind, &p);
        }
        // InvLink::new with perturbed maps / base points on the table diagram
        let n = l.link().edges().len();
        let f0 = emap_of(&l);
        for _ in 0..(if thorough { 12 } else { 3 }) {
            let mut f = f0.clone();
            let base = match r.below(4) { 0 => None, 1 => Some(1), 2 => Some(n / 2 + 1), _ => Some(1 + r.below(n as u64 + 2) as usize) };
            let kind = match r.below(4) {
                0 => "base-only",
                1 => { let a = 1 + r.below(n as u64) as usize; let b = 1 + r.below(n as u64) as usize; let (fa, fb) = (f[&a], f[&b]); f.insert(a, fb); f.insert(b, fa); "map-swap-two-values" }
                2 => { let a = 1 + r.below(n as u64) as usize; f.insert(a, 1 + r.below(n as u64 + 3) as usize); "map-overwrite-one-value" }
                _ => { f = (1..=n).map(|e| (e, e)).collect(); "identity-map" }
            };
            new_case(s, kind, l.link(), &f, base);
        }
    }
}

fn main() {
    let args = Args::parse();
    quiet_panics();
    let thorough = args.thorough();
    let mut s = Sink::new(&args, "cases: strongly invertible knot diagrams from InvLink::load's table (and the same codes with crossings listed in random orders, and mirrors) x (h,t) in F2^2 (reduced only with t=0) x \
        reduced/unreduced x graded/bigraded; D∘D = 0 on every generator of the library's complex; homology dimensions compared with the Lean cone-of-(1+τ) reference; symmetric builder without τ vs ordinary Kh (library and Lean cube); \
        ssi over F2[H] (c = H): invariant under crossing reordering, s0 <= s1, s0 = s1 mod 2, mirror negates and swaps; \
        involution data: InvLink::new / sinv_knot_from_code / inv_e / inv_x / mirror on every table entry, mirrors, reordered copies, hand-written boundary cases (equal crossings, overwritten map entries, off-axis base points) \
        and malformed codes (odd edge count, labels not from 1, gaps, swapped labels, duplicated/dropped/rotated crossings) compared with the Lean code model (accept/panic and all map entries); non-trivial = every case; distinct = distinct request lines/descriptions");
    let mut r = Rng::new(args.seed);
    let (cone_max, ssi_max) = if thorough { (9, 9) } else { (7, 7) };
    let mut names: Vec<&str> = NAMES.to_vec();
    if !thorough { let mut rest: Vec<&str> = names.split_off(3); r.shuffle(&mut rest); rest.truncate(12); names.extend(rest); }

    // corner cases from the repository's own tests: kinked unknots with the identity involution
    for (nm, pd) in [("unknot-kink+", [[0usize, 0, 1, 1]]), ("unknot-kink-", [[0, 1, 1, 0]])] {
        let l = InvLink::new(Link::from_pd_code(pd), |e| e, Some(0));
        guarded_case(&mut s, nm, |s| { for h in [0u8, 1] { khi_case(s, nm, &l, h, 0, false, h == 0, true); khi_case(s, nm, &l, h, 0, true, false, true); } });
        if let (Some(a), Some(b)) = (ssi_all(&l, false), ssi_all(&l, true)) { s.oracle(a.0 <= a.1 && (a.1 - a.0) % 2 == 0 && a == b, "ssi of a kinked unknot: s0 <= s1, same parity, reduced = unreduced", nm, &format!("{:?} {:?}", a, b)); }
    }

    for name in names {
        let Ok(l) = InvLink::load(name) else { continue };
        let n = l.link().crossing_num();
        let variants: Vec<(String, InvLink)> = {
            let mut v = vec![(name.to_string(), l.clone()), (format!("{}-mirror", name), l.mirror())];
            if let Some(x) = guard(|| reordered(&mut r.fork(), &l)) { v.push((format!("{}-reordered", name), x)); }
            v
        };
        for (vn, il) in &variants {
            if n <= cone_max {
                for (h, t) in [(0u8, 0u8), (1, 0), (0, 1), (1, 1)] {
                    for red in [false, true] {
                        if red && t != 0 { continue }
                        if !thorough && !r.chance(2, 3) { continue }
                        let bigr = h == 0 && t == 0 && r.bool();
                        guarded_case(&mut s, vn, |s| khi_case(s, vn, il, h, t, red, bigr, true));
                    }
                }
                for h in [0u8, 1] { for red in [false, true] { guarded_case(&mut s, vn, |s| kh_without_tau(s, vn, il, h, red, true)); } }
                { let h = r.below(2) as u8; let red = r.bool(); guarded_case(&mut s, vn, |s| builder_routes(s, &mut r, vn, il, h, red)); }
            }
        }
        // ssi
        if n <= ssi_max {
            let base = ssi_all(&l, false);
            let Some(p) = base else { s.oracle(false, "ssi_invariants terminates without panic on a strongly invertible knot diagram", name, "panic/timeout"); continue };
            s.oracle(p.0 <= p.1, "s0 <= s1", name, &format!("{:?}", p));
            s.oracle((p.1 - p.0).rem_euclid(2) == 0, "s0 = s1 mod 2", name, &format!("{:?}", p));
            let (w, rr) = (l.link().writhe(), l.link().seifert_circles().len() as i32);
            let (d0, d1) = ((p.0 - w + rr - 1) / 2, (p.1 - w + rr - 1) / 2);
            s.case(&format!("ssi {} {} {} {}", d0, d1, w, rr), &format!("{} {}", p.0, p.1), true);
            if let Some(pr) = ssi_all(&l, true) { s.oracle(pr == p, "ssi is the same for the reduced and unreduced theories", name, &format!("{:?} vs {:?}", p, pr)); }
            for (vn, il) in &variants {
                // both theories: the reduced one picks its base point / colouring from the code, so it is the one that notices listings
                for red in [false, true] {
                    let vr = format!("{} reduced={}", vn, red as u8);
                    if vn.ends_with("-reordered") {
                        match ssi_all(il, red) { Some(q) => s.oracle(q == p, "ssi does not depend on the order in which crossings are listed", &vr, &format!("{:?} vs {:?}", p, q)), None => s.oracle(false, "ssi_invariants terminates without panic", &vr, "panic/timeout") }
                    }
                    if vn.ends_with("-mirror") {
                        match ssi_all(il, red) { Some(q) => s.oracle(q == (-p.1, -p.0), "mirroring negates and swaps (s0, s1)", &vr, &format!("{:?} vs mirror {:?}", p, q)), None => s.oracle(false, "ssi_invariants terminates without panic", &vr, "panic/timeout") }
                    }
                }
            }
            s.count(&format!("ssi.{},{}", p.0, p.1));
        }
    }
    // many listings of the same diagram: the symmetric builder chooses its half-diagram from the order in which crossings are listed;
    // every listing must be accepted and give the same involutive homology (library against library; the cone reference is
    // compared on the variants above)
    {
        let mut ks: Vec<&str> = NAMES.iter().cloned().filter(|n| InvLink::load(n).map(|l| l.link().crossing_num() >= 5 && l.link().crossing_num() <= ssi_max).unwrap_or(false)).collect();
        r.shuffle(&mut ks);
        // prefer the diagrams with most crossings (more off-axis crossings to cluster)
        ks.sort_by_key(|n| std::cmp::Reverse(InvLink::load(n).map(|l| l.link().crossing_num()).unwrap_or(0)));
        ks.truncate(if thorough { 24 } else { 14 });
        for name in ks {
            let Ok(l) = InvLink::load(name) else { continue };
            let table = |il: &InvLink| -> Option<String> {
                let il = il.clone();
                guard_timeout(120, move || { let kh = KhIHomology::<FF2>::new(&il, &FF2::from(1i64), &FF2::from(0i64), false); kh.support().map(|i| format!("{}:{}", i, kh.get(i).rank())).collect::<Vec<_>>().join(" ") }).flatten()
            };
            let Some(base) = table(&l) else { s.oracle(false, "the involutive homology of a table diagram is computed without panic", name, "panic/timeout"); continue };
            for j in 0..(if thorough { 40 } else { 12 }) {
                let Some(x) = guard(|| reordered(&mut r.fork(), &l)) else { s.oracle(false, "a table code with its crossings listed in another order is accepted", name, "panic"); continue };
                let vn = format!("{} listing#{} {}", name, j, link_txt(x.link()));
                match table(&x) {
                    Some(t) => s.oracle(t == base, "the involutive homology does not depend on the order in which crossings are listed", &vn, &format!("{} vs {}", base, t)),
                    None => s.oracle(false, "the involutive complex of a strongly invertible diagram is built without panic for every listing of its crossings", &vn, "panic/timeout"),
                }
                s.count("relisting");
            }
            s.eval_only(&format!("relistings of {}", name), true);
        }
    }
    // bigraded involutive homology over F2[H] (h = H): the cone reference is over F2 only, so this is library against library —
    // the bigraded table (rank and torsion per bidegree) is determined by the diagram, hence identical for repeated builds (the
    // engine's pivot order and therefore the representing cycles vary from build to build) and for relisted crossings
    {
        let mut ks: Vec<&str> = NAMES.iter().cloned().filter(|n| InvLink::load(n).map(|l| { let c = l.link().crossing_num(); c >= 4 && c <= 6 }).unwrap_or(false)).collect();
        r.shuffle(&mut ks);
        ks.truncate(if thorough { 12 } else { 5 });
        type P = Poly<'H', FF2>;
        for name in ks {
            let Ok(l) = InvLink::load(name) else { continue };
            for red in [false, true] {
                let table = |il: &InvLink| -> Option<String> {
                    let il = il.clone();
                    guard_timeout(120, move || {
                        let kh = KhIHomology::<P>::new(&il, &P::variable(), &P::zero(), red).into_bigraded();
                        let mut cells: Vec<String> = kh.iter().filter(|(_, sm)| sm.rank() > 0 || !sm.tors().is_empty()).map(|(idx, sm)| format!("({},{}):{}:{}", idx.0, idx.1, sm.rank(), sm.tors().len())).collect();
                        cells.sort();
                        cells.join(" ")
                    }).flatten()
                };
                let desc = format!("{} reduced={} h=H over F2[H], bigraded", name, red as u8);
                let Some(base) = table(&l) else { s.oracle(false, "the bigraded involutive homology over F2[H] is computed without panic", &desc, "panic/timeout"); continue };
                for k in 0..3 {
                    let il = if k == 2 { guard(|| reordered(&mut r.fork(), &l)).unwrap_or(l.clone()) } else { l.clone() };
                    match table(&il) {
                        Some(t) => s.oracle(t == base, "the bigraded involutive homology over F2[H] is determined by the diagram (same table for repeated builds and relisted crossings)", &format!("{} build#{}", desc, k + 1), &format!("{} vs {}", base, t)),
                        None => s.oracle(false, "the bigraded involutive homology over F2[H] is computed without panic", &desc, "panic/timeout"),
                    }
                }
                s.count("bigraded-F2H");
            }
            s.eval_only(&format!("bigraded KhI over F2[H] {}", name), true);
        }
    }
    // user codes with the symmetric numbering whose two invariants DIFFER (every table entry has s0 = s1, which hides any
    // confusion between the two classes): 9_46 from the repository's own test; each theory on its own terms
    for (nm, code) in [("9_46-user-code", vec![[18usize,8,1,7],[13,6,14,7],[12,2,13,1],[8,18,9,17],[5,14,6,15],[2,12,3,11],[16,10,17,9],[15,4,16,5],[10,4,11,3]])] {
        let Some(l) = guard(|| InvLink::sinv_knot_from_code(code.clone())) else { s.oracle(false, "sinv_knot_from_code accepts a symmetric code", nm, "panic"); continue };
        let m = l.mirror();
        let ro = guard(|| reordered(&mut r.fork(), &l));
        for red in [false, true] {
            let tag = format!("{} reduced={}", nm, red);
            let Some(p) = ssi_all(&l, red) else { s.oracle(false, "ssi_invariants terminates without panic on a strongly invertible knot diagram", &tag, "panic/timeout"); continue };
            s.oracle(p.0 <= p.1, "s0 <= s1", &tag, &format!("{:?}", p));
            s.oracle((p.1 - p.0).rem_euclid(2) == 0, "s0 = s1 mod 2", &tag, &format!("{:?}", p));
            match ssi_all(&m, red) { Some(q) => s.oracle(q == (-p.1, -p.0), "mirroring negates and swaps (s0, s1)", &tag, &format!("{:?} vs mirror {:?}", p, q)), None => s.oracle(false, "ssi_invariants terminates without panic", &tag, "panic/timeout") }
            if let Some(x) = &ro { match ssi_all(x, red) { Some(q) => s.oracle(q == p, "ssi does not depend on the order in which crossings are listed", &tag, &format!("{:?} vs {:?}", p, q)), None => s.oracle(false, "ssi_invariants terminates without panic", &tag, "panic/timeout") } }
            let (w, rr) = (l.link().writhe(), l.link().seifert_circles().len() as i32);
            let (d0, d1) = ((p.0 - w + rr - 1) / 2, (p.1 - w + rr - 1) / 2);
            s.case(&format!("ssi {} {} {} {}", d0, d1, w, rr), &format!("{} {}", p.0, p.1), true);
            s.count(&format!("ssi.user.{},{}", p.0, p.1));
        }
    }
    // involution data (inv_e / inv_x / mirror / sinv_knot_from_code) against the code model Model/C19Inv.lean
    inv_stream(&mut s, &mut r, thorough, cone_max);
    s.finish();
}
