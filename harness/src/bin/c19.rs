//! C19 — involutive Khovanov complex: D∘D = 0, homology vs. the Lean cone-of-(1+τ) reference, the symmetric builder
//! without the involutive part vs. ordinary Kh, and the pair of involutive s-type invariants.
use num_bigint::BigInt;
use num_traits::Zero;
use yui::poly::Poly;
use yui::FF2;
use yui_homology::{ChainComplexTrait, GridTrait, SummandTrait};
use yui_kh::kh::KhHomology;
use yui_kh::khi::internal::v2::builder::SymTngBuilder;
use yui_kh::khi::{ssi_invariants, KhIChain, KhIComplex, KhIHomology};
use yui_link::{InvLink, Link};
use yv::links::*;
use yv::*;

const NAMES: &[&str] = &["3_1", "4_1", "5_1", "5_2a", "5_2b", "6_1a", "6_1b", "6_2a", "6_2b", "6_3", "7_1", "7_2a", "7_2b", "7_3a", "7_3b", "7_4a", "7_4b", "7_5a", "7_5b", "7_6a", "7_6b", "7_7a", "7_7b"];

fn emap_txt(l: &InvLink) -> String {
    let mut es: Vec<usize> = l.link().edges().into_iter().collect();
    es.sort();
    es.iter().map(|&e| format!("{}:{}", e, l.inv_e(e))).collect::<Vec<_>>().join(" ")
}

/// rebuild an involutive link with its crossings listed in another order
fn reordered(r: &mut Rng, l: &InvLink) -> InvLink {
    let pd = reorder(r, &pd_of(l.link()));
    let n = l.link().edges().len();
    let _ = n;
    InvLink::sinv_knot_from_code(pd)
}

fn khi_case(s: &mut Sink, name: &str, l: &InvLink, h: u8, t: u8, red: bool, bigr: bool, with_model: bool) {
    let desc = format!("{} h={} t={} reduced={} [{}]", link_txt(l.link()), h, t, red as u8, name);
    let (hh, tt) = (FF2::from(h as i64), FF2::from(t as i64));
    let c = KhIComplex::<FF2>::new(l, &hh, &tt, red);
    // D∘D = 0 on every generator
    let mut ok = true;
    for i in c.support() {
        for x in c[i].raw_gens().iter() {
            let z = KhIChain::<FF2>::from(*x);
            let dz = c.d(i, &z);
            let ddz = c.d(i + 1, &dz);
            if !ddz.is_zero() { ok = false; }
            if dz.gens().any(|y| y.h_deg() != x.h_deg() + 1) { ok = false; }
        }
    }
    s.oracle(ok, "the involutive complex is a chain complex (D∘D = 0, D raises the homological degree by one)", &desc, "");
    let kh = KhIHomology::<FF2>::from(&c);
    let cells: Vec<((isize, Option<isize>), String)> = if bigr {
        let g = kh.clone().into_bigraded();
        g.iter().map(|(idx, sm)| ((idx.0, Some(idx.1)), sm.rank().to_string())).filter(|(_, d)| d != "0").collect()
    } else {
        kh.support().map(|i| ((i, None), kh.get(i).rank().to_string())).filter(|(_, d)| d != "0").collect()
    };
    let mut cs = cells; cs.sort_by_key(|(k, _)| (k.0, k.1.unwrap_or(0)));
    let tbl = if cs.is_empty() { "empty".to_string() } else { cs.iter().map(|((i, j), d)| match j { Some(j) => format!("{},{}:{}", i, j, d), None => format!("{}:{}", i, d) }).collect::<Vec<_>>().join(" ") };
    s.count(&format!("crossings.{}", l.link().crossing_num()));
    if with_model {
        let base = l.base_pt().map(|b| b.to_string()).unwrap_or("_".into());
        let req = format!("khi {} {} {} {} {} {} {}", h, t, red as u8, bigr as u8, base, link_txt(l.link()), emap_txt(l));
        s.case(&req, &format!("signs={} {}", signs_txt(l.link()), tbl), true);
    } else { s.eval_only(&desc, true); }
}

/// the same complex through the builder's public switches (deferred delooping / deferred elimination / no preprocessing):
/// whatever the route, the homology must be that of the default route (and of the Lean cone reference)
fn builder_routes(s: &mut Sink, r: &mut Rng, name: &str, l: &InvLink, h: u8, red: bool) {
    let (hh, tt) = (FF2::from(h as i64), FF2::zero());
    let table = |c: &KhIComplex<FF2>| -> Vec<(isize, usize)> { let kh = KhIHomology::<FF2>::from(c); kh.support().map(|i| (i, kh.get(i).rank())).filter(|x| x.1 > 0).collect() };
    let l0 = l.clone();
    let Some(Some(base)) = guard_timeout(120, move || table(&KhIComplex::<FF2>::new(&l0, &hh, &tt, red))) else { return };
    for _ in 0..2 {
        let (ad, ae, pre) = match r.below(4) { 0 => (false, true, true), 1 => (true, false, true), 2 => (false, false, true), _ => (true, true, false) };
        let desc = format!("{} h={} reduced={} [{}] auto_deloop={} auto_elim={} preprocess={}", link_txt(l.link()), h, red as u8, name, ad, ae, pre);
        let l1 = l.clone();
        let got = guard_timeout(120, move || {
            let mut b = SymTngBuilder::<FF2>::new(&l1, &hh, &tt, red);
            b.auto_deloop = ad; b.auto_elim = ae;
            if pre { b.preprocess(); }
            b.process_all();
            b.finalize();
            let c = b.into_khi_complex();
            let mut ok = true;
            for i in c.support() { for x in c[i].raw_gens().iter() { let z = KhIChain::<FF2>::from(*x); if !c.d(i + 1, &c.d(i, &z)).is_zero() { ok = false; } } }
            (ok, table(&c))
        });
        match got {
            Some(Some((dd, t))) => {
                s.oracle(dd, "the involutive complex built through the builder's public switches is a chain complex (D∘D = 0)", &desc, "");
                s.oracle(t == base, "the involutive homology does not depend on the builder route (deferred delooping / elimination / preprocessing)", &desc, &format!("{:?} vs default {:?}", t, base));
            }
            _ => s.oracle(false, "the symmetric builder's public route terminates without panic on a loadable diagram", &desc, "panic/timeout"),
        }
        s.eval_only(&desc, true);
        s.count("builder-route");
    }
}

fn kh_without_tau(s: &mut Sink, name: &str, l: &InvLink, h: u8, red: bool, with_model: bool) {
    let desc = format!("{} h={} reduced={} [{}]", link_txt(l.link()), h, red as u8, name);
    let (hh, tt) = (FF2::from(h as i64), FF2::zero());
    let c = SymTngBuilder::<FF2>::build_kh_complex(l, &hh, &tt, red);
    let a = KhHomology::from(&c);
    let b = KhHomology::<FF2>::new(l.link(), &hh, &tt, red);
    let ta: Vec<(isize, usize)> = a.support().map(|i| (i, a.get(i).rank())).filter(|x| x.1 > 0).collect();
    let tb: Vec<(isize, usize)> = b.support().map(|i| (i, b.get(i).rank())).filter(|x| x.1 > 0).collect();
    s.oracle(ta == tb, "the symmetric construction without the involutive part returns the ordinary Khovanov homology", &desc, &format!("{:?} vs {:?}", ta, tb));
    if with_model {
        let cells = ta.iter().map(|(i, r)| ((*i, None), group_txt(*r, Vec::<BigInt>::new()))).collect();
        s.case(&format!("kh F2 {} 0 {} 0 {}", h, red as u8, link_txt(l.link())), &format!("signs={} {}", signs_txt(l.link()), table_txt(cells)), true);
    }
}

fn ssi_all(l: &InvLink, red: bool) -> Option<(i32, i32)> {
    let l = l.clone();
    type P = Poly<'H', FF2>;
    guard_timeout(240, move || ssi_invariants::<P>(&l, &P::variable(), red)).flatten()
}

fn main() {
    let args = Args::parse();
    quiet_panics();
    let thorough = args.thorough();
    let mut s = Sink::new(&args, "cases: strongly invertible knot diagrams from InvLink::load's table (and the same codes with crossings listed in random orders, and mirrors) x (h,t) in F2^2 (reduced only with t=0) x \
        reduced/unreduced x graded/bigraded; D∘D = 0 on every generator of the library's complex; homology dimensions compared with the Lean cone-of-(1+τ) reference; symmetric builder without τ vs ordinary Kh (library and Lean cube); \
        ssi over F2[H] (c = H): invariant under crossing reordering, s0 <= s1, s0 = s1 mod 2, mirror negates and swaps; non-trivial = every case; distinct = distinct request lines/descriptions");
    let mut r = Rng::new(args.seed);
    let (cone_max, ssi_max) = if thorough { (9, 9) } else { (7, 7) };
    let mut names: Vec<&str> = NAMES.to_vec();
    if !thorough { let mut rest: Vec<&str> = names.split_off(3); r.shuffle(&mut rest); rest.truncate(12); names.extend(rest); }

    // corner cases from the repository's own tests: kinked unknots with the identity involution
    for (nm, pd) in [("unknot-kink+", [[0usize, 0, 1, 1]]), ("unknot-kink-", [[0, 1, 1, 0]])] {
        let l = InvLink::new(Link::from_pd_code(pd), |e| e, Some(0));
        guarded_case(&mut s, nm, |s| { for h in [0u8, 1] { khi_case(s, nm, &l, h, 0, false, h == 0, true); khi_case(s, nm, &l, h, 0, true, false, true); } });
        if let (Some(a), Some(b)) = (ssi_all(&l, false), ssi_all(&l, true)) { s.oracle(a.0 <= a.1 && (a.1 - a.0) % 2 == 0 && a == b, "ssi of a kinked unknot: s0 <= s1, same parity, reduced = unreduced", nm, &format!("{:?} {:?}", a, b)); }
    }

    for name in names {
        let Ok(l) = InvLink::load(name) else { continue };
        let n = l.link().crossing_num();
        let variants: Vec<(String, InvLink)> = {
            let mut v = vec![(name.to_string(), l.clone()), (format!("{}-mirror", name), l.mirror())];
            if let Some(x) = guard(|| reordered(&mut r.fork(), &l)) { v.push((format!("{}-reordered", name), x)); }
            v
        };
        for (vn, il) in &variants {
            if n <= cone_max {
                for (h, t) in [(0u8, 0u8), (1, 0), (0, 1), (1, 1)] {
                    for red in [false, true] {
                        if red && t != 0 { continue }
                        if !thorough && !r.chance(2, 3) { continue }
                        let bigr = h == 0 && t == 0 && r.bool();
                        guarded_case(&mut s, vn, |s| khi_case(s, vn, il, h, t, red, bigr, true));
                    }
                }
                for h in [0u8, 1] { for red in [false, true] { guarded_case(&mut s, vn, |s| kh_without_tau(s, vn, il, h, red, true)); } }
                { let h = r.below(2) as u8; let red = r.bool(); guarded_case(&mut s, vn, |s| builder_routes(s, &mut r, vn, il, h, red)); }
            }
        }
        // ssi
        if n <= ssi_max {
            let base = ssi_all(&l, false);
            let Some(p) = base else { s.oracle(false, "ssi_invariants terminates without panic on a strongly invertible knot diagram", name, "panic/timeout"); continue };
            s.oracle(p.0 <= p.1, "s0 <= s1", name, &format!("{:?}", p));
            s.oracle((p.1 - p.0).rem_euclid(2) == 0, "s0 = s1 mod 2", name, &format!("{:?}", p));
            let (w, rr) = (l.link().writhe(), l.link().seifert_circles().len() as i32);
            let (d0, d1) = ((p.0 - w + rr - 1) / 2, (p.1 - w + rr - 1) / 2);
            s.case(&format!("ssi {} {} {} {}", d0, d1, w, rr), &format!("{} {}", p.0, p.1), true);
            if let Some(pr) = ssi_all(&l, true) { s.oracle(pr == p, "ssi is the same for the reduced and unreduced theories", name, &format!("{:?} vs {:?}", p, pr)); }
            for (vn, il) in &variants {
                if vn.ends_with("-reordered") {
                    match ssi_all(il, r.bool()) { Some(q) => s.oracle(q == p, "ssi does not depend on the order in which crossings are listed", vn, &format!("{:?} vs {:?}", p, q)), None => s.oracle(false, "ssi_invariants terminates without panic", vn, "panic/timeout") }
                }
                if vn.ends_with("-mirror") {
                    match ssi_all(il, false) { Some(q) => s.oracle(q == (-p.1, -p.0), "mirroring negates and swaps (s0, s1)", vn, &format!("{:?} vs mirror {:?}", p, q)), None => s.oracle(false, "ssi_invariants terminates without panic", vn, "panic/timeout") }
                }
            }
            s.count(&format!("ssi.{},{}", p.0, p.1));
        }
    }
    s.finish();
}
